"""Validates every archived seeded change and records which checks catch it.

For each seeded/<name>/ (patch.diff + demo_*.py):
  1. tools/validate_seeded.sh: patch applies to /repo HEAD in a scratch worktree, the demonstration fails with it and passes without it,
     the repository's own test suite still passes with it;
  2. tools/apply_seeded.sh: the listed checks are run against a scratch copy with the patch applied (quick tier);
writes seeded/<name>/meta.json.  Usage: tools/seeded_matrix.py [name ...] [--jobs N] [--no-tests]
"""
import concurrent.futures
import json
import os
import re
import subprocess
import sys

V = os.path.dirname(os.path.dirname(os.path.abspath(__file__)))

NEEDS = {
    'C01-agent': ('C01', 'Grid.integrate scales the *cached* quadrature weights in place: needs radius != 1 and a second use of the grid (a second integrate, or a transform after an integrate)', ['C01']),
    'C02-agent': ('C02', 'recurrence weight b zeroed from column `longitude_wavenumbers` on instead of the last column: identical on triangular grids, wrong when total_wavenumbers > longitude_wavenumbers + 1 (zonally truncated grids) or on padded layouts', ['C02', 'C09']),
    'C03-agent': ('C03', 'cumulative-sum temperature implicit term skips the downward part unless *all* down weights are non-zero: needs method sparse/blockwise and a reference temperature that is constant over part of the column (e.g. isothermal top)', ['C03', 'C04']),
    'C04-agent': ('C04', 'downward weights divided by the first instead of the last layer thickness: needs unevenly spaced sigma levels, a non-constant reference temperature and the cumulative-sum (sparse) vertical products', ['C04', 'C03']),
    'C05-agent': ('C05', 'division by the layer thickness moved inside the shifted sum of the omega/p formula: identical on equidistant levels, wrong on uneven levels when the flow is divergent (omega != 0); balanced test states have omega = 0', ['C05', 'C04']),
    'C06-agent': ('C06', 'semi-implicit leapfrog weights alpha and 1 - alpha swapped: invisible for the default alpha = 0.5, wrong (first-order inconsistent / unstable weighting) for off-centred alpha', ['C06']),
    'C07-agent': ('C07', 'vertical padding inserted before level 0 instead of after the last level: needs a sharded mesh with z > 1 and a level count not divisible by z', ['C07']),
    'C08-agent': ('C08', 'kinetic energy via jnp.linalg.norm(...)**2: primal identical, derivative NaN wherever the wind vanishes (rest state, isolated calm points)', ['C08']),
    'C09-agent': ('C09', 'clip_wavenumbers uses the nodal instead of the modal padding: identical on unpadded layouts, wrong on padded fast layouts where the two paddings differ', ['C09', 'C07', 'C02']),
    'C10-agent': ('C10', 'moist vorticity correction uses the wrong component of grad q: needs non-zero humidity gradients together with surface-pressure gradients (moist equations only); breaks mirror/rotation equivariance', ['C10', 'C05', 'C09']),
    'C11-agent': ('C11', 'exponential filter damps |k - cutoff| also below the cutoff: invisible for the default cutoff 0, for cutoff > 0 the global mean (l = 0) and low wavenumbers are attenuated every step', ['C11', 'C15']),
    'C12-agent': ('C12', 'ideal gas constant argument dropped in the moist geopotential correction (falls back to the DEFAULT_SCALE module constant): invisible under the default scale, wrong under any other scale', ['C12']),
    'C13-agent': ('C13', 'center_to_center computed from boundaries instead of centres: identical on equidistant levels, wrong on uneven levels (centred differences, vertical advection)', ['C13', 'C05']),
    'C14-agent': ('C14', 'digital filter initialisation no longer applies the filters to the backward (time-reversed) steps: needs a non-empty filter list', ['C14']),
    'C15-agent': ('C15', 'diffusion step filter scale (dt / (tau * lambda_max)) ** order instead of dt / (tau * lambda_max ** order): identical for order 1, wrong time scale for order > 1 (and no longer multiplicative in dt)', ['C15']),
    'C16-agent': ('C16', 'vertical conservative weights normalised by the target thickness instead of the row sum: identical where a target layer is fully covered by source layers, wrong for partially covered target layers (constants no longer reproduced)', ['C16']),
    'C17-agent': ('C17', 'right extrapolation node uses the first instead of the last node spacing: needs unevenly spaced nodes and a query beyond the right end', ['C17']),
    'C18-agent': ('C18', 'reference orbital phase added after the reduction to [0, 2pi): result >= 2pi whenever reference phase + reduced elapsed phase wraps', ['C18', 'C20']),
    'C19-agent': ('C19', 'flatten_dict recursion drops the custom separator: needs a non-default separator and at least three nesting levels', ['C19']),
    'C05-agent2': ('C05', 'moist kappa*T*omega/p term regrouped so that the humidity part of the reference-temperature contribution is paired with the non-divergent part of omega only: needs the moist equations with non-zero humidity AND a divergent flow; all balanced families (omega = 0) and q = 0 are unaffected', ['C05', 'C04']),
    'C07-agent2': ('C07', 'per-shard frequency offset of the sharded longitude derivative computed from the y instead of the x mesh size: needs a mesh with x > 1 and x != y AND a grid whose resolved zonal wavenumbers extend beyond the first x-shard', ['C07']),
    'C08-agent2': ('C08', 'stop_gradient on the scanned inputs inside the checkpointed inner scan: primal values and gradients w.r.t. the initial carry unchanged; gradients w.r.t. scanned inputs xs are zero whenever len(nested_lengths) >= 2 (still finite and self-adjoint)', ['C08', 'C14']),
    'C12-agent2': ('C12', 'implicit-solve matrix built with unit-sphere Laplacian eigenvalues -l(l+1) instead of the grid eigenvalues -l(l+1)/radius^2: invisible whenever the non-dimensional radius is 1 (default and atmospheric scales, any scale changing only time/mass/temperature) and in every single tendency; needs a length scale != RADIUS and a semi-implicit solve or step', ['C12', 'C03']),
    'C01-agent2': ('C01', "order='F' dropped from the reshape that splits the Fourier matrix for stacked transforms: only FastSphericalHarmonics with stacked_fourier_transforms=True (non-default below 129 wavenumbers) pairs Legendre blocks with the wrong Fourier columns; Real and unstacked Fast are untouched", ['C01', 'C09']),
    'C13-agent2': ('C13', 'monotonicity check rewritten as `np.any(np.diff(b) <= 0)`: equivalent for finite values, but a NaN interior boundary is now accepted (comparisons with NaN are False)', ['C13']),
    'C18-agent2': ('C18', 'Scale.dimensionalize converts the scaling factor to the target unit first and multiplies magnitudes: correct for multiplicative units, wrong for offset temperature units (degC, degF), where the conversion is affine', ['C18']),
    'C20-agent2': ('C20', 'boundary-layer ramp factored into a helper with default sigma_b=0.7; kv() calls it without the configured sigma_b: identical for the default, wrong friction profile for any other sigma_b', ['C20']),
    'C02-agent4': ('C02', 'get_cos_lat_vector drops clip=clip on the velocity-potential (divergent) gradient: needs the non-default clip=False (the path primitive_equations uses) AND divergence with energy at l = L-2, whose cos-lat gradient legitimately reaches l = L-1', ['C02']),
    'C03-agent4': ('C03', 'get_temperature_implicit_weights scales H by the row thickness instead of the column thickness: identical on equidistant levels and for the dense product with the split/stacked solve; needs unevenly spaced sigma levels AND the sparse (cumulative-sum) product or the blockwise solve', ['C03']),
    'C06-agent4': ('C06', 'coefficient-length guard rewritten as a chained `!=`: raises only when both length relations are violated at once; needs a user-supplied coefficient set with exactly one inconsistent length (an extra gamma, or the RK4 alphas with the RK3 betas)', ['C06']),
    'C10-agent4': ('C10', 'moist curl_and_div_tendencies refactored to add the virtual-temperature pressure-gradient correction with the (-v, u) rotation applied to it: needs the moist equations, non-zero humidity, non-zero temperature variation AND non-uniform surface pressure; breaks mirror equivariance only (rotation intact)', ['C10']),
    'C11-agent4': ('C11', 'shallow-water orography term hoisted out of clip_wavenumbers: needs a shallow-water model over an orography with energy at the top total wavenumber (grid.to_modal of a nodal mountain); flat or truncated orography unaffected', ['C11']),
    'C15-agent4': ('C15', 'leapfrog_step_filter takes the middle time level from u instead of u_next: identical when the adapter runs first (u_next[0] is u[1]); needs an earlier filter that modifies the middle level (Robert-Asselin before the exponential filter) or a direct call with independent u, u_next', ['C15']),
    'C01-agent5': ('C01', 'quadrature weights memoised by node count only: equiangular and equiangular_with_poles grids with the same latitude_nodes built in one process share one weight vector; needs both spacings with equal node counts in the same process (Gauss grids and a single flavour unaffected)', ['C01']),
    'C04-agent5': ('C04', 'moist reference-temperature term of the adiabatic tendency evaluated with u.grad(ln ps) only instead of the full divergence: needs the moist class, non-zero humidity AND non-zero divergence (q = 0, non-divergent flow, dry / time classes unaffected)', ['C04']),
    'C05-agent5': ('C05', 'get_density_ratios transposed (made to match its own, wrong, docstring): one-layer runs unaffected and library-built multi-layer balanced states stay steady because the constructor uses the same helper; needs >= 2 layers of distinct densities AND an oracle independent of that helper', ['C05']),
    'C07-agent5': ('C07', 'fast modal_axes keeps counting total wavenumbers into the padding instead of zero-filling it: needs a layout padded along l (y-sharded mesh or base_shape_multiple not dividing L) AND a consumer normalising by the largest wavenumber / eigenvalue (exponential / diffusion filters)', ['C07', 'C01']),
    'C09-agent5': ('C09', 'same site as C07-agent5 (padded tail of the total-wavenumber axis not zero): Grid operations agree on resolved entries; needs non-default base_shape_multiple (or a mesh) with L not a multiple AND a filter that reads the whole wavenumber axis', ['C09', 'C01']),
    'C13-agent5': ('C13', 'upward cumulative sigma integral computed by flipping x but not the layer thicknesses: needs downward=False (non-default) AND layer thicknesses that are not mirror-symmetric', ['C13']),
    'C03-agent6': ('C03', 'TimeReversedImExODE.implicit_inverse forwards the step size with the wrong sign: unwrapped equations unaffected; needs an equation with non-trivial implicit terms wrapped in TimeReversedImExODE (the backward leg of digital filter initialisation)', ['C03']),
    'C08-agent6': ('C08', 'upwind_vertical_advection uses jax.nn.relu instead of maximum / minimum: primal identical, derivative at a tie is 0 instead of 1/2; needs the non-default upwind scheme AND a base state with sigma_dot exactly zero (rest / non-divergent over uniform ps)', ['C08']),
    'C10-agent6': ('C10', 'shallow-water stacked transform un-flattened layer-major after a field-major concatenation: identical for one layer; needs >= 2 layers; breaks mirror (not rotation) equivariance', ['C10']),
    'C11-agent6': ('C11', 'moist divergence_tendency_due_to_humidity takes cos_lat_grad(q) with the default clip=True: the humidity term stops being an exact discrete divergence, the global mean of divergence drifts; needs the moist class, non-uniform surface pressure AND humidity with energy at the highest retained wavenumber', ['C11']),
    'C12-agent6': ('C12', 'shallow-water coriolis_parameter returns the bare sin(lat) helper (hard-codes 2 Omega = 1): needs the shallow-water equations, a non-zero flow AND a scale whose time unit differs from 1 / (2 Omega)', ['C12']),
    'C20-agent6': ('C20', 'Held-Suarez explicit_terms calls get_cos_lat_vector with its default clip=True instead of going through compute_diagnostic_state (clip=False): needs a state with energy in the highest retained total wavenumber', ['C20']),
    'C14-agent3': ('C14', 'trajectory_from_step returns the raw carry instead of post_process_fn(carry) as the frame when start_with_input=True: invisible with the default start_with_input=False and whenever post_process_fn is the identity; needs start_with_input=True AND a non-identity post_process_fn', ['C14']),
    'C16-agent3': ('C16', 'periodic longitude cell bounds computed from roll(x, -+1) with the period added only at the array end instead of aligning each neighbour to its point: identical when the longitudes are increasing after `% period`; needs a grid whose longitude_offset is negative or exceeds one cell width (0 / 2 pi seam inside the array)', ['C16']),
    'C17-agent3': ('C17', '_dot_interp (matrix / accelerator path of interp) loses the clip of the searchsorted index: needs that path to be executed (TPU dispatch or a direct call; CPU tests never run it) AND a query exactly equal to the last source node, where all weights become zero and the result is 0 instead of fp[-1]', ['C17']),
    'C19-agent3': ('C19', 'unflatten_dict tests `sub_key in result` (root) instead of `sub_key in sub_dict`: below the first level an existing sub-dictionary is replaced by a fresh one; needs a sub-dictionary >= 2 levels below the root holding more than one entry (or a deep key equal to a top-level key -> KeyError)', ['C19']),
    'C20-agent': ('C20', 'Held-Suarez kt computed as kv()/kf: identical unless kf == 0 (no friction), where it becomes NaN', ['C20']),
}


def run(cmd, timeout=7200):
  p = subprocess.run(cmd, shell=True, capture_output=True, text=True, timeout=timeout)
  return p.returncode, p.stdout + p.stderr


def one(name, notests):
  prop, needs, checks = NEEDS.get(name, (name[:3], '(not described)', [name[:3]]))
  rc, out = run(f'{V}/tools/validate_seeded.sh {name} {"--no-tests" if notests else ""}')
  try:
    val = json.loads(out.strip().splitlines()[-1])
  except Exception:  # pylint: disable=broad-except
    val = {'error': out[-500:]}
  detected = {}
  for c in checks:
    scratch = f'/var/tmp/dv-mx-{name}-{c}'
    cmd = (f'rm -rf {scratch}; mkdir -p {scratch}/dinosaur && cp -r /repo/dinosaur/*.py {scratch}/dinosaur/ && cp -r /repo/dinosaur/data {scratch}/dinosaur/ 2>/dev/null; '
           f'cd {scratch} && patch -p1 -s < {V}/seeded/{name}/patch.diff && cd {V} && DINOSAUR_REPO={scratch} VERIF_EVIDENCE_DIR={scratch}/evidence ./check {c} --tier quick 2>&1; '
           f'echo exit=$?; rm -rf {scratch}')
    rc2, out2 = run(cmd)
    viol = [l for l in out2.splitlines() if l.startswith('VIOLATION')]
    failed = sorted({re.sub(r'\s+', ' ', l.split('failed obligation:')[1].split(' :: ')[0].strip()) for l in out2.splitlines() if 'failed obligation:' in l})
    status = 'exit=' + (out2.strip().splitlines()[-1].split('exit=')[-1] if 'exit=' in out2 else '?')
    detected[c] = {'violations': len(viol), 'exit': status, 'clauses': failed[:8],
                   'replayed_on_real_code': sum(1 for l in viol if 'no-failing-input-found' not in l)}
  head = subprocess.run('git -C /repo rev-parse --short HEAD', shell=True, capture_output=True, text=True).stdout.strip()
  old = {}
  try:
    old = json.load(open(os.path.join(V, 'seeded', name, 'meta.json')))
  except Exception:  # pylint: disable=broad-except
    pass
  tests = val.get('tests_with_patch')
  tests_head = head
  if notests:
    # the repository's suite with the patch does not depend on /verif: keep the result of the last full validation (and say which /repo HEAD it was for)
    prev = (old.get('confirmed') or {})
    if prev.get('repo_test_suite_with_patch') and str(prev.get('repo_test_suite_with_patch')).strip() != 'skipped':
      tests, tests_head = prev['repo_test_suite_with_patch'], prev.get('repo_head_for_test_suite', head)
  meta = {
      'name': name, 'breaks_property': prop, 'needs_to_manifest': needs,
      'origin': 'written by an independent sub-agent given only the property text and a scratch worktree (nothing from /verif)',
      'confirmed': {
          'patch_applies_to_repo_HEAD': 'error' not in val,
          'demo_exit_without_patch': val.get('demo_rc_clean'), 'demo_exit_with_patch': val.get('demo_rc_patched'),
          'repo_test_suite_with_patch': tests, 'repo_head_for_test_suite': tests_head, 'repo_head': head, 'demo_output_with_patch': val.get('demo_patched_tail'),
          'ran': [f'tools/validate_seeded.sh {name}'] + [f'tools/apply_seeded.sh {name} {c} --tier quick' for c in checks],
      },
      'checks_run': detected,
      'caught_by': sorted(c for c, d in detected.items() if d['violations']),
  }
  with open(os.path.join(V, 'seeded', name, 'meta.json'), 'w') as f:
    json.dump(meta, f, indent=1)
  return name, meta['confirmed'], meta['caught_by']


def main():
  args = [a for a in sys.argv[1:] if not a.startswith('--')]
  jobs = 3
  if '--jobs' in sys.argv:
    jobs = int(sys.argv[sys.argv.index('--jobs') + 1])
    args = [a for a in args if a != str(jobs)]
  notests = '--no-tests' in sys.argv
  names = args or sorted(d for d in os.listdir(os.path.join(V, 'seeded')) if os.path.isdir(os.path.join(V, 'seeded', d)))
  with concurrent.futures.ThreadPoolExecutor(jobs) as ex:
    for name, conf, caught in ex.map(lambda n: one(n, notests), names):
      print(name, 'demo clean/patched:', conf.get('demo_exit_without_patch'), conf.get('demo_exit_with_patch'), '| tests:', conf.get('repo_test_suite_with_patch'),
            '| caught by:', caught, flush=True)


if __name__ == '__main__':
  main()
