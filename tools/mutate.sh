#!/bin/bash
# tools/mutate.sh <prop> <file-under-dinosaur> <python-regex-old> <new> [extra check args...]
# Runs ./check <prop> against a scratch copy of /repo with one textual replacement applied; cleans up.
set -u
prop=$1; file=$2; old=$3; new=$4; shift 4
S=$(mktemp -d /var/tmp/dv-mut-XXXXXX)
mkdir -p $S/dinosaur && cp -r /repo/dinosaur/*.py $S/dinosaur/ && cp -r /repo/dinosaur/data $S/dinosaur/ 2>/dev/null
/venv/bin/python - "$S/dinosaur/$file" "$old" "$new" <<'PY'
import re, sys
p, old, new = sys.argv[1:4]
s = open(p).read()
n = s.count(old)
if n != 1:
    print(f'MUTATE: pattern occurs {n} times (need exactly 1)'); sys.exit(9)
open(p, 'w').write(s.replace(old, new))
PY
[ $? -eq 0 ] || { rm -rf $S; exit 9; }
cd "$(dirname "$0")/.."
DINOSAUR_REPO=$S VERIF_EVIDENCE_DIR=$S/evidence ./check $prop "$@" 2>&1 | grep -E "VIOLATION|UNDECIDED|ENGINE-ERROR|^OK|failed obligation" | cut -c1-260 | head -12
echo "exit=${PIPESTATUS[0]}"
rm -rf $S
