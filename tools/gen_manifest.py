"""Regenerates MANIFEST.json from the props modules (claimed) and properties.jsonl (unclaimed)."""
import importlib
import json
import os
import sys

VERIF = os.path.dirname(os.path.dirname(os.path.abspath(__file__)))
sys.path.insert(0, VERIF)

props = [json.loads(l) for l in open(os.path.join(VERIF, 'properties.jsonl'))]
checks = []
na = []
for p in props:
  pid = p['id']
  path = os.path.join(VERIF, 'props', pid + '.py')
  mod = None
  if os.path.exists(path):
    mod = importlib.import_module('props.' + pid)
  if mod is None or not getattr(mod, 'CLAIMED', True):
    na.append({'property_id': pid, 'reason': getattr(mod, 'NA_REASON', 'no check built yet for this property in this tree (planned in DESIGN.md section 3); not claimed')})
    continue
  m = mod.MANIFEST
  checks.append({
      'property_id': pid,
      'quick_cmd': f'./check {pid} --tier quick',
      'thorough_cmd': f'./check {pid} --tier thorough',
      'evidence_file': f'evidence/{pid}.json',
      'replay_cmd_template': f'./check {pid} --replay {{path}}',
      'engine': m.get('engine', 'pyvc+symx'),
      'level_claimed': {'category': mod.LEVEL, 'text': m['text'], 'design_ref': m.get('design_ref', f'DESIGN.md section 3 / {pid}')},
      'level_note': m['note'],
      'technique': m['technique'],
  })

manifest = {
    'version': 1,
    'setup_cmd': './setup.sh',
    'hooks': {
        'guard': 'DINOSAUR_VERIF',
        'enable': 'no hooks: contracts are sidecar files under /verif/contracts; /repo is read, never instrumented (DINOSAUR_VERIF=1 is exported by ./check but nothing in /repo reads it)',
        'baseline_off_cmd': 'cd /repo && /venv/bin/python -m pytest -ra -q -p no:cacheprovider --timeout=900 --continue-on-collection-errors',
        'source_commits': [],
        'add_only': True,
    },
    'engines': [
        {'name': 'pyvc', 'path': 'vlib/pyvc', 'kind_free_text': 'verification-condition generator: symbolic execution of the real Python source (ast re-read from /repo every run) against sidecar contracts; obligations discharged by z3 5.1, cvc5 on unknowns'},
        {'name': 'symx', 'path': 'vlib/symx.py', 'kind_free_text': 'symbolic execution through the real interpreter: real step functions called on formal linear combinations with exact rational coefficients'},
        {'name': 'jxa', 'path': 'vlib/jxa.py', 'kind_free_text': 'static analyses of the traced program (jaxpr): polynomial degree / linearity, structural zeros, dependence, primitive census; operator extraction on complete bases'},
        {'name': 'rtc', 'path': 'vlib/rtc.py', 'kind_free_text': 'run-time contract twins, exhaustive enumerations, CrossHair (bounded stand-ins, never counted as proved)'},
    ],
    'checks': checks,
    'not_applicable': na,
    'notes': 'Contract-based deductive verification; see DESIGN.md. Exit codes of ./check: 0 held, 1 violation, 2 undecided, 3 engine error. Known findings: known_findings.json.',
}
for e in manifest['engines']:
  e['serves_properties'] = [c['property_id'] for c in checks if e['name'] in c['engine']]
json.dump(manifest, open(os.path.join(VERIF, 'MANIFEST.json'), 'w'), indent=1)
import jsonschema
jsonschema.validate(manifest, json.load(open('/root/.vp/MANIFEST.schema.json')))
print('MANIFEST ok:', [c['property_id'] for c in checks], 'n/a:', len(na))
