import sys, time, importlib
sys.path.insert(0,'/verif')
from vlib import core
mod=importlib.import_module('contracts.'+sys.argv[1])
for c in mod.clauses():
    t=time.time()
    o=c.run(core.Ctx('quick',0,'X'))
    print(c.name[:90], '|', o.status, o.obligations, o.discharged, round(time.time()-t,1))
    for f in o.failures: print('   FAIL', f.obligation, str(f.detail)[:300].replace('\n',' '))
    for u in o.undecided: print('   UNDEC', u[:300])
    if o.error: print(o.error[-800:])
