#!/bin/bash
# tools/validate_seeded.sh <seeded-dir-name> [--no-tests]
# Confirms, in a scratch git worktree of /repo (removed afterwards):
#   1. the patch applies to /repo HEAD,
#   2. the demonstration fails with the patch and passes without it,
#   3. the repository's own test suite still passes with the patch (unless --no-tests),
# and prints a JSON summary on the last line.
set -u
name=$1; shift
notests=0; [ "${1:-}" = "--no-tests" ] && notests=1
V=$(cd "$(dirname "$0")/.." && pwd)
d=$V/seeded/$name
S=$(mktemp -d /var/tmp/dv-val-XXXXXX); rmdir $S
git -C /repo worktree add -q --detach $S HEAD || { echo '{"error":"worktree"}'; exit 9; }
cleanup() { git -C /repo worktree remove --force $S >/dev/null 2>&1; rm -rf $S; }
trap cleanup EXIT
demo=$(ls $d/demo_* | head -1)
cd $S
JAX_PLATFORMS=cpu PYTHONPATH=$S timeout 1800 /venv/bin/python $demo > $S/.demo_clean.log 2>&1; clean_rc=$?
git apply $d/patch.diff || { echo '{"error":"patch does not apply"}'; exit 9; }
JAX_PLATFORMS=cpu PYTHONPATH=$S timeout 1800 /venv/bin/python $demo > $S/.demo_patched.log 2>&1; patched_rc=$?
tests="skipped"
if [ $notests -eq 0 ]; then
  files=$(git diff --name-only | sed 's/\.py$/_test.py/' | while read f; do [ -f $f ] && echo $f; done)
  # full suite (the patch must pass all of it)
  # the baseline command (with xdist); baseline: 395 passed, always-failing: filtering_test::test_time_filter_variation{0,1}, pipelines/regrid_test (collection)
  PYTHONPATH=$S timeout 7200 /venv/bin/python -m pytest -q -p no:cacheprovider --timeout=900  --continue-on-collection-errors > $S/.tests.log 2>&1
  summary=$(tail -1 $S/.tests.log | tr -d '=' | sed 's/^ *//')
  newfail=$(grep -E '^(FAILED|ERROR) ' $S/.tests.log | grep -v -E 'test_time_filter_variation[01]|pipelines/regrid_test' | cut -c1-120 | tr '\n' ';')
  tests="$summary | failures outside the baseline always-fail set: [${newfail}]"
fi
echo "{\"name\":\"$name\",\"demo_rc_clean\":$clean_rc,\"demo_rc_patched\":$patched_rc,\"tests_with_patch\":\"$tests\",\"demo_patched_tail\":$(tail -3 $S/.demo_patched.log | python3 -c 'import json,sys; print(json.dumps(sys.stdin.read()[-400:]))')}"
