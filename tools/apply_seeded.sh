#!/bin/bash
# tools/apply_seeded.sh <seeded-dir> <prop> [check args]: run ./check against a scratch copy of /repo with seeded/<dir>/patch.diff applied
set -u
d=$1; prop=$2; shift 2
S=$(mktemp -d /var/tmp/dv-seed-XXXXXX)
git -C /repo archive HEAD dinosaur | tar -x -C $S
cp -r /repo/dinosaur/*.py $S/dinosaur/    # include uncommitted working-tree edits, if any
( cd $S && patch -p1 -s < "$OLDPWD/seeded/$d/patch.diff" ) || { echo "PATCH FAILED"; rm -rf $S; exit 9; }
cd "$(dirname "$0")/.."
DINOSAUR_REPO=$S VERIF_EVIDENCE_DIR=$S/evidence ./check $prop "$@" 2>&1 | grep -E "VIOLATION|UNDECIDED|ENGINE-ERROR|^OK|failed obligation" | cut -c1-300 | awk '/VIOLATION/ && v++ < 3 || /ENGINE-ERROR|UNDECIDED|^OK/ || /failed obligation/ && n++ < 6'
echo "exit=${PIPESTATUS[0]}"
rm -rf $S
