#!/bin/bash
# Builds /verif/.venv offline: python 3.12 venv layered over /venv (repo deps) + solver wheels.
set -e
cd "$(dirname "$0")"
export PIP_NO_INDEX=1
if [ ! -x .venv/bin/python ]; then
  /venv/bin/python -m venv .venv
  echo "import site; site.addsitedir('/venv/lib/python3.12/site-packages')" > .venv/lib/python3.12/site-packages/_repo_overlay.pth
fi
.venv/bin/python -c "import z3, cvc5, crosshair, icontract, sympy, jsonschema" 2>/dev/null || \
  .venv/bin/pip install -q --no-index --find-links /opt/veriftools/wheels z3-solver cvc5 crosshair-tool icontract deal sympy jsonschema
.venv/bin/python -c "import z3, cvc5, sympy, jsonschema, jax, dinosaur; print('setup ok', z3.get_version_string())"
