"""C03 / C05: the vertical weight matrices of the primitive equations, from the real source, for every number of layers.

pyvc matrix mode (vlib/pyvc/matrix.py).  The sigma coordinates are abstract: N >= 1 layers, boundaries B(0) < ... < B(N) (the validated
representation invariant of SigmaCoordinates, C13), centers and thicknesses computed by the real properties.  log is uninterpreted
(A9: nothing about it is used).  Proved for all N, all boundaries, all reference temperatures, kappa, R:

  get_sigma_ratios            alpha[j] = (log c[j+1] - log c[j]) / 2 for j < N-1,  alpha[N-1] = -log c[N-1]
  get_geopotential_weights    (two nested loops; loop invariants given here, checked initially / preserved)
                              G[j, k] = R * (alpha[j] if k == j else alpha[k] + alpha[k-1] if k > j else 0)          -- the documented matrix
  get_geopotential_diff       method='sparse' == method='dense' (reverse cumulative sum form), via the partial-sum lemma below
  get_temperature_implicit_weights
                              H[r, s] = dsigma[s] * ( kappa T[r] (P(r-s) alpha[r] + P(r-s-1) alpha[r-1]) / dsigma[r] - K[r, s] - K[r-1, s] ),
                              K[r, s] = (T[r+1]-T[r]) / (dsigma[r+1]+dsigma[r]) * (P(r-s) - sum(dsigma[:r+1])), K = 0 for r < 0 and r = N-1
                                                                                                                       -- the documented matrix
                              structure: H[r, s] / dsigma[s] does not depend on s below the diagonal, nor above it    -- what the sparse form rests on
  get_temperature_implicit    method='sparse' == method='dense' for every divergence column, with and without the downward part
                              (both outcomes of `(down_weights != 0).any()`)

The matrix-vector product and the cumulative sums are ghost partial sums (callee contracts: `_vertical_matvec` = einsum 'gh,...hml->...gml'
(A8); `_dot_cumsum` = prefix / suffix sums, whose single-device kernel is under contract in C13 and whose sharded schedule in C07):
  D(g, 0) = 0, D(g, k+1) = D(g, k) + W[g, k] x[k]           dense row g = D(g, N)
  C(0) = 0,    C(k+1)    = C(k) + y[k]                      cumsum(y)[g] = C(g+1), reverse_cumsum(y)[g] = C(N) - C(g)
lemma (induction on k, base and step obligations discharged separately):  if W[g, h] = u_g y_h / x_h-weights below the diagonal and
d_g ... above it, then D(g, N) = u_g C'(g) + W[g, g] x[g] + d_g (C'(N) - C'(g+1)).
"""
from __future__ import annotations

import z3

from contracts import sigma_contracts as SC_
from vlib.core import Clause
from vlib.pyvc import arrays, matrix, nra
from vlib.pyvc import engine as E
from vlib.pyvc.run import run_contract

PE = 'dinosaur.primitive_equations.'
B, N = SC_.B, SC_.N
LOG = matrix.LOG
TR = z3.Function('reference_temperature.at', z3.IntSort(), z3.RealSort())
XD = z3.Function('x.at', z3.IntSort(), z3.RealSort())


def c_(k):
  return (B(k) + B(k + 1)) / 2


def d_(k):
  return B(k + 1) - B(k)


def alpha_(j):
  return z3.If(j == N - 1, -LOG(c_(N - 1)), (LOG(c_(j + 1)) - LOG(c_(j))) / 2)


def g0_(j, k):
  """G / R as documented."""
  return z3.If(k == j, alpha_(j), z3.If(k > j, alpha_(k) + alpha_(k - 1), z3.RealVal(0)))


def ensure_cases(en, name, base_int, cases, real_hyps, goal, timeout_ms=60000, rules=None):
  """One obligation split into index cases (each: If-resolution under the case's integer facts, uninterpreted applications abstracted,
  nlsat -- vlib/pyvc/nra.py).  The cases must be exhaustive: that is an obligation of its own (linear integer arithmetic)."""
  import time
  from vlib import smt
  t0 = time.time()
  # a case may carry a substitution (var, term) justified by its own facts (checked), e.g. N := r + 1 in the case r == N - 1
  cases = [(c[0], c[1], (c[2] if len(c) > 2 else [])) for c in cases]
  cover = smt.valid(list(base_int), z3.Or(*[z3.And(*c) for _, c, _ in cases]), timeout_ms=20000)
  status, detail, model, smt2, back = 'valid', '', None, '', 'z3-nlsat'
  if cover.status != 'valid':
    status, detail = 'unknown', f'case split not shown exhaustive ({cover.status})'
  else:
    for label, c, sub in cases:
      goal_c = goal
      if sub:
        ok_sub = all(smt.valid(list(base_int) + list(c), a == b, timeout_ms=5000).status == 'valid' for a, b in sub)
        if ok_sub:
          goal_c = z3.substitute(goal, *sub)
      if rules is not None and z3.is_eq(goal):
        # field identity by normal form first (vlib/pyvc/ring.py); the SMT route only if that does not settle the case
        from vlib.pyvc import ring
        v = ring.prove_identity(list(base_int) + list(c), real_hyps, rules, goal_c.arg(0), goal_c.arg(1))
        if v.status == 'valid':
          back = 'sympy-ring+z3'
          continue
        ring_reason = v.reason
      v = nra.prove(list(base_int) + list(c), real_hyps, goal_c, timeout_ms=timeout_ms)
      if v.status == 'invalid':
        status, model, smt2 = 'invalid', (en.model_of_inputs(v.model) if v.model is not None else None), v.smt2[:20000]
        detail = f'case {label}: counter-model: {model}' if model is not None else f'case {label}: {v.reason}'
        break
      if v.status != 'valid':
        status, detail = 'unknown', (f'case {label}: {v.reason}'[:400] + (f' | ring: {ring_reason}'[:900] if rules is not None else ''))
        break
  r = E.ObligationResult(f'{name} [{len(cases)} index cases]', status, seconds=time.time() - t0, back_end=back, detail=detail)
  r.model, r.smt2 = model, smt2
  en.results.append(r)
  return status == 'valid'


def _pos(*idx):
  """Instances of the representation invariant B(t) < B(t+1) for 0 <= t < N."""
  return [z3.Implies(z3.And(t >= 0, t < N), B(t) < B(t + 1)) for t in idx]


def _setup(en):
  SC_._setup(en)
  matrix.install(en)
  import numpy as np
  from vlib.pyvc.libspec import _reg
  _reg(en, np.asarray, lambda en_, x, *a, **k: x, 'np.asarray (identity)')


def _coords(en):
  b = SC_._coords(en, valid=True)
  self = E.Obj(boundaries=b)
  from dinosaur import sigma_coordinates as sc
  for prop in ('centers', 'layer_thickness'):
    kind, v = en.invoke(en.load_function(getattr(sc.SigmaCoordinates, prop).fget), self)
    if kind == 'raise':
      raise E.Unsupported(f'{prop} raised {v}')
    setattr(self, prop, v)
  self.layers = N
  return self


def _alpha_callee(en):
  """Callee contract of get_sigma_ratios (proved by sigma_ratios_contract)."""
  from dinosaur import primitive_equations as pe
  en.contracts[E._callable_key(pe.get_sigma_ratios)] = lambda en_, coords: E.SymSeq(N, lambda j: alpha_(E.to_z3(j)), z3.RealSort(), 'alpha')


def sigma_ratios_contract(en: E.Engine):
  from dinosaur import primitive_equations as pe
  self = _coords(en)
  en.cover('requires: valid sigma coordinates')
  kind, a = en.invoke(en.load_function(pe.get_sigma_ratios), self)
  if kind == 'raise' or not arrays._is_seq(a):
    en.ensure(f'get_sigma_ratios returns a vector ({a})', False)
    return
  j = en.int('j')
  en.assume(z3.And(j >= 0, j < N))
  en.ensure('one ratio per layer', E.to_z3(a.length) == N)
  en.ensure('alpha[j] == (log c[j+1] - log c[j]) / 2 for j < N-1 and -log c[N-1] for the lowest layer', a.get(j) == alpha_(j))


def _geo_invariants(en):
  def outer(en_, env, t):
    w = env.vars['weights']
    r, c = z3.Int('r!inv'), z3.Int('c!inv')
    rng = z3.And(r >= 0, r < N, c >= 0, c < N)
    return [('rows below j hold the documented entries, the rest is still zero',
             z3.ForAll([r, c], z3.Implies(rng, w.get(r, c) == z3.If(r < E.to_z3(t), g0_(r, c), z3.RealVal(0)))))]

  def inner(en_, env, t):
    w = env.vars['weights']
    j = E.to_z3(env.vars['j'])
    r, c = z3.Int('r!inv'), z3.Int('c!inv')
    rng = z3.And(r >= 0, r < N, c >= 0, c < N)
    row_j = z3.If(c == j, alpha_(j), z3.If(z3.And(c > j, c < j + 1 + E.to_z3(t)), alpha_(c) + alpha_(c - 1), z3.RealVal(0)))
    return [('row j is filled up to column j + t, rows below j are complete, rows above still zero',
             z3.ForAll([r, c], z3.Implies(rng, w.get(r, c) == z3.If(r < j, g0_(r, c), z3.If(r == j, row_j, z3.RealVal(0))))))]
  en.loop_inv[('get_geopotential_weights', 0)] = outer
  en.loop_inv[('get_geopotential_weights', 1)] = inner


def geopotential_weights_contract(en: E.Engine):
  from dinosaur import primitive_equations as pe
  self = _coords(en)
  _alpha_callee(en)
  _geo_invariants(en)
  R = en.real('ideal_gas_constant')
  en.cover('requires: valid sigma coordinates')
  kind, G = en.invoke(en.load_function(pe.get_geopotential_weights), self, R)
  if kind == 'raise' or not matrix._is_mat(G):
    en.ensure(f'get_geopotential_weights returns a matrix ({G})', False)
    return
  j, k = en.int('j'), en.int('k')
  en.assume(z3.And(j >= 0, j < N, k >= 0, k < N))
  en.ensure('G is layers x layers', z3.And(E.to_z3(G.rows) == N, E.to_z3(G.cols) == N))
  en.ensure('G[j, k] == R * (alpha[j] on the diagonal, alpha[k] + alpha[k-1] above it, 0 below it)', G.get(j, k) == R * g0_(j, k))


# ---- ghost sums ------------------------------------------------------------------------------------------------------------------------


def _matvec_callee(en, seen):
  """_vertical_matvec(W, x): ghost partial sums D(g, k) = sum_{h<k} W[g, h] x[h]; the result is D(g, N)."""
  from dinosaur import primitive_equations as pe

  def h(en_, w, x):
    if not (matrix._is_mat(w) and arrays._is_seq(x)):
      raise E.Unsupported('_vertical_matvec on non matrix / vector')
    D = z3.Function(en_.fresh_name('DSUM'), z3.IntSort(), z3.IntSort(), z3.RealSort())
    seen['D'], seen['W'], seen['x'] = D, w.get, x.get
    return E.SymSeq(x.length, lambda g: D(E.to_z3(g), E.to_z3(x.length)), z3.RealSort(), 'matvec')
  en.contracts[E._callable_key(pe._vertical_matvec)] = h
  en.trusted.add("callee contract: _vertical_matvec(W, x)[g] == sum_h W[g, h] x[h]  (einsum 'gh,...hml->...gml', A8)")


def _cumsum_callee(en, seen):
  """_dot_cumsum(y, axis=0, reverse): prefix / suffix sums of y as ghost C(k) = sum_{h<k} y[h]."""
  from dinosaur import jax_numpy_utils as jnu

  def h(en_, y, axis, reverse=False):
    if not arrays._is_seq(y) or axis != 0:
      raise E.Unsupported('_dot_cumsum outside column mode')
    key = id(y.get)
    if 'C' not in seen or seen.get('Ckey') is None:
      C = z3.Function(en_.fresh_name('CSUM'), z3.IntSort(), z3.RealSort())
      seen['C'], seen['y'], seen['Ckey'] = C, y.get, key
    else:
      # a second cumulative sum: must be over the same vector (checked as an obligation on the generic entry)
      h_ = z3.Int(en_.fresh_name('h'))
      if en_._sat(z3.And(h_ >= 0, h_ < E.to_z3(y.length), y.get(h_) != seen['y'](h_))):
        raise E.Unsupported('cumulative sums over two different vectors')
    C = seen['C']
    n = E.to_z3(y.length)
    if reverse:
      return E.SymSeq(y.length, lambda g: C(n) - C(E.to_z3(g)), z3.RealSort(), 'reverse_cumsum')
    return E.SymSeq(y.length, lambda g: C(E.to_z3(g) + 1), z3.RealSort(), 'cumsum')
  en.contracts[E._callable_key(jnu._single_device_dot_cumsum)] = h
  en.trusted.add('callee contract: _single_device_dot_cumsum(y, 0)[g] == sum_{h<=g} y[h], reverse: sum_{h>=g} y[h] -- discharged in C13; cumsum / reverse_cumsum / _dot_cumsum run from source with sharding=None (sharded schedule: C07)')


def partial_sum_lemma(en: E.Engine):
  """For a row g of a matrix W with  W[g, h] = u y[h] / ... :  stated on abstract reals, by induction on k.

  hypotheses (for all h):  h < g  =>  W(h) x(h) == u * y(h);   h > g  =>  W(h) x(h) == d * y(h)
  D(0) = 0, D(k+1) = D(k) + W(k) x(k);   C(0) = 0, C(k+1) = C(k) + y(k)
  claim    k <= g      =>  D(k) == u C(k)
           k >= g + 1  =>  D(k) == u C(g) + W(g) x(g) + d (C(k) - C(g+1))
  """
  Dk, Dk1, Ck, Ck1, Cg, Cg1, u, d, wx, y, wgxg = (z3.Real(nm) for nm in ('D_k', 'D_k1', 'C_k', 'C_k1', 'C_g', 'C_g1', 'u', 'd', 'wx_k', 'y_k', 'wx_g'))
  k, g = en.int('k'), en.int('g')
  en.assume(z3.And(k >= 0, g >= 0))
  en.cover('lemma hypotheses')
  rec = z3.And(Dk1 == Dk + wx, Ck1 == Ck + y)
  en.ensure('base: D(0) == u C(0) with D(0) = C(0) = 0', z3.Implies(z3.And(Dk == 0, Ck == 0), Dk == u * Ck))
  en.ensure('step below the diagonal: k < g, IH D(k) == u C(k), W(k) x(k) == u y(k)  =>  D(k+1) == u C(k+1)',
            z3.Implies(z3.And(k < g, rec, Dk == u * Ck, wx == u * y), Dk1 == u * Ck1))
  en.ensure('step at the diagonal: k == g, IH D(g) == u C(g)  =>  D(g+1) == u C(g) + W(g) x(g) + d (C(g+1) - C(g+1))',
            z3.Implies(z3.And(k == g, rec, Dk == u * Ck, Cg == Ck, Cg1 == Ck1, wgxg == wx), Dk1 == u * Cg + wgxg + d * (Ck1 - Cg1)))
  en.ensure('step above the diagonal: k > g, IH, W(k) x(k) == d y(k)  =>  claim at k+1',
            z3.Implies(z3.And(k > g, rec, Dk == u * Cg + wgxg + d * (Ck - Cg1), wx == d * y), Dk1 == u * Cg + wgxg + d * (Ck1 - Cg1)))


def _lemma_instance(seen, g, u, d, n, yfun):
  """The partial-sum lemma instantiated at row g (its hypotheses become obligations of the caller)."""
  D, W, x, C = seen['D'], seen['W'], seen['x'], seen['C']
  h = z3.Int('h!lem')
  below = z3.ForAll([h], z3.Implies(z3.And(h >= 0, h < g), E._real(W(g, h)) * E._real(x(h)) == u * yfun(h)))
  above = z3.ForAll([h], z3.Implies(z3.And(h > g, h < n), E._real(W(g, h)) * E._real(x(h)) == d * yfun(h)))
  concl = D(g, n) == u * C(g) + E._real(W(g, g)) * E._real(x(g)) + d * (C(n) - C(g + 1))
  return below, above, concl


def geopotential_sparse_contract(en: E.Engine):
  from dinosaur import primitive_equations as pe
  self = _coords(en)
  _alpha_callee(en)
  seen = {}
  _matvec_callee(en, seen)
  _cumsum_callee(en, seen)
  R = en.real('ideal_gas_constant')
  G = matrix.SymMat(N, N, lambda j, k: R * g0_(E.to_z3(j), E.to_z3(k)), 'G')
  en.contracts[E._callable_key(pe.get_geopotential_weights)] = lambda en_, coords, r=None: G        # callee contract (geopotential_weights_contract)
  x = E.SymSeq(N, lambda i: XD(E.to_z3(i)), z3.RealSort(), 'temperature')
  en.cover('requires: valid sigma coordinates')
  kind, dense = en.invoke(en.load_function(pe.get_geopotential_diff), x, self, R, 'dense')
  kind2, sparse = en.invoke(en.load_function(pe.get_geopotential_diff), x, self, R, 'sparse')
  if 'raise' in (kind, kind2) or 'C' not in seen or 'D' not in seen:
    en.ensure(f'get_geopotential_diff runs in both forms ({dense}, {sparse})', False)
    return
  g = en.int('g')
  en.assume(z3.And(g >= 0, g < N))
  C, y = seen['C'], seen['y']
  # the summed vector is alpha2 * x with alpha2[h] = R (alpha[h] + alpha[h-1]) for h >= 1 and 0 for h = 0
  a2 = lambda h: z3.If(h >= 1, R * (alpha_(h) + alpha_(h - 1)), z3.RealVal(0))
  h_ = en.int('h')
  en.assume(z3.And(h_ >= 0, h_ < N))
  en.ensure('the reverse cumulative sum runs over (alpha[h] + alpha[h-1]) R x[h] (0 at h = 0)', y(h_) == a2(h_) * XD(h_))
  yfun = lambda h: a2(h) * XD(h)
  below, above, concl = _lemma_instance(seen, g, z3.RealVal(0), z3.RealVal(1), N, yfun)
  en.ensure('lemma hypothesis: below the diagonal G[g, h] x[h] == 0', below)
  en.ensure('lemma hypothesis: above the diagonal G[g, h] x[h] == R (alpha[h] + alpha[h-1]) x[h]', above)
  ax = [concl, C(g + 1) == C(g) + y(g)]
  en.ensure("get_geopotential_diff(method='sparse')[g] == get_geopotential_diff(method='dense')[g] (given the lemma conclusion and C(g+1) = C(g) + y[g])",
            z3.Implies(z3.And(*ax), sparse.get(g) == dense.get(g)))


def _temperature(en):
  T = E.SymSeq(N, lambda i: TR(E.to_z3(i)), z3.RealSort(), 'reference_temperature')
  kappa = en.real('kappa')
  return T, kappa


def h_spec(CS, kappa):
  """The documented matrix H[r, s] (CS(k) = sum of the first k layer thicknesses)."""
  def K(r, s):
    return z3.If(z3.Or(r < 0, r >= N - 1), z3.RealVal(0),
                 (TR(r + 1) - TR(r)) / (d_(r + 1) + d_(r)) * (z3.If(s <= r, z3.RealVal(1), z3.RealVal(0)) - CS(r + 1)))

  def H(r, s):
    first = kappa * TR(r) * (z3.If(s <= r, alpha_(r), z3.RealVal(0)) + z3.If(z3.And(r >= 1, s <= r - 1), alpha_(r - 1), z3.RealVal(0))) / d_(r)
    return (first - K(r, s) - K(r - 1, s)) * d_(s)
  return H


def temperature_weights_contract(en: E.Engine):
  from dinosaur import primitive_equations as pe
  self = _coords(en)
  _alpha_callee(en)
  T, kappa = _temperature(en)
  en.cover('requires: valid sigma coordinates, one reference temperature per layer')
  kind, H = en.invoke(en.load_function(pe.get_temperature_implicit_weights), self, T, kappa)
  if kind == 'raise' or not matrix._is_mat(H) or not getattr(en, 'ghost_sums', None):
    en.ensure(f'get_temperature_implicit_weights returns a matrix ({H})', False)
    return
  CS, gy, ln = en.ghost_sums[-1]
  i = en.int('i')
  en.assume(z3.And(i >= 0, i < N))
  en.ensure('the cumulative sum inside runs over the layer thicknesses', z3.And(E.to_z3(ln) == N, gy(i) == d_(i)))
  r, s = en.int('r'), en.int('s')
  en.assume(z3.And(r >= 0, r < N, s >= 0, s < N))
  en.ensure('H is layers x layers', z3.And(E.to_z3(H.rows) == N, E.to_z3(H.cols) == N))
  spec = h_spec(CS, kappa)
  s2 = en.int('s2')
  base = [N >= 1, r >= 0, r < N, s >= 0, s < N, s2 >= 0, s2 < N]
  rows = [('r = 0 = N-1', [r == 0, N == 1]), ('r = 0 < N-1', [r == 0, N >= 2]), ('0 < r < N-1', [r >= 1, r < N - 1]), ('0 < r = N-1', [r >= 1, r == N - 1])]
  cols = [('s < r', [s < r]), ('s = r', [s == r]), ('s > r', [s > r])]
  cases = [(f'{a}, {b}', ca + cb) for a, ca in rows for b, cb in cols]
  pos = _pos(r - 1, r, r + 1, s, s2)
  ensure_cases(en, 'H[r, s] == dsigma[s] (kappa T[r] (P(r-s) alpha[r] + P(r-s-1) alpha[r-1]) / dsigma[r] - K[r, s] - K[r-1, s]) as documented',
               base, cases, pos, H.get(r, s) == spec(r, s))
  cases2 = [(a, ca) for a, ca in rows]
  ensure_cases(en, 'below the diagonal H[r, s] / dsigma[s] does not depend on s', base + [s < r, s2 < r], cases2, pos, H.get(r, s) * d_(s2) == H.get(r, s2) * d_(s))
  ensure_cases(en, 'above the diagonal H[r, s] / dsigma[s] does not depend on s', base + [s > r, s2 > r], cases2, pos, H.get(r, s) * d_(s2) == H.get(r, s2) * d_(s))


def temperature_length_contract(en: E.Engine):
  """A reference temperature whose length differs from the number of layers is rejected."""
  from dinosaur import primitive_equations as pe
  self = _coords(en)
  _alpha_callee(en)
  M = en.int('n_temperatures')
  en.assume(M >= 0)
  T = E.SymSeq(M, lambda i: TR(E.to_z3(i)), z3.RealSort(), 'reference_temperature')
  en.cover('requires')
  kind, H = en.invoke(en.load_function(pe.get_temperature_implicit_weights), self, T, en.real('kappa'))
  if kind == 'raise':
    en.ensure('the only exception is ValueError', H == 'ValueError')
    en.ensure('raises only when the number of reference temperatures differs from the number of layers', M != N)
  else:
    en.ensure('a reference temperature of the wrong length is rejected', M == N)


HU = z3.Function('H.at', z3.IntSort(), z3.IntSort(), z3.RealSort())


def temperature_sparse_contract(en: E.Engine):
  """Modular: get_temperature_implicit_weights is replaced by its contract -- an opaque layers x layers matrix H with the two structure
  facts proved for the real function by temperature_weights_contract (instantiated below at the indices that occur)."""
  from dinosaur import primitive_equations as pe
  self = _coords(en)
  T, kappa = _temperature(en)
  seen = {}
  _matvec_callee(en, seen)
  _cumsum_callee(en, seen)
  Hm = matrix.SymMat(N, N, lambda r, s: HU(E.to_z3(r), E.to_z3(s)), 'H')
  en.contracts[E._callable_key(pe.get_temperature_implicit_weights)] = lambda en_, coords, t, k=None: Hm
  en.trusted.add('callee contract: get_temperature_implicit_weights returns a layers x layers matrix with H[r, s] dsigma[s2] == H[r, s2] dsigma[s] for s, s2 both below or both '
                 'above the diagonal (discharged by the clause on get_temperature_implicit_weights)')
  x = E.SymSeq(N, lambda i: XD(E.to_z3(i)), z3.RealSort(), 'divergence')
  en.cover('requires: valid sigma coordinates, one reference temperature per layer')
  kind, dense = en.invoke(en.load_function(pe.get_temperature_implicit), x, self, T, kappa, 'dense')
  kind2, sparse = en.invoke(en.load_function(pe.get_temperature_implicit), x, self, T, kappa, 'sparse')
  if 'raise' in (kind, kind2) or 'C' not in seen or 'D' not in seen:
    en.ensure(f'get_temperature_implicit runs in both forms ({dense}, {sparse})', False)
    return
  g = en.int('g')
  en.assume(z3.And(g >= 0, g < N))
  C, y, W, D = seen['C'], seen['y'], seen['W'], seen['D']
  h_ = en.int('h')
  en.assume(z3.And(h_ >= 0, h_ < N))
  en.ensure('the cumulative sums run over dsigma[h] * divergence[h]', y(h_) == d_(h_) * XD(h_))
  # coefficients the sparse form *should* use, from the matrix the dense form contracts with
  Wr = lambda a, b: E._real(W(a, b))
  u = z3.If(g >= 1, Wr(g, 0) / d_(0), z3.RealVal(0))
  d = z3.If(g < N - 1, Wr(g, N - 1) / d_(N - 1), z3.RealVal(0))
  base = [N >= 1, g >= 0, g < N, h_ >= 0, h_ < N]
  pos = _pos(g - 1, g, g + 1, h_ - 1, h_, h_ + 1, z3.IntVal(0), N - 1)
  # the callee's structure facts at the indices used here
  inst = lambda r, a, b: [z3.Implies(z3.And(a < r, b < r, a >= 0, b >= 0), HU(r, a) * d_(b) == HU(r, b) * d_(a)),
                          z3.Implies(z3.And(a > r, b > r, a < N, b < N), HU(r, a) * d_(b) == HU(r, b) * d_(a))]
  pos = pos + inst(g, h_, z3.IntVal(0)) + inst(g, h_, N - 1)
  rows = [('g = 0 = N-1', [g == 0, N == 1]), ('g = 0 < N-1', [g == 0, N >= 2]), ('0 < g < N-1', [g >= 1, g < N - 1]), ('0 < g = N-1', [g >= 1, g == N - 1])]
  # lemma hypotheses, with the bound index skolemised (h is arbitrary in its range)
  ensure_cases(en, 'lemma hypothesis: below the diagonal W[g, h] x[h] == (W[g, 0] / dsigma[0]) dsigma[h] x[h]', base + [h_ < g], rows, pos,
               Wr(g, h_) * XD(h_) == u * (d_(h_) * XD(h_)))
  ensure_cases(en, 'lemma hypothesis: above the diagonal W[g, h] x[h] == (W[g, N-1] / dsigma[N-1]) dsigma[h] x[h]', base + [h_ > g], rows, pos,
               Wr(g, h_) * XD(h_) == d * (d_(h_) * XD(h_)))
  concl = D(g, N) == u * C(g) + Wr(g, g) * XD(g) + d * (C(N) - C(g + 1))
  hyps = list(pos) + [concl, C(g + 1) == C(g) + d_(g) * XD(g)]
  branch = 'with the downward part'
  if getattr(en, 'any_facts', None):
    flag, body = en.any_facts[-1]
    if not en.truth(flag):
      branch = 'without the downward part (every down weight is zero)'
      hyps.append(z3.Not(body(g)))          # instance at g of the path condition  not exists i. down_weights[i] != 0
  ensure_cases(en, f"get_temperature_implicit(method='sparse')[g] == get_temperature_implicit(method='dense')[g], {branch} (from the lemma conclusion and C(g+1) = C(g) + y[g])",
               base, rows, hyps, sparse.get(g) == dense.get(g))


def canary_contract(en: E.Engine):
  from dinosaur import primitive_equations as pe
  self = _coords(en)
  _alpha_callee(en)
  _geo_invariants(en)
  kind, G = en.invoke(en.load_function(pe.get_geopotential_weights), self, 1)
  j, k = en.int('j'), en.int('k')
  en.assume(z3.And(j >= 0, j < N, k >= 0, k < N))
  if kind == 'return':
    en.ensure('canary: G is diagonal', z3.Implies(j != k, G.get(j, k) == 0))


def replay_matrices(w):
  import numpy as np
  from dinosaur import primitive_equations as pe, sigma_coordinates as sc
  rng = np.random.RandomState(7)
  for n in (1, 2, 3, 6):
    b = np.concatenate([[0.0], np.sort(rng.uniform(0.05, 0.95, n - 1)), [1.0]])
    co = sc.SigmaCoordinates(b)
    c, d = co.centers, co.layer_thickness
    al = np.array([(np.log(c[j + 1]) - np.log(c[j])) / 2 if j < n - 1 else -np.log(c[-1]) for j in range(n)])
    G = np.array([[al[j] if k == j else (al[k] + al[k - 1] if k > j else 0.0) for k in range(n)] for j in range(n)]) * 2.5
    if not np.allclose(pe.get_geopotential_weights(co, 2.5), G, rtol=1e-12, atol=1e-12):
      return True, f'get_geopotential_weights on boundaries {b.tolist()}: {pe.get_geopotential_weights(co, 2.5).tolist()} vs documented {G.tolist()}'
    T = rng.uniform(200, 300, n)
    cs = np.cumsum(d)
    K = lambda r, s: 0.0 if (r < 0 or r >= n - 1) else (T[r + 1] - T[r]) / (d[r + 1] + d[r]) * ((1.0 if s <= r else 0.0) - cs[r])
    H = np.array([[(0.3 * T[r] * ((al[r] if s <= r else 0.0) + (al[r - 1] if (r >= 1 and s <= r - 1) else 0.0)) / d[r] - K(r, s) - K(r - 1, s)) * d[s] for s in range(n)] for r in range(n)])
    got = pe.get_temperature_implicit_weights(co, T, 0.3)
    if not np.allclose(got, H, rtol=1e-10, atol=1e-10):
      return True, f'get_temperature_implicit_weights on boundaries {b.tolist()}, T {T.tolist()}: {got.tolist()} vs documented {H.tolist()}'
    x = rng.randn(n, 1, 1)
    T_iso_top = np.concatenate([np.full(n - n // 2, 220.0), 220.0 + 15.0 * np.arange(1, n // 2 + 1)])      # constant over the upper part of the column
    for fn, args in ((pe.get_geopotential_diff, (co, 2.5)), (pe.get_temperature_implicit, (co, T, 0.3)), (pe.get_temperature_implicit, (co, T_iso_top, 0.3)),
                     (pe.get_temperature_implicit, (co, np.full(n, 250.0), 0.3))):
      a, s_ = np.asarray(fn(x, *args, method='dense')), np.asarray(fn(x, *args, method='sparse'))
      if not np.allclose(a, s_, rtol=1e-6, atol=1e-6 * max(1.0, float(np.max(np.abs(a))))):
        return True, f'{fn.__name__} on boundaries {b.tolist()}, arguments {[np.asarray(v).tolist() for v in args[1:]]}: dense {a.ravel().tolist()} vs sparse {s_.ravel().tolist()}'
  return False, 'weight matrices equal the documented ones and dense == sparse on the sampled columns'


def clauses(only=None):
  rc = lambda c, n=2: (lambda ctx: run_contract(c, min_obligations=n, setup=_setup, timeout_ms=120000, max_paths=400))
  out = [
      Clause('smt:get_sigma_ratios == documented log ratios (all layer counts)', 'smt', [PE + 'get_sigma_ratios'], rc(sigma_ratios_contract, 2), replay=replay_matrices, group='pyvc-mat'),
      Clause('smt:get_geopotential_weights == documented matrix G (nested loops with invariants; all layer counts)', 'smt', [PE + 'get_geopotential_weights'],
             rc(geopotential_weights_contract, 5), replay=replay_matrices, group='pyvc-mat'),
      Clause("smt:get_geopotential_diff sparse (reverse cumulative sum) == dense (matrix product) for all layer counts", 'smt',
             [PE + 'get_geopotential_diff', 'dinosaur.jax_numpy_utils.reverse_cumsum'], rc(geopotential_sparse_contract, 4), replay=replay_matrices, group='pyvc-mat'),
      Clause('smt:get_temperature_implicit_weights == documented matrix H; H[r, s] / dsigma[s] constant below and above the diagonal (all layer counts)', 'smt',
             [PE + 'get_temperature_implicit_weights'], rc(temperature_weights_contract, 5), replay=replay_matrices, group='pyvc-mat'),
      Clause('smt:get_temperature_implicit_weights rejects a reference temperature of the wrong length', 'smt', [PE + 'get_temperature_implicit_weights'],
             rc(temperature_length_contract, 2), group='pyvc-mat'),
      Clause("smt:get_temperature_implicit sparse (cumulative sums) == dense (matrix product) for all layer counts, with and without the downward part", 'smt',
             [PE + 'get_temperature_implicit', 'dinosaur.jax_numpy_utils.cumsum', 'dinosaur.jax_numpy_utils.reverse_cumsum'], rc(temperature_sparse_contract, 4),
             replay=replay_matrices, group='pyvc-mat'),
      Clause('lemma:row sums with weights proportional to y below / above the diagonal reduce to prefix sums of y (induction: base + 3 step cases)', 'smt',
             [PE + 'get_temperature_implicit', PE + 'get_geopotential_diff'], rc(partial_sum_lemma, 4), group='pyvc-mat'),
      Clause('canary:geopotential weight matrix is diagonal must fail', 'smt', [PE + 'get_geopotential_weights'], rc(canary_contract, 1), canary=True, group='pyvc-mat'),
  ]
  for c in out:
    if 'sparse' in c.name:
      c.refutation_needs_replay = True       # ghost partial sums: incomplete theory for the solver
  return out if only is None else [c for c in out if any(k in c.name for k in only)]
