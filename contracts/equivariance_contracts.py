"""C10: the explicit tendencies are equivariant under the equatorial mirror and under rotations, at the level of operator expressions.

The real `explicit_terms` (with the real `compute_diagnostic_state`, `get_cos_lat_vector`, gradient / divergence / curl wrappers, advection and
pressure terms) is executed over abstract fields (contracts/wind_contracts.py) twice: on a state x and on the transformed state T x (with the
transformed orography).  The symmetry acts on expressions by the rules proved index-wise for all sizes in this property:
   mirror M:   d_dlon, laplacian, inverse_laplacian, clip_wavenumbers commute with M;  cos_lat_d_dlat and sec_lat_d_dlat_cos2 anti-commute;
               to_nodal / to_modal intertwine M with the grid-space flip (bounded numeric clause of this property);  pointwise products map
               factor-wise;  vertical operators (sigma integrals, slices along the level axis, vertical advection, the omega term) act on the
               level axis only and commute;  f = 2 Omega sin(lat) is odd, sec^2(lat), the sigma values and the reference temperature are even;
               f = 2 Omega sin(lat) is computed by the real `coriolis_parameter` property from the grid's sin(lat) mesh (odd under the mirror); the state transforms as (zeta, delta, T', ln ps, q) -> (-M zeta, M delta, M T', M ln ps, M q)   (vorticity is a pseudo-scalar).
   rotation R: every operator commutes and every constant is invariant.
Obligation:  F(T x) == T' F(x)  field by field, decided by multilinear normal form (vlib/pyvc/multilinear.py): both sides are expanded into signed
monomials over the operators and compared -- no solver, all fields, all sizes, all level counts.
"""
from __future__ import annotations

import z3

from contracts import wind_contracts as W
from vlib.core import Clause
from vlib.pyvc import engine as E
from vlib.pyvc import multilinear as ML
from vlib.pyvc.run import run_contract

Fld = W.Fld
U1 = lambda n: z3.Function(n, Fld, Fld)
CSI = U1('cumulative_sigma_integral')
RECIP = U1('nodal_reciprocal')
SIGH, TREF, ONE, SINLAT, LONF = (z3.Const(n, Fld) for n in ('sigma_half_levels', 'T_ref', 'nodal_one', 'sin_lat', 'longitude'))
_SLICES = {}


def mkstate(**fields):
  """tree_math.struct record of its fields (A4) with the `asdict` the WithTime classes use."""
  o = E.Obj(**fields)
  o.asdict = E.SymCallable(lambda en_: {k: v for k, v in o.__dict__.items() if k != 'asdict'}, 'struct.asdict()')
  return o


def _clip_state(x):
  if isinstance(x, dict):
    return {k: _clip_state(v) for k, v in x.items()}
  if isinstance(x, (tuple, list)):
    return type(x)(_clip_state(v) for v in x)
  if isinstance(x, E.Obj):
    return mkstate(**{k: _clip_state(v) for k, v in x.__dict__.items() if k != 'asdict'})
  return W.CLIP(x) if W._is_fld(x) else x


GEO = U1('geopotential_diff')
HOP = U1('temperature_implicit_operator')          # get_temperature_implicit(., T_ref, kappa): linear on the level axis, carries kappa * T_ref (C03 / C04)
SIGSUM = U1('thickness_weighted_sum')


class Marker:
  def __init__(self, name):
    self.name = name


def _slice_op(a, b):
  key = (a, b)
  if key not in _SLICES:
    _SLICES[key] = U1(f'level_slice_{a}_{b}'.replace('-', 'm'))
  return _SLICES[key]


def _setup(en):
  W._sw_setup(en)
  import functools
  import jax
  import numpy as np
  from jax import lax
  from dinosaur import primitive_equations as pe, sigma_coordinates as sc
  from vlib.pyvc.libspec import _reg
  base = en.sort_ops['Fld']

  def add(en_, a, b):
    if isinstance(a, int) and a == 0 and W._is_fld(b):
      return b
    if isinstance(b, int) and b == 0 and W._is_fld(a):
      return a
    if W._is_fld(a) and not W._is_fld(b) and not isinstance(b, (list, tuple)):
      return W.ADD(a, W.SCALE(E._real(b), ONE))                 # field + scalar: the scalar times the constant field one
    if W._is_fld(b) and not W._is_fld(a) and not isinstance(a, (list, tuple)):
      return W.ADD(W.SCALE(E._real(a), ONE), b)
    return base['Add'](en_, a, b)

  def div(en_, a, b):
    if W._is_fld(a) and W._is_fld(b):
      return W.NMUL(a, RECIP(b))                               # pointwise division of nodal fields
    return base['Div'](en_, a, b)
  en.sort_ops['Fld'] = dict(en.sort_ops['Fld'], Add=add, Div=div)

  def tree_map(en_, f, *trees):
    t0 = trees[0]
    if isinstance(t0, dict):
      return {k: tree_map(en_, f, *[t[k] for t in trees]) for k in t0}
    if isinstance(t0, (tuple, list)) and not isinstance(t0, W.Stack):
      return type(t0)(tree_map(en_, f, *[t[i] for t in trees]) for i in range(len(t0)))
    if isinstance(t0, E.Obj) and not isinstance(t0, W.Stack):
      return mkstate(**{k: tree_map(en_, f, *[getattr(t, k) for t in trees]) for k in t0.__dict__ if k != 'asdict'})
    kind, rr = en_.invoke(f, *trees)
    if kind == 'raise':
      raise E.PathRaise(rr)
    return rr
  _reg(en, jax.tree_util.tree_map, tree_map, 'jax.tree_util.tree_map (structure of the first tree; later trees are passed sub-tree-wise)')
  _reg(en, jax.tree.map, tree_map, 'jax.tree.map')
  en.contracts[E._callable_key(sc.cumulative_sigma_integral)] = lambda en_, x, coords, **k: CSI(x)
  en.contracts[E._callable_key(sc.sigma_integral)] = lambda en_, x, coords, **k: W.SIGINT(x)
  en.contracts[E._callable_key(sc.centered_vertical_advection)] = lambda en_, w, x, coords, **k: W.VADV(w, x)
  en.contracts[E._callable_key(pe.State)] = lambda en_, **kw: mkstate(**kw)
  en.contracts[E._callable_key(pe.StateWithTime)] = lambda en_, **kw: mkstate(**kw)
  # the real default of `ideal_gas_constant` is a bare number (the constant non-dimensionalised under the default scale): kept as such
  en.contracts[E._callable_key(pe.get_geopotential_diff)] = lambda en_, t, coords, r=pe.IDEAL_GAS_CONSTANT, **k: W.SCALE(E._real(r), GEO(t))
  en.trusted.add('callee contract: get_geopotential_diff(T, ., R) == R * (a linear operator on the level axis)(T): C03 / C13')
  en.contracts[E._callable_key(pe.get_temperature_implicit)] = lambda en_, d, coords, tref, kappa=None, **k: W.SCALE(E._real(kappa), HOP(d))
  en.contracts[E._callable_key(pe._vertical_matvec)] = lambda en_, w, x: SIGSUM(x)
  import jax.numpy as jnp
  _reg(en, jnp.zeros_like, lambda en_, x: W.SCALE(z3.RealVal(0), x), 'jnp.zeros_like(x) == 0 * x')
  en.contracts[E._callable_key(pe.DiagnosticState)] = lambda en_, **kw: E.Obj(**kw)
  _reg(en, np.cumsum, lambda en_, x, *a, **k: Marker('sigma_half') if isinstance(x, Marker) else (_ for _ in ()).throw(E.Unsupported('cumsum')), 'np.cumsum(layer_thickness): the half-level sigma values')
  en.libspec[('subscript', 'Marker')] = (None, lambda en_, m, idx: SIGH)
  _reg(en, lax.slice_in_dim, lambda en_, x, a, b, **k: _slice_op(a, b)(x), 'lax.slice_in_dim along the level axis (uninterpreted linear operator per slice)')

  def h_partial(en_, f, *a, **k):
    return E.SymCallable(lambda en__, *b, **k2: en__.call(f, list(a) + list(b), dict(k, **k2)), 'functools.partial')
  _reg(en, functools.partial, h_partial, 'functools.partial')
  en.libspec[('binop', 'Stack', 'Pow')] = (None, lambda en_, a, b: W.Stack(W.NMUL(x, x) for x in a) if b == 2 else (_ for _ in ()).throw(E.Unsupported('power')))
  en.libspec[('attr', 'Fld', 'ravel')] = (None, lambda en_, x: E.SymCallable(lambda en__: x, 'ravel'))
  flag = z3.Bool('reference_profile_varies')
  en.flag_varies = flag
  _reg(en, np.unique, lambda en_, x: E.Obj(size=z3.If(flag, z3.IntVal(2), z3.IntVal(1))), 'np.unique(T_ref).size > 1 <=> the reference profile varies')


def _grid(en):
  g, r = W._grid(en)
  lift = W._lift

  def lift_tree(f):
    def h(en_, x, *a, **k):
      if isinstance(x, dict):
        return {kk: h(en_, v) for kk, v in x.items()}
      return lift(f)(en_, x)
    return h
  for nm, f in (('to_nodal', W.TON), ('to_modal', W.TOM), ('laplacian', W.LAP)):
    setattr(g, nm, E.SymCallable(lift_tree(f), f'Grid.{nm} (uninterpreted, leaf-wise)'))
  g.sec2_lat = W.SEC2F
  g.nodal_mesh = (LONF, SINLAT)
  g.clip_wavenumbers = E.SymCallable(lambda en_, x, n=1: _clip_state(x), 'Grid.clip_wavenumbers leaf-wise')
  return g, r


FIELDS = ('vorticity', 'divergence', 'temperature_variation', 'log_surface_pressure')


def _run_primitive(en, g, state, oro, moist=False, method='explicit_terms', with_time=False):
  from dinosaur import primitive_equations as pe, sigma_coordinates as sc
  Rg, grav, kappa = en.real('ideal_gas_constant'), en.real('gravity'), en.real('kappa')
  specs = E.Obj(R=Rg, ideal_gas_constant=Rg, g=grav, kappa=kappa, angular_velocity=en.real('angular_velocity'))
  if moist:
    specs.R_vapor, specs.Cp, specs.Cp_vapor = en.real('R_vapor'), en.real('Cp'), en.real('Cp_vapor')
  coords = E.Obj(horizontal=g, vertical=E.Obj(layers=en.int('layers'), layer_thickness=Marker('thickness')), dycore_sharding=None)
  self = E.Obj(class_ref=pe.MoistPrimitiveEquations if moist else (pe.PrimitiveEquationsWithTime if with_time else pe.PrimitiveEquations), coords=coords, orography=oro, T_ref=TREF,
               include_vertical_advection=True, vertical_advection=sc.centered_vertical_advection, physics_specs=specs, vertical_matmul_method='dense', reference_temperature=TREF,
               _t_omega_over_sigma_sp=E.SymCallable(lambda en_, t, gt, v: W.TOMEGA(t, gt, v), '_t_omega_over_sigma_sp (column contract: C05)'))
  kind, out = en.invoke(en.getattr(self, method), state)
  if kind == 'raise':
    raise E.Unsupported(f'{method} raised {out}')
  return out


def primitive_equivariance_contract(en: E.Engine, moist=False, method='explicit_terms', with_time=False):
  W._neg_fix(en)
  g, r = _grid(en)
  C = lambda nm: z3.Const(nm, Fld)
  names = ['zeta', 'delta', 'T', 'lnps', 'q']
  x = {n: C(n) for n in names}
  qname = 'specific_humidity' if moist else 'q'
  mk = lambda d, sign_z: mkstate(vorticity=W.NEG(d['zeta']) if sign_z < 0 else d['zeta'], divergence=d['delta'], temperature_variation=d['T'], log_surface_pressure=d['lnps'],
                              tracers={qname: d['q']}, **({'sim_time': en.real('sim_time')} if (moist or with_time) else {}))
  if moist:
    en.assume(z3.And(z3.Real('Cp') > 0, z3.Real('ideal_gas_constant') > 0))
  en.cover('requires: radius > 0')
  ORO = W.ORO
  fx = _run_primitive(en, g, mk(x, +1), ORO, moist, method, with_time)
  if moist or with_time:
    en.ensure(f'{method}: the tendency of the carried simulation time is the constant ' + ('1' if method == 'explicit_terms' else '0'),
              E._real(fx.sim_time) == (1 if method == 'explicit_terms' else 0))
  alg = ML.Algebra(bilinear={'vertical_advection'}, opaque={'t_omega_over_sigma_sp', 'nodal_reciprocal'})
  for sym, pre, zsign, op_sign, coriolis_img in (('mirror', 'm_', -1, {'cos_lat_d_dlat': -1, 'sec_lat_d_dlat_cos2': -1}, W.NEG(SINLAT)), ('rotation', 'r_', +1, {}, SINLAT)):
    tx = {n: C(pre + n) for n in names}
    oro_t = C(pre + 'orography')
    ftx = _run_primitive(en, g, mk(tx, zsign), oro_t, moist, method, with_time)
    atom_map = {n: tx[n] for n in names}
    atom_map.update({'orography': oro_t, 'sin_lat': coriolis_img, 'sec2_lat': W.SEC2F, 'sigma_half_levels': SIGH, 'T_ref': TREF, 'nodal_one': ONE})
    outs = [(f, getattr(fx, f), getattr(ftx, f)) for f in FIELDS] + [(f'tracer {qname}', fx.tracers[qname], ftx.tracers[qname])]
    for f, a, b in outs:
      img = ML.transform(a, atom_map, op_sign, W.NEG)
      if f == 'vorticity' and zsign < 0:
        img = W.NEG(img)
      ok, why = alg.equal(b, img)
      en.results.append(E.ObligationResult(f'{sym}: {method}(T x).{f} == T {method}(x).{f}' + (' (pseudo-scalar: sign flips)' if f == 'vorticity' and zsign < 0 else ''),
                                           'valid' if ok else 'invalid', back_end='multilinear-normal-form', detail=why))


REFPOT = z3.Const('reference_potential', Fld)


def shallow_water_equivariance_contract(en: E.Engine, method='explicit_terms'):
  W._neg_fix(en)
  from dinosaur import shallow_water as sw
  g, r = _grid(en)
  C = lambda nm: z3.Const(nm, Fld)
  names = ['zeta', 'delta', 'phi']

  def run(d, zsign, oro):
    self = E.Obj(class_ref=sw.ShallowWaterEquations, coords=E.Obj(horizontal=g), orography=oro, physics_specs=E.Obj(angular_velocity=en.real('angular_velocity')), ref_potential=REFPOT,
                 density_ratios=z3.Const('density_ratios', z3.DeclareSort('LayerMatrix')))
    kind, out = en.invoke(en.getattr(self, method), E.Obj(vorticity=W.NEG(d['zeta']) if zsign < 0 else d['zeta'], divergence=d['delta'], potential=d['phi']))
    if kind == 'raise':
      raise E.Unsupported(f'{method} raised {out}')
    return out
  en.cover('requires: radius > 0')
  x = {n: C(n) for n in names}
  fx = run(x, +1, W.ORO)
  alg = ML.Algebra()
  for sym, pre, zsign, op_sign, coriolis_img in (('mirror', 'm_', -1, {'cos_lat_d_dlat': -1, 'sec_lat_d_dlat_cos2': -1}, W.NEG(SINLAT)), ('rotation', 'r_', +1, {}, SINLAT)):
    tx = {n: C(pre + n) for n in names}
    oro_t = C(pre + 'orography')
    ftx = run(tx, zsign, oro_t)
    atom_map = {n: tx[n] for n in names}
    atom_map.update({'orography': oro_t, 'sin_lat': coriolis_img, 'sec2_lat': W.SEC2F, 'reference_potential': REFPOT})
    for f in ('vorticity', 'divergence', 'potential'):
      img = ML.transform(getattr(fx, f), atom_map, op_sign, W.NEG)
      if f == 'vorticity' and zsign < 0:
        img = W.NEG(img)
      ok, why = alg.equal(getattr(ftx, f), img)
      en.results.append(E.ObligationResult(f'shallow water, {sym}: {method}(T x).{f} == T {method}(x).{f}', 'valid' if ok else 'invalid',
                                           back_end='multilinear-normal-form', detail=why))


# ---- C20: Held-Suarez forcing as an operator expression ---------------------------------------------------------------------------------------

KV, KT, COSL = (z3.Const(n, Fld) for n in ('kv', 'kt', 'cos_lat'))
TEQ, EXPF = U1('equilibrium_temperature'), U1('nodal_exp')


def held_suarez_contract(en: E.Engine, mode='expression'):
  """HeldSuarezForcing.explicit_terms == Rayleigh drag on the wind and Newtonian relaxation of the temperature, as an operator expression:
       (vorticity, divergence) tendency = (curl, div) of to_modal(-kv * u cos(lat) / cos^2(lat)) with u cos(lat) the *unclipped* cos-lat wind of the state,
       temperature tendency = to_modal(-kt * (T_ref + T' - T_eq(exp(ln ps)))),   log-surface-pressure and tracer tendencies zero.
  kv, kt and T_eq are opaque nodal coefficient fields here (their formulas are the coefficient clauses of this property)."""
  W._neg_fix(en)
  import jax.numpy as jnp
  from dinosaur import held_suarez as hs
  from vlib.pyvc.libspec import _reg
  g, r = _grid(en)
  g.cos_lat = COSL
  base = en.sort_ops['Fld']
  en.sort_ops['Fld'] = dict(base, Pow=lambda en_, a, b: W.NMUL(a, a) if (W._is_fld(a) and b == 2) else (_ for _ in ()).throw(E.Unsupported('power of a field')))
  _reg(en, jnp.exp, lambda en_, x: EXPF(x), 'jnp.exp on a nodal field (opaque)')
  en.libspec[('subscript', 'Fld')] = (None, lambda en_, x, idx: x)            # reference_temperature[:, None, None]: broadcast against the field
  C = lambda nm: z3.Const(nm, Fld)
  zeta, delta, T, lnps, q = (C(n) for n in ('zeta', 'delta', 'T', 'lnps', 'q'))
  self = E.Obj(class_ref=hs.HeldSuarezForcing, coords=E.Obj(horizontal=g, vertical=E.Obj(layers=en.int('layers'), layer_thickness=Marker('thickness')), dycore_sharding=None),
               reference_temperature=TREF, kv=E.SymCallable(lambda en_: KV, 'kv() (coefficient clause of this property)'), kt=E.SymCallable(lambda en_: KT, 'kt()'),
               equilibrium_temperature=E.SymCallable(lambda en_, p: TEQ(p), 'equilibrium_temperature(p)'))
 
  def run(z_, d_, t_, p_):
    kind, out = en.invoke(en.getattr(self, 'explicit_terms'), mkstate(vorticity=z_, divergence=d_, temperature_variation=t_, log_surface_pressure=p_, tracers={'q': q}))
    if kind == 'raise':
      raise E.Unsupported(f'explicit_terms raised {out}')
    return out
  en.cover('requires: radius > 0')
  out = run(zeta, delta, T, lnps)
  if mode == 'symmetry':
    alg = ML.Algebra(opaque={'equilibrium_temperature', 'nodal_exp', 'nodal_reciprocal'})
    for sym, pre, zsign, op_sign in (('mirror', 'm_', -1, {'cos_lat_d_dlat': -1, 'sec_lat_d_dlat_cos2': -1}), ('rotation', 'r_', +1, {})):
      tz, td, tt, tp = (C(pre + n) for n in ('zeta', 'delta', 'T', 'lnps'))
      outT = run(W.NEG(tz) if zsign < 0 else tz, td, tt, tp)
      atom_map = {'zeta': tz, 'delta': td, 'T': tt, 'lnps': tp, 'kv': KV, 'kt': KT, 'cos_lat': COSL, 'T_ref': TREF, 'nodal_one': ONE}
      for f in FIELDS:
        img = ML.transform(getattr(out, f), atom_map, op_sign, W.NEG)
        if f == 'vorticity' and zsign < 0:
          img = W.NEG(img)
        ok, why = alg.equal(getattr(outT, f), img)
        en.results.append(E.ObligationResult(f'Held-Suarez, {sym}: explicit_terms(T x).{f} == T explicit_terms(x).{f}', 'valid' if ok else 'invalid', back_end='multilinear-normal-form', detail=why))
    return
  if mode == 'dimension':
    dims = dict(ATOM_DIMS, kv=(0, -1, 0), kt=(0, -1, 0), cos_lat=DIM0)
    for nm, term, d in (('vorticity', out.vorticity, (0, -1, 0)), ('divergence', out.divergence, (0, -1, 0)), ('temperature_variation', out.temperature_variation, TEMP),
                        ('log_surface_pressure', out.log_surface_pressure, DIM0)):
      try:
        got = field_dim(term, dims)
        ok, why = (got is ZERO or got == _dmul(d, (0, -1, 0))), f'dimension (length, time, temperature) = {got}'
      except DimensionError as e:
        ok, why = False, str(e)
      en.results.append(E.ObligationResult(f'Held-Suarez: the {nm} tendency is dimensionally homogeneous with dimension [{nm}] / time', 'valid' if ok else 'invalid', back_end='dimension-typing', detail=why))
    return
  u0, u1 = W._wind_spec(zeta, delta, r, False)                                  # compute_diagnostic_state takes the wind with clip=False
  drag = lambda c: W.TOM(W.NMUL(W.NMUL(W.NEG(KV), W.TON(c)), RECIP(W.NMUL(COSL, COSL))))
  v = (drag(u0), drag(u1))
  W.ensure_expr(en, 'vorticity tendency == curl_cos_lat(to_modal(-kv u cos(lat) / cos^2(lat))) with the unclipped wind of the state',
                out.vorticity == W.CLIP(W.DIVS(W.SUB(W.DLON(v[1]), W.SLDC(v[0])), r)))
  W.ensure_expr(en, 'divergence tendency == div_cos_lat(to_modal(-kv u cos(lat) / cos^2(lat)))', out.divergence == W.CLIP(W.DIVS(W.ADD(W.DLON(v[0]), W.SLDC(v[1])), r)))
  W.ensure_expr(en, 'temperature tendency == to_modal(-kt (T_ref + T\' - T_eq(exp(ln ps))))',
                out.temperature_variation == W.TOM(W.NMUL(W.NEG(KT), W.SUB(W.ADD(TREF, W.TON(T)), TEQ(EXPF(W.TON(lnps)))))))
  alg = ML.Algebra(opaque={'equilibrium_temperature', 'nodal_exp', 'nodal_reciprocal'})
  zero = lambda t: not alg.expand(t)
  en.results.append(E.ObligationResult('log-surface-pressure tendency (and any tracer tendency returned) is exactly zero', 'valid' if zero(out.log_surface_pressure) and all(zero(v_) for v_ in getattr(out, 'tracers', {}).values()) else 'invalid',
                                       back_end='multilinear-normal-form'))


def held_suarez_clauses(which='C20'):
  rc = lambda c, n=2, **kw: (lambda ctx: run_contract((lambda en: c(en, **kw)) if kw else c, min_obligations=n, setup=_setup, timeout_ms=30000, max_paths=50))
  H = 'dinosaur.held_suarez.HeldSuarezForcing.'
  if which == 'C10':
    return [Clause('smt:HeldSuarezForcing.explicit_terms equivariant under the equatorial mirror and under rotations as an operator expression (all fields, sizes)', 'smt', [H + 'explicit_terms'],
                   rc(held_suarez_contract, 8, mode='symmetry'), group='pyvc')]
  if which == 'C12':
    return [Clause('smt:Held-Suarez tendencies are dimensionally homogeneous ([field] / time) as operator expressions (all fields, sizes)', 'smt', [H + 'explicit_terms'],
                   rc(held_suarez_contract, 4, mode='dimension'), group='pyvc')]
  return [Clause('smt:HeldSuarezForcing.explicit_terms == Rayleigh drag on the unclipped wind and Newtonian relaxation as an operator expression; pressure and tracer tendencies zero (all fields, sizes)', 'smt',
                 [H + 'explicit_terms', 'dinosaur.primitive_equations.compute_diagnostic_state'], rc(held_suarez_contract, 4), group='pyvc')]


# ---- C12: dimensional homogeneity of the tendencies (scale invariance) ---------------------------------------------------------------------

import fractions

DIM0 = (0, 0, 0)          # exponents of (length, time, temperature)
LEN, TIME, TEMP = (1, 0, 0), (0, 1, 0), (0, 0, 1)


def _dmul(*ds):
  return tuple(sum(d[i] for d in ds) for i in range(3))


def _dinv(d):
  return tuple(-x for x in d)


RGAS = _dmul((2, 0, 0), (0, -2, 0), (0, 0, -1))            # J / (kg K) = L^2 T^-2 K^-1
SCALAR_DIMS = {'radius': LEN, 'ideal_gas_constant': RGAS, 'R_vapor': RGAS, 'Cp': RGAS, 'Cp_vapor': RGAS, 'gravity': (1, -2, 0), 'kappa': DIM0, 'angular_velocity': (0, -1, 0)}
ATOM_DIMS = {'zeta': (0, -1, 0), 'delta': (0, -1, 0), 'T': TEMP, 'lnps': DIM0, 'q': DIM0, 'phi': (2, -2, 0), 'orography': None, 'coriolis_parameter': (0, -1, 0), 'sin_lat': DIM0,
             'sec2_lat': DIM0, 'sigma_half_levels': DIM0, 'T_ref': TEMP, 'nodal_one': DIM0}
# operators that carry a dimension of their own (by their contracts: the Laplacian eigenvalues are -l(l+1)/radius^2, C02); all others are dimensionless maps
OP_DIMS = {'laplacian': (-2, 0, 0), 'inverse_laplacian': (2, 0, 0), 'temperature_implicit_operator': TEMP}


ZERO = 'zero'          # dimension of the exact zero field: compatible with every dimension


class DimensionError(Exception):
  pass


def scalar_dim(t):
  if z3.is_rational_value(t) or z3.is_int_value(t):
    return DIM0
  k, ch = t.decl().kind(), t.children()
  if k in (z3.Z3_OP_ADD, z3.Z3_OP_SUB):
    ds = {scalar_dim(c) for c in ch}
    if len(ds) != 1:
      raise DimensionError(f'scalars of different dimensions are added: {t}')
    return ds.pop()
  if k == z3.Z3_OP_MUL:
    return _dmul(*[scalar_dim(c) for c in ch])
  if k == z3.Z3_OP_DIV:
    return _dmul(scalar_dim(ch[0]), _dinv(scalar_dim(ch[1])))
  if k in (z3.Z3_OP_UMINUS, z3.Z3_OP_TO_REAL):
    return scalar_dim(ch[0])
  if k == z3.Z3_OP_UNINTERPRETED and not ch:
    if str(t) in SCALAR_DIMS:
      return SCALAR_DIMS[str(t)]
  raise DimensionError(f'no dimension known for scalar {t}')


def field_dim(t, atom_dims, memo=None):
  memo = {} if memo is None else memo
  k_ = t.get_id()
  if k_ not in memo:
    memo[k_] = _field_dim(t, atom_dims, memo)
  return memo[k_]


def _field_dim(t, atom_dims, memo):
  name, ch = t.decl().name(), t.children()
  if not ch:
    d = atom_dims.get(str(t))
    if d is None:
      raise DimensionError(f'no dimension given for field {t}')
    return d
  if name in ('fld_add', 'fld_sub'):
    da, db = field_dim(ch[0], atom_dims, memo), field_dim(ch[1], atom_dims, memo)
    if da is ZERO or db is ZERO:           # an exact zero has every dimension
      return db if da is ZERO else da
    if da != db:
      raise DimensionError(f'terms of dimensions {da} and {db} (length, time, temperature exponents) are added: {str(ch[0])[:160]}  +/-  {str(ch[1])[:160]}')
    return da
  if name == 'fld_neg':
    return field_dim(ch[0], atom_dims, memo)
  if name != 't_omega_over_sigma_sp' and any(field_dim(c, atom_dims, memo) is ZERO for c in ch if str(c.sort()) == 'Fld'):
    return ZERO                             # every operator here is linear in each field argument: it maps zero to zero
  if name == 'fld_scale':
    if z3.is_rational_value(ch[0]) and ch[0].numerator_as_long() == 0:
      return ZERO
    d = field_dim(ch[1], atom_dims, memo)
    return ZERO if d is ZERO else _dmul(scalar_dim(ch[0]), d)
  if name == 'fld_div':
    return _dmul(field_dim(ch[0], atom_dims, memo), _dinv(scalar_dim(ch[1])))
  if name in ('nodal_mul', 'vertical_advection'):
    return _dmul(field_dim(ch[0], atom_dims, memo), field_dim(ch[1], atom_dims, memo))
  if name == 'nodal_reciprocal':
    return _dinv(field_dim(ch[0], atom_dims, memo))
  if name == 'nodal_exp':
    if field_dim(ch[0], atom_dims, memo) not in (DIM0, ZERO):
      raise DimensionError('exp of a dimensional quantity')
    return DIM0
  if name == 'equilibrium_temperature':
    return TEMP                           # T_eq(p / p0): a temperature (its formula is a coefficient clause of C20)
  if name == 't_omega_over_sigma_sp':
    dg, dv = field_dim(ch[1], atom_dims, memo), field_dim(ch[2], atom_dims, memo)
    if dg != dv:
      raise DimensionError(f'omega term: G and v.grad(ln ps) have dimensions {dg} and {dv}')
    return _dmul(field_dim(ch[0], atom_dims, memo), dg)
  if len(ch) == 1:
    return _dmul(OP_DIMS.get(name, DIM0), field_dim(ch[0], atom_dims, memo))
  raise DimensionError(f'operator {name} has no dimension rule')


def dimension_contract(en: E.Engine, which='dry', method='explicit_terms'):
  """Every explicit tendency is dimensionally homogeneous, with the dimension of its field per unit time: length, time and temperature
  exponents are propagated through the operator expression computed from the real source; two terms of different dimensions can never be added.
  A dimensionally homogeneous expression takes the same physical value in every system of units: scales only relabel numbers."""
  W._neg_fix(en)
  g, r = _grid(en)
  C = lambda nm: z3.Const(nm, Fld)
  en.cover('requires: radius > 0')
  per_time = lambda d: _dmul(d, (0, -1, 0))
  if which == 'shallow':
    from dinosaur import shallow_water as sw
    self = E.Obj(class_ref=sw.ShallowWaterEquations, coords=E.Obj(horizontal=g), orography=W.ORO, physics_specs=E.Obj(angular_velocity=en.real('angular_velocity')), ref_potential=REFPOT,
                 density_ratios=z3.Const('density_ratios', z3.DeclareSort('LayerMatrix')))
    kind, out = en.invoke(en.getattr(self, method), E.Obj(vorticity=C('zeta'), divergence=C('delta'), potential=C('phi')))
    if kind == 'raise':
      raise E.Unsupported(f'{method} raised {out}')
    dims = dict(ATOM_DIMS, orography=(2, -2, 0), reference_potential=(2, -2, 0))            # shallow water: the orography is a geopotential
    fields = [('vorticity', out.vorticity, ATOM_DIMS['zeta']), ('divergence', out.divergence, ATOM_DIMS['delta']), ('potential', out.potential, ATOM_DIMS['phi'])]
  else:
    moist = which == 'moist'
    qname = 'specific_humidity' if moist else 'q'
    if moist:
      en.assume(z3.And(z3.Real('Cp') > 0, z3.Real('ideal_gas_constant') > 0))
    st = mkstate(vorticity=C('zeta'), divergence=C('delta'), temperature_variation=C('T'), log_surface_pressure=C('lnps'), tracers={qname: C('q')},
                 **({'sim_time': en.real('sim_time')} if moist else {}))
    out = _run_primitive(en, g, st, W.ORO, moist, method)
    dims = dict(ATOM_DIMS, orography=LEN)                   # primitive equations: the orography is a height (multiplied by g in the code)
    fields = [('vorticity', out.vorticity, ATOM_DIMS['zeta']), ('divergence', out.divergence, ATOM_DIMS['delta']), ('temperature_variation', out.temperature_variation, TEMP),
              ('log_surface_pressure', out.log_surface_pressure, DIM0), (f'tracer {qname}', out.tracers[qname], DIM0)]
  for nm, term, d in fields:
    try:
      got = field_dim(term, dims)
      ok, why = (got is ZERO or got == per_time(d)), f'dimension (length, time, temperature) = {got}, expected {per_time(d)}'
    except DimensionError as e:
      ok, why = False, str(e)
    en.results.append(E.ObligationResult(f'{which} {method}: the {nm} tendency is dimensionally homogeneous with dimension [{nm}] / time', 'valid' if ok else 'invalid', back_end='dimension-typing', detail=why))


def dimension_canary(en: E.Engine):
  """Must fail: with the orography taken as a geopotential (as in shallow water) the primitive divergence tendency is not homogeneous."""
  W._neg_fix(en)
  g, r = _grid(en)
  C = lambda nm: z3.Const(nm, Fld)
  st = mkstate(vorticity=C('zeta'), divergence=C('delta'), temperature_variation=C('T'), log_surface_pressure=C('lnps'), tracers={'q': C('q')})
  out = _run_primitive(en, g, st, W.ORO)
  try:
    field_dim(out.divergence, dict(ATOM_DIMS, orography=(2, -2, 0)))
    ok, why = True, 'homogeneous'
  except DimensionError as e:
    ok, why = False, str(e)
  en.results.append(E.ObligationResult('canary: divergence tendency homogeneous with the orography as a geopotential', 'valid' if ok else 'invalid', back_end='dimension-typing', detail=why))


def dimension_clauses():
  rc = lambda c, n=2, **kw: (lambda ctx: run_contract((lambda en: c(en, **kw)) if kw else c, min_obligations=n, setup=_setup, timeout_ms=30000, max_paths=50))
  P = 'dinosaur.primitive_equations.'
  return [
      Clause('smt:dry explicit tendencies are dimensionally homogeneous ([field] / time) as operator expressions: invariant under a change of units (all fields, sizes)', 'smt',
             [P + 'PrimitiveEquations.explicit_terms', P + 'compute_diagnostic_state'], rc(dimension_contract, 5, which='dry'), group='pyvc'),
      Clause('smt:dry implicit tendencies are dimensionally homogeneous ([field] / time) as operator expressions (all fields, sizes)', 'smt',
             [P + 'PrimitiveEquations.implicit_terms'], rc(dimension_contract, 5, which='dry', method='implicit_terms'), group='pyvc'),
      Clause('smt:moist explicit tendencies are dimensionally homogeneous ([field] / time) as operator expressions (all fields, sizes)', 'smt',
             [P + 'MoistPrimitiveEquations.explicit_terms'], rc(dimension_contract, 5, which='moist'), group='pyvc'),
      Clause('smt:shallow-water explicit tendencies are dimensionally homogeneous ([field] / time) as operator expressions (all fields, sizes)', 'smt',
             ['dinosaur.shallow_water.ShallowWaterEquations.explicit_terms'], rc(dimension_contract, 3, which='shallow'), group='pyvc'),
      Clause('smt:shallow-water implicit tendencies are dimensionally homogeneous ([field] / time) as operator expressions (all fields, sizes)', 'smt',
             ['dinosaur.shallow_water.ShallowWaterEquations.implicit_terms'], rc(dimension_contract, 3, which='shallow', method='implicit_terms'), group='pyvc'),
      Clause('canary:primitive divergence tendency homogeneous with the orography as a geopotential must fail', 'smt', [P + 'PrimitiveEquations.orography_tendency'],
             rc(dimension_canary, 1), canary=True, group='pyvc'),
  ]


def canary_contract(en: E.Engine):
  """The mirror must NOT be a symmetry if the Coriolis parameter is treated as even."""
  W._neg_fix(en)
  g, r = _grid(en)
  C = lambda nm: z3.Const(nm, Fld)
  names = ['zeta', 'delta', 'T', 'lnps', 'q']
  mk = lambda d, s: mkstate(vorticity=W.NEG(d['zeta']) if s < 0 else d['zeta'], divergence=d['delta'], temperature_variation=d['T'], log_surface_pressure=d['lnps'], tracers={'q': d['q']})
  x = {n: C(n) for n in names}
  tx = {n: C('m_' + n) for n in names}
  fx = _run_primitive(en, g, mk(x, +1), W.ORO)
  ftx = _run_primitive(en, g, mk(tx, -1), C('m_orography'))
  atom_map = dict({n: tx[n] for n in names}, **{'orography': C('m_orography'), 'sin_lat': SINLAT, 'sec2_lat': W.SEC2F, 'sigma_half_levels': SIGH, 'T_ref': TREF, 'nodal_one': ONE})
  alg = ML.Algebra(bilinear={'vertical_advection'}, opaque={'t_omega_over_sigma_sp', 'nodal_reciprocal'})
  img = W.NEG(ML.transform(fx.vorticity, atom_map, {'cos_lat_d_dlat': -1, 'sec_lat_d_dlat_cos2': -1}, W.NEG))
  ok, why = alg.equal(ftx.vorticity, img)
  en.results.append(E.ObligationResult('canary: mirror equivariance with an even Coriolis parameter', 'valid' if ok else 'invalid', back_end='multilinear-normal-form', detail=why))


def clauses():
  rc = lambda c, n=2, **kw: (lambda ctx: run_contract((lambda en: c(en, **kw)) if kw else c, min_obligations=n, setup=_setup, timeout_ms=30000, max_paths=50))
  P = 'dinosaur.primitive_equations.'
  return [
      Clause('smt:PrimitiveEquations.explicit_terms equivariant under the equatorial mirror and under rotations as an operator expression (all fields, sizes, level counts)', 'smt',
             [P + 'PrimitiveEquations.explicit_terms', P + 'compute_diagnostic_state', P + 'PrimitiveEquations.curl_and_div_tendencies', 'dinosaur.spherical_harmonic.get_cos_lat_vector'],
             rc(primitive_equivariance_contract, 10), group='pyvc'),
      Clause('smt:PrimitiveEquationsWithTime.explicit_terms equivariant under the equatorial mirror and under rotations; its simulation-time tendency is the constant 1 (operator expression, all fields, sizes)', 'smt',
             [P + 'PrimitiveEquationsWithTime.explicit_terms', P + 'PrimitiveEquationsWithTime._time_and_state'], rc(primitive_equivariance_contract, 10, with_time=True), group='pyvc'),
      Clause('smt:PrimitiveEquationsWithTime.implicit_terms equivariant; its simulation-time tendency is the constant 0 (operator expression, all fields, sizes)', 'smt',
             [P + 'PrimitiveEquationsWithTime.implicit_terms'], rc(primitive_equivariance_contract, 10, with_time=True, method='implicit_terms'), group='pyvc'),
      Clause('smt:PrimitiveEquations.implicit_terms equivariant under the equatorial mirror and under rotations as an operator expression (all fields, sizes, level counts)', 'smt',
             [P + 'PrimitiveEquations.implicit_terms'], rc(primitive_equivariance_contract, 10, method='implicit_terms'), group='pyvc'),
      Clause('smt:MoistPrimitiveEquations.explicit_terms (virtual temperature, humidity corrections of vorticity and divergence) equivariant under the equatorial mirror and under rotations as an operator expression', 'smt',
             [P + 'MoistPrimitiveEquations.explicit_terms', P + 'MoistPrimitiveEquations.curl_and_div_tendencies', P + 'MoistPrimitiveEquations.divergence_tendency_due_to_humidity',
              P + 'MoistPrimitiveEquations.vorticity_tendency_due_to_humidity', P + 'MoistPrimitiveEquations.nodal_temperature_adiabatic_tendency'],
             rc(primitive_equivariance_contract, 10, moist=True), group='pyvc'),
      Clause('smt:ShallowWaterEquations.explicit_terms equivariant under the equatorial mirror and under rotations as an operator expression (all fields, sizes, layer counts)', 'smt',
             ['dinosaur.shallow_water.ShallowWaterEquations.explicit_terms'], rc(shallow_water_equivariance_contract, 6), group='pyvc'),
      Clause('smt:ShallowWaterEquations.implicit_terms equivariant under the equatorial mirror and under rotations as an operator expression (all fields, sizes, layer counts)', 'smt',
             ['dinosaur.shallow_water.ShallowWaterEquations.implicit_terms'], rc(shallow_water_equivariance_contract, 6, method='implicit_terms'), group='pyvc'),
      Clause('canary:mirror equivariance with an even Coriolis parameter must fail', 'smt', [P + 'PrimitiveEquations.explicit_terms'], rc(canary_contract, 1), canary=True, group='pyvc'),
  ]
