"""C02: Laplacian eigenvalues, Laplacian, inverse Laplacian and wavenumber clipping -- index contracts from the real source, all sizes.

pyvc array mode along the total-wavenumber axis (the last axis; the other axes are carried elementwise by `x * vector`).  The abstract
Grid is class-backed (methods and cached properties come from the real class); its `modal_axes[1]` is given by the layout contract of
C01 (`l[k] = k` for k < L, 0 on the `pad` padded columns), radius is a positive real.  Proved for all L >= 1, pad >= 0, n >= 1:
  laplacian_eigenvalues[k] == -k (k + 1) / radius^2  (k < L), 0 on padding
  laplacian(x)[k] == eigenvalue[k] * x[k]
  inverse_laplacian(x)[k] == x[k] / eigenvalue[k] for 1 <= k < L, and 0 for k = 0 and on padding   (the division by the zero eigenvalue
      happens under np.errstate and is overwritten: the result must not depend on that non-finite entry)
  inverse_laplacian(laplacian(x)) == x on 1 <= k < L, and laplacian(inverse_laplacian(x)) == x there
  clip_wavenumbers(x, n)[k] == x[k] for k < L - n and 0 for k >= L - n (the n highest resolved wavenumbers *and* all padding); n <= 0 raises
"""
from __future__ import annotations

import z3

from vlib.core import Clause
from vlib.pyvc import arrays
from vlib.pyvc import engine as E
from vlib.pyvc.run import run_contract

SH = 'dinosaur.spherical_harmonic.Grid.'
X = z3.Function('x.at', z3.IntSort(), z3.RealSort())


def _setup(en):
  arrays.install(en)
  en.allow_nonfinite = True
  import jax.numpy as jnp
  import numpy as np
  from dinosaur import pytree_utils
  from vlib.pyvc.libspec import _reg
  en.contracts[E._callable_key(pytree_utils.tree_map_over_nonscalars)] = lambda en_, f, x, **k: en_.call(f, [x], {})
  en.libspec[('attr', 'SymSeq', 'dtype')] = (None, lambda en_, s: 'float')

  def h_ones(en_, n, *a, **k):
    one = E.SymSeq(n, lambda i: z3.RealVal(1), z3.RealSort(), 'ones')

    class At:
      def __init__(self, seq):
        self.seq = seq
    at = E.Obj(seq=one)
    return one
  _reg(en, jnp.ones, h_ones, 'jnp.ones(n)')

  def at_attr(en_, seq):
    class _At:
      pass
    holder = E.Obj(kind='at', seq=seq)
    return holder
  en.libspec[('attr', 'SymSeq', 'at')] = (None, at_attr)

  def sub_at(en_, holder, idx):
    def setter(en__, v):
      new = E.SymSeq(holder.seq.length, holder.seq.get, holder.seq.sort, holder.seq.name + '.at.set')
      en__.store_subscript(new, idx, v, None)
      return new
    return E.Obj(kind='at-index', set=E.SymCallable(setter, '.at[idx].set (functional update)'))
  en.libspec[('subscript', 'Obj')] = (None, lambda en_, obj, idx: sub_at(en_, obj, idx) if getattr(obj, 'kind', None) == 'at' else (_ for _ in ()).throw(E.Unsupported('subscript of abstract object')))
  _reg(en, np.isnan, lambda en_, x: E.Obj(any=E.SymCallable(lambda en__: False, 'isnan(...).any() == False over the reals (A1)')), 'np.isnan == False (reals, A1)')
  # unary minus on vectors
  orig = E.Engine.ex_UnaryOp

  def ex_UnaryOp(self, e, env):
    if isinstance(e.op, E.ast.USub):
      v = self.eval(e.operand, env)
      if isinstance(v, E.SymSeq):
        return E.SymSeq(v.length, lambda i: -v.get(i), v.sort, f'-{v.name}')
      if E.is_sym(v) and v.sort() == E.V:
        return self.vec('neg', v)
      return -v
    return orig(self, e, env)
  E.Engine.ex_UnaryOp = ex_UnaryOp


def _grid(en):
  from dinosaur import spherical_harmonic as sh
  L, pad, r = en.int('total_wavenumbers'), en.int('modal_padding_l'), en.real('radius')
  en.assume(z3.And(L >= 1, pad >= 0, r > 0))
  n = L + pad
  lseq = E.SymSeq(n, lambda k: z3.If(E.to_z3(k) < L, z3.ToReal(E.to_z3(k)), z3.RealVal(0)), z3.RealSort(), 'l')
  rows = en.int('modal_rows')
  npl, npt = en.int('nodal_padding_lon'), en.int('nodal_padding_lat')
  en.assume(z3.And(npl >= 0, npt >= 0))
  # attributes the functions under contract do not need are still given (as unconstrained symbols), so that a variant of the code that reads
  # them is decided instead of falling outside the subset
  g = E.Obj(class_ref=sh.Grid, total_wavenumbers=L, radius=r, modal_axes=(None, lseq), modal_shape=(rows, n), modal_padding=(en.int('modal_padding_m'), pad),
            nodal_padding=(npl, npt), nodal_shape=(en.int('nodal_lon'), en.int('nodal_lat')), longitude_wavenumbers=en.int('longitude_wavenumbers'), spmd_mesh=None)
  x = E.SymSeq(n, lambda k: X(E.to_z3(k)), z3.RealSort(), 'x')
  return g, L, pad, r, n, x


def eigen_contract(en: E.Engine):
  g, L, pad, r, n, x = _grid(en)
  en.cover('requires: L >= 1, padding >= 0, radius > 0')
  eig = en.getattr(g, 'laplacian_eigenvalues')
  k = en.int('k')
  en.assume(z3.And(k >= 0, k < n))
  en.ensure('laplacian_eigenvalues[k] == -k(k+1)/radius^2 for k < L and 0 on padded columns', eig.get(k) == z3.If(k < L, -z3.ToReal(k) * (z3.ToReal(k) + 1) / (r * r), 0))
  g.laplacian_eigenvalues = eig
  kind, y = en.invoke(en.getattr(g, 'laplacian'), x)
  en.ensure('laplacian(x)[k] == eigenvalue[k] * x[k]', z3.BoolVal(False) if kind == 'raise' else y.get(k) == eig.get(k) * X(k))


def inverse_contract(en: E.Engine):
  g, L, pad, r, n, x = _grid(en)
  en.cover('requires')
  eig = en.getattr(g, 'laplacian_eigenvalues')
  g.laplacian_eigenvalues = eig
  kind, y = en.invoke(en.getattr(g, 'inverse_laplacian'), x)
  if kind == 'raise':
    en.ensure(f'inverse_laplacian raises ({y})', False)
    return
  k = en.int('k')
  en.assume(z3.And(k >= 0, k < n))
  lam = -z3.ToReal(k) * (z3.ToReal(k) + 1) / (r * r)
  en.ensure('inverse_laplacian(x)[k] == x[k] / eigenvalue[k] for 1 <= k < L; 0 for the mean (k = 0) and on padding (independent of the non-finite 1/0 entry)',
            y.get(k) == z3.If(z3.And(k >= 1, k < L), X(k) / lam, 0))
  kind, z = en.invoke(en.getattr(g, 'laplacian'), y)
  en.ensure('laplacian(inverse_laplacian(x))[k] == x[k] for 1 <= k < L', z3.Implies(z3.And(k >= 1, k < L), z.get(k) == X(k)))
  kind, lx = en.invoke(en.getattr(g, 'laplacian'), x)
  kind, w = en.invoke(en.getattr(g, 'inverse_laplacian'), lx)
  en.ensure('inverse_laplacian(laplacian(x))[k] == x[k] for 1 <= k < L (zero-mean fields are recovered)', z3.Implies(z3.And(k >= 1, k < L), w.get(k) == X(k)))


def clip_contract(en: E.Engine):
  g, L, pad, r, n, x = _grid(en)
  nclip = en.int('n')
  en.cover('requires')
  kind, y = en.invoke(en.getattr(g, 'clip_wavenumbers'), x, nclip)
  if kind == 'raise':
    en.ensure('the only exception is ValueError', y == 'ValueError')
    en.ensure('clip_wavenumbers raises only for n <= 0', nclip <= 0)
    return
  en.ensure('n <= 0 is rejected', nclip >= 1)
  k = en.int('k')
  en.assume(z3.And(k >= 0, k < n))
  en.ensure('clip_wavenumbers(x, n)[k] == x[k] below L - n and 0 from L - n on (the n highest resolved wavenumbers and all padded columns)',
            z3.Implies(nclip <= L, y.get(k) == z3.If(k < L - nclip, X(k), 0)))


def canary_contract(en: E.Engine):
  g, L, pad, r, n, x = _grid(en)
  kind, y = en.invoke(en.getattr(g, 'clip_wavenumbers'), x, 1)
  k = en.int('k')
  en.assume(z3.And(k >= 0, k < n))
  if kind == 'return':
    en.ensure('canary: clipping one wavenumber zeroes only the last column', y.get(k) == z3.If(k < n - 1, X(k), 0))


def replay_grid(w):
  import numpy as np
  import jax
  jax.config.update('jax_enable_x64', True)
  import jax.numpy as jnp
  import functools
  from dinosaur import spherical_harmonic as sh
  for impl in (sh.RealSphericalHarmonics, functools.partial(sh.FastSphericalHarmonics, base_shape_multiple=4)):
    g = sh.Grid(longitude_wavenumbers=3, total_wavenumbers=5, longitude_nodes=8, latitude_nodes=6, radius=2.5, spherical_harmonics_impl=impl)
    n = g.modal_shape[1]
    x = np.arange(1.0, n + 1)[None, :] * np.ones((g.modal_shape[0], 1))
    l = np.arange(n)
    lam = np.where(l < 5, -l * (l + 1) / 2.5 ** 2, 0.0)
    inv = np.where((l >= 1) & (l < 5), 1 / np.where(lam == 0, 1, lam), 0.0)
    ok = (np.allclose(np.asarray(g.laplacian(jnp.asarray(x))), x * lam) and np.allclose(np.asarray(g.inverse_laplacian(jnp.asarray(x))), x * inv))
    for nc in (1, 2):
      want = x * (l < 5 - nc)
      ok = ok and np.array_equal(np.asarray(g.clip_wavenumbers(jnp.asarray(x), nc)), want)
    if not ok:
      return True, (f'{impl}: laplacian_eigenvalues {np.asarray(g.laplacian_eigenvalues).tolist()}, inverse_laplacian(x)[0] {np.asarray(g.inverse_laplacian(jnp.asarray(x)))[0].tolist()}, '
                    f'clip_wavenumbers(x, 1)[0] {np.asarray(g.clip_wavenumbers(jnp.asarray(x), 1))[0].tolist()}')
  return False, 'Grid.laplacian / inverse_laplacian / clip_wavenumbers agree with the index formulas on a padded and an unpadded grid'


def clauses():
  rc = lambda c, n=2: (lambda ctx: run_contract(c, min_obligations=n, setup=_setup, timeout_ms=60000))
  return [
      Clause('smt:laplacian_eigenvalues == -l(l+1)/radius^2 (0 on padding); laplacian multiplies by them (all L, padding, radius)', 'smt', [SH + 'laplacian_eigenvalues', SH + 'laplacian'],
             rc(eigen_contract, 3), replay=replay_grid, group='pyvc'),
      Clause('smt:inverse_laplacian == 1/eigenvalue on 1 <= l < L, 0 at l = 0 and on padding; inverse of the Laplacian on zero-mean fields (all sizes)', 'smt',
             [SH + 'inverse_laplacian', SH + 'laplacian', SH + 'laplacian_eigenvalues'], rc(inverse_contract, 4), replay=replay_grid, group='pyvc'),
      Clause('smt:clip_wavenumbers zeroes exactly the n highest resolved wavenumbers and the padding; n <= 0 rejected (all sizes)', 'smt', [SH + 'clip_wavenumbers'], rc(clip_contract, 3),
             replay=replay_grid, group='pyvc'),
      Clause('canary:clip zeroes only the last stored column must fail', 'smt', [SH + 'clip_wavenumbers'], rc(canary_contract, 1), canary=True, group='pyvc'),
  ]
