"""C19: spectral up/down-sampling and their selection -- VCs from the real source for all modal shapes.

coordinate_systems.get_spectral_upsample_fn / get_spectral_downsample_fn / get_spectral_interpolate_fn are executed by pyvc on abstract
coordinate systems whose modal shapes and wavenumber counts are symbolic integers.  Array operations enter as assumed contracts (A8):
  jnp.pad(x, ((0,0),...,(b0,a0),(b1,a1)))   x at offset (b0, b1) of the two trailing axes, zeros elsewhere
  x[..., s0, s1]                             the sub-block s0 x s1 of the two trailing axes
  pytree_utils.tree_map_over_nonscalars(f, state)   applies f to every non-scalar leaf (its own enumerated clause)
Post-conditions (from the property: up-sampling followed by down-sampling is the identity; up-sampling keeps every coefficient at its
(m, l) position and adds zeros):
  up   : pads only *after* the data (before-widths 0), by exactly save_shape - coords_shape on each of the two trailing axes, leading
         axes untouched; raises ValueError iff a save dimension is smaller
  down : slices [0:save_shape[0], 0:save_shape[1]] of the two trailing axes; raises ValueError iff the target has more wavenumbers
  down(up(x)) == x   follows: slice [0:c) of (x padded after by s - c) is x              (index lemma, stated over the recorded widths)
  interpolate: up iff both wavenumber counts grow, down iff neither grows, ValueError for the mixed case; vertical mismatch is rejected
         by both when expect_same_vertical.
"""
from __future__ import annotations

import z3

from vlib.core import Clause
from vlib.pyvc import engine as E
from vlib.pyvc.run import run_contract

CS = 'dinosaur.coordinate_systems.'


def _coords(en, tag, same_vertical_as=None):
  ms = (en.int(f'{tag}_modal_rows'), en.int(f'{tag}_modal_cols'))
  en.assume(z3.And(ms[0] >= 1, ms[1] >= 1))
  hor = E.Obj(modal_shape=ms, total_wavenumbers=en.int(f'{tag}_total_wavenumbers'), longitude_wavenumbers=en.int(f'{tag}_longitude_wavenumbers'))
  vert = same_vertical_as if same_vertical_as is not None else z3.Int(f'{tag}_vertical_id')
  return E.Obj(horizontal=hor, vertical=vert)


def _setup(en):
  import jax.numpy as jnp
  from dinosaur import pytree_utils
  en.contracts[E._callable_key(pytree_utils.tree_map_over_nonscalars)] = lambda en_, f, state, **k: en_.call(f, [state], {})
  en.trusted.add('pytree_utils.tree_map_over_nonscalars(f, state) applies f to each non-scalar leaf (enumerated clause of C19)')
  rec = en.__dict__.setdefault('recorded', {})

  def h_pad(en_, x, cfg, *a, **k):
    cfg = [tuple(c) for c in en_.iter_concrete(cfg)]
    rec['pad'] = cfg
    return E.Obj(kind='padded', of=x, cfg=cfg, ndim=x.ndim)
  en.contracts[E._callable_key(jnp.pad)] = h_pad

  def sub_arr(en_, obj, idx):
    rec['slice'] = idx
    return E.Obj(kind='sliced', of=obj, idx=idx, ndim=obj.ndim)
  en.libspec[('subscript', 'Arr')] = (None, sub_arr)


class Arr(E.Obj):
  pass


def upsample_contract(en: E.Engine):
  from dinosaur import coordinate_systems as cs
  c = _coords(en, 'coords')
  s = _coords(en, 'save', same_vertical_as=c.vertical)
  en.cover('requires')
  kind, f = en.invoke(en.load_function(cs.get_spectral_upsample_fn), c, s)
  c0, c1 = c.horizontal.modal_shape
  s0, s1 = s.horizontal.modal_shape
  fits = z3.And(s0 >= c0, s1 >= c1)
  if kind == 'raise':
    en.ensure('the only exception is ValueError', f == 'ValueError')
    en.ensure('up-sampling raises only if a target modal dimension is smaller than the source', z3.Not(fits))
    return
  en.ensure('up-sampling to a smaller modal shape is rejected', fits)
  x = Arr(ndim=3, kind='input')
  kind, y = en.invoke(f, x)
  cfg = en.recorded.get('pad')
  if kind == 'raise' or cfg is None:
    en.ensure(f'the up-sampling function pads its argument ({y})', False)
    return
  en.ensure('leading (level) axis is not padded; one (before, after) pair per axis', z3.BoolVal(len(cfg) == 3) if len(cfg) != 3 else z3.And(E.to_z3(cfg[0][0]) == 0, E.to_z3(cfg[0][1]) == 0))
  en.ensure('nothing is inserted before the data on the two trailing axes (coefficients keep their (m, l) positions)', z3.And(E.to_z3(cfg[-2][0]) == 0, E.to_z3(cfg[-1][0]) == 0))
  en.ensure('zeros appended: save_shape - coords_shape on the wavenumber axes (rows then columns)', z3.And(E.to_z3(cfg[-2][1]) == s0 - c0, E.to_z3(cfg[-1][1]) == s1 - c1))
  # down(up(x)) == x: the down-sampling function built for the swapped pair slices exactly the original block
  en.recorded.pop('slice', None)
  kind, g = en.invoke(en.load_function(cs.get_spectral_downsample_fn), s, c)
  if kind == 'raise':
    en.ensure('down-sampling back to the original (smaller or equal) shape is accepted', z3.Or(s.horizontal.total_wavenumbers < c.horizontal.total_wavenumbers,
                                                                                          s.horizontal.longitude_wavenumbers < c.horizontal.longitude_wavenumbers))
    return
  kind, z = en.invoke(g, Arr(ndim=3, kind='upsampled'))
  idx = en.recorded.get('slice')
  ok = isinstance(idx, tuple) and len(idx) == 3 and idx[0] is Ellipsis and all(isinstance(v, slice) for v in idx[1:])
  en.ensure('down-sampling slices the two trailing axes only', z3.BoolVal(ok))
  if ok:
    en.ensure('down(up(x)) == x: the slice is [0:coords_rows, 0:coords_cols], i.e. exactly the block the padding kept in place',
              z3.And(E.to_z3(idx[1].start) == 0, E.to_z3(idx[2].start) == 0, E.to_z3(idx[1].stop) == c0, E.to_z3(idx[2].stop) == c1))


def downsample_contract(en: E.Engine):
  from dinosaur import coordinate_systems as cs
  c = _coords(en, 'coords')
  s = _coords(en, 'save', same_vertical_as=c.vertical)
  en.cover('requires')
  kind, f = en.invoke(en.load_function(cs.get_spectral_downsample_fn), c, s)
  grows = z3.Or(c.horizontal.total_wavenumbers < s.horizontal.total_wavenumbers, c.horizontal.longitude_wavenumbers < s.horizontal.longitude_wavenumbers)
  if kind == 'raise':
    en.ensure('the only exception is ValueError', f == 'ValueError')
    en.ensure('down-sampling raises only if the target has more wavenumbers', grows)
    return
  en.ensure('down-sampling to a finer target is rejected', z3.Not(grows))
  kind, y = en.invoke(f, Arr(ndim=3, kind='input'))
  idx = en.recorded.get('slice')
  ok = isinstance(idx, tuple) and len(idx) == 3 and idx[0] is Ellipsis
  en.ensure('down-sampling keeps the leading block [0:save_rows, 0:save_cols] of the wavenumber axes',
            z3.BoolVal(False) if not ok else z3.And(E.to_z3(idx[1].start) == 0, E.to_z3(idx[1].stop) == s.horizontal.modal_shape[0],
                                                    E.to_z3(idx[2].start) == 0, E.to_z3(idx[2].stop) == s.horizontal.modal_shape[1]))


def vertical_contract(en: E.Engine):
  from dinosaur import coordinate_systems as cs
  c = _coords(en, 'coords')
  s = _coords(en, 'save')
  en.assume(c.vertical != s.vertical)
  en.cover('requires: different vertical discretisations')
  for nm, fn in (('up', cs.get_spectral_upsample_fn), ('down', cs.get_spectral_downsample_fn)):
    kind, f = en.invoke(en.load_function(fn), c, s)
    en.ensure(f'{nm}-sampling between different vertical discretisations is rejected when expect_same_vertical (ValueError)', z3.BoolVal(kind == 'raise' and f == 'ValueError'))


def interpolate_contract(en: E.Engine):
  from dinosaur import coordinate_systems as cs
  src, tgt = _coords(en, 'source'), _coords(en, 'target')
  picked = []
  en.contracts[E._callable_key(cs.get_spectral_upsample_fn)] = lambda en_, a, b, e=True: (picked.append(('up', a, b, e)), 'UP')[1]
  en.contracts[E._callable_key(cs.get_spectral_downsample_fn)] = lambda en_, a, b, e=True: (picked.append(('down', a, b, e)), 'DOWN')[1]
  en.cover('requires')
  kind, r = en.invoke(en.load_function(cs.get_spectral_interpolate_fn), src, tgt)
  Ls, Lt = src.horizontal.total_wavenumbers, tgt.horizontal.total_wavenumbers
  Ms, Mt = src.horizontal.longitude_wavenumbers, tgt.horizontal.longitude_wavenumbers
  both_grow, none_grow = z3.And(Ls < Lt, Ms < Mt), z3.And(Ls >= Lt, Ms >= Mt)
  if kind == 'raise':
    en.ensure('the only exception is ValueError', r == 'ValueError')
    en.ensure('raises exactly in the mixed case (one count grows, the other does not)', z3.And(z3.Not(both_grow), z3.Not(none_grow)))
    return
  en.ensure('up-sampling is chosen iff both wavenumber counts grow; down-sampling iff neither grows', z3.If(r == 'UP' if False else z3.BoolVal(r == 'UP'), both_grow, none_grow))
  en.ensure('the chosen function is built for (source, target) in this order', z3.BoolVal(len(picked) == 1 and picked[0][1] is src and picked[0][2] is tgt))


def canary_contract(en: E.Engine):
  from dinosaur import coordinate_systems as cs
  c = _coords(en, 'coords')
  s = _coords(en, 'save', same_vertical_as=c.vertical)
  kind, f = en.invoke(en.load_function(cs.get_spectral_upsample_fn), c, s)
  if kind == 'return':
    kind, y = en.invoke(f, Arr(ndim=3, kind='input'))
    cfg = en.recorded.get('pad')
    en.ensure('canary: up-sampling pads one extra row', E.to_z3(cfg[-2][1]) == s.horizontal.modal_shape[0] - c.horizontal.modal_shape[0] + 1)


def replay_resample(w):
  import numpy as np
  import jax
  jax.config.update('jax_enable_x64', True)
  import jax.numpy as jnp
  from dinosaur import coordinate_systems as cs, sigma_coordinates as sc, spherical_harmonic as sh
  v = sc.SigmaCoordinates.equidistant(2)
  mk = lambda M, L: cs.CoordinateSystem(sh.Grid(longitude_wavenumbers=M, total_wavenumbers=L, longitude_nodes=2 * M + 2, latitude_nodes=L + 1), v)
  msgs, bad = [], False
  for (a, b) in (((3, 4), (5, 7)), ((3, 4), (3, 4)), ((2, 5), (4, 6))):
    ca, cb = mk(*a), mk(*b)
    x = jnp.asarray(np.random.RandomState(0).randn(2, *ca.horizontal.modal_shape))
    try:
      up = cs.get_spectral_upsample_fn(ca, cb)(x)
      back = cs.get_spectral_downsample_fn(cb, ca)(up)
      ok = up.shape[1:] == cb.horizontal.modal_shape and bool(jnp.all(back == x)) and bool(jnp.all(up[:, :x.shape[1], :x.shape[2]] == x)) and float(jnp.abs(up).sum()) == float(jnp.abs(x).sum())
    except Exception as e:  # pylint: disable=broad-except
      ok = False
      msgs.append(f'{a}->{b}: raised {type(e).__name__}: {e}')
    if not ok:
      bad = True
      msgs.append(f'{a}->{b}: down(up(x)) != x or coefficients moved')
  return bad, '; '.join(msgs) or 'down(up(x)) == x and coefficients keep their positions on the sampled grid pairs'


def clauses():
  rc = lambda c, n=2: (lambda ctx: run_contract(c, min_obligations=n, setup=_setup))
  fns = [CS + 'get_spectral_upsample_fn', CS + 'get_spectral_downsample_fn', CS + 'get_spectral_interpolate_fn']
  return [
      Clause('smt:spectral up-sampling pads after the data by save - coords; down(up(x)) == x (all modal shapes)', 'smt', fns[:2], rc(upsample_contract, 5), replay=replay_resample, group='pyvc-e'),
      Clause('smt:spectral down-sampling keeps the leading block; finer targets rejected (all modal shapes)', 'smt', fns[1:2], rc(downsample_contract, 3), replay=replay_resample, group='pyvc-e'),
      Clause('smt:resampling between different vertical discretisations is rejected', 'smt', fns[:2], rc(vertical_contract, 3), group='pyvc-e'),
      Clause('smt:get_spectral_interpolate_fn chooses up / down / raises exactly on the stated comparisons', 'smt', fns[2:], rc(interpolate_contract, 3), group='pyvc-e'),
      Clause('canary:up-sampling pads one extra row must fail', 'smt', fns[:1], rc(canary_contract, 1), canary=True, group='pyvc-e'),
  ]
