"""C06(a): coefficient sets of inconsistent length are rejected, never silently truncated.

Sidecar contracts (nothing in /repo is annotated) for
  dinosaur.time_integration.low_storage_runge_kutta_crank_nicolson
  dinosaur.time_integration.ImExButcherTableau.__post_init__
discharged by pyvc for *all* list lengths (symbolic lengths, no bound).
"""
from __future__ import annotations

import z3

from vlib import core
from vlib.core import Clause, Outcome
from vlib.pyvc import engine as E
from vlib.pyvc.run import run_contract

TI = 'dinosaur.time_integration.'


def _abstract_equation(en):
  F = z3.Function('F', E.V, E.V)
  G = z3.Function('G', E.V, E.V)
  GI = z3.Function('Ginv', E.V, z3.RealSort(), E.V)
  return E.Obj(
      explicit_terms=E.SymCallable(lambda en_, x: F(x), 'F'),
      implicit_terms=E.SymCallable(lambda en_, x: G(x), 'G'),
      implicit_inverse=E.SymCallable(lambda en_, x, eta: GI(x, E._real(eta)), 'G_inv'))


def low_storage_contract(en: E.Engine):
  from dinosaur import time_integration as ti
  al = en.seq('alphas', z3.RealSort())
  be = en.seq('betas', z3.RealSort())
  ga = en.seq('gammas', z3.RealSort())
  dt = en.real('time_step')
  eq = _abstract_equation(en)
  reads = {'alphas': [], 'betas': [], 'gammas': []}
  for s in (al, be, ga):
    g0 = s.get
    s.get = (lambda g0, nm: (lambda i: (reads[nm].append(i), g0(i))[1]))(g0, s.name)

  def inv(en_, env, k):
    out = [('k-in-range', z3.BoolVal(True))]
    return out
  en.loop_inv[('step_fn', 0)] = inv
  en.cover('requires')
  target = en.load_function(ti.low_storage_runge_kutta_crank_nicolson)
  kind, val = en.invoke(target, al, be, ga, eq, dt)
  consistent = z3.And(al.length - 1 == be.length, be.length == ga.length)
  if kind == 'raise':
    en.ensure(f'raises-{val}-only-for-inconsistent-lengths', z3.Not(consistent))
    en.ensure('the-only-exception-is-ValueError', val == 'ValueError')
    return
  # post: normal return  =>  len(alphas) - 1 == len(betas) == len(gammas)
  en.ensure('accepted => len(alphas)-1 == len(betas) == len(gammas)', consistent)
  # the returned step function: every subscript in bounds, for every stage count
  for r in reads.values():
    del r[:]
  u = en.val('u')
  # type of the loop-carried `h` changes from int 0 to a state: havoc it as a state
  kind2, val2 = en.invoke(val, u)
  if kind2 == 'raise':
    en.ensure(f'step function raises {val2} (subscript out of range) for accepted lengths', False)
    return
  # reached on the "after loop" branch only


def low_storage_coverage_contract(en: E.Engine):
  """Under accepted lengths the stage loop reads every coefficient (no truncation)."""
  from dinosaur import time_integration as ti
  al = en.seq('alphas', z3.RealSort())
  be = en.seq('betas', z3.RealSort())
  ga = en.seq('gammas', z3.RealSort())
  dt = en.real('time_step')
  eq = _abstract_equation(en)
  reads = {'alphas': [], 'betas': [], 'gammas': []}
  seqs = {'alphas': al, 'betas': be, 'gammas': ga}
  for s in (al, be, ga):
    g0 = s.get
    s.get = (lambda g0, nm: (lambda i: (reads[nm].append(i), g0(i))[1]))(g0, s.name)
  state = {}

  def inv(en_, env, k):
    if 'n' in state and E.is_sym(k) and not z3.is_int_value(z3.simplify(k)) and k.decl().name() == '+':
      # called as inv(k+1) after the generic iteration k: reads of iteration k are recorded
      kk = env.vars['__k__']
      n = state['n']
      for nm, idxs in reads.items():
        offs = sorted({z3.simplify(i - kk).as_long() for i in idxs if z3.is_int_value(z3.simplify(i - kk))})
        S = seqs[nm]
        j = z3.Int('j')
        covered = z3.Or([z3.And(j - c >= 0, j - c < n) for c in offs]) if offs else z3.BoolVal(False)
        en_.ensure(f'every-element-of-{nm}-is-read-by-some-stage', z3.ForAll([j], z3.Implies(z3.And(j >= 0, j < S.length), covered)))
    return [('true', z3.BoolVal(True))]
  en.loop_inv[('step_fn', 0)] = inv
  target = en.load_function(ti.low_storage_runge_kutta_crank_nicolson)
  kind, val = en.invoke(target, al, be, ga, eq, dt)
  if kind == 'raise':
    raise E.PathAbort()
  state['n'] = be.length
  for r in reads.values():
    del r[:]
  en.invoke(val, en.val('u'))


def tableau_contract(en: E.Engine):
  from dinosaur import time_integration as ti
  a_ex = en.seq('a_ex', E.V)
  a_im = en.seq('a_im', E.V)
  b_ex = en.seq('b_ex', z3.RealSort())
  b_im = en.seq('b_im', z3.RealSort())
  self = E.Obj(a_ex=a_ex, a_im=a_im, b_ex=b_ex, b_im=b_im)
  en.cover('requires')
  target = en.load_function(ti.ImExButcherTableau.__post_init__)
  kind, val = en.invoke(target, self)
  consistent = z3.And(a_ex.length + 1 == b_ex.length, a_im.length + 1 == b_ex.length, b_im.length == b_ex.length)
  if kind == 'raise':
    en.ensure(f'raises-{val}-only-for-inconsistent-lengths', z3.Not(consistent))
    en.ensure('the-only-exception-is-ValueError', val == 'ValueError')
  else:
    en.ensure('accepted => len(a_ex)+1 == len(a_im)+1 == len(b_ex) == len(b_im)', consistent)


def canary_contract(en: E.Engine):
  """Deliberately false post-condition on the same function: accepted => len(betas) == 3."""
  from dinosaur import time_integration as ti
  al = en.seq('alphas', z3.RealSort())
  be = en.seq('betas', z3.RealSort())
  ga = en.seq('gammas', z3.RealSort())
  target = en.load_function(ti.low_storage_runge_kutta_crank_nicolson)
  kind, val = en.invoke(target, al, be, ga, _abstract_equation(en), en.real('time_step'))
  if kind == 'return':
    en.ensure('canary: accepted => len(betas) == 3', be.length == 3)


def replay_low_storage(w):
  """Builds zero coefficient lists of the counter-model's lengths and calls the real factory."""
  from dinosaur import time_integration as ti
  la, lb, lg = (int(w[k]['len']) for k in ('alphas', 'betas', 'gammas'))
  eq = ti.ImplicitExplicitODE.from_functions(lambda x: 0 * x, lambda x: 0 * x, lambda x, eta: x)
  try:
    step = ti.low_storage_runge_kutta_crank_nicolson([0.0] * la, [0.0] * lb, [0.0] * lg, eq, 0.1)
  except ValueError as e:
    return False, f'lengths ({la},{lb},{lg}) rejected: {e}'
  consistent = (la - 1 == lb == lg)
  try:
    import numpy as np
    step(np.ones(2))
    ran = 'and the step function ran without error'
  except Exception as e:  # pylint: disable=broad-except
    ran = f'and the step function raised {type(e).__name__}: {e}'
  if consistent:
    return (('raised' in ran), f'consistent lengths ({la},{lb},{lg}) accepted {ran}')
  return True, (f'real low_storage_runge_kutta_crank_nicolson accepted inconsistent coefficient lengths '
                f'(len(alphas),len(betas),len(gammas)) = ({la},{lb},{lg}) {ran} -- coefficients silently ignored')


def replay_tableau(w):
  from dinosaur import time_integration as ti
  n = {k: int(w[k]['len']) for k in ('a_ex', 'a_im', 'b_ex', 'b_im')}
  try:
    ti.ImExButcherTableau(a_ex=[[0.0]] * n['a_ex'], a_im=[[0.0]] * n['a_im'], b_ex=[0.0] * n['b_ex'], b_im=[0.0] * n['b_im'])
  except ValueError:
    ok = n['a_ex'] + 1 == n['a_im'] + 1 == n['b_ex'] == n['b_im']
    return ok, f'lengths {n} rejected'
  ok = n['a_ex'] + 1 == n['a_im'] + 1 == n['b_ex'] == n['b_im']
  return (not ok), f'real ImExButcherTableau accepted lengths {n}'


def clauses():
  return [
      Clause('lengths:low_storage_rk_cn', 'smt', [TI + 'low_storage_runge_kutta_crank_nicolson'],
             lambda ctx: run_contract(low_storage_contract, min_obligations=3), replay=replay_low_storage, group='pyvc'),
      Clause('lengths:low_storage_rk_cn:all-coefficients-read', 'smt', [TI + 'low_storage_runge_kutta_crank_nicolson'],
             lambda ctx: run_contract(low_storage_coverage_contract, min_obligations=3), replay=replay_low_storage, group='pyvc'),
      Clause('lengths:ImExButcherTableau', 'smt', [TI + 'ImExButcherTableau.__post_init__'],
             lambda ctx: run_contract(tableau_contract, min_obligations=3), replay=replay_tableau, group='pyvc'),
      Clause('canary:lengths-false-postcondition-must-fail', 'smt', [TI + 'low_storage_runge_kutta_crank_nicolson'],
             lambda ctx: run_contract(canary_contract), canary=True, group='pyvc'),
  ]
