"""C07: contracts for the collective-communication kernels and padding helpers.

(1) SPMD reference interpreter.  The real functions
      dinosaur.jax_numpy_utils._allgather_matmul_twoway / _matmul_reducescatter_twoway / _parallel_dot_cumsum
    are executed (their own bytecode, re-bound to a namespace in which `lax` and `jnp` are reference
    implementations of the collectives over *all devices at once*) on symbolic chunk labels.  A value is a
    DeviceVec: one entry per device.  Semantics used (A8, documented JAX semantics):
      psum(1, axis)            = axis size n
      axis_index(axis)         = d on device d
      ppermute(x, perm)        : device dst receives x[src] for (src, dst) in perm
      all_gather(x, tiled)     : every device receives the concatenation [x[0], ..., x[n-1]]
      fori_loop(lo, hi, f, c)  = for i in range(lo, hi): c = f(i, c)
      dynamic_slice_in_dim(lhs, start, size, axis) = chunk start/size of lhs (start must be a multiple of size)
    Post-conditions (from the property: the sharded product equals the unsharded one):
      all-gather   : device a ends with  sum_c  lhs[chunk c] x rhs[shard c]   -- every c in [0,n) exactly once;
      reduce-scatter: device a ends with sum_d  (lhs[chunk a] x rhs_d)        -- chunk a of every device's product, once;
      parallel cumsum: device a, local position p holds the global prefix (suffix) sum.
    Exact and complete over data for each axis size; enumerated over even sizes 2..16 (and 1).

(2) pyvc VCs, all sizes: _vertical_pad pads at the *end* of axis 0 by the smallest amount making the level count a
    multiple of z, _vertical_crop removes exactly that padding, so crop(f(pad(x))) touches only real levels.
"""
from __future__ import annotations

import collections
import types

import z3

from vlib.core import Clause, Outcome
from vlib.pyvc import engine as E
from vlib.pyvc.run import run_contract

JNU = 'dinosaur.jax_numpy_utils.'
SH = 'dinosaur.spherical_harmonic.'


# ---- SPMD reference interpreter -------------------------------------------------------------------------


class DV:
  """One value per device."""

  def __init__(self, vals):
    self.vals = list(vals)

  def _bin(self, other, f):
    if isinstance(other, DV):
      return DV(f(a, b) for a, b in zip(self.vals, other.vals))
    return DV(f(a, other) for a in self.vals)

  def __add__(self, o): return self._bin(o, lambda a, b: a + b)
  def __radd__(self, o): return self._bin(o, lambda a, b: b + a)
  def __sub__(self, o): return self._bin(o, lambda a, b: a - b)
  def __rsub__(self, o): return self._bin(o, lambda a, b: b - a)
  def __mul__(self, o): return self._bin(o, lambda a, b: a * b)
  def __rmul__(self, o): return self._bin(o, lambda a, b: b * a)
  def __mod__(self, o): return self._bin(o, lambda a, b: a % b)
  def __floordiv__(self, o): return self._bin(o, lambda a, b: a // b)
  def __iadd__(self, o): return self.__add__(o)


class Lin(collections.Counter):
  """Formal sum of labelled terms with integer multiplicities."""

  def __add__(self, o):
    if isinstance(o, (int, float)) and o == 0:
      return Lin(self)
    r = Lin(self)
    for k, v in o.items():
      r[k] += v
    return r
  __radd__ = __add__

  def __mul__(self, c):
    c = int(c)          # bool/int scalar
    return Lin({k: v * c for k, v in self.items() if v * c})
  __rmul__ = __mul__


class LhsSym:
  def __init__(self, n, chunk, split_axis, ndim=2):
    shape = [5] * ndim
    shape[split_axis] = n * chunk
    self.shape = tuple(shape)
    self.chunk = chunk
    self.split_axis = split_axis


class FakeLax:
  def __init__(self, n, log):
    self.n = n
    self.log = log

  def psum(self, x, axis_name):
    return x * self.n

  def axis_index(self, axis_name):
    return DV(range(self.n))

  def ppermute(self, x, axis_name, perm):
    out = [None] * self.n
    seen_dst = set()
    for src, dst in perm:
      if dst in seen_dst:
        raise AssertionError('ppermute: destination receives twice')
      seen_dst.add(dst)
      out[dst] = x.vals[src]
    if None in out:
      raise AssertionError('ppermute: some device receives nothing')
    self.log['ppermute'] = self.log.get('ppermute', 0) + 1
    return DV(out)

  def fori_loop(self, lo, hi, body, init):
    c = init
    for i in range(lo, hi):
      c = body(i, c)
    return c

  def dynamic_slice_in_dim(self, lhs, start, size, axis=0):
    assert isinstance(lhs, LhsSym) and axis == lhs.split_axis and size == lhs.chunk, 'slice of the wrong axis/size'
    out = []
    for s in (start.vals if isinstance(start, DV) else [start] * self.n):
      assert s % size == 0 and 0 <= s <= lhs.shape[axis] - size, f'chunk start {s} out of range / misaligned'
      out.append(('L', s // size))
    return DV(out)

  def index_in_dim(self, x, index, axis=0, keepdims=True):
    if isinstance(x, Gathered):
      if x.axis == 'stacked':
        assert axis == 0
      elif not x.poisoned:
        assert axis % 2 == x.axis, f'gathered totals indexed along axis {axis}, but they were concatenated along axis {x.axis}'
      return DV([x.rows[index]] * self.n)       # identical on every device
    assert axis == self.sum_axis, f'partials indexed along axis {axis}, summed axis is {self.sum_axis}'
    return DV([v[index] for v in x.vals])

  def all_gather(self, x, axis_name, axis=0, tiled=False):
    rows = [v for v in x.vals]
    if not tiled:
      return Gathered(rows, 'stacked')        # new leading device axis: rows[i] is device i's total
    nd = 2                                     # local blocks are modelled as 2-d (summed axis + one other)
    if axis % nd != self.sum_axis % nd:
      # per-device totals have extent 1 only along the summed axis: concatenating them along another axis does not
      # produce an array indexed by device -- every element read from it is a mixture
      return Gathered([Lin({('MISALIGNED: shard totals concatenated along an axis other than the summed one',): 1})] * len(rows), axis, poisoned=True)
    return Gathered(rows, axis % nd)


class Gathered:
  """Result of a tiled all_gather of one row per device: identical on every device."""

  def __init__(self, rows, axis=0, poisoned=False):
    self.rows = rows
    self.axis = axis          # the array axis along which the per-device rows were concatenated ('stacked': new leading axis)
    self.poisoned = poisoned

  @property
  def shape(self):
    return _ShapeAlong(self.axis, len(self.rows))

  def __getitem__(self, idx):
    # Python subscripts address the *leading* axis: only meaningful if the rows were concatenated along it
    # Python subscripts address the leading array axis
    if not (self.axis in (0, 'stacked') or self.poisoned):
      return Gathered([Lin({('MISALIGNED: leading-axis subscript on totals gathered along axis %s' % self.axis,): 1})] * len(self.rows), self.axis, True)[idx]
    if isinstance(idx, slice):
      return Gathered(self.rows[idx], self.axis, self.poisoned)
    return self.rows[idx]

  def __iter__(self):
    return iter(self.rows)

  def __len__(self):
    return len(self.rows)


class _ShapeAlong:
  def __init__(self, axis, n):
    self.axis, self.n = axis, n

  def __getitem__(self, i):
    return self.n if (self.axis == 'stacked' and i == 0) or (self.axis != 'stacked' and i % 2 == self.axis) else 1


def _matmul(lhs, rhs):
  if isinstance(lhs, DV):
    return DV(Lin({(l, r): 1}) for l, r in zip(lhs.vals, rhs.vals))
  return DV(Lin({(lhs, r): 1}) for r in rhs.vals)


class FakeJnp:
  def __init__(self, n):
    self.n = n

  def einsum(self, spec, lhs, rhs, precision=None):
    return _matmul(lhs, rhs)

  def less(self, i, dv):
    return DV(i < d for d in dv.vals)

  def greater(self, i, dv):
    return DV(i > d for d in dv.vals)


def _rebind(fn, **globs):
  fn = getattr(fn, '__wrapped__', fn)
  g = dict(fn.__globals__)
  g.update(globs)
  return types.FunctionType(fn.__code__, g, fn.__name__, fn.__defaults__, fn.__closure__)


def _sizes(tier):
  return (1, 2, 4, 6, 8) if tier == 'quick' else (1, 2, 4, 6, 8, 10, 12, 14, 16, 24, 32)


def run_allgather(ctx):
  from dinosaur import jax_numpy_utils as jnu
  out = Outcome()
  out.trusted.append('SPMD semantics of lax.psum/axis_index/ppermute/fori_loop/dynamic_slice_in_dim (A8)')
  for n in _sizes(ctx.tier):
    for rev in (False, True):
      for split_axis in (0, 1):
        log = {}
        fl, fj = FakeLax(n, log), FakeJnp(n)
        f = _rebind(jnu._allgather_matmul_twoway, lax=fl, jnp=fj,
                    _reversed_arg_order_einsum=lambda spec, x, y, **kw: _matmul(x, y))
        lhs = LhsSym(n, 3, split_axis)
        rhs = DV(('R', d) for d in range(n))
        nm = f'all-gather matmul, axis size {n}, split_axis {split_axis}, reverse_arg_order={rev}: every device multiplies each lhs chunk c with rhs shard c exactly once'
        try:
          res = f('ab,bc->ac', lhs, rhs, split_axis=split_axis, axis_name='x', reverse_arg_order=rev, precision='highest')
        except (AssertionError, ValueError) as e:
          out.fail(nm, witness={'axis_size': n}, detail=f'{type(e).__name__}: {e}', key='allgather schedule')
          continue
        if n == 1:
          ok = res.vals[0] == Lin({(lhs, ('R', 0)): 1})
        else:
          want = Lin({(('L', c), ('R', c)): 1 for c in range(n)})
          ok = all(v == want for v in res.vals)
        if ok:
          out.ok(nm, 'exact', sample={'obligation': nm, 'ppermute_rounds': log.get('ppermute', 0)})
        else:
          bad = next(d for d, v in enumerate(res.vals) if v != want)
          out.fail(nm, witness={'axis_size': n, 'device': bad, 'accumulated': sorted(map(str, res.vals[bad].items()))},
                   detail=f'device {bad} accumulated {sorted(res.vals[bad].items())}', key='allgather schedule')
  # odd sizes must be rejected (never silently wrong)
  for n in (3, 5):
    f = _rebind(jnu._allgather_matmul_twoway, lax=FakeLax(n, {}), jnp=FakeJnp(n))
    nm = f'all-gather matmul rejects odd axis size {n}'
    try:
      f('ab,bc->ac', LhsSym(n, 3, 0), DV(('R', d) for d in range(n)), split_axis=0, axis_name='x')
      out.fail(nm, witness={'axis_size': n}, detail='accepted', key='allgather odd')
    except ValueError:
      out.ok(nm, 'exact')
  return out


def run_reducescatter(ctx):
  from dinosaur import jax_numpy_utils as jnu
  out = Outcome()
  out.trusted.append('SPMD semantics of lax.psum/axis_index/ppermute/fori_loop/dynamic_slice_in_dim (A8)')
  for n in _sizes(ctx.tier):
    for rev in (False, True):
      log = {}
      f = _rebind(jnu._matmul_reducescatter_twoway, lax=FakeLax(n, log), jnp=FakeJnp(n),
                  _reversed_arg_order_einsum=lambda spec, x, y, **kw: _matmul(x, y))
      lhs = LhsSym(n, 3, 0)
      rhs = DV(('R', d) for d in range(n))
      nm = f'reduce-scatter matmul, axis size {n}, reverse_arg_order={rev}: device a ends with chunk a of every device\'s partial product exactly once'
      try:
        res = f('ab,bc->ac', lhs, rhs, scatter_axis=0, axis_name='x', reverse_arg_order=rev, precision='highest')
      except (AssertionError, ValueError) as e:
        out.fail(nm, witness={'axis_size': n}, detail=f'{type(e).__name__}: {e}', key='reducescatter schedule')
        continue
      if n == 1:
        ok = res.vals[0] == Lin({(lhs, ('R', 0)): 1})
      else:
        ok = all(res.vals[a] == Lin({(('L', a), ('R', d)): 1 for d in range(n)}) for a in range(n))
      if ok:
        out.ok(nm, 'exact', sample={'obligation': nm, 'ppermute_rounds': log.get('ppermute', 0)})
      else:
        bad = next(a for a in range(n) if res.vals[a] != Lin({(('L', a), ('R', d)): 1 for d in range(n)}))
        out.fail(nm, witness={'axis_size': n, 'device': bad}, detail=f'device {bad} accumulated {sorted(res.vals[bad].items())}',
                 key='reducescatter schedule')
  return out


def run_parallel_cumsum(ctx):
  from dinosaur import jax_numpy_utils as jnu
  out = Outcome()
  out.trusted.append('_single_device_dot_cumsum == local prefix/suffix sum (its own clause in C13); SPMD semantics of all_gather/axis_index (A8)')
  for n in _sizes(ctx.tier):
    for reverse in (False, True):
      for local, sum_axis in ((1, 0), (3, 0), (2, 1), (2, -1)):
        def single(x, axis, reverse=False):
          # contract of _single_device_dot_cumsum on each device: local prefix (suffix) sums
          out_ = []
          for rows in x.vals:
            acc, res = Lin(), [None] * len(rows)
            order = range(len(rows) - 1, -1, -1) if reverse else range(len(rows))
            for p in order:
              acc = acc + rows[p]
              res[p] = acc
            out_.append(res)
          return DV(out_)
        fl = FakeLax(n, {})
        fl.sum_axis = sum_axis
        f = _rebind(jnu._parallel_dot_cumsum, lax=fl, jnp=FakeJnp(n), _single_device_dot_cumsum=single)
        x = DV([[Lin({('x', d, p): 1}) for p in range(local)] for d in range(n)])

        class Rows(list):
          pass
        nm = f'parallel {"reverse " if reverse else ""}cumsum along array axis {sum_axis}, axis size {n}, {local} local rows: equals the global {"suffix" if reverse else "prefix"} sum on every device'
        try:
          partials = single(x, 0, reverse)
          # run the real function; `total += op(i, axis_index) * term` needs row-wise broadcasting of a per-device scalar
          res = f(_RowVec(x), axis=sum_axis, reverse=reverse, axis_name='z')
        except (AssertionError, ValueError, TypeError) as e:
          out.fail(nm, witness={'axis_size': n}, detail=f'{type(e).__name__}: {e}', key='parallel cumsum')
          continue
        ok = True
        bad = None
        for d in range(n):
          for p in range(local):
            if reverse:
              want = Lin({('x', dd, pp): 1 for dd in range(n) for pp in range(local) if (dd, pp) >= (d, p)})
            else:
              want = Lin({('x', dd, pp): 1 for dd in range(n) for pp in range(local) if (dd, pp) <= (d, p)})
            if res.vals[d][p] != want:
              ok, bad = False, (d, p, sorted(res.vals[d][p].items()))
        (out.ok(nm, 'exact') if ok else out.fail(nm, witness={'axis_size': n, 'device': bad[0], 'row': bad[1]}, detail=f'device {bad[0]} row {bad[1]} holds {bad[2]}',
                                                 key='parallel cumsum'))
  return out


class _RowVec(DV):
  """DeviceVec whose per-device value is a list of rows (Lin); supports `rows += scalar_per_device * row`."""

  def __init__(self, dv):
    super().__init__(dv.vals)


def _rows_add(rows_dv, term_dv):
  return DV([[r + t for r in rows] for rows, t in zip(rows_dv.vals, term_dv.vals)])


# DV arithmetic needs to understand "list of rows += per-device term": patch through __add__ of list-valued DVs
_orig_bin = DV._bin


def _bin(self, other, f):
  if self.vals and isinstance(self.vals[0], list):
    if isinstance(other, DV):
      return DV([[f(r, t) for r in rows] for rows, t in zip(self.vals, other.vals)])
    return DV([[f(r, other) for r in rows] for rows in self.vals])
  if isinstance(other, DV) and other.vals and isinstance(other.vals[0], list):
    return DV([[f(t, r) for r in rows] for t, rows in zip(self.vals, other.vals)])
  if isinstance(other, Lin) and self.vals and isinstance(self.vals[0], bool):
    return DV(f(a, other) for a in self.vals)
  return _orig_bin(self, other, f)


DV._bin = _bin


# ---- pyvc: vertical padding ------------------------------------------------------------------------------


ARR = z3.DeclareSort('Array3')


def vertical_pad_contract(en: E.Engine):
  from dinosaur import spherical_harmonic as sh
  import jax.numpy as jnp
  K, z = en.int('levels'), en.int('z_shards')
  en.assume(z3.And(K >= 2, z >= 1))
  field = E.Obj(ndim=3, shape=(K, en.int('m'), en.int('l')), tag='field')
  mesh = E.Obj(shape={'z': z})
  pads = []

  def h_pad(en_, x, cfg, *a, **k):
    pads.append((x, cfg))
    return E.Obj(ndim=3, shape=(x.shape[0] + cfg[0][0] + cfg[0][1], x.shape[1] + cfg[1][0] + cfg[1][1], x.shape[2] + cfg[2][0] + cfg[2][1]), tag='padded', of=x, cfg=cfg)
  en.libspec[E._callable_key(jnp.pad)] = (jnp.pad, h_pad)
  en.trusted.add('libspec:jnp.pad(x, [(b0,a0),(b1,a1),(b2,a2)]) puts x at offset (b0,b1,b2) in zeros (A8)')
  en.cover('requires: levels >= 2, z >= 1')
  kind, r = en.invoke(en.load_function(sh._vertical_pad), field, mesh)
  if kind == 'raise':
    en.ensure(f'_vertical_pad raises {r}', False)
    return
  padded, zp = r
  if not pads:
    en.ensure('_vertical_pad pads through jnp.pad', False)
    return
  cfg = pads[0][1]
  en.ensure('padding is appended at the end of the level axis (nothing before level 0)', E.to_z3(cfg[0][0]) == 0)
  en.ensure('horizontal axes are not padded', z3.And(*[E.to_z3(c) == 0 for c in (cfg[1][0], cfg[1][1], cfg[2][0], cfg[2][1])]))
  en.ensure('returned padding equals the amount appended', E.to_z3(cfg[0][1]) == E.to_z3(zp))
  en.ensure('0 <= padding < z', z3.And(E.to_z3(zp) >= 0, E.to_z3(zp) < z))
  en.ensure('padded level count is a multiple of z', (K + E.to_z3(zp)) % z == 0)
  # crop removes exactly the padding
  import jax
  slices = []

  def h_slice(en_, x, lo, hi, stride=1, axis=0):
    slices.append((lo, hi, axis))
    return E.Obj(ndim=3, shape=x.shape, tag='cropped')
  en.libspec[E._callable_key(jax.lax.slice_in_dim)] = (jax.lax.slice_in_dim, h_slice)
  en.trusted.add('libspec:lax.slice_in_dim(x, lo, hi, axis) == x[lo:hi] along axis, negative hi counted from the end (A8)')
  kind, c = en.invoke(en.load_function(sh._vertical_crop), padded, zp)
  if kind == 'raise':
    en.ensure(f'_vertical_crop raises {c}', False)
    return
  if en.truth(E.to_z3(zp) == 0):
    en.ensure('no padding => crop returns its argument unchanged', c is padded)
  else:
    if not slices:
      en.ensure('_vertical_crop slices through lax.slice_in_dim', False)
      return
    lo, hi, axis = slices[0]
    n = K + E.to_z3(zp)
    hi_ = E.to_z3(hi)
    hi_n = z3.If(hi_ < 0, hi_ + n, hi_)
    en.ensure('crop keeps levels [0, levels) of the padded array along axis 0', z3.And(E.to_z3(lo) == 0, hi_n == K, E.to_z3(axis) == 0))


def vertical_pad_skip_contract(en: E.Engine):
  """Surface fields (one level), 2-d fields and mesh=None are passed through unpadded."""
  from dinosaur import spherical_harmonic as sh
  field1 = E.Obj(ndim=3, shape=(1, en.int('m'), en.int('l')))
  field2 = E.Obj(ndim=2, shape=(en.int('m'), en.int('l')))
  mesh = E.Obj(shape={'z': en.int('z_shards')})
  for nm, f, m in (('one level', field1, mesh), ('2-d field', field2, mesh), ('no mesh', E.Obj(ndim=3, shape=(en.int('K'), 4, 4)), None)):
    kind, r = en.invoke(en.load_function(sh._vertical_pad), f, m)
    if kind == 'raise':
      en.ensure(f'{nm}: raises {r}', False)
      continue
    en.ensure(f'{nm}: returned unchanged with padding None', z3.BoolVal(r[0] is f and r[1] is None))


def canary_contract(en: E.Engine):
  from dinosaur import spherical_harmonic as sh
  import jax.numpy as jnp
  K, z = en.int('levels'), en.int('z_shards')
  en.assume(z3.And(K >= 2, z >= 1))
  field = E.Obj(ndim=3, shape=(K, 4, 4))
  en.libspec[E._callable_key(jnp.pad)] = (jnp.pad, lambda en_, x, cfg, *a, **k: E.Obj(ndim=3, shape=x.shape))
  kind, r = en.invoke(en.load_function(sh._vertical_pad), field, E.Obj(shape={'z': z}))
  if kind == 'return':
    en.ensure('canary: padding is always zero', E.to_z3(r[1]) == 0)


def replay_pad(w):
  import os
  import numpy as np
  import jax
  import jax.numpy as jnp
  from dinosaur import spherical_harmonic as sh
  K = int(w.get('levels', 3))
  z = int(w.get('z_shards', 2))

  class M:
    shape = {'z': z}
  x = jnp.asarray(np.arange(1.0, K * 4 + 1).reshape(K, 2, 2))
  p, zp = sh._vertical_pad(x, M())
  c = sh._vertical_crop(p, zp)
  ok = (p.shape[0] % z == 0) and bool(jnp.all(p[:K] == x)) and c.shape == x.shape and bool(jnp.all(c == x))
  return (not ok), f'levels={K}, z={z}: padded shape {p.shape}, padding {zp}; pad keeps data at the front: {bool(jnp.all(p[:K] == x)) if p.shape[0] >= K else False}; crop(pad(x)) == x: {c.shape == x.shape and bool(jnp.all(c == x))}'


def replay_schedule(w):
  """Runs the real sharded_einsum / cumsum on a mesh of `axis_size` virtual devices (if <= 8) against the unsharded result."""
  import numpy as np
  import jax
  jax.config.update('jax_enable_x64', True)
  import jax.numpy as jnp
  from jax.sharding import NamedSharding, PartitionSpec as P
  from dinosaur import jax_numpy_utils as jnu
  n = int(w.get('axis_size', 2))
  if n > len(jax.devices()) or n < 2:
    return False, f'axis size {n}: not replayable on {len(jax.devices())} virtual devices; the interpreter trace above is the witness'
  msgs, bad = [], False
  mesh = jax.sharding.Mesh(np.array(jax.devices()[:n]).reshape((1, n, 1)), ['z', 'x', 'y'])
  rng = np.random.RandomState(0)
  lhs, rhs = rng.randn(4 * n, 2 * n), rng.randn(3, 4 * n, 5)
  want = np.einsum('mj,zmx->zjx', lhs, rhs)
  for gather in (True, False):
    got = np.asarray(jnu.sharded_einsum('mj,zmx->zjx', lhs, jax.device_put(jnp.asarray(rhs), NamedSharding(mesh, P(None, 'x', 'y'))), gather_inputs=gather,
                                        precision='highest', mesh=mesh, rhs_spec=P(None, 'x', 'y'), out_spec=P(None, 'x', 'y')))
    e = float(np.abs(got - want).max())
    msgs.append(f'sharded_einsum(gather_inputs={gather}) on {n} devices: max |sharded - unsharded| = {e:.3e}')
    bad |= e > 1e-10
  meshz = jax.sharding.Mesh(np.array(jax.devices()[:n]).reshape((n, 1, 1)), ['z', 'x', 'y'])
  a = rng.randn(3 * n, 2, 2)
  shd = NamedSharding(meshz, P('z', None, None))
  for rev in (False, True):
    f = jnu.reverse_cumsum if rev else jnu.cumsum
    got = np.asarray(f(jax.device_put(jnp.asarray(a), shd), 0, method='dot', sharding=shd))
    ref = np.flip(np.cumsum(np.flip(a, 0), 0), 0) if rev else np.cumsum(a, 0)
    e = float(np.abs(got - ref).max())
    msgs.append(f'{"reverse_" if rev else ""}cumsum on {n} devices: max deviation {e:.3e}')
    bad |= e > 1e-10
  return bad, '; '.join(msgs)


def clauses(tier):
  rc = lambda c, n=2: (lambda ctx: run_contract(c, min_obligations=n))
  return [
      Clause('exact:all-gather matmul schedule covers every chunk pair exactly once (SPMD interpreter, real function)', 'exact',
             [JNU + '_allgather_matmul_twoway'], run_allgather, replay=replay_schedule, group='spmd'),
      Clause('exact:reduce-scatter matmul schedule delivers chunk a of every partial product to device a (SPMD interpreter, real function)', 'exact',
             [JNU + '_matmul_reducescatter_twoway'], run_reducescatter, replay=replay_schedule, group='spmd'),
      Clause('exact:parallel cumsum equals the global prefix / suffix sum (SPMD interpreter, real function)', 'exact',
             [JNU + '_parallel_dot_cumsum'], run_parallel_cumsum, replay=replay_schedule, group='spmd'),
      Clause('smt:_vertical_pad / _vertical_crop: pad at the end to a multiple of z, crop removes exactly the padding (all level counts, all z)', 'smt',
             [SH + '_vertical_pad', SH + '_vertical_crop', SH + '_round_to_multiple'], rc(vertical_pad_contract, 5), replay=replay_pad, group='pyvc'),
      Clause('smt:_vertical_pad leaves one-level, 2-d and unsharded fields untouched', 'smt', [SH + '_vertical_pad'], rc(vertical_pad_skip_contract, 3), group='pyvc'),
      Clause('canary:vertical padding always zero must fail', 'smt', [SH + '_vertical_pad'], rc(canary_contract, 1), canary=True, group='pyvc'),
  ]
