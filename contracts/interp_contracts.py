"""C17: the vertical interpolation kernels, proved from the real source for every node count and every query.

pyvc 1-d array mode (vlib/pyvc/arrays.py) on dinosaur.vertical_interpolation.linear_interp_with_linear_extrap and _dot_interp
(the accelerator path of `interp`, never executed by the CPU test-suite).  Inputs: n >= 2 nodes xp strictly increasing (symbolic n),
arbitrary data fp, arbitrary real query x.  With u = clip(#{j : xp[j] <= x}, 1, n-1) (assumed contract of searchsorted side='right'):
  * the result equals  fp[u-1] + (x - xp[u-1]) / (xp[u] - xp[u-1]) * (fp[u] - fp[u-1])   (piecewise-linear interpolant / linear continuation)
  * exact on affine data fp[j] = alpha + beta xp[j]: result = alpha + beta x, for every x (extrapolation included) -- linear_interp_with_linear_extrap;
    for x inside [xp[0], xp[n-1]] -- _dot_interp, which continues with the end values outside (documented: agrees with jnp.interp)
  * x = xp[k] returns fp[k] (ties at the right end included)
  * inside the node range the result lies between the two neighbouring data values
Floats are reals (A1).  _extrapolate_left/right/both: the appended node continues the end spacing (all lengths).
"""
from __future__ import annotations

import z3

from vlib.core import Clause
from vlib.pyvc import arrays
from vlib.pyvc import engine as E
from vlib.pyvc.run import run_contract

VI = 'dinosaur.vertical_interpolation.'


def _setup(en):
  arrays.install(en)


def _nodes(en, with_affine=False):
  n = z3.Int('n')
  en.inputs['n'] = n
  en.assume(n >= 2)
  xp = en.seq('xp', z3.RealSort(), length=n)
  j = z3.Int('j')
  en.assume(z3.ForAll([j], z3.Implies(z3.And(j >= 0, j + 1 < n), xp.get(j) < xp.get(j + 1))))       # strictly increasing
  k, m = z3.Int('k'), z3.Int('m')
  en.assume(z3.ForAll([k, m], z3.Implies(z3.And(k >= 0, k < m, m < n), xp.get(k) < xp.get(m)), patterns=[z3.MultiPattern(xp.get(k), xp.get(m))]))
  if with_affine:
    al, be = en.real('alpha'), en.real('beta')
    fp = E.SymSeq(n, lambda i: al + be * xp.get(i), z3.RealSort(), 'fp')
    return n, xp, fp, al, be
  fp = en.seq('fp', z3.RealSort(), length=n)
  return n, xp, fp, None, None


def _fn(name):
  from dinosaur import vertical_interpolation as vi
  f = getattr(vi, name)
  return getattr(f, '__wrapped__', f)


def _u_of(en, n, xp, x):
  """The clipped count of nodes <= x, characterised without searchsorted: 1 <= u <= n-1 and the bracketing facts."""
  u = z3.Int('u_spec')
  en.assume(z3.And(u >= 1, u <= n - 1))
  en.assume(z3.Implies(x < xp.get(1), u == 1))
  en.assume(z3.Implies(x >= xp.get(n - 1), u == n - 1))
  en.assume(z3.Implies(z3.And(x >= xp.get(1), x < xp.get(n - 1)), z3.And(xp.get(u - 1) <= x, x < xp.get(u))))
  return u


def formula_contract(en: E.Engine, which='linear_interp_with_linear_extrap'):
  n, xp, fp, _, _ = _nodes(en)
  x = en.real('x')
  en.cover('requires: n >= 2, xp strictly increasing')
  kind, r = en.invoke(en.load_function(_fn(which)), x, xp, fp)
  if kind == 'raise':
    en.ensure(f'{which} raises / divides by zero ({r}) on strictly increasing nodes', False)
    return
  u = _u_of(en, n, xp, x)
  lin = fp.get(u - 1) + (x - xp.get(u - 1)) / (xp.get(u) - xp.get(u - 1)) * (fp.get(u) - fp.get(u - 1))
  inside = z3.And(x >= xp.get(0), x <= xp.get(n - 1))
  if which == 'linear_interp_with_linear_extrap':
    en.ensure('result == two-point linear formula on the bracketing (or end) segment, for every real x', r == lin)
  else:
    en.ensure('inside the node range: result == two-point linear formula on the bracketing segment', z3.Implies(inside, r == lin))
    en.ensure('left of the first node: result == fp[0] (constant continuation, as jnp.interp)', z3.Implies(x < xp.get(0), r == fp.get(0)))
    en.ensure('right of the last node: result == fp[n-1]', z3.Implies(x > xp.get(n - 1), r == fp.get(n - 1)))
  lo = z3.If(fp.get(u - 1) <= fp.get(u), fp.get(u - 1), fp.get(u))
  hi = z3.If(fp.get(u - 1) <= fp.get(u), fp.get(u), fp.get(u - 1))
  en.ensure('inside the node range the result is bounded by the two neighbouring data values', z3.Implies(inside, z3.And(r >= lo, r <= hi)))


def affine_contract(en: E.Engine, which='linear_interp_with_linear_extrap'):
  n, xp, fp, al, be = _nodes(en, with_affine=True)
  x = en.real('x')
  en.cover('requires: n >= 2, xp strictly increasing, fp affine in xp')
  kind, r = en.invoke(en.load_function(_fn(which)), x, xp, fp)
  if kind == 'raise':
    en.ensure(f'{which} raises ({r})', False)
    return
  if which == 'linear_interp_with_linear_extrap':
    en.ensure('exact on affine data for every real query (interpolation and linear extrapolation)', r == al + be * x)
  else:
    en.ensure('exact on affine data inside the node range', z3.Implies(z3.And(x >= xp.get(0), x <= xp.get(n - 1)), r == al + be * x))


def nodes_contract(en: E.Engine, which='linear_interp_with_linear_extrap'):
  n, xp, fp, _, _ = _nodes(en)
  k = en.int('k')
  en.assume(z3.And(k >= 0, k < n))
  en.cover('requires: 0 <= k < n')
  kind, r = en.invoke(en.load_function(_fn(which)), xp.get(k), xp, fp)
  if kind == 'raise':
    en.ensure(f'{which} raises ({r})', False)
    return
  en.ensure('query at a node returns the node value (right end included)', r == fp.get(k))


def extrapolate_contract(en: E.Engine):
  from dinosaur import vertical_interpolation as vi
  n = z3.Int('n')
  en.inputs['n'] = n
  en.assume(n >= 2)
  y = en.seq('y', z3.RealSort(), length=n)
  en.cover('requires: n >= 2')
  for nm, fn in (('left', vi._extrapolate_left), ('right', vi._extrapolate_right), ('both', vi._extrapolate_both)):
    kind, r = en.invoke(en.load_function(fn), y)
    if kind == 'raise' or not isinstance(r, E.SymSeq):
      en.ensure(f'_extrapolate_{nm} returns a vector', False)
      continue
    i = z3.Int('i')
    if nm == 'left':
      en.ensure('left: length n+1; new first node continues the first spacing; the rest is unchanged',
                z3.And(E.to_z3(r.length) == n + 1, r.get(0) == y.get(0) - (y.get(1) - y.get(0)),
                       z3.ForAll([i], z3.Implies(z3.And(i >= 0, i < n), r.get(i + 1) == y.get(i)))))
    elif nm == 'right':
      en.ensure('right: length n+1; new last node continues the last spacing; the rest is unchanged',
                z3.And(E.to_z3(r.length) == n + 1, r.get(n) == y.get(n - 1) + (y.get(n - 1) - y.get(n - 2)),
                       z3.ForAll([i], z3.Implies(z3.And(i >= 0, i < n), r.get(i) == y.get(i)))))
    else:
      en.ensure('both: length n+2 with both continuations',
                z3.And(E.to_z3(r.length) == n + 2, r.get(0) == 2 * y.get(0) - y.get(1), r.get(n + 1) == 2 * y.get(n - 1) - y.get(n - 2),
                       z3.ForAll([i], z3.Implies(z3.And(i >= 0, i < n), r.get(i + 1) == y.get(i)))))


NAN = z3.Real('nan!missing')


def _install_jnp_interp(en):
  """jnp.interp(x, xp, fp, left, right) for a scalar query, by its documented contract (A8): xp must be increasing (an *obligation* at each
  call -- numpy / JAX leave unsorted nodes undefined); inside [xp[0], xp[-1]] the two-point linear formula on the bracketing segment (the node
  value at a node); `left` / `right` outside (default: the end values).  np.nan is a distinguished constant `missing`."""
  import jax.numpy as jnp
  import numpy as np
  from vlib.pyvc.libspec import _reg

  def h_interp(en_, x, xp, fp, left=None, right=None, **k):
    if k or not (arrays._is_seq(xp) and arrays._is_seq(fp)) or arrays._is_seq(x):
      raise E.Unsupported('jnp.interp outside the scalar-query subset')
    arrays._same_length(en_, xp, fp)
    m = E.to_z3(xp.length)
    j = z3.Int(en_.fresh_name('j'))
    ok = en_.ensure('precondition of jnp.interp: the nodes handed to it are strictly increasing (and at least two)',
                    z3.And(m >= 2, z3.ForAll([j], z3.Implies(z3.And(j >= 0, j + 1 < m), xp.get(j) < xp.get(j + 1)))))
    if not ok:
      raise E.Unsupported('jnp.interp on nodes not shown increasing')
    xr = E._real(x)
    u = z3.Int(en_.fresh_name('u_interp'))          # index of the bracketing segment [xp[u-1], xp[u]], 1 <= u <= m-1
    en_.assume(z3.And(u >= 1, u <= m - 1))
    en_.assume(z3.Implies(z3.And(xr >= xp.get(0), xr <= xp.get(m - 1)), z3.And(xp.get(u - 1) <= xr, xr <= xp.get(u))))
    val = fp.get(u - 1) + (xr - xp.get(u - 1)) / (xp.get(u) - xp.get(u - 1)) * (fp.get(u) - fp.get(u - 1))
    is_nan = lambda v: v is not None and not E.is_sym(v) and isinstance(v, float) and v != v
    lv = NAN if is_nan(left) else (fp.get(0) if left is None else E._real(left))
    rv = NAN if is_nan(right) else (fp.get(m - 1) if right is None else E._real(right))
    en_.trusted.add('libspec:jnp.interp(x, xp, fp, left, right): two-point linear formula on a bracketing segment inside the node range, left / right outside; increasing nodes required (A8)')
    return z3.If(xr < xp.get(0), lv, z3.If(xr > xp.get(m - 1), rv, val))
  _reg(en, jnp.interp, h_interp, 'jnp.interp (documented contract, A8)')
  _reg(en, np.interp, h_interp, 'np.interp (documented contract, A8)')


def safe_extrap_contract(en: E.Engine, cells=1):
  """_linear_interp_with_safe_extrap(x, xp, fp, n=cells): inside the node range the piecewise-linear interpolant; up to `cells` extra cells
  (of the end spacing) beyond each end the linear continuation of the end segment; further out: missing (NaN)."""
  _install_jnp_interp(en)
  n, xp, fp, _, _ = _nodes(en)
  x = en.real('x')
  en.cover('requires: n >= 2, xp strictly increasing')
  kind, r = en.invoke(en.load_function(_fn('_linear_interp_with_safe_extrap')), x, xp, fp, cells)
  if kind == 'raise':
    en.ensure(f'_linear_interp_with_safe_extrap raises ({r})', False)
    return
  u = _u_of(en, n, xp, x)
  lin = fp.get(u - 1) + (x - xp.get(u - 1)) / (xp.get(u) - xp.get(u - 1)) * (fp.get(u) - fp.get(u - 1))
  d0, d1 = xp.get(1) - xp.get(0), xp.get(n - 1) - xp.get(n - 2)
  lo, hi = xp.get(0) - cells * d0, xp.get(n - 1) + cells * d1
  en.ensure('inside the node range: the two-point linear formula on the bracketing segment', z3.Implies(z3.And(x >= xp.get(0), x <= xp.get(n - 1)), r == lin))
  en.ensure(f'within {cells} cell(s) of the first spacing to the left: the linear continuation of the first segment',
            z3.Implies(z3.And(x >= lo, x < xp.get(0)), r == fp.get(0) + (x - xp.get(0)) / d0 * (fp.get(1) - fp.get(0))))
  en.ensure(f'within {cells} cell(s) of the last spacing to the right: the linear continuation of the last segment',
            z3.Implies(z3.And(x > xp.get(n - 1), x <= hi), r == fp.get(n - 1) + (x - xp.get(n - 1)) / d1 * (fp.get(n - 1) - fp.get(n - 2))))
  en.ensure('further out on either side: missing (NaN)', z3.Implies(z3.Or(x < lo, x > hi), r == NAN))


def interp_dispatch_contract(en: E.Engine):
  """interp(x, xp, fp) on a non-TPU host is jnp.interp: the piecewise-linear interpolant with constant continuation."""
  _install_jnp_interp(en)
  import jax
  from vlib.pyvc.libspec import _reg
  _reg(en, jax.local_devices, lambda en_: [E.Obj(platform='cpu')], 'jax.local_devices() == one cpu device (this host)')
  n, xp, fp, _, _ = _nodes(en)
  x = en.real('x')
  en.cover('requires: n >= 2, xp strictly increasing')
  kind, r = en.invoke(en.load_function(_fn('interp')), x, xp, fp)
  if kind == 'raise':
    en.ensure(f'interp raises ({r})', False)
    return
  u = _u_of(en, n, xp, x)
  lin = fp.get(u - 1) + (x - xp.get(u - 1)) / (xp.get(u) - xp.get(u - 1)) * (fp.get(u) - fp.get(u - 1))
  en.ensure('default path of interp: two-point linear formula inside the node range', z3.Implies(z3.And(x >= xp.get(0), x <= xp.get(n - 1)), r == lin))
  en.ensure('default path of interp: constant continuation outside', z3.And(z3.Implies(x < xp.get(0), r == fp.get(0)), z3.Implies(x > xp.get(n - 1), r == fp.get(n - 1))))


def surface_pressure_contract(en: E.Engine):
  """get_surface_pressure on one column: relative height rh = orography * g - geopotential (increasing along the level axis) and the pressure levels.
  The result is the pressure at which the piecewise-linear profile of rh over the levels (linearly continued beyond the ends) crosses zero --
  'the level where geopotential meets orography'.  jnp.vectorize / jax.vmap only map the column function over the horizontal and leading axes."""
  import functools
  import jax
  import jax.numpy as jnp
  from dinosaur import vertical_interpolation as vi
  from vlib.pyvc import elem
  from vlib.pyvc.libspec import _reg
  ident = lambda en_, f=None, *a, **k: f
  _reg(en, jax.vmap, ident, 'jax.vmap(f, ...) == f on one column (mapping over the horizontal axes)')
  _reg(en, jnp.vectorize, ident, 'jnp.vectorize(f, signature) == f on one column (mapping over leading axes)')

  def h_partial(en_, f, *a, **k):
    return E.SymCallable(lambda en__, *b, **k2: en__.call(f, list(a) + list(b), dict(k, **k2)), 'functools.partial')
  _reg(en, functools.partial, h_partial, 'functools.partial')
  en.libspec[('subscript', 'Real')] = (None, elem.h_subscript_real)
  # the jitted kernel is executed from its real source (its own clauses are above): jax.jit is transparent
  en.contracts[E._callable_key(vi.linear_interp_with_linear_extrap)] = lambda en_, x, xp, fp: en_.call(en_.load_function(_fn('linear_interp_with_linear_extrap')), [x, xp, fp], {})
  n = z3.Int('n')
  en.inputs['n'] = n
  en.assume(n >= 2)
  lev = en.seq('pressure_levels', z3.RealSort(), length=n)
  geo = en.seq('geopotential', z3.RealSort(), length=n)
  oro, g = en.real('orography'), en.real('gravity_acceleration')
  en.assume(g > 0)
  j = z3.Int('j')
  en.assume(z3.ForAll([j], z3.Implies(z3.And(j >= 0, j + 1 < n), z3.And(lev.get(j) < lev.get(j + 1), geo.get(j) > geo.get(j + 1)))))      # levels increase downwards, geopotential decreases
  k, m = z3.Int('k'), z3.Int('m')
  en.assume(z3.ForAll([k, m], z3.Implies(z3.And(k >= 0, k < m, m < n), geo.get(k) > geo.get(m)), patterns=[z3.MultiPattern(geo.get(k), geo.get(m))]))
  en.cover('requires: n >= 2 increasing pressure levels, geopotential decreasing downwards, gravity > 0')
  kind, ps = en.invoke(en.load_function(vi.get_surface_pressure), E.Obj(centers=lev), geo, oro, g)
  if kind == 'raise':
    en.ensure(f'get_surface_pressure raises ({ps})', False)
    return
  ps = E._real(ps)
  rh = lambda i: oro * g - geo.get(i)
  u = z3.Int('u_spec')                # the segment used: bracketing rh = 0 where possible, else the end segment
  en.assume(z3.And(u >= 1, u <= n - 1))
  en.assume(z3.Implies(0 < rh(1), u == 1))
  en.assume(z3.Implies(0 >= rh(n - 1), u == n - 1))
  en.assume(z3.Implies(z3.And(0 >= rh(1), 0 < rh(n - 1)), z3.And(rh(u - 1) <= 0, 0 < rh(u))))
  # (1) the result is the two-point formula of the kernel on segment u (nodes = relative heights, data = levels, query 0)
  lin = lev.get(u - 1) + (0 - rh(u - 1)) / (rh(u) - rh(u - 1)) * (lev.get(u) - lev.get(u - 1))
  en.ensure('result == lev[u-1] + (0 - rh[u-1]) / (rh[u] - rh[u-1]) * (lev[u] - lev[u-1]) on the segment bracketing rh = 0 (or the end segment)', ps == lin)
  # (2) at that pressure the linear profile of rh over the levels vanishes: a field identity (ring normal form; denominators non-zero by monotonicity)
  from contracts import vertical_matrix_contracts as VM
  prof_at = lambda p_: rh(u - 1) + (p_ - lev.get(u - 1)) * (rh(u) - rh(u - 1)) / (lev.get(u) - lev.get(u - 1))
  mono = [lev.get(u - 1) < lev.get(u), geo.get(u - 1) > geo.get(u)]
  VM.ensure_cases(en, 'the linear profile of (orography * g - geopotential) over the levels, evaluated at that formula, is zero: geopotential meets orography',
                  [n >= 2, u >= 1, u <= n - 1], [('segment u', [u >= 1])], mono, prof_at(lin) == z3.RealVal(0), rules=[], timeout_ms=30000)
  # (3) hence at the returned pressure (substitution of equals)
  # pure congruence: with the profile abstracted to an uninterpreted function of the pressure the step is EUF (no non-linear reasoning, hence stable);
  # validity for every function implies validity for the linear profile
  PROF = z3.Function('profile_of_pressure', z3.RealSort(), z3.RealSort())
  en.ensure('at the returned pressure the profile is zero (from (1) and (2), by substitution of equals)', z3.Implies(z3.And(ps == lin, PROF(lin) == 0), PROF(ps) == 0))
  en.ensure('when the surface lies within the level range the surface pressure lies between the two bracketing levels',
            z3.Implies(z3.And(rh(0) <= 0, 0 <= rh(n - 1)), z3.And(ps >= lev.get(u - 1), ps <= lev.get(u))))


def replay_surface_pressure(w):
  import numpy as np
  import jax
  jax.config.update('jax_enable_x64', True)
  import jax.numpy as jnp
  from dinosaur import vertical_interpolation as vi
  rng = np.random.RandomState(9)
  for n in (2, 4, 7):
    lev = np.cumsum(rng.uniform(50, 200, n))
    geo = np.cumsum(rng.uniform(500, 3000, n))[::-1].copy()                     # decreasing downwards
    for oro_g in (geo[-1] - 200.0, 0.5 * (geo[0] + geo[-1]), geo[n // 2]):
      oro = np.full((1, 1, 1), oro_g / 9.8)
      ps = float(np.asarray(vi.get_surface_pressure(vi.PressureCoordinates(lev), jnp.asarray(geo)[:, None, None], jnp.asarray(oro), 9.8)).ravel()[0])
      rh = oro_g - geo
      u = int(np.clip(np.searchsorted(rh, 0.0, side='right'), 1, n - 1))
      prof = rh[u - 1] + (ps - lev[u - 1]) * (rh[u] - rh[u - 1]) / (lev[u] - lev[u - 1])
      if abs(prof) > 1e-6 * max(1.0, np.max(np.abs(rh))):
        return True, f'levels {np.round(lev, 2).tolist()}, geopotential {np.round(geo, 1).tolist()}, orography*g {oro_g:.1f}: surface pressure {ps:.4f}, profile there {prof:.4e} (should be 0)'
  return False, 'surface pressure is where the linear profile of orography * g - geopotential vanishes on the sampled columns'


def replay_safe(w):
  import numpy as np
  import jax
  jax.config.update('jax_enable_x64', True)
  import jax.numpy as jnp
  from dinosaur import vertical_interpolation as vi
  rng = np.random.RandomState(8)
  msgs = []
  for n in (2, 3, 6):
    xp = np.cumsum(rng.uniform(0.3, 1.5, n))
    fp = rng.randn(n)
    for cells in (1, 2):
      d0, d1 = xp[1] - xp[0], xp[-1] - xp[-2]
      qs = np.concatenate([np.linspace(xp[0] - (cells + 0.5) * d0, xp[-1] + (cells + 0.5) * d1, 41), xp, [xp[0] - cells * d0, xp[-1] + cells * d1]])
      for q in qs:
        got = float(vi._linear_interp_with_safe_extrap(q, jnp.asarray(xp), jnp.asarray(fp), cells))
        if q < xp[0] - cells * d0 - 1e-12 or q > xp[-1] + cells * d1 + 1e-12:
          ok = np.isnan(got)
          want = 'nan'
        elif abs(q - (xp[0] - cells * d0)) < 1e-12 or abs(q - (xp[-1] + cells * d1)) < 1e-12:
          continue                      # the outermost extended node itself: rounding decides which side it falls on
        else:
          if q < xp[0]:
            want = fp[0] + (q - xp[0]) / d0 * (fp[1] - fp[0])
          elif q > xp[-1]:
            want = fp[-1] + (q - xp[-1]) / d1 * (fp[-1] - fp[-2])
          else:
            want = float(np.interp(q, xp, fp))
          ok = abs(got - want) <= 1e-9 * max(1.0, abs(want))
        if not ok:
          msgs.append(f'n={n}, cells={cells}, xp={np.round(xp, 4).tolist()}, fp={np.round(fp, 4).tolist()}: query {q:.6f} gives {got}, documented {want}')
          break
  return bool(msgs), ('; '.join(msgs[:3]) if msgs else '_linear_interp_with_safe_extrap equals the documented interpolant / continuation / missing value on the sampled queries')


def canary_contract(en: E.Engine):
  n, xp, fp, _, _ = _nodes(en)
  x = en.real('x')
  kind, r = en.invoke(en.load_function(_fn('_dot_interp')), x, xp, fp)
  if kind == 'return':
    en.ensure('canary: _dot_interp extrapolates linearly on the right', z3.Implies(x > xp.get(n - 1), r == fp.get(n - 1) + (x - xp.get(n - 1))))


def _f(v, d=0.0):
  from fractions import Fraction
  try:
    return float(v)
  except (TypeError, ValueError):
    try:
      return float(Fraction(str(v)))
    except Exception:  # pylint: disable=broad-except
      return d


def replay_interp(w):
  """Real kernels (float64) on uneven nodes against the piecewise-linear specification, queries at/between/outside nodes."""
  import numpy as np
  import jax
  jax.config.update('jax_enable_x64', True)
  import jax.numpy as jnp
  from dinosaur import vertical_interpolation as vi
  rng = np.random.RandomState(0)
  msgs, bad = [], False
  for n in (2, 3, 5):
    xp = np.cumsum(rng.uniform(0.2, 2.0, n))
    for fp in (3.0 - 2.0 * xp, rng.randn(n)):
      qs = np.concatenate([xp, (xp[1:] + xp[:-1]) / 2, [xp[0] - 0.7, xp[-1] + 1.3]])
      for x in qs:
        u = int(np.clip(np.searchsorted(xp, x, side='right'), 1, n - 1))
        lin = fp[u - 1] + (x - xp[u - 1]) / (xp[u] - xp[u - 1]) * (fp[u] - fp[u - 1])
        a = float(vi.linear_interp_with_linear_extrap(x, jnp.asarray(xp), jnp.asarray(fp)))
        b = float(vi._dot_interp(x, jnp.asarray(xp), jnp.asarray(fp)))
        want_b = lin if xp[0] <= x <= xp[-1] else (fp[0] if x < xp[0] else fp[-1])
        if abs(a - lin) > 1e-10 or abs(b - want_b) > 1e-10:
          bad = True
          msgs.append(f'n={n}, xp={np.round(xp, 4).tolist()}, fp={np.round(fp, 4).tolist()}, x={x:.4f}: linear_interp_with_linear_extrap={a:.6f} (spec {lin:.6f}), _dot_interp={b:.6f} (spec {want_b:.6f})')
          break
      if bad:
        break
    if bad:
      break
  return bad, '; '.join(msgs) or 'real kernels agree with the piecewise-linear specification on the sampled node sets'


def replay_extrapolate(w):
  import numpy as np
  import jax
  jax.config.update('jax_enable_x64', True)
  import jax.numpy as jnp
  from dinosaur import vertical_interpolation as vi
  items = (w.get('y') or {}).get('items') if isinstance(w.get('y'), dict) else None
  ys = [np.array([_f(v) for v in items])] if items and len(items) >= 2 else []
  ys += [np.array([0.0, 1.0, 3.0, 7.0]), np.array([2.0, -1.0])]
  for y in ys:
    l, r, b = (np.asarray(f(jnp.asarray(y))) for f in (vi._extrapolate_left, vi._extrapolate_right, vi._extrapolate_both))
    ok = (l.size == y.size + 1 and abs(l[0] - (2 * y[0] - y[1])) < 1e-12 and np.allclose(l[1:], y) and r.size == y.size + 1 and
          abs(r[-1] - (2 * y[-1] - y[-2])) < 1e-12 and np.allclose(r[:-1], y) and b.size == y.size + 2 and abs(b[0] - l[0]) < 1e-12 and abs(b[-1] - r[-1]) < 1e-12)
    if not ok:
      return True, f'y={y.tolist()}: _extrapolate_left={l.tolist()}, _extrapolate_right={r.tolist()}, _extrapolate_both={b.tolist()}'
  return False, '_extrapolate_* continue the end spacing on the sampled vectors'


def clauses():
  rc = lambda c, n=2, **kw: (lambda ctx: run_contract((lambda en: c(en, **kw)) if kw else c, min_obligations=n, setup=_setup, timeout_ms=60000, max_paths=2000))
  out = []
  for which in ('linear_interp_with_linear_extrap', '_dot_interp'):
    f = [VI + which] + ([VI + 'interp'] if which == '_dot_interp' else [])
    out += [
        Clause(f'smt:{which} == piecewise-linear formula / documented extrapolation, bounded by neighbours (all n, all x)', 'smt', f,
               rc(formula_contract, 3, which=which), replay=replay_interp, group='pyvc-a' if which.startswith('l') else 'pyvc-b'),
        Clause(f'smt:{which} exact on affine data (all n, all x)', 'smt', f, rc(affine_contract, 2, which=which), replay=replay_interp,
               group='pyvc-a' if which.startswith('l') else 'pyvc-b'),
        Clause(f'smt:{which} returns the node value at every node (all n)', 'smt', f, rc(nodes_contract, 2, which=which), replay=replay_interp,
               group='pyvc-a' if which.startswith('l') else 'pyvc-b'),
    ]
  out += [
      Clause('smt:_extrapolate_left/right/both continue the end spacing (all lengths)', 'smt', [VI + '_extrapolate_left', VI + '_extrapolate_right', VI + '_extrapolate_both'],
             rc(extrapolate_contract, 4), replay=replay_extrapolate, group='pyvc-a'),
      Clause('smt:_linear_interp_with_safe_extrap (1 cell): interpolant inside, linear continuation for one end cell, missing beyond (all n, all x)', 'smt',
             [VI + '_linear_interp_with_safe_extrap', VI + '_extrapolate_both'], rc(safe_extrap_contract, 5, cells=1), replay=replay_safe, group='pyvc-b'),
      Clause('smt:_linear_interp_with_safe_extrap (2 cells): interpolant inside, linear continuation for two end cells, missing beyond (all n, all x)', 'smt',
             [VI + '_linear_interp_with_safe_extrap', VI + '_extrapolate_both'], rc(safe_extrap_contract, 5, cells=2), replay=replay_safe, group='pyvc-b'),
      Clause('smt:interp (default, non-accelerator path) == piecewise-linear interpolant with constant continuation (all n, all x)', 'smt', [VI + 'interp'],
             rc(interp_dispatch_contract, 3), replay=replay_interp, group='pyvc-b'),
      Clause('smt:get_surface_pressure returns the pressure where geopotential meets orography on the piecewise-linear profile (all level counts, all columns)', 'smt',
             [VI + 'get_surface_pressure', VI + 'linear_interp_with_linear_extrap'], rc(surface_pressure_contract, 4), replay=replay_surface_pressure, group='pyvc-b'),
      Clause('canary:_dot_interp extrapolates linearly must fail', 'smt', [VI + '_dot_interp'], rc(canary_contract, 1), canary=True, group='pyvc-b'),
  ]
  return out
