"""C16: conservative regridding weights -- non-negativity, convexity, conservation -- from the real source.

Row mode (pyvc 1-d arrays): the 2-d overlap matrix built by broadcasting `target[:, newaxis]` against `source[newaxis, :]` is
analysed one generic *row* at a time: the target cell (t_lo, t_hi) is a pair of symbolic reals, the source bounds are a vector of
symbolic length S+1 (strictly increasing).  `jnp.sum(w, axis=1, keepdims=True)` of a row is the ghost prefix sum SUMTO(S) of the
row, defined recursively; facts about it are proved by explicit induction (base and step are separate obligations).

Proved for vertical_interpolation._interval_overlap / conservative_regrid_weights (all sizes, all strictly increasing bounds):
  E1  every overlap entry is >= 0 and equals the length of [t_lo,t_hi] ∩ [s_k, s_k+1]
  E2  telescoping lemma:  sum_{k<K} overlap_k == max(0, min(t_hi, s_K) - max(t_lo, s_0))            (induction on K)
  E3  hence the row sum is positive iff the target cell intersects the source range ("over the covered range"), and equals the
      target thickness when the target cell is covered by the source range (conservation: un-normalised rows sum to target measure;
      by the symmetry E4 un-normalised columns sum to source measure when the targets cover the source cell)
  E4  overlap(t, s) == overlap(s, t)  (symmetric in the two partitions)
  E5  conservative_regrid_weights: entry == overlap / row sum, hence 0 <= entry <= 1 (convex combination; rows sum to one by the
      distributive law of finite sums, which is mathematics, not re-proved)
Horizontal (elementwise mode): _align_phase_with returns x + k*period with k in {-1,0,1} and, for |x - target| <= 3/2 period, lands
within period/2 of the target; _periodic_overlap >= 0 and equals the length of the intersection with the phase-aligned interval;
_latitude_overlap entries >= 0 (sin increasing on [-pi/2, pi/2], A9).
"""
from __future__ import annotations

import z3

from vlib.core import Clause
from vlib.pyvc import arrays, elem
from vlib.pyvc import engine as E
from vlib.pyvc.run import run_contract

VI = 'dinosaur.vertical_interpolation.'
HI = 'dinosaur.horizontal_interpolation.'

SB = z3.Function('source_bounds.at', z3.IntSort(), z3.RealSort())
TLO, THI = z3.Real('t_lo'), z3.Real('t_hi')


def _ov(k):
  """Specification of one overlap entry (from the property: length of the intersection of two cells)."""
  up = z3.If(THI <= SB(k + 1), THI, SB(k + 1))
  lo = z3.If(TLO >= SB(k), TLO, SB(k))
  return z3.If(up - lo >= 0, up - lo, 0)


SUMTO = z3.RecFunction('SUMTO', z3.IntSort(), z3.RealSort())
_k = z3.Int('k')
z3.RecAddDefinition(SUMTO, [_k], z3.If(_k <= 0, z3.RealVal(0), SUMTO(_k - 1) + _ov(_k - 1)))


class TargetRow:
  """`target_bounds` seen from one generic row: [1:, newaxis] -> t_hi, [:-1, newaxis] -> t_lo."""

  def __init__(self, T):
    self.size = T + 1


class RowScalar:
  """A per-target-cell quantity (one value per row), broadcast along the source axis by `[:, newaxis]`."""

  def __init__(self, value):
    self.value = value


class SourceRow:
  def __init__(self, seq):
    self.seq = seq
    self.size = seq.length


def _setup(en):
  arrays.install(en)
  elem.install(en)
  import jax.numpy as jnp
  import numpy as np

  def sub_target(en_, obj, idx):
    a, b = idx
    if b is not None:
      raise E.Unsupported('target bounds must be broadcast along a new trailing axis')
    if a == slice(1, None, None):
      return THI
    if a == slice(None, -1, None):
      return TLO
    raise E.Unsupported(f'unexpected slice {a} of target bounds')

  def sub_source(en_, obj, idx):
    a, b = idx
    if a is not None:
      raise E.Unsupported('source bounds must be broadcast along a new leading axis')
    return en_.subscript(obj.seq, b)
  en.libspec[('subscript', 'TargetRow')] = (None, sub_target)
  en.libspec[('subscript', 'SourceRow')] = (None, sub_source)

  def h_minmax(is_min):
    def h(en_, a, b):
      f = (lambda x, y: z3.If(E._real(arrays._num(x)) <= E._real(arrays._num(y)), E._real(arrays._num(x)), E._real(arrays._num(y)))) if is_min else \
          (lambda x, y: z3.If(E._real(arrays._num(x)) >= E._real(arrays._num(y)), E._real(arrays._num(x)), E._real(arrays._num(y))))
      if arrays._is_seq(a) or arrays._is_seq(b):
        return arrays._elementwise(en_, a, b, f, 'min' if is_min else 'max')
      return f(a, b)
    return h
  from vlib.pyvc.libspec import _reg
  for mod in (np, jnp):
    _reg(en, mod.minimum, h_minmax(True), f'{mod.__name__}.minimum (elementwise)')
    _reg(en, mod.maximum, h_minmax(False), f'{mod.__name__}.maximum (elementwise)')

  def h_abs(en_, a):
    f = lambda x: z3.If(E._real(arrays._num(x)) >= 0, E._real(arrays._num(x)), -E._real(arrays._num(x)))
    if arrays._is_seq(a):
      return E.SymSeq(a.length, lambda i: f(a.get(i)), None, f'abs({a.name})')
    return f(a)

  def h_diff(en_, x, *a, **k):
    if isinstance(x, TargetRow):
      return RowScalar(THI - TLO)            # generic entry of diff(target_bounds): the target cell thickness
    return arrays.h_diff(en_, x, *a, **k)
  for mod in (np, jnp):
    _reg(en, mod.abs, h_abs, f'{mod.__name__}.abs (elementwise)')
    _reg(en, mod.diff, h_diff, f'{mod.__name__}.diff')
  en.libspec[('subscript', 'RowScalar')] = (None, lambda en_, obj, idx: obj.value)

  def h_sum(en_, x, axis=None, keepdims=False):
    if not arrays._is_seq(x):
      raise E.Unsupported('sum of a non-vector')
    en_.row_summed = x
    return E.Obj(ghost='ROWSUM', of=x)
  for mod in (np, jnp):
    _reg(en, mod.sum, h_sum, f'{mod.__name__}.sum(row) == ghost finite sum of the row')
  en.libspec[('attr', 'SymSeq', 'shape')] = (None, lambda en_, s: (en_.target_cells, s.length))


def _source(en):
  S = z3.Int('S')
  en.inputs['S'] = S
  en.assume(S >= 1)
  j = z3.Int('j')
  en.assume(z3.ForAll([j], z3.Implies(z3.And(j >= 0, j < S), SB(j) < SB(j + 1))))
  a, b = z3.Int('a'), z3.Int('b')
  en.assume(z3.ForAll([a, b], z3.Implies(z3.And(a >= 0, a <= b, b <= S), SB(a) <= SB(b)), patterns=[z3.MultiPattern(SB(a), SB(b))]))
  en.assume(TLO < THI)
  en.inputs.update({'t_lo': TLO, 't_hi': THI})
  seq = E.SymSeq(S + 1, lambda i: SB(E.to_z3(i)), z3.RealSort(), 'source_bounds')
  en.inputs['source_bounds'] = seq
  return S, seq


def overlap_contract(en: E.Engine):
  from dinosaur import vertical_interpolation as vi
  S, seq = _source(en)
  en.target_cells = z3.Int('T')
  en.cover('requires: source bounds strictly increasing, t_lo < t_hi')
  kind, row = en.invoke(en.load_function(vi._interval_overlap), SourceRow(seq), TargetRow(en.target_cells))
  if kind == 'raise' or not arrays._is_seq(row):
    en.ensure(f'_interval_overlap returns a row of overlaps ({row})', False)
    return
  k = z3.Int('k')
  en.ensure('E1: the row has one entry per source cell', E.to_z3(row.length) == S)
  en.ensure('E1: every entry == length of the intersection of the target cell with source cell k (>= 0)',
            z3.ForAll([k], z3.Implies(z3.And(k >= 0, k < S), z3.And(row.get(k) == _ov(k), row.get(k) >= 0))))
  # E4 symmetry: swapping the roles of the two cells gives the same number
  a0, a1, b0, b1 = (z3.Real(n) for n in ('a0', 'a1', 'b0', 'b1'))
  f = lambda p0, p1, q0, q1: z3.If(z3.If(p1 <= q1, p1, q1) - z3.If(p0 >= q0, p0, q0) >= 0, z3.If(p1 <= q1, p1, q1) - z3.If(p0 >= q0, p0, q0), 0)
  en.ensure('E4: overlap is symmetric in the two cells', f(a0, a1, b0, b1) == f(b0, b1, a0, a1))


def telescoping_lemma(en: E.Engine):
  """E2 by induction on K:  SUMTO(K) == max(0, min(t_hi, s_K) - max(t_lo, s_0))."""
  S, seq = _source(en)
  K = en.int('K')
  clos = lambda kk: z3.If(z3.If(THI <= SB(kk), THI, SB(kk)) - z3.If(TLO >= SB(0), TLO, SB(0)) >= 0,
                          z3.If(THI <= SB(kk), THI, SB(kk)) - z3.If(TLO >= SB(0), TLO, SB(0)), 0)
  en.cover('lemma hypotheses')
  en.ensure('E2-base: SUMTO(0) == max(0, min(t_hi, s_0) - max(t_lo, s_0)) == 0', z3.And(SUMTO(0) == 0, clos(0) == 0))
  en.assume(z3.And(K >= 0, K < S))
  en.assume(SUMTO(K) == clos(K))          # induction hypothesis
  en.assume(z3.And(SB(0) <= SB(K), SB(K) < SB(K + 1)))
  en.ensure('E2-step: IH(K) => SUMTO(K+1) == max(0, min(t_hi, s_{K+1}) - max(t_lo, s_0))', SUMTO(K + 1) == clos(K + 1))


def rowsum_consequences(en: E.Engine):
  """E3 from E2 (used as a proved lemma)."""
  S, seq = _source(en)
  tot = SUMTO(S)
  clos = z3.If(z3.If(THI <= SB(S), THI, SB(S)) - z3.If(TLO >= SB(0), TLO, SB(0)) >= 0, z3.If(THI <= SB(S), THI, SB(S)) - z3.If(TLO >= SB(0), TLO, SB(0)), 0)
  en.assume(tot == clos)                   # E2 at K = S
  en.cover('requires')
  en.ensure('E3: row sum > 0 iff the target cell intersects the source range', (tot > 0) == z3.And(THI > SB(0), TLO < SB(S)))
  en.ensure('E3: a target cell covered by the source range has row sum == its own thickness (conservation of the un-normalised matrix)',
            z3.Implies(z3.And(TLO >= SB(0), THI <= SB(S)), tot == THI - TLO))
  en.ensure('E3: row sum never exceeds the target thickness', tot <= THI - TLO)


def weights_contract(en: E.Engine):
  from dinosaur import vertical_interpolation as vi
  S, seq = _source(en)
  en.target_cells = z3.Int('T')
  R = en.real('row_sum')
  en.cover('requires')
  # the row sum enters as the ghost value R == SUMTO(S); division by it must be excluded by the caller ("covered range": R > 0)
  import jax.numpy as jnp
  from vlib.pyvc.libspec import _reg
  _reg(en, jnp.sum, lambda en_, x, axis=None, keepdims=False: (setattr(en_, 'row_summed', x), R)[1], 'jnp.sum(row) == ghost row sum R')
  en.assume(R == SUMTO(S))
  k = z3.Int('k')
  en.assume(z3.ForAll([k], z3.Implies(z3.And(k >= 0, k < S), z3.And(_ov(k) >= 0, _ov(k) <= R))))    # each term of a sum of non-negatives is <= the sum (E1 + mathematics)
  en.assume(R > 0)                                                                                     # requires: target cell intersects the source range (E3)
  kind, w = en.invoke(en.load_function(vi.conservative_regrid_weights), SourceRow(seq), TargetRow(en.target_cells))
  if kind == 'raise' or not arrays._is_seq(w):
    en.ensure(f'conservative_regrid_weights returns a row of weights for a target cell inside the covered range ({w})', False)
    return
  summed = getattr(en, 'row_summed', None)
  en.ensure('E5: the normalising sum is taken over the overlap row itself', z3.BoolVal(summed is not None) if summed is None else
            z3.ForAll([k], z3.Implies(z3.And(k >= 0, k < S), summed.get(k) == _ov(k))))
  en.ensure('E5: weight == overlap / row sum, 0 <= weight <= 1',
            z3.ForAll([k], z3.Implies(z3.And(k >= 0, k < S), z3.And(w.get(k) == _ov(k) / R, w.get(k) >= 0, w.get(k) <= 1))))


def align_phase_contract(en: E.Engine):
  from dinosaur import horizontal_interpolation as hi
  x, t, P = en.real('x'), en.real('target'), en.real('period')
  en.assume(P > 0)
  en.cover('requires: period > 0')
  kind, r = en.invoke(en.load_function(hi._align_phase_with), x, t, P)
  if kind == 'raise':
    en.ensure(f'_align_phase_with raises ({r})', False)
    return
  en.ensure('result is x shifted by -1, 0 or +1 periods', z3.Or(r == x, r == x + P, r == x - P))
  en.ensure('|x - target| <= 3/2 period  =>  |result - target| <= period/2',
            z3.Implies(z3.And(x - t <= 3 * P / 2, t - x <= 3 * P / 2), z3.And(r - t <= P / 2, t - r <= P / 2)))
  en.ensure('already aligned values are left alone', z3.Implies(z3.And(x - t <= P / 2, t - x <= P / 2), r == x))


def periodic_overlap_contract(en: E.Engine):
  from dinosaur import horizontal_interpolation as hi
  x0, x1, y0, y1, P = (en.real(n) for n in ('x0', 'x1', 'y0', 'y1', 'period'))
  en.assume(z3.And(P > 0, x0 <= x1, x1 - x0 <= P / 2))
  # y is an arc no longer than period/2 given by its end points modulo the period: y1 = y0 + len (mod P)
  ln, m0 = en.real('len_y'), en.int('wraps')
  en.assume(z3.And(ln >= 0, ln <= P / 2, y1 == y0 + ln, y0 - x0 <= P, x0 - y0 <= P))
  en.cover('requires: arcs no longer than period/2, y within one period of x')
  kind, r = en.invoke(en.load_function(hi._periodic_overlap), x0, x1, y0, y1, P)
  if kind == 'raise':
    en.ensure(f'_periodic_overlap raises ({r})', False)
    return
  en.ensure('overlap >= 0', r >= 0)
  en.ensure('overlap <= length of either arc', z3.And(r <= x1 - x0, r <= ln))
  # the overlap of [x0,x1] with the copy of y nearest to x0
  ya = z3.If(y0 > x0 + P / 2, y0 - P, z3.If(y0 < x0 - P / 2, y0 + P, y0))
  yb = z3.If(y1 > x0 + P / 2, y1 - P, z3.If(y1 < x0 - P / 2, y1 + P, y1))
  up = z3.If(x1 <= yb, x1, yb)
  lo = z3.If(x0 >= ya, x0, ya)
  en.ensure('overlap == length of [x0, x1] ∩ [aligned y0, aligned y1]', r == z3.If(up - lo >= 0, up - lo, 0))


def periodic_bounds_contract(en: E.Engine):
  """_periodic_upper_bounds / _periodic_lower_bounds for points reduced to [0, period): cell i is bounded by the midpoints to its
  cyclic neighbours, each neighbour taken at the representative (shifted by -1, 0 or +1 periods) nearest to the point itself --
  wherever the 0 / period seam falls inside the array."""
  from dinosaur import horizontal_interpolation as hi
  import jax.numpy as jnp
  from vlib.pyvc.libspec import _reg
  n, P = en.int('n'), en.real('period')
  en.assume(z3.And(n >= 2, P > 0))
  XF = z3.Function('lon.at', z3.IntSort(), z3.RealSort())
  x = E.SymSeq(n, lambda i: XF(E.to_z3(i)), z3.RealSort(), 'lon')
  j = z3.Int('j')
  en.assume(z3.ForAll([j], z3.Implies(z3.And(j >= 0, j < n), z3.And(XF(j) >= 0, XF(j) < P))))        # after `points % period`

  def h_roll(en_, seq, shift):
    if not arrays._is_seq(seq) or shift not in (1, -1):
      raise E.Unsupported('roll other than by +-1')
    m = E.to_z3(seq.length)
    if shift == -1:
      return E.SymSeq(seq.length, lambda i: seq.get(z3.If(E.to_z3(i) + 1 < m, E.to_z3(i) + 1, 0)), seq.sort, 'roll(-1)')
    return E.SymSeq(seq.length, lambda i: seq.get(z3.If(E.to_z3(i) - 1 >= 0, E.to_z3(i) - 1, m - 1)), seq.sort, 'roll(+1)')
  _reg(en, jnp.roll, h_roll, 'jnp.roll(x, +-1): cyclic shift (A8)')
  en.cover('requires: n >= 2 points in [0, period)')
  k1, up = en.invoke(en.load_function(hi._periodic_upper_bounds), x, P)
  k2, lo = en.invoke(en.load_function(hi._periodic_lower_bounds), x, P)
  if 'raise' in (k1, k2) or not arrays._is_seq(up) or not arrays._is_seq(lo):
    en.ensure(f'_periodic_upper_bounds / _periodic_lower_bounds return one bound per point ({up}, {lo})', False)
    return
  i = en.int('i')
  en.assume(z3.And(i >= 0, i < n))
  nxt = XF(z3.If(i + 1 < n, i + 1, 0))
  prv = XF(z3.If(i - 1 >= 0, i - 1, n - 1))
  for nm, b, nb in (('upper', up.get(i), nxt), ('lower', lo.get(i), prv)):
    d = 2 * b - XF(i) - nb
    en.ensure(f'{nm} bound of cell i is the midpoint between the point and its cyclic neighbour shifted by -1, 0 or +1 periods', z3.Or(d == 0, d == P, d == -P))
    en.ensure(f'{nm} bound lies within a quarter period of its point (the neighbour is taken at its representative nearest to the point)',
              z3.And(2 * (b - XF(i)) <= P / 2, 2 * (XF(i) - b) <= P / 2))
  # the cells tile the circle: the upper bound of cell i and the lower bound of the next cell coincide modulo the period
  nx = z3.If(i + 1 < n, i + 1, 0)
  dd = up.get(i) - lo.get(nx)
  en.ensure('upper bound of cell i == lower bound of the next cell modulo the period (cells tile the circle) when neighbours are closer than half a period',
            z3.Implies(z3.And(XF(nx) - XF(i) != P / 2, XF(i) - XF(nx) != P / 2), z3.Or(dd == 0, dd == P, dd == -P)))


def latitude_overlap_contract(en: E.Engine):
  """(upper > lower) * (sin(upper) - sin(lower)) >= 0 for upper, lower in [-pi/2, pi/2] (sin increasing there)."""
  from dinosaur import horizontal_interpolation as hi
  import jax.numpy as jnp
  from vlib.pyvc.libspec import _reg
  tl, tu, sl, su = (en.real(n) for n in ('t_lo', 't_hi', 's_lo', 's_hi'))
  H = en.real('half_pi')
  en.assume(z3.And(H > 0, -H <= tl, tl < tu, tu <= H, -H <= sl, sl < su, su <= H))
  bounds = {'t': (tl, tu), 's': (sl, su)}

  class B:
    def __init__(self, which):
      self.which = which

  def sub(en_, obj, idx):
    a, b = idx
    sl_ = a if b is None else b
    lo, hi_ = bounds[obj.which]
    return hi_ if sl_ == slice(1, None, None) else lo
  en.libspec[('subscript', 'B')] = (None, sub)
  en.contracts[E._callable_key(hi._latitude_cell_bounds)] = lambda en_, pts: pts
  en.trusted.add('_latitude_cell_bounds(points) abstracted to a pair of increasing bounds in [-pi/2, pi/2] (its own enumerated clause in props/C16.py)')
  en.cover('requires')
  kind, r = en.invoke(en.load_function(hi._latitude_overlap), B('s'), B('t'))
  if kind == 'raise':
    en.ensure(f'_latitude_overlap raises ({r})', False)
    return
  ax = elem.axioms(en)
  args = list(en.elem_args.get('sin', [])) + [tl, tu, sl, su]        # monotonicity instances also for the four band edges themselves
  mono = []
  for i, a in enumerate(args):
    for b in args[i + 1:]:
      mono += [z3.Implies(z3.And(-H <= a, a <= b, b <= H), elem.SIN(a) <= elem.SIN(b)), z3.Implies(z3.And(-H <= b, b <= a, a <= H), elem.SIN(b) <= elem.SIN(a)),
               z3.Implies(z3.And(-H <= a, a < b, b <= H), elem.SIN(a) < elem.SIN(b)), z3.Implies(z3.And(-H <= b, b < a, a <= H), elem.SIN(b) < elem.SIN(a))]
  en.ensure('latitude overlap entry >= 0', r >= 0, extra=ax + mono)
  en.ensure('latitude overlap entry > 0 iff the two latitude bands intersect in more than a point',
            (r > 0) == (z3.If(tu <= su, tu, su) > z3.If(tl >= sl, tl, sl)), extra=ax + mono)
  # reduction to the interval overlap: with mu = sin (increasing on [-pi/2, pi/2]) the entry is the length of the intersection of the two
  # intervals [mu(lo), mu(hi)] -- so the telescoping row sums, conservation and the weights-in-[0,1] clauses proved for _interval_overlap
  # carry over to latitude bands measured by sin (cell area)
  mu = elem.SIN
  mn = lambda a, b: z3.If(a <= b, a, b)
  mx = lambda a, b: z3.If(a >= b, a, b)
  inter = mn(mu(tu), mu(su)) - mx(mu(tl), mu(sl))
  en.ensure('latitude overlap entry == | [sin t_lo, sin t_hi] intersect [sin s_lo, sin s_hi] | (the interval overlap in sin-coordinates)', r == mx(inter, z3.RealVal(0)), extra=ax + mono)


def latitude_bounds_contract(en: E.Engine):
  """_latitude_cell_bounds(x): n+1 bounds, -pi/2 and pi/2 at the ends, midpoints between neighbouring centres in between; increasing for
  increasing centres inside (-pi/2, pi/2), each centre inside its own cell."""
  from dinosaur import horizontal_interpolation as hi
  import numpy as np
  n = en.int('n')
  en.assume(n >= 1)
  XF = z3.Function('lat.at', z3.IntSort(), z3.RealSort())
  HP = E.to_z3(float(np.pi / 2))
  x = E.SymSeq(n, lambda i: XF(E.to_z3(i)), z3.RealSort(), 'lat')
  j = z3.Int('j')
  en.assume(z3.ForAll([j], z3.Implies(z3.And(j >= 0, j + 1 < n), XF(j) < XF(j + 1))))
  en.assume(z3.ForAll([j], z3.Implies(z3.And(j >= 0, j < n), z3.And(-HP < XF(j), XF(j) < HP))))
  en.libspec[('neg', 'SymSeq')] = (None, lambda en_, v: E.SymSeq(v.length, (lambda g: (lambda i: -g(i)))(v.get), z3.RealSort(), f'-{v.name}'))
  en.cover('requires: increasing centres strictly inside (-pi/2, pi/2)')
  kind, b = en.invoke(en.load_function(hi._latitude_cell_bounds), x)
  if kind == 'raise' or not arrays._is_seq(b):
    en.ensure(f'_latitude_cell_bounds returns a vector ({b})', False)
    return
  k = en.int('k')
  en.assume(z3.And(k >= 0, k < n))
  en.ensure('n + 1 bounds', E.to_z3(b.length) == n + 1)
  en.ensure('the first bound is -pi/2 and the last is pi/2', z3.And(b.get(0) == -HP, b.get(n) == HP))
  en.ensure('interior bounds are the midpoints between neighbouring centres', z3.Implies(k >= 1, b.get(k) == (XF(k - 1) + XF(k)) / 2))
  en.ensure('bounds increase and every centre lies strictly inside its own cell', z3.And(b.get(k) < XF(k), XF(k) < b.get(k + 1)))


def canary_contract(en: E.Engine):
  from dinosaur import horizontal_interpolation as hi
  x, t, P = en.real('x'), en.real('target'), en.real('period')
  en.assume(P > 0)
  kind, r = en.invoke(en.load_function(hi._align_phase_with), x, t, P)
  if kind == 'return':
    en.ensure('canary: result always within period/2 of the target', z3.And(r - t <= P / 2, t - r <= P / 2))


def _f(v, d=0.0):
  from fractions import Fraction
  try:
    return float(v)
  except (TypeError, ValueError):
    try:
      return float(Fraction(str(v)))
    except Exception:  # pylint: disable=broad-except
      return d


def replay_vertical(w):
  import numpy as np
  import jax
  jax.config.update('jax_enable_x64', True)
  import jax.numpy as jnp
  from dinosaur import vertical_interpolation as vi
  rng = np.random.RandomState(0)
  for trial in range(20):
    sb = np.cumsum(rng.uniform(0.1, 1.0, rng.randint(2, 7)))
    tb = np.sort(rng.uniform(sb[0] - 0.5, sb[-1] + 0.5, rng.randint(2, 6)))
    tb = tb[np.concatenate([[True], np.diff(tb) > 1e-3])]
    if tb.size < 2:
      continue
    ov = np.asarray(vi._interval_overlap(jnp.asarray(sb), jnp.asarray(tb)))
    want = np.maximum(np.minimum(tb[1:, None], sb[None, 1:]) - np.maximum(tb[:-1, None], sb[None, :-1]), 0)
    rows = want.sum(1)
    with np.errstate(all='ignore'):
      wts = np.asarray(vi.conservative_regrid_weights(jnp.asarray(sb), jnp.asarray(tb)))
    cov = rows > 0
    bad = np.abs(ov - want).max() > 1e-12 or np.any(ov < 0)
    if cov.any():
      bad |= np.abs(wts[cov].sum(1) - 1).max() > 1e-12 or np.any(wts[cov] < 0) or np.abs(wts[cov] - want[cov] / rows[cov, None]).max() > 1e-12
    if bad:
      return True, f'source bounds {np.round(sb, 4).tolist()}, target bounds {np.round(tb, 4).tolist()}: overlap {np.round(ov, 4).tolist()}, weights {np.round(wts, 4).tolist()}'
  return False, 'real _interval_overlap / conservative_regrid_weights agree with the interval-intersection specification on 20 random bound sets'


def replay_horizontal(w):
  import numpy as np
  from dinosaur import horizontal_interpolation as hi
  x, t, P = _f(w.get('x'), 5.0), _f(w.get('target'), 0.2), abs(_f(w.get('period'), 6.0)) or 6.0
  cases = [(x, t, P)] + [(xx, tt, 2 * np.pi) for xx in (0.1, 3.3, 6.2, -2.0, 8.0) for tt in (0.0, 3.0, 6.0)]
  for (xx, tt, PP) in cases:
    if abs(xx - tt) > 1.5 * PP:
      continue
    r = float(hi._align_phase_with(np.float64(xx), np.float64(tt), PP))
    k = (r - xx) / PP
    if abs(k - round(k)) > 1e-12 or abs(round(k)) > 1 or abs(r - tt) > PP / 2 + 1e-12:
      return True, f'_align_phase_with({xx}, {tt}, {PP}) = {r}'
  for (a0, a1, b0, b1) in ((0.1, 0.5, 6.2, 6.4), (6.0, 6.28, 0.0, 0.3), (1.0, 2.0, 1.5, 2.5), (1.0, 2.0, 3.0, 3.5)):
    r = float(hi._periodic_overlap(np.float64(a0), np.float64(a1), np.float64(b0), np.float64(b1), 2 * np.pi))
    want = max(0.0, max(min(a1, b1 + s) - max(a0, b0 + s) for s in (-2 * np.pi, 0.0, 2 * np.pi)))
    if abs(r - want) > 1e-12:
      return True, f'_periodic_overlap({a0},{a1},{b0},{b1}) = {r}, expected {want}'
  return False, 'real _align_phase_with / _periodic_overlap agree with the specification on the sampled arcs'


def replay_periodic_bounds(w):
  import numpy as np
  from dinosaur import horizontal_interpolation as hi
  P = 2 * np.pi
  for off, n in ((0.0, 6), (-0.4, 6), (2.3, 5), (1.13, 7), (-0.21, 12)):
    lon = (off + np.linspace(0, P, n, endpoint=False)) % P
    up = np.asarray(hi._periodic_upper_bounds(lon, P))
    lo = np.asarray(hi._periodic_lower_bounds(lon, P))
    w_ = up - lo
    ok = np.allclose(w_, P / n) and np.all(np.abs(up - lon) <= P / 4 + 1e-12) and np.all(np.abs(lon - lo) <= P / 4 + 1e-12)
    if not ok:
      return True, f'longitudes {np.round(lon, 3).tolist()} (offset {off}): upper bounds {np.round(up, 3).tolist()}, lower bounds {np.round(lo, 3).tolist()}, cell widths {np.round(w_, 3).tolist()} (expected {P / n:.3f} each)'
  return False, 'periodic cell bounds are the neighbour midpoints for the sampled offsets (seam inside the array included)'


def clauses():
  rc = lambda c, n=2: (lambda ctx: run_contract(c, min_obligations=n, setup=_setup, timeout_ms=60000, max_paths=2000))
  v = [VI + '_interval_overlap', VI + 'conservative_regrid_weights']
  return [
      Clause('smt:_interval_overlap entries == |target cell ∩ source cell| >= 0, symmetric (all sizes)', 'smt', v[:1], rc(overlap_contract, 4), replay=replay_vertical, group='pyvc'),
      Clause('lemma:telescoping row sum of overlaps == max(0, min(t_hi, s_K) - max(t_lo, s_0)) (induction: base+step)', 'smt', v[:1], rc(telescoping_lemma, 3), group='pyvc'),
      Clause('smt:row sum positive iff the target cell meets the source range; equals the target thickness when covered (conservation)', 'smt', v, rc(rowsum_consequences, 4),
             replay=replay_vertical, group='pyvc'),
      Clause('smt:conservative_regrid_weights entry == overlap / row sum in [0,1] over the covered range (all sizes)', 'smt', v, rc(weights_contract, 3), replay=replay_vertical, group='pyvc'),
      Clause('smt:_align_phase_with shifts by whole periods and lands within period/2 of the target', 'smt', [HI + '_align_phase_with'], rc(align_phase_contract, 4),
             replay=replay_horizontal, group='pyvc'),
      Clause('smt:_periodic_overlap == length of the intersection with the phase-aligned arc, >= 0', 'smt', [HI + '_periodic_overlap', HI + '_align_phase_with'],
             rc(periodic_overlap_contract, 4), replay=replay_horizontal, group='pyvc'),
      Clause('smt:_periodic_upper/lower_bounds: midpoints to the cyclic neighbours at their nearest representative, cells tile the circle (all n, seam anywhere)', 'smt',
             [HI + '_periodic_upper_bounds', HI + '_periodic_lower_bounds', HI + '_align_phase_with'], rc(periodic_bounds_contract, 6), replay=replay_periodic_bounds, group='pyvc'),
      Clause('smt:_latitude_cell_bounds: poles at the ends, midpoints in between, every centre inside its cell (all n)', 'smt', [HI + '_latitude_cell_bounds'],
             rc(latitude_bounds_contract, 5), group='pyvc'),
      Clause('smt:_latitude_overlap entries >= 0, positive iff the bands intersect (sin increasing, A9)', 'smt', [HI + '_latitude_overlap'], rc(latitude_overlap_contract, 3), group='pyvc'),
      Clause('canary:_align_phase_with always within period/2 must fail', 'smt', [HI + '_align_phase_with'], rc(canary_contract, 1), canary=True, group='pyvc'),
  ]
