"""C14: stepping and scan combinators equal their sequential definition, for every split.

Sidecar contracts for step_with_filters, repeated, trajectory_from_step,
accumulate_repeated, nested_checkpoint_scan/_inner_nested_scan of
dinosaur.time_integration, discharged by pyvc with symbolic step counts.

Ghost state:  STEP: V -> V (the step function, uninterpreted);
  IT(k, x)  = k-fold iterate of STEP            IT(0,x)=x, IT(k,x)=STEP(IT(k-1,x))
  FOLD(k,u) = state after the first k filters    FOLD(0,u)=STEP(u), FOLD(k,u)=FILT(k-1,u,FOLD(k-1,u))
  ACC(k)    = sum_{j<k} w_j * IT(j+1, s)          (recursive form of the defining sum)
Lemma (proved here by explicit induction, base and step as separate VCs):
  SEMI: IT(a, IT(b, x)) == IT(a+b, x)  for a, b >= 0.
"""
from __future__ import annotations

import z3

from vlib.core import Clause, Outcome
from vlib.pyvc import engine as E
from vlib.pyvc import libspec as L
from vlib.pyvc.run import run_contract

TI = 'dinosaur.time_integration.'
V = E.V
I = z3.IntSort()

STEP = z3.Function('STEP', V, V)
POST = z3.Function('POST', V, V)
FILT = z3.Function('FILT', I, V, V, V)
IT = z3.RecFunction('IT', I, V, V)
_k, _x = z3.Int('k'), z3.Const('x', V)
z3.RecAddDefinition(IT, [_k, _x], z3.If(_k <= 0, _x, STEP(IT(_k - 1, _x))))
FOLD = z3.RecFunction('FOLD', I, V, V)
z3.RecAddDefinition(FOLD, [_k, _x], z3.If(_k <= 0, STEP(_x), FILT(_k - 1, _x, FOLD(_k - 1, _x))))

_W = z3.Function('weights.at', I, z3.RealSort())      # same declaration as en.seq('weights', Real)
_S0 = z3.Const('state', V)
ACC = z3.RecFunction('ACC', I, V)
z3.RecAddDefinition(ACC, [_k], z3.If(_k <= 0, L.ZEROS_LIKE(_S0),
                                     E.VADD(ACC(_k - 1), E.SMUL(_W(_k - 1), IT(_k, _S0)))))

INNER = z3.Int('inner_steps')
ITR = z3.RecFunction('ITR', I, V, V)      # iterate of the inner-repeated step  R(x) = IT(inner_steps, x)
z3.RecAddDefinition(ITR, [_k, _x], z3.If(_k <= 0, _x, IT(INNER, ITR(_k - 1, _x))))

step_callable = E.SymCallable(lambda en, x: STEP(x), 'STEP')
post_callable = E.SymCallable(lambda en, x: POST(x), 'POST')


def semi_axiom():
  a, b, x = z3.Int('a'), z3.Int('b'), z3.Const('x', V)
  return z3.ForAll([a, b, x], z3.Implies(z3.And(a >= 0, b >= 0), IT(a, IT(b, x)) == IT(a + b, x)),
                   patterns=[IT(a, IT(b, x))])


# ---- lemma SEMI by induction on a ---------------------------------------------------------


def lemma_semi(en: E.Engine):
  a, b = en.int('a'), en.int('b')
  x = en.val('x')
  en.assume(b >= 0)
  en.cover('lemma')
  en.ensure('SEMI-base: IT(0, IT(b,x)) == IT(0+b, x)', IT(0, IT(b, x)) == IT(0 + b, x))
  en.assume(a >= 0)
  en.assume(IT(a, IT(b, x)) == IT(a + b, x))        # induction hypothesis
  en.ensure('SEMI-step: IH(a) => IT(a+1, IT(b,x)) == IT(a+1+b, x)', IT(a + 1, IT(b, x)) == IT(a + 1 + b, x))


def itr_axiom():
  k, x = z3.Int('k'), z3.Const('x', V)
  return z3.ForAll([k, x], z3.Implies(k >= 0, ITR(k, x) == IT(k * INNER, x)), patterns=[ITR(k, x)])


def lemma_itr(en: E.Engine):
  """ITR(k, x) == IT(k*inner, x) by induction on k (uses SEMI)."""
  k = en.int('k')
  inner = en.int('inner_steps')
  x = en.val('x')
  en.assume(inner >= 1)
  en.cover('lemma')
  en.ensure('ITR-base: ITR(0,x) == IT(0*inner, x)', ITR(0, x) == IT(0 * inner, x))
  en.assume(k >= 0)
  en.assume(ITR(k, x) == IT(k * inner, x))
  en.ensure('ITR-step: IH(k) => ITR(k+1,x) == IT((k+1)*inner, x)', ITR(k + 1, x) == IT((k + 1) * inner, x))


# ---- repeated ------------------------------------------------------------------------------


def repeated_contract(en: E.Engine):
  from dinosaur import time_integration as ti
  steps = en.int('steps')
  en.assume(steps >= 1)
  x = en.val('x')
  en.scan_spec[('f_repeated', 0)] = {
      'inv': lambda en_, env, k, carry, ys: [('carry==IT(k,x_initial)', carry == IT(k, env.lookup('x_initial')))],
      'out_sort': None}
  en.cover('requires')
  kind, r = en.invoke(en.load_function(ti.repeated), step_callable, steps, L.SCAN)
  if kind == 'raise':
    en.ensure(f'repeated raises {r}', False)
    return
  kind, y = en.invoke(r, x)
  if kind == 'raise':
    en.ensure(f'repeated(fn, steps)(x) raises {y}', False)
    return
  en.ensure('repeated(fn, steps)(x) == IT(steps, x)', y == IT(steps, x))


def repeated_default_scan_contract(en: E.Engine):
  """Same with the default scan_fn=jax.lax.scan (its assumed contract is the sequential fold)."""
  from dinosaur import time_integration as ti
  steps = en.int('steps')
  en.assume(steps >= 1)
  x = en.val('x')
  en.scan_spec[('f_repeated', 0)] = {
      'inv': lambda en_, env, k, carry, ys: [('carry==IT(k,x_initial)', carry == IT(k, env.lookup('x_initial')))],
      'out_sort': None}
  kind, r = en.invoke(en.load_function(ti.repeated), step_callable, steps)
  if kind == 'raise':
    en.ensure(f'repeated raises {r}', False)
    return
  kind, y = en.invoke(r, x)
  en.ensure('repeated(fn, steps)(x) == IT(steps, x) [default lax.scan]', z3.BoolVal(False) if kind == 'raise' else y == IT(steps, x))


def use_repeated(en, fn, steps, scan_fn=None):
  """Callee contract of `repeated` (what repeated_contract proves), used modularly by callers."""
  if fn is not step_callable:
    raise E.Unsupported('repeated() contract is stated for the ghost step function')
  en.ensure('pre(repeated): steps >= 1', E.to_z3(steps) >= 1)
  return E.SymCallable(lambda en_, x: IT(E.to_z3(steps), x), 'repeated(STEP, steps)')


# ---- step_with_filters ------------------------------------------------------------------------


def step_with_filters_contract(en: E.Engine):
  from dinosaur import time_integration as ti
  nf = en.int('n_filters')
  en.assume(nf >= 0)
  filters = E.SymSeq(nf, lambda i: E.SymCallable((lambda i: lambda en_, u, un: FILT(E.to_z3(i), u, un))(i), f'FILT[{i}]'), None, 'filters')
  en.inputs['filters'] = E.SymSeq(nf, lambda i: z3.IntVal(0), None, 'filters')
  u = en.val('u')
  en.loop_inv[('_step_fn', 0)] = lambda en_, env, k: [('u_next==FOLD(k,u)', env.lookup('u_next') == FOLD(E.to_z3(k), env.lookup('u')))]
  en.cover('requires')
  kind, f = en.invoke(en.load_function(ti.step_with_filters), step_callable, filters)
  if kind == 'raise':
    en.ensure(f'step_with_filters raises {f}', False)
    return
  kind, y = en.invoke(f, u)
  if kind == 'raise':
    en.ensure(f'filtered step raises {y}', False)
    return
  en.ensure('step_with_filters(step,[f_0..f_{m-1}])(u) == f_{m-1}(u, ... f_0(u, step(u)))', y == FOLD(nf, u))


# ---- trajectory_from_step -----------------------------------------------------------------------


def _trajectory_contract(start_with_input, inner_is_one):
  def contract(en: E.Engine):
    from dinosaur import time_integration as ti
    outer = en.int('outer_steps')
    inner = en.int('inner_steps')
    en.assume(outer >= 0)
    en.assume(inner >= 1)
    if inner_is_one:
      en.assume(inner == 1)
    else:
      en.assume(inner >= 2)
    x = en.val('x')
    en.contracts[E._callable_key(ti.repeated)] = use_repeated

    def inv(en_, env, k, carry, ys):
      x0 = env.lookup('x')
      j = z3.Int('j')
      frame = (lambda j_: POST(ITR(j_, x0))) if start_with_input else (lambda j_: POST(ITR(j_ + 1, x0)))
      return [('carry==ITR(k,x)', carry == ITR(k, x0)),
              ('frames', z3.ForAll([j], z3.Implies(z3.And(j >= 0, j < k), ys.get(j) == frame(j)))),
              ('k>=0', k >= 0)]
    en.scan_spec[('multistep', 0)] = {'inv': inv, 'out_sort': V}
    en.cover('requires')
    kind, f = en.invoke(en.load_function(ti.trajectory_from_step), step_callable, outer, inner,
                        start_with_input=start_with_input, post_process_fn=post_callable,
                        outer_scan_fn=L.SCAN, inner_scan_fn=L.SCAN)
    if kind == 'raise':
      en.ensure(f'trajectory_from_step raises {f}', False)
      return
    kind, res = en.invoke(f, x)
    if kind == 'raise':
      en.ensure(f'trajectory raises {res}', False)
      return
    final, traj = res
    en.axioms_path = [itr_axiom()]
    en.ensure('final carry == IT(outer*inner, x)', final == IT(outer * inner, x), extra=[itr_axiom()])
    en.ensure('len(trajectory) == outer_steps', traj.length == outer)
    j = en.int('j')
    en.assume(z3.And(j >= 0, j < outer))
    want = POST(IT(j * inner, x)) if start_with_input else POST(IT((j + 1) * inner, x))
    en.ensure(f'frame j == post(IT({"j" if start_with_input else "(j+1)"}*inner, x))', traj.get(j) == want, extra=[itr_axiom()])
  contract.__name__ = f'trajectory_contract_start_with_input={start_with_input}_inner_is_one={inner_is_one}'
  return contract


# ---- accumulate_repeated ---------------------------------------------------------------------------


def accumulate_contract(en: E.Engine):
  from dinosaur import time_integration as ti
  w = en.seq('weights', z3.RealSort())
  s0 = en.val('state')

  def inv(en_, env, k, carry, ys):
    s, a = carry
    return [('state==IT(k,s0)', s == IT(k, s0)), ('averaged==ACC(k)', a == ACC(k)), ('k>=0', k >= 0)]
  en.scan_spec[('accumulate_repeated', 0)] = {'inv': inv, 'out_sort': None}
  en.cover('requires')
  kind, r = en.invoke(en.load_function(ti.accumulate_repeated), step_callable, w, s0, L.SCAN)
  if kind == 'raise':
    en.ensure(f'accumulate_repeated raises {r}', False)
    return
  en.ensure('accumulate_repeated(step, w, s) == sum_k w_k * IT(k+1, s)  (recursive form ACC(len w))', r == ACC(w.length))


# ---- canary -------------------------------------------------------------------------------------------


def canary_contract(en: E.Engine):
  """Deliberately false: repeated(fn, steps)(x) == IT(steps+1, x). Must FAIL."""
  from dinosaur import time_integration as ti
  steps = en.int('steps')
  en.assume(steps >= 1)
  x = en.val('x')
  en.scan_spec[('f_repeated', 0)] = {
      'inv': lambda en_, env, k, carry, ys: [('carry==IT(k,x_initial)', carry == IT(k, env.lookup('x_initial')))],
      'out_sort': None}
  kind, r = en.invoke(en.load_function(ti.repeated), step_callable, steps, L.SCAN)
  kind, y = en.invoke(r, x)
  en.ensure('canary: repeated(fn, steps)(x) == IT(steps+1, x)', y == IT(steps + 1, x))


# ---- replays (CPython, real combinators with a python-loop scan) ------------------------------------------


def _py_scan(f, init, xs=None, length=None):
  import numpy as np
  carry = init
  ys = []
  n = length if length is not None else len(xs)
  for k in range(n):
    carry, y = f(carry, None if xs is None else xs[k])
    ys.append(y)
  return carry, (None if (ys and ys[0] is None) or not ys else ys)


def replay_repeated(w):
  from dinosaur import time_integration as ti
  n = int(w.get('steps', 3))
  step = lambda t: t + (len(t),)
  got = ti.repeated(step, n, _py_scan)(())
  want = ()
  for _ in range(n):
    want = step(want)
  return got != want, f'repeated(step, {n})(()) = {got}; sequential loop = {want}'


def replay_trajectory(w):
  from dinosaur import time_integration as ti
  outer, inner = int(w.get('outer_steps', 2)), int(w.get('inner_steps', 2))
  msgs = []
  bad = False
  for swi in (False, True):
    step = lambda t: t + 1
    final, traj = ti.trajectory_from_step(step, outer, inner, start_with_input=swi, post_process_fn=lambda v: 10 * v + 7,
                                          outer_scan_fn=_py_scan, inner_scan_fn=_py_scan)(0)
    want = [10 * ((k if swi else k + 1) * inner) + 7 for k in range(outer)]
    ok = final == outer * inner and list(traj or []) == want
    bad |= not ok
    msgs.append(f'start_with_input={swi}: final={final} (want {outer*inner}) frames={traj} (want {want})')
  return bad, f'trajectory_from_step(outer={outer}, inner={inner}) counting steps: ' + '; '.join(msgs)


def replay_filters(w):
  from dinosaur import time_integration as ti
  n = int((w.get('n_filters') or 0) or (w.get('filters') or {}).get('len', 2) or 2)
  log = []
  filters = [(lambda i: lambda u, un: (log.append((i, u)), un + [f'f{i}'])[1])(i) for i in range(n)]
  got = ti.step_with_filters(lambda u: u + ['step'], filters)(['u'])
  want = ['u', 'step'] + [f'f{i}' for i in range(n)]
  ok = got == want and all(u == ['u'] for _, u in log) and [i for i, _ in log] == list(range(n))
  return not ok, f'step_with_filters with {n} filters: result {got}, want {want}; filter calls (index, first-arg) = {log}'


def replay_accumulate(w):
  import numpy as np
  from dinosaur import time_integration as ti
  n = int((w.get('weights') or {}).get('len', 3))
  ws = np.arange(1.0, n + 1)
  got = ti.accumulate_repeated(lambda s: 2 * s, ws, np.float64(1.0), scan_fn=_py_scan)
  want = sum(ws[k] * 2.0 ** (k + 1) for k in range(n))
  return abs(float(got) - want) > 1e-9, f'accumulate_repeated(2*, w=1..{n}, 1.0) = {float(got)}; defining sum = {want}'


def clauses():
  ax = [semi_axiom()]
  mk = lambda c, **kw: (lambda ctx: run_contract(c, **kw))
  cl = [
      Clause('lemma:IT-semigroup (induction: base+step)', 'smt', [], mk(lemma_semi, min_obligations=3), group='pyvc'),
      Clause('lemma:ITR(k,x)==IT(k*inner,x) (induction: base+step)', 'smt', [], mk(lemma_itr, min_obligations=3, axioms=ax), group='pyvc'),
      Clause('repeated == n-fold iterate', 'smt', [TI + 'repeated'], mk(repeated_contract, min_obligations=4),
             replay=replay_repeated, group='pyvc'),
      Clause('repeated == n-fold iterate [default lax.scan contract]', 'smt', [TI + 'repeated'],
             mk(repeated_default_scan_contract, min_obligations=3), replay=replay_repeated, group='pyvc'),
      Clause('step_with_filters == fold of filters in order on unfiltered input', 'smt', [TI + 'step_with_filters'],
             mk(step_with_filters_contract, min_obligations=4), replay=replay_filters, group='pyvc'),
      Clause('accumulate_repeated == defining weighted sum', 'smt', [TI + 'accumulate_repeated'],
             mk(accumulate_contract, min_obligations=5), replay=replay_accumulate, group='pyvc'),
      Clause('canary:repeated-off-by-one-must-fail', 'smt', [TI + 'repeated'], mk(canary_contract), canary=True, group='pyvc'),
  ]
  for swi in (False, True):
    for one in (False, True):
      cl.append(Clause(f'trajectory_from_step frames/final [start_with_input={swi}, inner{"==1" if one else ">=2"}]', 'smt',
                       [TI + 'trajectory_from_step', TI + 'repeated'],
                       mk(_trajectory_contract(swi, one), min_obligations=7), replay=replay_trajectory,
                       group='pyvc-traj'))
  return cl


# ---- digital filter initialisation ----------------------------------------------------------------------
# Modular: callees enter through their contracts (uninterpreted result terms); the post-condition is the
# defining sum  w0'*s + ACC[F](w', s) + ACC[B](w', s)  with F/B the *filtered* forward / time-reversed steps.

ARR = z3.DeclareSort('Arr')                 # abstract numpy weight vector
EQ = z3.DeclareSort('Eq')                   # abstract equation
FN = z3.DeclareSort('Fn')                   # abstract step function
FL = z3.DeclareSort('Filters')
WSUM = z3.Function('arr_sum', ARR, z3.RealSort())
WDIV = z3.Function('arr_div', ARR, z3.RealSort(), ARR)
LANCZOS = z3.Function('dfi_lanczos_weights', z3.RealSort(), z3.RealSort(), z3.RealSort(), ARR)
SOLVER = z3.Function('ode_solver', EQ, z3.RealSort(), FN)
REVERSED = z3.Function('TimeReversedImExODE', EQ, EQ)
SWF = z3.Function('step_with_filters', FN, FL, FN)
ACCR = z3.Function('accumulate_repeated', FN, ARR, V, V)


def _dfi_setup(en):
  from dinosaur import time_integration as ti
  en.sort_ops['Arr'] = {'Div': lambda en_, a, b: WDIV(a, E._real(b))}
  en.libspec[('attr', 'Arr', 'sum')] = (None, lambda en_, a: E.SymCallable(lambda en__: WSUM(a), 'ndarray.sum'))
  en.contracts[E._callable_key(ti.step_with_filters)] = lambda en_, step, filters: SWF(step, filters)
  en.contracts[E._callable_key(ti.accumulate_repeated)] = lambda en_, step, w, s, scan_fn=None: ACCR(step, w, s)
  en.contracts[E._callable_key(ti._dfi_lanczos_weights)] = lambda en_, a, b, c: LANCZOS(E._real(a), E._real(b), E._real(c))
  en.contracts[E._callable_key(ti.TimeReversedImExODE)] = lambda en_, eq: REVERSED(eq)


def dfi_contract(en: E.Engine):
  from dinosaur import time_integration as ti
  _dfi_setup(en)
  eq = z3.Const('equation', EQ)
  filters = z3.Const('filters', FL)
  span, cutoff, dt = en.real('time_span'), en.real('cutoff_period'), en.real('dt')
  s = en.val('state')
  solver = E.SymCallable(lambda en_, e, d: SOLVER(e, E._real(d)), 'ode_solver')
  W = LANCZOS(span, cutoff, dt)
  total = 1 + 2 * WSUM(W)
  en.assume(total != 0)
  en.cover('requires')
  kind, f = en.invoke(en.load_function(ti.digital_filter_initialization), eq, solver, filters, span, cutoff, dt)
  if kind == 'raise':
    en.ensure(f'digital_filter_initialization raises {f}', False)
    return
  kind, r = en.invoke(f, s)
  if kind == 'raise':
    en.ensure(f'DFI function raises {r}', False)
    return
  Wn = WDIV(W, total)
  fwd = SWF(SOLVER(eq, dt), filters)
  bwd = SWF(SOLVER(REVERSED(eq), dt), filters)
  want = E.VADD(E.VADD(E.SMUL(1 / total, s), ACCR(fwd, Wn, s)), ACCR(bwd, Wn, s))
  en.ensure('DFI(s) == w0\'*s + accumulate(filtered forward step, w\', s) + accumulate(filtered reversed step, w\', s), '
            'w\' = w/(1+2*sum w), w0\' = 1/(1+2*sum w)', r == want)


def dfi_steady_lemma(en: E.Engine):
  """A state fixed by the step is returned unchanged by the normalised weighted sum.

  Axioms used (vector space, A4; linearity of the array sum, A8):
    smul(a,s)+smul(b,s) = smul(a+b,s);  zeros_like(s) = smul(0,s);  smul(1,s) = s;  sum(w/r) = sum(w)/r.
  Induction on k:  STEP(s) = s  =>  ACC(k) = smul(PSUM(k), s),  PSUM(k) = sum_{j<k} w_j.
  """
  s = _S0
  add = lambda a_, b_: E.VADD(E.SMUL(a_, s), E.SMUL(b_, s)) == E.SMUL(a_ + b_, s)   # axiom instance (distributivity)
  en.assume(L.ZEROS_LIKE(s) == E.SMUL(0, s))
  en.assume(E.SMUL(1, s) == s)
  en.assume(STEP(s) == s)
  PSUM = z3.RecFunction('PSUM', I, z3.RealSort())
  kk = z3.Int('kk')
  try:
    z3.RecAddDefinition(PSUM, [kk], z3.If(kk <= 0, z3.RealVal(0), PSUM(kk - 1) + _W(kk - 1)))
  except z3.Z3Exception:
    pass
  k = en.int('k')
  en.cover('lemma')
  en.ensure('steady-IT: STEP(s)=s => IT(k+1,s)=s given IT(k,s)=s', z3.Implies(z3.And(k >= 0, IT(k, s) == s), IT(k + 1, s) == s))
  en.ensure('steady-ACC-base: ACC(0) == smul(PSUM(0), s)', ACC(0) == E.SMUL(PSUM(0), s))
  en.assume(k >= 0)
  en.assume(IT(k + 1, s) == s)
  en.assume(ACC(k) == E.SMUL(PSUM(k), s))
  en.ensure('steady-ACC-step: ACC(k+1) == smul(PSUM(k+1), s)', ACC(k + 1) == E.SMUL(PSUM(k + 1), s),
            extra=[add(PSUM(k), _W(k))])
  # final combination: w0' + 2*sum(w') == 1   (u = 1/total, S = sum w, sum(w/total) = S*u by linearity of the sum)
  S = en.real('sum_w')
  u = en.real('inv_total')
  en.assume(u * (1 + 2 * S) == 1)
  comb = E.VADD(E.VADD(E.SMUL(u, s), E.SMUL(S * u, s)), E.SMUL(S * u, s))
  en.ensure('steady-combination: w0\'*s + (sum w\')*s + (sum w\')*s == s', comb == s,
            extra=[add(u, S * u), add(u + S * u, S * u)])


def replay_dfi(w):
  import numpy as np
  from dinosaur import time_integration as ti
  lam = np.array([0.3, -0.2])
  eq = ti.ImplicitExplicitODE.from_functions(lambda x: lam * x, lambda x: 0 * x, lambda x, eta: x)
  filt = lambda u, un: 0.9 * un
  dt, span = 0.1, 0.6
  got = ti.digital_filter_initialization(eq, ti.backward_forward_euler, [filt], span, span, dt)(np.ones(2))
  wts = ti._dfi_lanczos_weights(span, span, dt)
  tot = 1 + 2 * wts.sum()
  f = ti.step_with_filters(ti.backward_forward_euler(eq, dt), [filt])
  b = ti.step_with_filters(ti.backward_forward_euler(ti.TimeReversedImExODE(eq), dt), [filt])
  want = np.ones(2) / tot
  sf = sb = np.ones(2)
  for wk in wts:
    sf, sb = f(sf), b(sb)
    want = want + wk / tot * (sf + sb)
  return bool(np.max(np.abs(got - want)) > 1e-12), f'DFI with one damping filter: real result {got}, defining sum {want}'


def dfi_clauses():
  mk = lambda c, **kw: (lambda ctx: run_contract(c, **kw))
  return [
      Clause('digital_filter_initialization == defining sum over filtered forward/reversed steps', 'smt',
             [TI + 'digital_filter_initialization', TI + 'step_with_filters', TI + 'accumulate_repeated', TI + 'TimeReversedImExODE'],
             mk(dfi_contract, min_obligations=2), replay=replay_dfi, group='pyvc'),
      Clause('lemma:steady state is returned unchanged by DFI sum (induction)', 'smt', [TI + 'accumulate_repeated'],
             mk(dfi_steady_lemma, min_obligations=5), group='pyvc'),
  ]


# ---- bounded run-time twins (CPython / JAX execution of the real combinators) ---------------------------


def _ordered_factorisations(n):
  if n == 1:
    return [[]]
  out = []
  for d in range(2, n + 1):
    if n % d == 0:
      out += [[d] + r for r in _ordered_factorisations(n // d)]
  return out


def run_nested_scan_twin(ctx):
  """nested_checkpoint_scan == flat lax.scan: carries, stacked outputs, gradients; every ordered
  factorisation (including 1-factors) of the listed lengths.  BOUNDED stand-in for the deductive clause."""
  import jax
  import jax.numpy as jnp
  import numpy as np
  jax.config.update('jax_enable_x64', True)
  from dinosaur import time_integration as ti
  out = Outcome()
  lengths = [1, 2, 6, 12] if ctx.tier == 'quick' else [1, 2, 6, 12, 16, 30]
  rng = np.random.RandomState(ctx.seed)

  def f(c, x):
    c2 = {'a': jnp.sin(c['a']) * x['u'] + c['b'], 'b': c['b'] * 0.9 + x['v'].sum()}
    return c2, {'y': c2['a'] * x['u'], 'z': (c['b'], x['v'])}

  n_cases = 0
  for n in lengths:
    xs = {'u': jnp.asarray(rng.randn(n)), 'v': jnp.asarray(rng.randn(n, 2))}
    init = {'a': jnp.asarray(0.3), 'b': jnp.asarray(-0.2)}
    flat_c, flat_y = jax.lax.scan(f, init, xs)
    loss_flat = lambda i, x: sum(jnp.sum(l) for l in jax.tree_util.tree_leaves(jax.lax.scan(f, i, x)))
    g_flat = jax.grad(loss_flat, argnums=(0, 1))(init, xs)
    facs = _ordered_factorisations(n)
    facs = facs + [[1] + fa for fa in facs[:3]] + [fa + [1] for fa in facs[:3]] + ([[1, 1]] if n == 1 else [])
    facs = [fa for fa in facs if fa] or [[1]]
    for fa in facs:
      for scan_name, scan in (('lax', jax.lax.scan),):
        n_cases += 1
        name = f'nested_checkpoint_scan[n={n},nested={fa},{scan_name}]'
        try:
          c, y = ti.nested_checkpoint_scan(f, init, xs, length=n, nested_lengths=fa, scan_fn=scan)
          loss = lambda i, x: sum(jnp.sum(l) for l in jax.tree_util.tree_leaves(
              ti.nested_checkpoint_scan(f, i, x, nested_lengths=fa)))
          g = jax.grad(loss, argnums=(0, 1))(init, xs)
          diffs = [float(jnp.max(jnp.abs(p - q))) if p.size else 0.0 for p, q in zip(
              jax.tree_util.tree_leaves((c, y, g)), jax.tree_util.tree_leaves((flat_c, flat_y, g_flat)))]
          shapes_ok = all(p.shape == q.shape for p, q in zip(jax.tree_util.tree_leaves(y), jax.tree_util.tree_leaves(flat_y)))
          if shapes_ok and max(diffs) <= 1e-12:
            out.ok(name, 'numeric', sample={'case': name, 'max_abs_diff': max(diffs)})
          else:
            out.fail(name, witness={'n': n, 'nested_lengths': fa}, detail=f'max diff {max(diffs):.3e} shapes_ok={shapes_ok}', key=name)
        except Exception as e:  # pylint: disable=broad-except
          out.fail(name, witness={'n': n, 'nested_lengths': fa}, detail=f'{type(e).__name__}: {e}', key=name)
  # inconsistent length must raise
  for n, fa in ((12, [3, 5]), (6, [6, 2]), (5, [])):
    name = f'nested_checkpoint_scan[length={n},nested={fa}] raises'
    try:
      ti.nested_checkpoint_scan(f, {'a': jnp.asarray(0.3), 'b': jnp.asarray(0.1)},
                                {'u': jnp.zeros(n), 'v': jnp.zeros((n, 2))}, length=n, nested_lengths=fa or [1])
      if fa:
        out.fail(name, witness={'n': n, 'nested_lengths': fa}, detail='accepted inconsistent length', key=name)
      else:
        out.fail(name, witness={'n': n, 'nested_lengths': [1]}, detail='accepted inconsistent length', key=name)
    except (ValueError, TypeError):
      out.ok(name, 'numeric')
  out.info['cases'] = n_cases
  out.assumptions.append('bounded: nested scan twin covers lengths %s only' % lengths)
  return out


def replay_nested(w):
  import jax
  import jax.numpy as jnp
  jax.config.update('jax_enable_x64', True)
  from dinosaur import time_integration as ti
  n, fa = int(w['n']), [int(v) for v in w['nested_lengths']]
  f = lambda c, x: (c * 0.5 + x, c + x)
  xs = jnp.arange(1.0, n + 1)
  try:
    c, y = ti.nested_checkpoint_scan(f, jnp.asarray(1.0), xs, length=n, nested_lengths=fa)
  except Exception as e:  # pylint: disable=broad-except
    import math
    return math.prod(fa) == n, f'nested_checkpoint_scan(n={n}, nested={fa}) raised {type(e).__name__}: {e}'
  c0, y0 = jax.lax.scan(f, jnp.asarray(1.0), xs)
  bad = (y.shape != y0.shape) or float(jnp.max(jnp.abs(y - y0))) > 1e-12 or abs(float(c - c0)) > 1e-12
  return bool(bad), f'nested_checkpoint_scan(n={n}, nested={fa}): carry {c} vs flat {c0}; outputs {y} vs flat {y0}'


def run_trajectory_twin(ctx):
  """Real combinators with lax.scan and a python scan against a plain loop, all splits with outer*inner <= bound."""
  import jax
  import jax.numpy as jnp
  import numpy as np
  jax.config.update('jax_enable_x64', True)
  from dinosaur import time_integration as ti
  out = Outcome()
  bound = 12 if ctx.tier == 'quick' else 24
  step = lambda s: {'x': s['x'] * 1.01 + 0.5, 'n': s['n'] + 1}
  post = lambda s: {'x2': 2 * s['x'], 'n': s['n']}
  filt1 = lambda u, un: {'x': un['x'] - 0.01 * u['x'], 'n': un['n']}
  filt2 = lambda u, un: {'x': un['x'] * 0.5, 'n': un['n']}
  fstep = ti.step_with_filters(step, [filt1, filt2])

  def ref(outer, inner, swi):
    s = {'x': 1.0, 'n': 0}
    frames = []
    for _ in range(outer):
      if swi:
        frames.append(post(s))
      for _ in range(inner):
        s1 = step(s)
        s1 = filt1(s, s1)
        s1 = filt2(s, s1)
        s = s1
      if not swi:
        frames.append(post(s))
    return s, frames
  n = 0
  for outer in range(1, bound + 1):
    for inner in range(1, bound // outer + 1):
      for swi in (False, True):
        for scan_name, scan in (('lax', jax.lax.scan), ('py', _py_scan)):
          if scan_name == 'py' and (outer > 4 or inner > 4):
            continue
          n += 1
          name = f'trajectory[outer={outer},inner={inner},start_with_input={swi},{scan_name}]'
          s0 = {'x': jnp.asarray(1.0), 'n': jnp.asarray(0)} if scan_name == 'lax' else {'x': 1.0, 'n': 0}
          rf, rframes = ref(outer, inner, swi)
          try:
            final, traj = ti.trajectory_from_step(fstep, outer, inner, start_with_input=swi, post_process_fn=post,
                                                  outer_scan_fn=scan, inner_scan_fn=scan)(s0)
            if scan_name == 'lax':
              got = [(float(traj['x2'][k]), int(traj['n'][k])) for k in range(outer)]
            else:
              got = [(float(fr['x2']), int(fr['n'])) for fr in traj]
          except Exception as e:      # the code under test raised, or its frames do not have the structure post_process_fn returns
            out.fail(name, witness={'outer_steps': outer, 'inner_steps': inner, 'start_with_input': swi},
                     detail=f'frames are not post_process_fn outputs / call raised: {type(e).__name__}: {e}', key=name)
            continue
          want = [(fr['x2'], fr['n']) for fr in rframes]
          ok = int(final['n']) == rf['n'] and abs(float(final['x']) - rf['x']) <= 1e-12 * max(1, abs(rf['x'])) and \
              len(got) == len(want) and all(g[1] == w_[1] and abs(g[0] - w_[0]) <= 1e-12 * max(1, abs(w_[0])) for g, w_ in zip(got, want))
          if ok:
            out.ok(name, 'numeric', sample={'case': name, 'frames_n': [g[1] for g in got]})
          else:
            out.fail(name, witness={'outer_steps': outer, 'inner_steps': inner}, detail=f'got {got[:4]} final n={int(final["n"])}; want {want[:4]} final n={rf["n"]}', key=name)
  # dfi weights length
  for span, dt in ((6.0, 0.5), (6.0, 1.0), (1.0, 0.1), (3.0, 0.25)):
    w = ti._dfi_lanczos_weights(span, span, dt)
    name = f'_dfi_lanczos_weights[span={span},dt={dt}] length == round(span/(2dt))'
    (out.ok(name, 'numeric') if len(w) == round(span / (2 * dt)) and np.all(np.isfinite(w)) else
     out.fail(name, witness={'span': span, 'dt': dt}, detail=f'len={len(w)}', key=name))
  out.info['cases'] = n
  return out


def twin_clauses():
  return [
      Clause('twin:nested_checkpoint_scan == flat scan (values, outputs, gradients) [bounded]', 'enum',
             [TI + 'nested_checkpoint_scan', TI + '_inner_nested_scan'], run_nested_scan_twin, replay=replay_nested, group='jax'),
      Clause('twin:trajectory/step_with_filters/repeated against a plain loop [bounded]', 'enum',
             [TI + 'trajectory_from_step', TI + 'repeated', TI + 'step_with_filters', TI + '_dfi_lanczos_weights'],
             run_trajectory_twin, replay=replay_trajectory, group='jax2'),
  ]
