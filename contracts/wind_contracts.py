"""C02: gradient / divergence / curl wrappers and the wind <-> (vorticity, divergence) conversions, as operator expressions.

Fields are elements of an uninterpreted sort `Fld` (a real vector space: +, -, scaling by reals are uninterpreted operations on it, which is
all the code uses); the elementary spectral operators are uninterpreted functions on it -- their own contracts are the index-level clauses
of this property (longitude derivative pairings, recurrence weights, Laplacian eigenvalues, clipping):
   DLON = Grid.d_dlon,  CLDL = Grid.cos_lat_d_dlat,  SLDC = Grid.sec_lat_d_dlat_cos2,  CLIP = Grid.clip_wavenumbers (n = 1),
   ILAP = Grid.inverse_laplacian,  TON / TOM = to_nodal / to_modal,  OVC = pointwise division of a nodal field by cos(lat).
Proved from the real source, for every field and both values of the `clip` flag (EUF: the result *is* the documented expression):
   cos_lat_grad(x, clip)      = C(DLON x / r), C(CLDL x / r)                       C = CLIP if clip else identity
   div_cos_lat(v, clip)       = C((DLON v0 + SLDC v1) / r)
   curl_cos_lat(v, clip)      = C((DLON v1 - SLDC v0) / r)
   k_cross(v)                 = (-v1, v0)
   get_cos_lat_vector(zeta, delta, clip) = grad(chi) + k x grad(psi),  chi = ILAP delta, psi = ILAP zeta, *both* gradients with the caller's clip flag
   vor_div_to_uv_nodal        = OVC(TON(.)) of that vector, component by component
   uv_nodal_to_vor_div_modal  = curl / div (with the caller's clip flag) of (TOM(OVC u), TOM(OVC v))
"""
from __future__ import annotations

import z3

from vlib.core import Clause
from vlib.pyvc import engine as E
from vlib.pyvc.run import run_contract

SH = 'dinosaur.spherical_harmonic.'
Fld = z3.DeclareSort('Fld')
R = z3.RealSort()
ADD, SUB = z3.Function('fld_add', Fld, Fld, Fld), z3.Function('fld_sub', Fld, Fld, Fld)
SCALE, DIVS, NEG = z3.Function('fld_scale', R, Fld, Fld), z3.Function('fld_div', Fld, R, Fld), z3.Function('fld_neg', Fld, Fld)
DLON, CLDL, SLDC, CLIP, ILAP, TON, TOM, OVC = (z3.Function(n, Fld, Fld) for n in ('d_dlon', 'cos_lat_d_dlat', 'sec_lat_d_dlat_cos2', 'clip_wavenumbers', 'inverse_laplacian',
                                                                                  'to_nodal', 'to_modal', 'over_cos_lat'))
COSLAT = z3.Const('cos_lat', z3.DeclareSort('NodalWeights'))


def _is_fld(x):
  return E.is_sym(x) and x.sort() == Fld


def _setup(en):
  import jax
  from dinosaur import pytree_utils
  from vlib.pyvc.libspec import _reg

  def op(name):
    def f(en_, a, b):
      if name == 'Add' and _is_fld(a) and _is_fld(b):
        return ADD(a, b)
      if name == 'Sub' and _is_fld(a) and _is_fld(b):
        return SUB(a, b)
      if name == 'Mult' and _is_fld(b) and not _is_fld(a):
        return SCALE(E._real(a), b)
      if name == 'Mult' and _is_fld(a) and not _is_fld(b):
        return SCALE(E._real(b), a)
      if name == 'Div' and _is_fld(a) and E.is_sym(b) and b.sort() == COSLAT.sort():
        return OVC(a)
      if name == 'Div' and _is_fld(a) and not _is_fld(b):
        return DIVS(a, E._real(b))
      raise E.Unsupported(f'operator {name} on fields')
    return f
  en.sort_ops['Fld'] = {n: op(n) for n in ('Add', 'Sub', 'Mult', 'Div')}
  en.libspec[('neg', 'ExprRef')] = (None, lambda en_, v: NEG(v) if _is_fld(v) else -v)

  def tree_map(en_, f, *trees):
    t0 = trees[0]
    if isinstance(t0, (tuple, list)):
      return type(t0)(tree_map(en_, f, *[t[i] for t in trees]) for i in range(len(t0)))
    kind, r = en_.invoke(f, *trees)
    if kind == 'raise':
      raise E.PathRaise(r)
    return r
  _reg(en, jax.tree_util.tree_map, tree_map, 'jax.tree_util.tree_map (leaf-wise over tuples)')
  en.contracts[E._callable_key(pytree_utils.tree_map_over_nonscalars)] = lambda en_, f, x, **k: tree_map(en_, f, x)
  en.trusted.add('fields form a vector space whose operations are uninterpreted (only their syntactic use by the code is constrained)')


def _grid(en):
  from dinosaur import spherical_harmonic as sh
  r = en.real('radius')
  en.assume(r > 0)
  ops = dict(d_dlon=DLON, cos_lat_d_dlat=CLDL, sec_lat_d_dlat_cos2=SLDC, inverse_laplacian=ILAP, to_nodal=TON, to_modal=TOM)
  g = E.Obj(class_ref=sh.Grid, radius=r, cos_lat=COSLAT,
            **{k: E.SymCallable((lambda f: (lambda en_, x: f(x)))(f), f'Grid.{k} (uninterpreted; index-level contract in this property)') for k, f in ops.items()})

  def clip_fn(en_, x, n=1):
    if n != 1:
      raise E.Unsupported('clip_wavenumbers with n != 1')
    if isinstance(x, (tuple, list)):
      return type(x)(clip_fn(en_, v) for v in x)
    return CLIP(x)
  g.clip_wavenumbers = E.SymCallable(clip_fn, 'Grid.clip_wavenumbers(x) leaf-wise (contract: grid_contracts)')
  return g, r


def vector_space_axioms():
  """Fields are a real vector space and the elementary operators are linear on it (linearity is proved on the traced programs by the static
  clause of this property).  Used only to recognise an expression that differs from the documented one by such a rearrangement."""
  a, b, c = (z3.Const(n, Fld) for n in ('a!ax', 'b!ax', 'c!ax'))
  s, t = z3.Real('s!ax'), z3.Real('t!ax')
  ax = [z3.ForAll([a, b], ADD(a, b) == ADD(b, a)), z3.ForAll([a, b, c], ADD(ADD(a, b), c) == ADD(a, ADD(b, c))),
        z3.ForAll([a, b], SUB(a, b) == ADD(a, NEG(b))), z3.ForAll([a], NEG(NEG(a)) == a), z3.ForAll([a, b], NEG(ADD(a, b)) == ADD(NEG(a), NEG(b))),
        z3.ForAll([a, s], z3.Implies(s != 0, DIVS(a, s) == SCALE(1 / s, a))), z3.ForAll([a, b, s], SCALE(s, ADD(a, b)) == ADD(SCALE(s, a), SCALE(s, b))),
        z3.ForAll([a, s], SCALE(s, NEG(a)) == NEG(SCALE(s, a))), z3.ForAll([a, s, t], SCALE(s, SCALE(t, a)) == SCALE(s * t, a)),
        z3.ForAll([a], SCALE(z3.RealVal(-1), a) == NEG(a))]
  for f in (DLON, CLDL, SLDC, CLIP, ILAP, TON, TOM, OVC):
    ax += [z3.ForAll([a, b], f(ADD(a, b)) == ADD(f(a), f(b))), z3.ForAll([a], f(NEG(a)) == NEG(f(a))), z3.ForAll([a, s], f(SCALE(s, a)) == SCALE(s, f(a)))]
  return ax


def ensure_expr(en, name, cond):
  """cond is an equality (or a conjunction of equalities) of operator expressions.  Decided in EUF first (gives a counter-model); an expression
  that fails there is compared by multilinear normal form (vlib/pyvc/multilinear.py: vector-space laws, linearity of every operator, the pointwise
  product bilinear / commutative / associative, vertical advection bilinear) -- so a rearrangement that these laws justify is not a violation."""
  from vlib import smt
  from vlib.pyvc import multilinear as ML
  cond = E.to_z3(cond)
  v = smt.valid(list(en.axioms) + list(en.pc), cond, timeout_ms=20000)
  if v.status != 'valid':
    eqs = list(cond.children()) if z3.is_and(cond) else [cond]
    if all(z3.is_eq(q) for q in eqs):
      alg = ML.Algebra(bilinear={'vertical_advection'}, opaque={'t_omega_over_sigma_sp', 'nodal_reciprocal'})
      try:
        res = [alg.equal(q.arg(0), q.arg(1)) for q in eqs]
      except ValueError:
        res = [(False, 'outside the multilinear fragment')]
      if all(ok for ok, _ in res):
        en.results.append(E.ObligationResult(name + ' [by multilinear normal form]', 'valid', seconds=v.seconds, back_end='multilinear-normal-form'))
        return True
  return en.ensure(name, cond)


def _c(clip, x):
  return CLIP(x) if clip else x


def _neg_fix(en):
  """unary minus on a field: the engine's -v on a z3 term of an uninterpreted sort would raise; route it through NEG."""
  o = E.Engine.ex_UnaryOp
  if getattr(E.Engine, '_wind_neg', False):
    return

  def ex_UnaryOp(self, e, env):
    if isinstance(e.op, E.ast.USub):
      v = self.eval(e.operand, env)
      if _is_fld(v):
        return NEG(v)
      if E.is_sym(v) and v.sort() == E.V:
        return self.vec('neg', v)
      h = self.libspec.get(('neg', type(v).__name__))
      if h:
        return h[1](self, v)
      return -v
    return o(self, e, env)
  E.Engine.ex_UnaryOp = ex_UnaryOp
  E.Engine._wind_neg = True


def wrappers_contract(en: E.Engine):
  _neg_fix(en)
  g, r = _grid(en)
  x, v0, v1 = (z3.Const(n, Fld) for n in ('x', 'v0', 'v1'))
  en.cover('requires: radius > 0')
  for clip in (True, False):
    kind, gr = en.invoke(en.getattr(g, 'cos_lat_grad'), x, clip=clip)
    ok = kind == 'return' and isinstance(gr, tuple) and len(gr) == 2
    ensure_expr(en, f'cos_lat_grad(x, clip={clip}) == (C(d_dlon x / r), C(cos_lat_d_dlat x / r))',
              z3.And(gr[0] == _c(clip, DIVS(DLON(x), r)), gr[1] == _c(clip, DIVS(CLDL(x), r))) if ok else z3.BoolVal(False))
    kind, dv = en.invoke(en.getattr(g, 'div_cos_lat'), (v0, v1), clip=clip)
    ensure_expr(en, f'div_cos_lat(v, clip={clip}) == C((d_dlon v0 + sec_lat_d_dlat_cos2 v1) / r)',
              dv == _c(clip, DIVS(ADD(DLON(v0), SLDC(v1)), r)) if kind == 'return' and _is_fld(dv) else z3.BoolVal(False))
    kind, cu = en.invoke(en.getattr(g, 'curl_cos_lat'), (v0, v1), clip=clip)
    ensure_expr(en, f'curl_cos_lat(v, clip={clip}) == C((d_dlon v1 - sec_lat_d_dlat_cos2 v0) / r)',
              cu == _c(clip, DIVS(SUB(DLON(v1), SLDC(v0)), r)) if kind == 'return' and _is_fld(cu) else z3.BoolVal(False))
  kind, kc = en.invoke(en.getattr(g, 'k_cross'), (v0, v1))
  ensure_expr(en, 'k_cross(v) == (-v1, v0)', z3.And(kc[0] == NEG(v1), kc[1] == v0) if kind == 'return' and isinstance(kc, tuple) and len(kc) == 2 else z3.BoolVal(False))
  # the default of the clip flag is True for all three wrappers
  kind, gr = en.invoke(en.getattr(g, 'cos_lat_grad'), x)
  ensure_expr(en, 'cos_lat_grad clips by default', z3.And(gr[0] == CLIP(DIVS(DLON(x), r)), gr[1] == CLIP(DIVS(CLDL(x), r))) if kind == 'return' else z3.BoolVal(False))


def _wind_spec(zeta, delta, r, clip):
  chi, psi = ILAP(delta), ILAP(zeta)
  gx = lambda f: _c(clip, DIVS(DLON(f), r))
  gy = lambda f: _c(clip, DIVS(CLDL(f), r))
  return ADD(gx(chi), NEG(gy(psi))), ADD(gy(chi), gx(psi))


def wind_contract(en: E.Engine):
  _neg_fix(en)
  from dinosaur import spherical_harmonic as sh
  g, r = _grid(en)
  zeta, delta, u, v = (z3.Const(n, Fld) for n in ('vorticity', 'divergence', 'u_nodal', 'v_nodal'))
  en.cover('requires: radius > 0')
  for clip in (True, False):
    kind, w = en.invoke(en.load_function(sh.get_cos_lat_vector), zeta, delta, g, clip=clip)
    su, sv = _wind_spec(zeta, delta, r, clip)
    ok = kind == 'return' and isinstance(w, tuple) and len(w) == 2
    ensure_expr(en, f'get_cos_lat_vector(zeta, delta, clip={clip}) == grad(chi) + k x grad(psi) with both gradients taken with clip={clip}',
              z3.And(w[0] == su, w[1] == sv) if ok else z3.BoolVal(False))
    kind, uv = en.invoke(en.load_function(sh.vor_div_to_uv_nodal), g, zeta, delta, clip=clip)
    ok = kind == 'return' and isinstance(uv, tuple) and len(uv) == 2
    ensure_expr(en, f'vor_div_to_uv_nodal(clip={clip}) == to_nodal(cos-lat vector) / cos(lat), component by component',
              z3.And(uv[0] == OVC(TON(su)), uv[1] == OVC(TON(sv))) if ok else z3.BoolVal(False))
    kind, vd = en.invoke(en.load_function(sh.uv_nodal_to_vor_div_modal), g, u, v, clip=clip)
    a, b = TOM(OVC(u)), TOM(OVC(v))
    ok = kind == 'return' and isinstance(vd, tuple) and len(vd) == 2
    ensure_expr(en, f'uv_nodal_to_vor_div_modal(clip={clip}) == (curl, div) of (to_modal(u / cos), to_modal(v / cos)) with clip={clip}',
              z3.And(vd[0] == _c(clip, DIVS(SUB(DLON(b), SLDC(a)), r)), vd[1] == _c(clip, DIVS(ADD(DLON(a), SLDC(b)), r))) if ok else z3.BoolVal(False))
  kind, w = en.invoke(en.load_function(sh.get_cos_lat_vector), zeta, delta, g)
  su, sv = _wind_spec(zeta, delta, r, True)
  ensure_expr(en, 'get_cos_lat_vector clips by default', z3.And(w[0] == su, w[1] == sv) if kind == 'return' else z3.BoolVal(False))


def canary_contract(en: E.Engine):
  _neg_fix(en)
  from dinosaur import spherical_harmonic as sh
  g, r = _grid(en)
  zeta, delta = (z3.Const(n, Fld) for n in ('vorticity', 'divergence'))
  kind, w = en.invoke(en.load_function(sh.get_cos_lat_vector), zeta, delta, g, clip=False)
  su, sv = _wind_spec(zeta, delta, r, True)
  if kind == 'return':
    en.ensure('canary: clip=False still clips', z3.And(w[0] == su, w[1] == sv))


# ---- shallow-water explicit tendencies as operator expressions (C05 / C11) -----------------------------------------------------------------

NMUL = z3.Function('nodal_mul', Fld, Fld, Fld)           # pointwise product of two nodal fields
MIX = z3.Function('layer_mix', Fld, Fld)                 # einsum('ab,...bml->...aml', density_ratios, .): the inter-layer coupling (get_density_ratios: C05 clause)
LAP = z3.Function('laplacian', Fld, Fld)
CORIOLIS, SEC2F, ORO = (z3.Const(n, Fld) for n in ('coriolis_parameter', 'sec2_lat', 'orography'))


class Stack(list):
  """Fields stacked along a new leading axis (jnp.stack / concatenate / split along axis 0)."""


def _sw_setup(en):
  _setup(en)
  import jax
  import jax.numpy as jnp
  from dinosaur import shallow_water as sw
  from vlib.pyvc.libspec import _reg
  base = en.sort_ops['Fld']

  def mul(en_, a, b):
    if _is_fld(a) and _is_fld(b):
      return NMUL(a, b)
    return base['Mult'](en_, a, b)
  en.sort_ops['Fld'] = dict(base, Mult=mul)

  def stack_op(name):
    def f(en_, a, b):
      from vlib.pyvc import engine as E_
      opn = {'Add': E.ast.Add, 'Sub': E.ast.Sub, 'Mult': E.ast.Mult, 'Div': E.ast.Div}[name]()
      if isinstance(a, Stack) and isinstance(b, Stack):
        if len(a) != len(b):
          raise E.Unsupported('stacks of different length')
        return Stack(en_.binop(opn, x, y) for x, y in zip(a, b))
      if isinstance(a, Stack):
        return Stack(en_.binop(opn, x, b) for x in a)
      return Stack(en_.binop(opn, a, y) for y in b)
    return f
  for nm in ('Add', 'Sub', 'Mult', 'Div'):
    en.libspec[('binop', 'Stack', nm)] = (None, stack_op(nm))
  _reg(en, jnp.stack, lambda en_, xs, axis=0: Stack(xs) if axis == 0 else (_ for _ in ()).throw(E.Unsupported('stack axis')), 'jnp.stack(axis=0)')

  def h_concat(en_, parts, axis=0):
    if axis != 0:
      raise E.Unsupported('concatenate axis')
    out = Stack()
    for p_ in parts:
      if not isinstance(p_, Stack):
        raise E.Unsupported('concatenate of a non-stack')
      out.extend(p_)
    return out
  _reg(en, jnp.concatenate, h_concat, 'jnp.concatenate(axis=0) of stacks')
  _reg(en, jnp.expand_dims, lambda en_, x, axis=0: Stack([x]) if axis == 0 and _is_fld(x) else (_ for _ in ()).throw(E.Unsupported('expand_dims')), 'jnp.expand_dims(x, 0)')

  def h_split(en_, x, idx, axis=0):
    if not isinstance(x, Stack) or axis != 0:
      raise E.Unsupported('split')
    cuts = [0] + list(en_.iter_concrete(idx)) + [len(x)]
    return [Stack(x[a:b]) for a, b in zip(cuts[:-1], cuts[1:])]
  _reg(en, jnp.split, h_split, 'jnp.split(stack, indices, axis=0)')

  def h_squeeze(en_, x, axis=0):
    if isinstance(x, Stack) and len(x) == 1 and axis == 0:
      return x[0]
    raise E.Unsupported('squeeze')
  _reg(en, jnp.squeeze, h_squeeze, 'jnp.squeeze(stack of one, 0)')
  en.libspec[('attr', 'Stack', 'sum')] = (None, lambda en_, st: E.SymCallable(lambda en__, axis=None: _sum_stack(st) if axis == 0 else (_ for _ in ()).throw(E.Unsupported('sum axis')), 'stack.sum(0)'))
  en.contracts[E._callable_key(sw.einsum)] = lambda en_, spec, a, b: MIX(b) if spec == 'ab,...bml->...aml' and _is_fld(b) else (_ for _ in ()).throw(E.Unsupported(f'einsum {spec}'))
  en.contracts[E._callable_key(sw.State)] = lambda en_, *a, **k: E.Obj(**dict(zip(('vorticity', 'divergence', 'potential'), a), **k))

  def h_tree_map(en_, f, *trees):
    t0 = trees[0]
    if isinstance(t0, E.Obj) and not isinstance(t0, Stack):
      return E.Obj(**{k: h_tree_map(en_, f, *[getattr(t, k) for t in trees]) for k in ('vorticity', 'divergence', 'potential')})
    if isinstance(t0, (tuple, list)) and not isinstance(t0, Stack):
      return type(t0)(h_tree_map(en_, f, *[t[i] for t in trees]) for i in range(len(t0)))
    kind, r = en_.invoke(f, *trees)
    if kind == 'raise':
      raise E.PathRaise(r)
    return r
  _reg(en, jax.tree.map, h_tree_map, 'jax.tree.map (leaf-wise)')
  _reg(en, jax.tree_util.tree_map, h_tree_map, 'jax.tree_util.tree_map (leaf-wise)')


def _sum_stack(st):
  r = st[0]
  for x in st[1:]:
    r = ADD(r, x)
  return r


def _lift(f):
  def g(en_, x, *a, **k):
    if isinstance(x, Stack):
      return Stack(f(v) for v in x)
    if isinstance(x, (tuple, list)):
      return type(x)(f(v) for v in x)
    return f(x)
  return g


def shallow_water_contract(en: E.Engine):
  """ShallowWaterEquations.explicit_terms == the vorticity-divergence form of the layered shallow-water equations, operator by operator:
       d zeta / dt = -div((zeta + f) u),   d delta / dt = curl((zeta + f) u) - lap(p + |u|^2 / 2),   d Phi / dt = -div(Phi u),
  with u cos(lat) = get_cos_lat_vector(zeta, delta), p = layer_mix(Phi) + orography, every product taken in grid space on the clipped state and
  every tendency clipped at the top total wavenumber."""
  _neg_fix(en)
  from dinosaur import shallow_water as sw
  g, r = _grid(en)
  for nm, f in (('to_nodal', TON), ('to_modal', TOM), ('laplacian', LAP)):
    setattr(g, nm, E.SymCallable(_lift(f), f'Grid.{nm} (uninterpreted, leaf-wise over stacks)'))
  g.sec2_lat = SEC2F
  zeta, delta, phi = (z3.Const(n, Fld) for n in ('vorticity', 'divergence', 'potential'))
  self = E.Obj(class_ref=sw.ShallowWaterEquations, coords=E.Obj(horizontal=g), orography=ORO, coriolis_parameter=CORIOLIS, density_ratios=z3.Const('density_ratios', z3.DeclareSort('LayerMatrix')))
  en.cover('requires: radius > 0')
  kind, out = en.invoke(en.getattr(self, 'explicit_terms'), E.Obj(vorticity=zeta, divergence=delta, potential=phi))
  if kind == 'raise':
    en.ensure(f'explicit_terms runs ({out})', False)
    return
  u0, u1 = _wind_spec(zeta, delta, r, True)                                     # get_cos_lat_vector with its default clip
  nu0, nu1 = TON(u0), TON(u1)
  tv = ADD(TON(CLIP(zeta)), CORIOLIS)
  nphi = TON(CLIP(phi))
  b = [TOM(NMUL(NMUL(c, tv), SEC2F)) for c in (nu0, nu1)]
  gq = [TOM(NMUL(NMUL(c, nphi), SEC2F)) for c in (nu0, nu1)]
  e = TOM(DIVS(NMUL(ADD(NMUL(nu0, nu0), NMUL(nu1, nu1)), SEC2F), z3.RealVal(2)))
  div = lambda v: CLIP(DIVS(ADD(DLON(v[0]), SLDC(v[1])), r))
  curl = lambda v: CLIP(DIVS(SUB(DLON(v[1]), SLDC(v[0])), r))
  p = ADD(MIX(phi), ORO)
  ensure_expr(en, 'vorticity tendency == clip(-div_cos_lat((zeta + f) u sec^2))', out.vorticity == CLIP(NEG(div(b))))
  ensure_expr(en, 'divergence tendency == clip(-laplacian(layer_mix(Phi) + orography + |u|^2 sec^2 / 2) + curl_cos_lat((zeta + f) u sec^2)): the orography sits inside the clipped expression',
              out.divergence == CLIP(ADD(NEG(LAP(ADD(p, e))), curl(b))))
  ensure_expr(en, 'potential tendency == clip(-div_cos_lat(Phi u sec^2))', out.potential == CLIP(NEG(div(gq))))


# ---- primitive-equation explicit tendencies: horizontal structure as operator expressions (C05 / C11) ---------------------------------------

VADV = z3.Function('vertical_advection', Fld, Fld, Fld)            # centered_vertical_advection(w, x): its column contract is C13
TOMEGA = z3.Function('t_omega_over_sigma_sp', Fld, Fld, Fld, Fld)  # _t_omega_over_sigma_sp(T, G, v.grad ln ps): its column contract is C05
SIGINT = z3.Function('sigma_integral', Fld, Fld)                   # sigma_integral: C13


def _clip_tree(x):
  if isinstance(x, dict):
    return {k: _clip_tree(v) for k, v in x.items()}
  if isinstance(x, (tuple, list)):
    return type(x)(_clip_tree(v) for v in x)
  if isinstance(x, E.Obj):
    return E.Obj(**{k: _clip_tree(v) for k, v in x.__dict__.items()})
  return CLIP(x)


def primitive_operator_contract(en: E.Engine):
  """PrimitiveEquations.explicit_terms given the diagnostic state (whose vertical sums are the column clauses of C05): the momentum, kinetic-energy,
  orography, advection and pressure terms are the documented operator expressions, summed as documented, and every tendency is clipped."""
  _neg_fix(en)
  import functools
  import jax
  import numpy as np
  from dinosaur import primitive_equations as pe, sigma_coordinates as sc
  from vlib.pyvc.libspec import _reg
  g, r = _grid(en)
  for nm, f in (('to_nodal', TON), ('to_modal', TOM), ('laplacian', LAP)):
    setattr(g, nm, E.SymCallable(_lift(f), f'Grid.{nm} (uninterpreted, leaf-wise)'))
  g.sec2_lat = SEC2F
  g.clip_wavenumbers = E.SymCallable(lambda en_, x, n=1: _clip_tree(x), 'Grid.clip_wavenumbers leaf-wise over the state')
  C = lambda nm: z3.Const(nm, Fld)
  NZ, ND, NT, NU, NV, SDE, SDF, GX, GY, UG, NQ, TREF, OROG = (C(n) for n in ('nodal_vorticity', 'nodal_divergence', 'nodal_temperature_variation', 'cos_lat_u', 'cos_lat_v', 'sigma_dot_explicit',
                                                                           'sigma_dot_full', 'grad_log_sp_x', 'grad_log_sp_y', 'u_dot_grad_log_sp', 'nodal_q', 'T_ref', 'orography'))
  aux = E.Obj(vorticity=NZ, divergence=ND, temperature_variation=NT, cos_lat_u=(NU, NV), sigma_dot_explicit=SDE, sigma_dot_full=SDF, cos_lat_grad_log_sp=(GX, GY),
              u_dot_grad_log_sp=UG, tracers={'q': NQ})
  en.contracts[E._callable_key(pe.compute_diagnostic_state)] = lambda en_, state, coords: aux
  en.trusted.add('callee contract: compute_diagnostic_state returns the nodal diagnostic fields (its vertical sums: column clauses of this property; transforms: C01 / C02)')
  en.contracts[E._callable_key(sc.centered_vertical_advection)] = lambda en_, w, x, coords, **k: VADV(w, x)
  en.contracts[E._callable_key(sc.sigma_integral)] = lambda en_, x, coords, **k: SIGINT(x)
  en.contracts[E._callable_key(pe.State)] = lambda en_, **kw: E.Obj(**kw)
  Rg, grav, kappa = en.real('ideal_gas_constant'), en.real('gravity'), en.real('kappa')
  coords = E.Obj(horizontal=g, vertical=E.Obj(layers=en.int('layers')), dycore_sharding=None)
  self = E.Obj(class_ref=pe.PrimitiveEquations, coords=coords, orography=OROG, coriolis_parameter=CORIOLIS, T_ref=TREF, include_vertical_advection=True,
               vertical_advection=sc.centered_vertical_advection, physics_specs=E.Obj(R=Rg, g=grav, kappa=kappa),
               _t_omega_over_sigma_sp=E.SymCallable(lambda en_, t, gt, v: TOMEGA(t, gt, v), '_t_omega_over_sigma_sp (column contract of this property)'))
  flag = z3.Bool('reference_profile_varies')
  _reg(en, np.unique, lambda en_, x: E.Obj(size=z3.If(flag, z3.IntVal(2), z3.IntVal(1))), 'np.unique(T_ref).size > 1 <=> the reference profile varies')
  en.libspec[('attr', 'Fld', 'ravel')] = (None, lambda en_, x: E.SymCallable(lambda en__: x, 'ravel'))

  def h_partial(en_, f, *a, **k):
    return E.SymCallable(lambda en__, *b, **k2: en__.call(f, list(a) + list(b), dict(k, **k2)), 'functools.partial')
  _reg(en, functools.partial, h_partial, 'functools.partial')

  def tree_map(en_, f, *trees):
    t0 = trees[0]
    if isinstance(t0, dict):
      return {k: tree_map(en_, f, *[t[k] for t in trees]) for k in t0}
    kind, rr = en_.invoke(f, *trees)
    if kind == 'raise':
      raise E.PathRaise(rr)
    return rr
  _reg(en, jax.tree_util.tree_map, tree_map, 'jax.tree_util.tree_map over tracer dictionaries (leaf-wise; tuples are leaves here)')
  en.libspec[('binop', 'Stack', 'Pow')] = (None, lambda en_, a, b: Stack(NMUL(x, x) for x in a) if b == 2 else (_ for _ in ()).throw(E.Unsupported('power')))
  en.cover('requires: radius > 0')
  kind, out = en.invoke(en.getattr(self, 'explicit_terms'), E.Obj(vorticity=C('zeta'), divergence=C('delta'), temperature_variation=C('T'), log_surface_pressure=C('lnps'), tracers={'q': C('q')}))
  if kind == 'raise':
    en.ensure(f'explicit_terms runs ({out})', False)
    return
  varies = en.truth(flag)
  sec = lambda x: NMUL(x, SEC2F)
  tv = ADD(NZ, CORIOLIS)
  rt = SCALE(Rg, NT)
  cu = TOM(ADD(sec(NMUL(NEG(NV), tv)), sec(ADD(NEG(VADV(SDF, NU)), NMUL(rt, GX)))))
  cv = TOM(ADD(sec(NMUL(NU, tv)), sec(ADD(NEG(VADV(SDF, NV)), NMUL(rt, GY)))))
  curl = NEG(DIVS(SUB(DLON(cv), SLDC(cu)), r))
  div = NEG(DIVS(ADD(DLON(cu), SLDC(cv)), r))
  ke = NEG(LAP(TOM(DIVS(NMUL(ADD(NMUL(NU, NU), NMUL(NV, NV)), SEC2F), z3.RealVal(2)))))
  oro = NEG(SCALE(grav, LAP(OROG)))                     # -(g * laplacian(orography))
  adv_nodal = lambda s_: NMUL(s_, ND)
  adv_modal = lambda s_: NEG(DIVS(ADD(DLON(TOM(sec(NMUL(NU, s_)))), SLDC(TOM(sec(NMUL(NV, s_))))), r))
  vert_T = ADD(VADV(SDF, NT), VADV(SDE, TREF)) if varies else VADV(SDF, NT)
  adia = SCALE(kappa, ADD(TOMEGA(TREF, UG, UG), TOMEGA(NT, ADD(UG, ND), UG)))
  ensure_expr(en, 'vorticity tendency == clip(-curl_cos_lat(C)), C = to_modal((zeta + f)(k x v) sec^2 + (-sigma_dot dv/dsigma + R T\' grad ln ps) sec^2)', out.vorticity == CLIP(curl))
  ensure_expr(en, 'divergence tendency == clip(-div_cos_lat(C) - laplacian(|v|^2 sec^2 / 2) - g laplacian(orography))', out.divergence == CLIP(ADD(ADD(div, ke), oro)))
  ensure_expr(en, f'temperature tendency == clip(to_modal(T\' delta + vertical advection + adiabatic term) - div_sec_lat(u T\', v T\')) [reference profile {"varies" if varies else "constant"}]',
              out.temperature_variation == CLIP(ADD(TOM(ADD(ADD(adv_nodal(NT), vert_T), adia)), adv_modal(NT))))
  ensure_expr(en, 'log-surface-pressure tendency == clip(to_modal(-sigma_integral(u . grad ln ps)))', out.log_surface_pressure == CLIP(TOM(NEG(SIGINT(UG)))))
  ensure_expr(en, 'tracer tendency == clip(to_modal(vertical advection + q delta) - div_sec_lat(u q, v q))', out.tracers['q'] == CLIP(ADD(TOM(ADD(VADV(SDF, NQ), adv_nodal(NQ))), adv_modal(NQ))))


def replay_wind(w):
  """Native: with clip=False the top total wavenumber of both wind components must carry the contribution of divergence and vorticity at
  l = L-2 (it is produced by the latitude derivative); compare against the same expression assembled from the elementary operators."""
  import numpy as np
  import jax
  jax.config.update('jax_enable_x64', True)
  import jax.numpy as jnp
  from dinosaur import spherical_harmonic as sh
  rng = np.random.RandomState(2)
  msgs = []
  for impl in (sh.RealSphericalHarmonics, sh.FastSphericalHarmonics):
    g = sh.Grid(longitude_wavenumbers=5, total_wavenumbers=6, longitude_nodes=16, latitude_nodes=8, radius=2.0, spherical_harmonics_impl=impl)
    mask = np.asarray(g.mask)
    f = lambda: jnp.asarray(np.where(mask, rng.randn(*g.modal_shape), 0.0)).at[0, 0].set(0.0)
    zeta, delta = f(), f()
    for clip in (True, False):
      got = sh.get_cos_lat_vector(zeta, delta, g, clip=clip)
      chi, psi = g.inverse_laplacian(delta), g.inverse_laplacian(zeta)
      c = (lambda x: g.clip_wavenumbers(x)) if clip else (lambda x: x)
      want = (c(g.d_dlon(chi) / g.radius) - c(g.cos_lat_d_dlat(psi) / g.radius), c(g.cos_lat_d_dlat(chi) / g.radius) + c(g.d_dlon(psi) / g.radius))
      err = max(float(jnp.abs(a - b).max()) for a, b in zip(got, want))
      if err > 1e-12:
        msgs.append(f'{impl.__name__}: get_cos_lat_vector(clip={clip}) differs from grad(chi) + k x grad(psi) assembled from the elementary operators by {err:.3e}')
      u, v = rng.randn(*g.nodal_shape), rng.randn(*g.nodal_shape)
      vd = sh.uv_nodal_to_vor_div_modal(g, jnp.asarray(u), jnp.asarray(v), clip=clip)
      a, b = g.to_modal(u / g.cos_lat), g.to_modal(v / g.cos_lat)
      want = (c((g.d_dlon(b) - g.sec_lat_d_dlat_cos2(a)) / g.radius), c((g.d_dlon(a) + g.sec_lat_d_dlat_cos2(b)) / g.radius))
      err = max(float(jnp.abs(p - q).max()) for p, q in zip(vd, want))
      if err > 1e-12:
        msgs.append(f'{impl.__name__}: uv_nodal_to_vor_div_modal(clip={clip}) differs from (curl, div) assembled from the elementary operators by {err:.3e}')
  return bool(msgs), ('; '.join(msgs[:3]) if msgs else 'wind conversions equal the documented operator expressions for clip=True and clip=False')


def replay_shallow_water(w):
  """Native: explicit_terms against the same expression assembled from the Grid's elementary operators (two layers, un-truncated mountain)."""
  import numpy as np
  import jax
  jax.config.update('jax_enable_x64', True)
  import jax.numpy as jnp
  from dinosaur import coordinate_systems as cs, layer_coordinates, scales, shallow_water as sw, spherical_harmonic as sh
  rng = np.random.RandomState(12)
  g = sh.Grid(longitude_wavenumbers=5, total_wavenumbers=6, longitude_nodes=16, latitude_nodes=8)
  coords = cs.CoordinateSystem(g, layer_coordinates.LayerCoordinates(2))
  u = scales.units
  specs = sw.ShallowWaterSpecs.from_si(densities=np.array([900.0, 1100.0]) * u.kg / u.m ** 3)
  mask = np.asarray(g.mask)
  oro = jnp.asarray(np.where(mask, 0.05 * rng.randn(*g.modal_shape), 0.0))
  eq = sw.ShallowWaterEquations(coords=coords, physics_specs=specs, orography=oro, reference_potential=np.array([1.0, 2.0]))
  f = lambda: jnp.asarray(np.where(mask, rng.randn(2, *g.modal_shape), 0.0)).at[:, 0, 0].set(0.0)
  st = sw.State(f(), f(), f())
  got = eq.explicit_terms(st)
  uu = sh.get_cos_lat_vector(st.vorticity, st.divergence, g)
  nu = [g.to_nodal(c) for c in uu]
  tv = g.to_nodal(g.clip_wavenumbers(st.vorticity)) + eq.coriolis_parameter
  nphi = g.to_nodal(g.clip_wavenumbers(st.potential))
  s2 = g.sec2_lat
  b = [g.to_modal(c * tv * s2) for c in nu]
  gq = [g.to_modal(c * nphi * s2) for c in nu]
  e = g.to_modal((nu[0] * nu[0] + nu[1] * nu[1]) * s2 / 2)
  rho = np.asarray(specs.densities, float)
  D = np.array([[rho[j] / rho[i] if j < i else (1.0 if j > i else 0.0) for j in range(2)] for i in range(2)])     # hydrostatic coupling (off-diagonal part)
  p = jnp.einsum('ab,bml->aml', D, st.potential) + oro
  want = (g.clip_wavenumbers(-g.div_cos_lat(b)), g.clip_wavenumbers(-g.laplacian(p + e) + g.curl_cos_lat(b)), g.clip_wavenumbers(-g.div_cos_lat(gq)))
  errs = [float(jnp.abs(a - b_).max()) for a, b_ in zip((got.vorticity, got.divergence, got.potential), want)]
  top = max(float(jnp.abs(a[..., g.total_wavenumbers - 1:]).max()) for a in (got.vorticity, got.divergence, got.potential))
  bad = max(errs) > 1e-10 * max(1.0, float(jnp.abs(want[1]).max())) or top != 0.0
  return bad, f'shallow-water explicit_terms vs the documented operator expression: max differences (vorticity, divergence, potential) = {errs}; max |top-wavenumber entry| = {top:.3e}'


def sw_clauses():
  rc = lambda c, n=2: (lambda ctx: run_contract(c, min_obligations=n, setup=_sw_setup, timeout_ms=30000))
  return [Clause('smt:ShallowWaterEquations.explicit_terms == vorticity-divergence form of the layered shallow-water equations as an operator expression; every tendency clipped, orography inside the clip (all fields, sizes, layer counts)', 'smt',
                 ['dinosaur.shallow_water.ShallowWaterEquations.explicit_terms', 'dinosaur.shallow_water.state_to_nodal', SH + 'get_cos_lat_vector'], rc(shallow_water_contract, 4), replay=replay_shallow_water, group='pyvc')]


def replay_primitive(w):
  """Native: PrimitiveEquations.explicit_terms against the same operator expression assembled from the Grid's elementary operators, the real
  diagnostic state and the real vertical kernels (uneven levels, varying reference profile, orography, one tracer)."""
  import numpy as np
  import jax
  jax.config.update('jax_enable_x64', True)
  import jax.numpy as jnp
  from dinosaur import coordinate_systems as cs, primitive_equations as pe, sigma_coordinates as sc, spherical_harmonic as sh
  rng = np.random.RandomState(21)
  g = sh.Grid(longitude_wavenumbers=5, total_wavenumbers=6, longitude_nodes=16, latitude_nodes=8)
  vert = sc.SigmaCoordinates(np.array([0.0, 0.15, 0.4, 0.75, 1.0]))
  coords = cs.CoordinateSystem(g, vert)
  specs = pe.PrimitiveEquationsSpecs.from_si()
  mask = np.asarray(g.mask)
  oro = jnp.asarray(np.where(mask, 0.01 * rng.randn(*g.modal_shape), 0.0))
  eq = pe.PrimitiveEquations(np.array([220.0, 240.0, 265.0, 280.0]), oro, coords, specs)
  f = lambda n, s=1.0: jnp.asarray(np.where(mask, s * rng.randn(n, *g.modal_shape), 0.0))
  st = pe.State(f(4).at[:, 0, 0].set(0.0), f(4).at[:, 0, 0].set(0.0), f(4), f(1, 0.1), {'q': f(4, 0.01)})
  got = eq.explicit_terms(st)
  aux = pe.compute_diagnostic_state(st, coords)
  s2, R = g.sec2_lat, specs.R
  u, v = aux.cos_lat_u
  tv = aux.vorticity + eq.coriolis_parameter
  gx, gy = aux.cos_lat_grad_log_sp
  vadv = lambda w_, x: sc.centered_vertical_advection(w_, x, vert)
  cu = g.to_modal(-v * tv * s2 + (-vadv(aux.sigma_dot_full, u) + R * aux.temperature_variation * gx) * s2)
  cv = g.to_modal(u * tv * s2 + (-vadv(aux.sigma_dot_full, v) + R * aux.temperature_variation * gy) * s2)
  clip = g.clip_wavenumbers
  ke = -g.laplacian(g.to_modal((u * u + v * v) * s2 / 2))
  adv_modal = lambda s_: -g.div_cos_lat((g.to_modal(u * s_ * s2), g.to_modal(v * s_ * s2)), clip=False)
  T = aux.temperature_variation
  ug = aux.u_dot_grad_log_sp
  adia = specs.kappa * (eq._t_omega_over_sigma_sp(eq.T_ref, ug, ug) + eq._t_omega_over_sigma_sp(T, ug + aux.divergence, ug))
  want = {
      'vorticity': clip(-g.curl_cos_lat((cu, cv), clip=False)),
      'divergence': clip(-g.div_cos_lat((cu, cv), clip=False) + ke - specs.g * g.laplacian(oro)),
      'temperature_variation': clip(g.to_modal(T * aux.divergence + vadv(aux.sigma_dot_full, T) + vadv(aux.sigma_dot_explicit, eq.T_ref) + adia) + adv_modal(T)),
      'log_surface_pressure': clip(g.to_modal(-sc.sigma_integral(ug, vert))),
      'q': clip(g.to_modal(vadv(aux.sigma_dot_full, aux.tracers['q']) + aux.tracers['q'] * aux.divergence) + adv_modal(aux.tracers['q'])),
  }
  have = {'vorticity': got.vorticity, 'divergence': got.divergence, 'temperature_variation': got.temperature_variation, 'log_surface_pressure': got.log_surface_pressure, 'q': got.tracers['q']}
  errs = {k: float(jnp.abs(have[k] - want[k]).max()) / max(1.0, float(jnp.abs(want[k]).max())) for k in want}
  top = max(float(jnp.abs(a[..., g.total_wavenumbers - 1:]).max()) for a in have.values())
  return max(errs.values()) > 1e-10 or top != 0.0, f'primitive explicit_terms vs the documented operator expression: relative differences {errs}; max |top-wavenumber entry| = {top:.3e}'


def pe_clauses():
  rc = lambda c, n=2: (lambda ctx: run_contract(c, min_obligations=n, setup=_sw_setup, timeout_ms=30000))
  P = 'dinosaur.primitive_equations.PrimitiveEquations.'
  return [Clause('smt:PrimitiveEquations.explicit_terms == documented operator expressions given the diagnostic state: momentum / kinetic energy / orography / advection / pressure terms summed as documented, every tendency clipped (all fields, sizes)', 'smt',
                 [P + 'explicit_terms', P + 'curl_and_div_tendencies', P + 'kinetic_energy_tendency', P + 'orography_tendency', P + 'horizontal_scalar_advection', P + 'nodal_temperature_vertical_tendency',
                  P + 'nodal_temperature_adiabatic_tendency', P + 'nodal_log_pressure_tendency', 'dinosaur.primitive_equations.div_sec_lat'], rc(primitive_operator_contract, 6), replay=replay_primitive, group='pyvc')]


def clauses():
  rc = lambda c, n=2: (lambda ctx: run_contract(c, min_obligations=n, setup=_setup, timeout_ms=30000))
  G = SH + 'Grid.'
  return [
      Clause('smt:cos_lat_grad / div_cos_lat / curl_cos_lat / k_cross are the documented operator expressions for both values of clip (all fields)', 'smt',
             [G + 'cos_lat_grad', G + 'div_cos_lat', G + 'curl_cos_lat', G + 'k_cross'], rc(wrappers_contract, 8), replay=replay_wind, group='pyvc'),
      Clause('smt:get_cos_lat_vector == grad(chi) + k x grad(psi) with the clip flag passed to both gradients; vor_div_to_uv_nodal / uv_nodal_to_vor_div_modal wrap it as documented', 'smt',
             [SH + 'get_cos_lat_vector', SH + 'vor_div_to_uv_nodal', SH + 'uv_nodal_to_vor_div_modal'], rc(wind_contract, 7), replay=replay_wind, group='pyvc'),
      Clause('canary:get_cos_lat_vector(clip=False) still clips must fail', 'smt', [SH + 'get_cos_lat_vector'], rc(canary_contract, 1), canary=True, group='pyvc'),
  ]
