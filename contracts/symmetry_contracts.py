"""C10: the elementary spectral operators are equivariant under the symmetry actions, from the real source, for every size.

Spectral actions (the ones the transforms intertwine with the grid-space rotation / mirror -- that intertwining is the bounded numeric clause):
  rotation by an angle phi    acts on the (cos, sin) pair of zonal wavenumber j by the plane rotation with angle j*phi:
                                  (a, b) -> (C_j a - S_j b, S_j a + C_j b);   C_j, S_j are uninterpreted (any 2x2 matrix of that shape works);
                                  the m = 0 row is fixed.  Reference layout: rows (2j-1, 2j); fast layout: rows (2k, 2k+1) of wavenumber f0 + k.
  mirror about the equator    multiplies coefficient (m, l) by sg(l) (-1)^m with sg(l+1) = -sg(l): along one zonal row it is the alternating sign sg(l).
Proved (pyvc array / row mode, all sizes, all inputs):
  d/dlon (both layouts)  commutes with every rotation          D(R u) == R(D u)            row by row
  cos_lat_d_dlat, sec_lat_d_dlat_cos2  anti-commute with the mirror   A(P x) == -P(A x)    (they change the parity of l)
  laplacian, inverse_laplacian, clip_wavenumbers (diagonal in l)   commute with the mirror, and -- acting on l only -- with rotations
"""
from __future__ import annotations

import z3

from contracts import fourier_contracts as FC
from contracts import grid_contracts as GC
from contracts import recurrence_contracts as RC
from vlib.core import Clause
from vlib.pyvc import arrays
from vlib.pyvc import engine as E
from vlib.pyvc.run import run_contract

CJ, SJ = z3.Function('rot_cos', z3.IntSort(), z3.RealSort()), z3.Function('rot_sin', z3.IntSort(), z3.RealSort())
SG = z3.Function('mirror_sign', z3.IntSort(), z3.RealSort())
U = FC.U


def _rot_real(get):
  """Rotation in the reference layout: row 0 fixed; rows (2j-1, 2j) rotated by (C_j, S_j)."""
  def out(i):
    i = E.to_z3(i)
    j = (i + 1) / 2                      # integer division on z3 Ints
    odd = i % 2 == 1
    return z3.If(i == 0, get(0), z3.If(odd, CJ(j) * get(i) - SJ(j) * get(i + 1), SJ(j) * get(i - 1) + CJ(j) * get(i)))
  return out


def _rot_fast(get, f0):
  """Rotation in the fast layout: rows (2k, 2k+1) = (real, imaginary) of wavenumber f0 + k."""
  def out(i):
    i = E.to_z3(i)
    k = i / 2
    even = i % 2 == 0
    return z3.If(even, CJ(f0 + k) * get(i) - SJ(f0 + k) * get(i + 1), SJ(f0 + k) * get(i - 1) + CJ(f0 + k) * get(i))
  return out


def rotation_real_contract(en: E.Engine):
  from dinosaur import fourier
  M = en.int('wavenumbers')
  en.assume(M >= 1)
  n = 2 * M - 1
  u = FC._col(n)
  ru = FC._col(n, f=_rot_real(lambda i: U(E.to_z3(i))), name='R u')
  en.cover('requires: n = 2 wavenumbers - 1')
  k1, du = en.invoke(en.load_function(fourier.real_basis_derivative), u, axis=-2)
  k2, dru = en.invoke(en.load_function(fourier.real_basis_derivative), ru, axis=-2)
  if 'raise' in (k1, k2):
    en.ensure('real_basis_derivative runs', False)
    return
  i = en.int('i')
  en.assume(z3.And(i >= 0, i < n))
  rdu = _rot_real(lambda t: du.get(t))
  en.ensure('d/dlon(R u)[i] == R(d/dlon u)[i] in the reference layout, for every row and every rotation', dru.get(i) == rdu(i))


def rotation_fast_contract(en: E.Engine):
  from dinosaur import fourier
  K, f0 = en.int('half_rows'), en.int('frequency_offset')
  en.assume(z3.And(K >= 1, f0 >= 0))
  n = 2 * K
  u = FC._col(n)
  ru = FC._col(n, f=_rot_fast(lambda i: U(E.to_z3(i)), f0), name='R u')
  en.cover('requires: even number of rows')
  k1, du = en.invoke(en.load_function(fourier.real_basis_derivative_with_zero_imag), u, -2, f0)
  k2, dru = en.invoke(en.load_function(fourier.real_basis_derivative_with_zero_imag), ru, -2, f0)
  if 'raise' in (k1, k2):
    en.ensure('real_basis_derivative_with_zero_imag runs', False)
    return
  i = en.int('i')
  en.assume(z3.And(i >= 0, i < n))
  rdu = _rot_fast(lambda t: du.get(t), f0)
  en.ensure('d/dlon(R u)[i] == R(d/dlon u)[i] in the fast layout (any frequency offset, hence any shard), for every row and every rotation', dru.get(i) == rdu(i))


def _mirror_axioms(en, idx):
  for t in idx:
    en.assume(SG(t + 1) == -SG(t))
    en.assume(SG(t) * SG(t) == 1)


AW, BW, LZ = (z3.Function(nm, z3.IntSort(), z3.RealSort()) for nm in ('weight_a', 'weight_b', 'l_value'))


def _opaque_grid(en):
  """Row of the grid with *arbitrary* recurrence weights and l-values: the anti-commutation only uses that the operator moves a coefficient
  by exactly one step in l (the shift structure), not the values of the weights."""
  from dinosaur import spherical_harmonic as sh
  n, m = en.int('n'), en.int('m')
  en.assume(z3.And(n >= 1, m >= 0))
  seq = lambda f, nm: E.SymSeq(n, lambda k: f(E.to_z3(k)), z3.RealSort(), nm)
  g = E.Obj(class_ref=sh.Grid, modal_mesh=(z3.ToReal(m), seq(LZ, 'l')), _derivative_recurrence_weights=(seq(AW, 'a'), seq(BW, 'b')))
  return g, n


def mirror_recurrence_contract(en: E.Engine, which='cos_lat_d_dlat'):
  g, n = _opaque_grid(en)
  X = RC.X
  x = E.SymSeq(n, lambda k: X(E.to_z3(k)), z3.RealSort(), 'x')
  px = E.SymSeq(n, lambda k: SG(E.to_z3(k)) * X(E.to_z3(k)), z3.RealSort(), 'P x')
  en.cover('requires')
  k1, y = en.invoke(en.getattr(g, which), x)
  k2, py = en.invoke(en.getattr(g, which), px)
  if 'raise' in (k1, k2):
    en.ensure(f'{which} runs', False)
    return
  k = en.int('k')
  en.assume(z3.And(k >= 0, k < n))
  from contracts import vertical_matrix_contracts as VM
  from vlib.pyvc import ring
  rules = [ring.Rule('sg(k+1) = -sg(k)', pattern=z3.simplify(SG(k + 1)), replacement=-SG(k)), ring.Rule('sg(k-1) = -sg(k)', pattern=z3.simplify(SG(k - 1)), replacement=-SG(k))]
  cases = [('k = 0 = n-1', [k == 0, n == 1]), ('k = 0 < n-1', [k == 0, n >= 2]), ('0 < k < n-1', [k >= 1, k < n - 1]), ('0 < k = n-1', [k >= 1, k == n - 1])]
  VM.ensure_cases(en, f'{which}(P x)[k] == -(P {which}(x))[k]: the latitude derivative anti-commutes with the mirror (alternating sign along l)', [n >= 1, k >= 0, k < n], cases,
                  [SG(k + 1) == -SG(k), SG(k) == -SG(k - 1)], py.get(k) == -(SG(k) * y.get(k)), rules=rules, timeout_ms=30000)


def mirror_diagonal_contract(en: E.Engine):
  g, L, pad, r, n, x = GC._grid(en)
  X = GC.X
  px = E.SymSeq(n, lambda k: SG(E.to_z3(k)) * X(E.to_z3(k)), z3.RealSort(), 'P x')
  en.cover('requires')
  eig = en.getattr(g, 'laplacian_eigenvalues')
  g.laplacian_eigenvalues = eig
  k = en.int('k')
  en.assume(z3.And(k >= 0, k < n))
  for name, args in (('laplacian', ()), ('inverse_laplacian', ()), ('clip_wavenumbers', (1,)), ('clip_wavenumbers', (2,))):
    k1, y = en.invoke(en.getattr(g, name), x, *args)
    k2, py = en.invoke(en.getattr(g, name), px, *args)
    if 'raise' in (k1, k2):
      en.ensure(f'{name} runs', z3.BoolVal(False) if not (name == 'clip_wavenumbers') else z3.BoolVal(k1 == k2))
      continue
    en.ensure(f'{name}{args}(P x)[k] == (P {name}{args}(x))[k]: operators diagonal in l commute with the mirror (and, not touching m, with rotations)', py.get(k) == SG(k) * y.get(k))


def canary_contract(en: E.Engine):
  g, n = _opaque_grid(en)
  X = RC.X
  x = E.SymSeq(n, lambda k: X(E.to_z3(k)), z3.RealSort(), 'x')
  px = E.SymSeq(n, lambda k: SG(E.to_z3(k)) * X(E.to_z3(k)), z3.RealSort(), 'P x')
  k1, y = en.invoke(en.getattr(g, 'cos_lat_d_dlat'), x)
  k2, py = en.invoke(en.getattr(g, 'cos_lat_d_dlat'), px)
  k = en.int('k')
  en.assume(z3.And(k >= 0, k < n))
  _mirror_axioms(en, [k - 1, k])
  if 'raise' not in (k1, k2):
    en.ensure('canary: the latitude derivative commutes with the mirror', py.get(k) == SG(k) * y.get(k))


def replay_symmetry(w):
  import numpy as np
  import jax
  jax.config.update('jax_enable_x64', True)
  import jax.numpy as jnp
  from dinosaur import spherical_harmonic as sh
  rng = np.random.RandomState(6)
  msgs = []
  for impl in (sh.RealSphericalHarmonics, sh.FastSphericalHarmonics):
    g = sh.Grid(longitude_wavenumbers=5, total_wavenumbers=6, longitude_nodes=16, latitude_nodes=8, spherical_harmonics_impl=impl)
    mask = np.asarray(g.mask)
    x = jnp.asarray(np.where(mask, rng.randn(*g.modal_shape), 0.0))
    mm, ll = (np.asarray(v) for v in g.modal_mesh)
    P = np.where(mask, (-1.0) ** (ll + mm), 0.0)
    # rotation by `s` grid steps acts in grid space by a cyclic shift of the longitude axis
    for s in (1, 5):
      rot = lambda f: g.to_modal(jnp.roll(g.to_nodal(f), s, axis=0))
      e = float(jnp.abs(g.d_dlon(rot(x)) - rot(g.d_dlon(x))).max())
      if e > 1e-10:
        msgs.append(f'{impl.__name__}: d_dlon does not commute with the rotation by {s} grid steps (max difference {e:.3e})')
    for nm, sign in (('cos_lat_d_dlat', -1.0), ('sec_lat_d_dlat_cos2', -1.0), ('laplacian', 1.0), ('inverse_laplacian', 1.0)):
      f = getattr(g, nm)
      e = float(jnp.abs(f(P * x) - sign * P * f(x))[mask].max())
      if e > 1e-10:
        msgs.append(f'{impl.__name__}: {nm}(P x) != {"-" if sign < 0 else ""}P {nm}(x) on resolved coefficients (max difference {e:.3e})')
  return bool(msgs), ('; '.join(msgs[:3]) if msgs else 'spectral operators (anti-)commute with rotation and mirror on the sampled grids')


def clauses():
  rcf = lambda c, n=2, **kw: (lambda ctx: run_contract((lambda en: c(en, **kw)) if kw else c, min_obligations=n, setup=FC._setup, timeout_ms=60000))
  rcr = lambda c, n=2, **kw: (lambda ctx: run_contract((lambda en: c(en, **kw)) if kw else c, min_obligations=n, setup=RC._setup, timeout_ms=60000))
  rcg = lambda c, n=2: (lambda ctx: run_contract(c, min_obligations=n, setup=GC._setup, timeout_ms=60000))
  F, G = 'dinosaur.fourier.', 'dinosaur.spherical_harmonic.Grid.'
  return [
      Clause('smt:d/dlon commutes with every rotation in the reference layout (all sizes, all rows)', 'smt', [F + 'real_basis_derivative'], rcf(rotation_real_contract, 2),
             replay=replay_symmetry, group='pyvc'),
      Clause('smt:d/dlon commutes with every rotation in the fast layout (all sizes, frequency offsets, rows)', 'smt', [F + 'real_basis_derivative_with_zero_imag'],
             rcf(rotation_fast_contract, 2), replay=replay_symmetry, group='pyvc'),
      Clause('smt:cos_lat_d_dlat anti-commutes with the equatorial mirror (all sizes, all rows)', 'smt', [G + 'cos_lat_d_dlat'],
             rcr(mirror_recurrence_contract, 2, which='cos_lat_d_dlat'), replay=replay_symmetry, group='pyvc'),
      Clause('smt:sec_lat_d_dlat_cos2 anti-commutes with the equatorial mirror (all sizes, all rows)', 'smt', [G + 'sec_lat_d_dlat_cos2'],
             rcr(mirror_recurrence_contract, 2, which='sec_lat_d_dlat_cos2'), replay=replay_symmetry, group='pyvc'),
      Clause('smt:laplacian / inverse_laplacian / clip_wavenumbers commute with the equatorial mirror (all sizes)', 'smt',
             [G + 'laplacian', G + 'inverse_laplacian', G + 'clip_wavenumbers'], rcg(mirror_diagonal_contract, 4), replay=replay_symmetry, group='pyvc'),
      Clause('canary:the latitude derivative commutes with the mirror must fail', 'smt', [G + 'cos_lat_d_dlat'], rcr(canary_contract, 1), canary=True, group='pyvc'),
  ]
