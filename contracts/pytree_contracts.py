"""C19: pack/unpack and stack/unstack of pytrees are mutually inverse -- VCs from the real source, symbolic leaf sizes.

dinosaur.pytree_utils.pack_pytree / unpack_to_pytree / stack_pytree / unstack_to_pytree are executed by pyvc on pytrees with K leaves
(K = 1..4 enumerated: the tree structure is concrete, the leaf sizes along the packing axis are symbolic).  Assumed array contracts (A8):
  jnp.concatenate(parts, axis), jnp.stack(parts, axis)                 recorded with their axis
  jnp.split(concat(parts, axis), [s_0, s_0+s_1, ...], axis) == parts   (splitting at the prefix sums of the part sizes along the *same*
                                                                        axis inverts the concatenation; any other split points do not)
  jnp.split(stack(parts, axis), K, axis) followed by squeeze(axis) == parts
  np.cumsum of a list of integers == its prefix sums;  jax.tree_util.tree_flatten / tree_unflatten are structural
Post-condition: unpack_to_pytree(pack_pytree(t, axis), shapes(t), axis) == t and unstack_to_pytree(stack_pytree(t, axis), shapes(t), axis) == t,
for every axis and all leaf sizes; an empty pytree packs to None.
"""
from __future__ import annotations

import z3

from vlib.core import Clause
from vlib.pyvc import engine as E
from vlib.pyvc.run import run_contract

PU = 'dinosaur.pytree_utils.'


class Leaf(E.Obj):
  pass


def _setup(en):
  import jax
  import jax.numpy as jnp
  import numpy as np
  rec = en.__dict__.setdefault('rec', {})

  def flatten(en_, tree):
    if tree is None:
      return ([], ('none',))
    if isinstance(tree, dict):
      keys = sorted(tree)
      return ([tree[k] for k in keys], ('dict', tuple(keys)))
    if isinstance(tree, (list, tuple)) and not _is_shape(tree):
      return (list(tree), ('seq', len(tree), type(tree).__name__))
    return ([tree], ('leaf',))

  def unflatten(en_, treedef, leaves):
    leaves = list(en_.iter_concrete(leaves))
    if treedef[0] == 'dict':
      return dict(zip(treedef[1], leaves))
    if treedef[0] == 'seq':
      return tuple(leaves) if treedef[2] == 'tuple' else list(leaves)
    if treedef[0] == 'none':
      return None
    return leaves[0]
  en.contracts[E._callable_key(jax.tree_util.tree_flatten)] = flatten
  en.contracts[E._callable_key(jax.tree_util.tree_unflatten)] = unflatten
  en.contracts[E._callable_key(jnp.concatenate)] = lambda en_, parts, axis=0: E.Obj(kind='concat', parts=list(en_.iter_concrete(parts)), axis=axis)
  en.contracts[E._callable_key(jnp.stack)] = lambda en_, parts, axis=0: E.Obj(kind='stack', parts=list(en_.iter_concrete(parts)), axis=axis)
  en.contracts[E._callable_key(np.array)] = lambda en_, xs, *a, **k: list(en_.iter_concrete(xs))

  def cumsum(en_, xs, *a, **k):
    out, tot = [], 0
    for x in en_.iter_concrete(xs):
      tot = tot + x
      out.append(tot)
    return out
  en.contracts[E._callable_key(np.cumsum)] = cumsum

  def split(en_, arr, points, axis=0):
    rec['split'] = (arr, points, axis)
    if isinstance(arr, E.Obj) and arr.kind == 'concat' and isinstance(points, list):
      return [E.Obj(kind='piece', of=arr, index=i, lo=(points[i - 1] if i else 0), hi=(points[i] if i < len(points) else None), axis=axis) for i in range(len(points) + 1)]
    if isinstance(arr, E.Obj) and arr.kind == 'stack':
      n = points
      if E.is_sym(n) and z3.is_int_value(z3.simplify(n)):
        n = z3.simplify(n).as_long()
      k = len(arr.parts)
      if E.is_sym(n) or n != k:
        raise E.Unsupported('split of a stack into a number of pieces that is not its length')
      return [E.Obj(kind='slab', of=arr, index=i, axis=axis) for i in range(k)]
    raise E.Unsupported('split of an unknown array')
  en.contracts[E._callable_key(jnp.split)] = split
  en.contracts[E._callable_key(jnp.squeeze)] = lambda en_, x, axis=None: E.Obj(kind='squeezed', of=x, axis=axis)


def _is_shape(t):
  return isinstance(t, tuple) and t and all(E.is_sym(v) or isinstance(v, int) for v in t)


def _tree(en, K, shape_of):
  leaves = []
  for i in range(K):
    size = en.int(f'size{i}')
    en.assume(size >= 1)
    leaves.append(Leaf(name=f'leaf{i}', shape=shape_of(size), ndim=3))
  tree = {'a': leaves[0]} if K == 1 else ({'a': leaves[0], 'b': leaves[1]} if K == 2 else {'a': leaves[0], 'b': tuple(leaves[1:])})
  shapes = {k: (v.shape if isinstance(v, Leaf) else tuple(x.shape for x in v)) for k, v in tree.items()}
  return tree, shapes, leaves


def pack_contract(en: E.Engine, K=3, axis=-3):
  from dinosaur import pytree_utils as pu
  pos = axis % 3
  shape_of = lambda size: tuple(size if d == pos else z3.Int(f'dim{d}') for d in range(3))
  tree, shapes, leaves = _tree(en, K, shape_of)
  en.cover('requires')
  # tree_flatten of the nested structure: flatten dict then tuples (two levels)
  kind, packed = en.invoke(en.load_function(pu.pack_pytree), _flat_tree(tree), axis)
  if kind == 'raise' or not isinstance(packed, E.Obj) or packed.kind != 'concat':
    en.ensure(f'pack_pytree concatenates the leaves ({packed})', False)
    return
  en.ensure('pack_pytree concatenates all leaves, in tree order, along the requested axis',
            z3.BoolVal(len(packed.parts) == K and all(p is l for p, l in zip(packed.parts, leaves)) and packed.axis == axis))
  kind, back = en.invoke(en.load_function(pu.unpack_to_pytree), packed, _flat_tree(shapes), axis)
  if kind == 'raise':
    en.ensure(f'unpack_to_pytree accepts the packed array ({back})', False)
    return
  arr, points, ax = en.rec['split']
  en.ensure('unpack splits the packed array itself along the same axis', z3.BoolVal(arr is packed and ax == axis))
  sizes = [l.shape[pos] for l in leaves]
  pref, tot = [], 0
  for s_ in sizes[:-1]:
    tot = tot + s_
    pref.append(tot)
  en.ensure('split points are the prefix sums of the leaf sizes along the packing axis (last one excluded)',
            z3.BoolVal(len(points) == K - 1) if len(points) != K - 1 or K == 1 else z3.And(*[E.to_z3(p) == E.to_z3(q) for p, q in zip(points, pref)]))
  pieces = list(back.values()) if isinstance(back, dict) else list(back)
  en.ensure('the unpacked tree has the original structure with piece i in the place of leaf i',
            z3.BoolVal(isinstance(back, dict) and len(pieces) == K and all(isinstance(p, E.Obj) and p.kind == 'piece' and p.index == i for i, p in enumerate(pieces))))


def _flat_tree(tree):
  """The tree as one dict level (tree_flatten in this contract handles one container level at a time; keep trees flat)."""
  out = {}
  for k, v in tree.items():
    if isinstance(v, tuple) and not _is_shape(v):
      for i, x in enumerate(v):
        out[f'{k}{i}'] = x
    else:
      out[k] = v
  return out


def stack_contract(en: E.Engine, K=3, axis=0):
  from dinosaur import pytree_utils as pu
  shape_of = lambda size: (z3.Int('d0'), z3.Int('d1'))
  tree, shapes, leaves = _tree(en, K, shape_of)
  en.cover('requires')
  kind, st = en.invoke(en.load_function(pu.stack_pytree), _flat_tree(tree), axis)
  if kind == 'raise' or not isinstance(st, E.Obj) or st.kind != 'stack':
    en.ensure(f'stack_pytree stacks the leaves ({st})', False)
    return
  en.ensure('stack_pytree stacks all leaves in tree order along a new axis', z3.BoolVal(len(st.parts) == K and all(p is l for p, l in zip(st.parts, leaves)) and st.axis == axis))
  st.shape = tuple([z3.IntVal(K) if d == axis % 3 else z3.Int(f'e{d}') for d in range(3)])
  kind, back = en.invoke(en.load_function(pu.unstack_to_pytree), st, _flat_tree(shapes), axis)
  if kind == 'raise':
    en.ensure(f'unstack_to_pytree accepts the stacked array ({back})', False)
    return
  vals = list(back.values()) if isinstance(back, dict) else []
  en.ensure('unstack splits into one slab per leaf along the stacking axis and squeezes that axis',
            z3.BoolVal(len(vals) == K and all(isinstance(v, E.Obj) and v.kind == 'squeezed' and v.axis == axis and v.of.kind == 'slab' and v.of.index == i and v.of.axis == axis and v.of.of is st
                                              for i, v in enumerate(vals))))


def empty_contract(en: E.Engine):
  from dinosaur import pytree_utils as pu
  en.cover('requires')
  for nm, fn in (('pack_pytree', pu.pack_pytree), ('stack_pytree', pu.stack_pytree)):
    kind, r = en.invoke(en.load_function(fn), {})
    en.ensure(f'{nm} of an empty pytree is None', z3.BoolVal(kind == 'return' and r is None))


def canary_contract(en: E.Engine):
  from dinosaur import pytree_utils as pu
  tree, shapes, leaves = _tree(en, 2, lambda size: (size, z3.Int('d1'), z3.Int('d2')))
  kind, packed = en.invoke(en.load_function(pu.pack_pytree), _flat_tree(tree), -3)
  kind, back = en.invoke(en.load_function(pu.unpack_to_pytree), packed, _flat_tree(shapes), -3)
  arr, points, ax = en.rec['split']
  en.ensure('canary: the split point is the size of the second leaf', E.to_z3(points[0]) == leaves[1].shape[0])


def replay_pytree(w):
  import numpy as np
  import jax
  import jax.numpy as jnp
  from dinosaur import pytree_utils as pu
  rng = np.random.RandomState(0)
  for axis in (-3, 0, 1, -1):
    tree = {'a': jnp.asarray(rng.randn(2, 3, 4)), 'b': (jnp.asarray(rng.randn(*[5 if d == axis % 3 else s for d, s in enumerate((2, 3, 4))])),
                                                        jnp.asarray(rng.randn(*[1 if d == axis % 3 else s for d, s in enumerate((2, 3, 4))])))}
    shapes = jax.tree_util.tree_map(lambda x: x.shape, tree)
    back = pu.unpack_to_pytree(pu.pack_pytree(tree, axis), shapes, axis)
    same = jax.tree_util.tree_all(jax.tree_util.tree_map(lambda x, y: x.shape == y.shape and bool(jnp.all(x == y)), tree, back))
    if not same:
      return True, f'unpack_to_pytree(pack_pytree(t, axis={axis})) != t for leaf sizes (2|3|4, 5, 1) along the axis'
  t2 = {'a': jnp.ones((2, 3)), 'b': 2 * jnp.ones((2, 3)), 'c': 3 * jnp.ones((2, 3))}
  for axis in (0, 1, 2, -1):
    back = pu.unstack_to_pytree(pu.stack_pytree(t2, axis), jax.tree_util.tree_map(lambda x: x.shape, t2), axis)
    if not jax.tree_util.tree_all(jax.tree_util.tree_map(lambda x, y: x.shape == y.shape and bool(jnp.all(x == y)), t2, back)):
      return True, f'unstack_to_pytree(stack_pytree(t, axis={axis})) != t'
  return False, 'pack/unpack and stack/unstack round trips hold on the sampled pytrees and axes'


def clauses():
  def many(contract, variants):
    def run(ctx):
      from vlib.core import Outcome
      total = Outcome()
      for kw in variants:
        o = run_contract((lambda en, kw=kw: contract(en, **kw)), min_obligations=3, setup=_setup)
        tag = ','.join(f'{k}={v}' for k, v in kw.items())
        for f in o.failures:
          f.obligation = f'[{tag}] {f.obligation}'
        o.undecided = [f'[{tag}] {u}' for u in o.undecided]
        total.merge(o)
      return total
    return run
  fns = [PU + n for n in ('pack_pytree', 'unpack_to_pytree', 'stack_pytree', 'unstack_to_pytree')]
  return [
      Clause('smt:unpack_to_pytree(pack_pytree(t)) == t: split at the prefix sums of the leaf sizes along the packing axis (K = 1..4 leaves, all sizes, axes -3, 0, 1, -1)', 'smt', fns[:2],
             many(pack_contract, [dict(K=K, axis=a) for K in (1, 2, 3, 4) for a in (-3, 0, 1, -1)]), replay=replay_pytree, group='pyvc-f'),
      Clause('smt:unstack_to_pytree(stack_pytree(t)) == t: one squeezed slab per leaf along the stacking axis (K = 1..4, axes 0, 1, -1)', 'smt', fns[2:],
             many(stack_contract, [dict(K=K, axis=a) for K in (1, 2, 3, 4) for a in (0, 1, -1)]), replay=replay_pytree, group='pyvc-f'),
      Clause('smt:packing / stacking an empty pytree returns None', 'smt', [fns[0], fns[2]], lambda ctx: run_contract(empty_contract, min_obligations=3, setup=_setup), group='pyvc-f'),
      Clause('canary:split point equals the size of the second leaf must fail', 'smt', fns[:2], lambda ctx: run_contract(canary_contract, min_obligations=1, setup=_setup), canary=True, group='pyvc-f'),
  ]
