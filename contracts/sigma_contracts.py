"""C13: the vertical (sigma) calculus, from the real source, for every layer count.

pyvc 1-d array mode: a column is a vector of symbolic length N (all other axes are carried elementwise by the real code: the
functions only use broadcasting along `axis`); boundaries b[0..N] are symbolic reals.  Clauses:
  V   SigmaCoordinates.__init__ returns normally  iff  |b0| <= 1e-8, |bN - 1| <= 1e-8 + 1e-5 and b strictly increasing (np.isclose
      defaults as assumed contract); raises ValueError otherwise
  G   centers strictly inside their layers and increasing; layer_thickness > 0; center_to_center[k] == (dsigma_k + dsigma_{k+1})/2 > 0
  D   centered_difference(x)[k] == (x[k+1] - x[k]) / center_to_center[k];  exact (== beta) on x = alpha + beta * centers
  A   centered_vertical_advection(w, x)[n] == -1/2 (w_{n+1/2} dx_{n+1/2} + w_{n-1/2} dx_{n-1/2}) with zero boundary values
  S   summation by parts (lemma by induction on the layer index, base + step):
        sum_{n<k} dsigma_n * adv_n - sum_{n<k} x_n (w_{n+1/2} - w_{n-1/2}) == R_k,   R_k = w_{k-1/2} (-(dsigma_{k-1}/2)(x_k - x_{k-1})/D_{k-1/2} - x_{k-1}),
      so at k = N (w_{N-1/2} = 0 at the surface) the mass-weighted column sum of advection equals the column sum of x * convergence of w.
Floats are reals (A1).  lax.slice_in_dim, jnp.concatenate, jnp.zeros, einsum in index-list form (elementwise product along the
axis for vectors) are assumed library contracts (A8).
"""
from __future__ import annotations

import z3

from vlib.core import Clause
from vlib.pyvc import arrays, nra
from vlib.pyvc import engine as E
from vlib.pyvc.run import run_contract

SC = 'dinosaur.sigma_coordinates.'
B = z3.Function('boundaries.at', z3.IntSort(), z3.RealSort())
N = z3.Int('N')


def _setup(en):
  arrays.install(en)
  import builtins
  import jax
  import jax.numpy as jnp
  import numpy as np
  from jax import lax
  from vlib.pyvc.libspec import _reg

  def h_slice_in_dim(en_, x, lo, hi, stride=1, axis=0):
    if not arrays._is_seq(x):
      raise E.Unsupported('slice_in_dim of a non-vector')
    return en_.subscript(x, slice(lo, hi, None))
  _reg(en, lax.slice_in_dim, h_slice_in_dim, 'lax.slice_in_dim(x, lo, hi, axis) == x[lo:hi] along axis (A8)')

  def h_zeros(en_, shape, *a, **k):
    shp = list(en_.iter_concrete(shape)) if not isinstance(shape, int) else [shape]
    if len(shp) != 1:
      raise E.Unsupported('zeros of rank != 1 in vector mode')
    return E.SymSeq(shp[0], lambda i: z3.RealVal(0), z3.RealSort(), 'zeros')
  for mod in (np, jnp):
    _reg(en, mod.zeros, h_zeros, f'{mod.__name__}.zeros')

  def h_einsum(en_, *args, **kw):
    # index-list form einsum(a, a_axes, b, b_axes, out_axes) on vectors: elementwise product along the shared axis
    if len(args) == 5 and arrays._is_seq(args[0]) and arrays._is_seq(args[2]):
      a, aa, b, ba, oa = args
      aa, ba, oa = (list(en_.iter_concrete(v)) for v in (aa, ba, oa))
      if aa == ba == oa and len(aa) == 1:
        return arrays._elementwise(en_, a, b, arrays._arith('Mult'), '*')
    raise E.Unsupported('einsum pattern outside the vector subset')
  from dinosaur import sigma_coordinates as sc
  en.contracts[E._callable_key(sc.einsum)] = h_einsum
  en.trusted.add('libspec:einsum(a, [0], b, [0], [0]) == elementwise product of two vectors (A8)')
  en.contracts[E._callable_key(jax.dtypes.canonicalize_dtype)] = lambda en_, d: d
  en.libspec[('attr', 'SymSeq', 'ndim')] = (None, lambda en_, s: 1)
  en.libspec[('attr', 'SymSeq', 'shape')] = (None, lambda en_, s: (s.length,))
  en.libspec[('attr', 'SymSeq', 'dtype')] = (None, lambda en_, s: 'float')

  def h_all(en_, xs):
    if arrays._is_seq(xs):
      i = z3.Int(en_.fresh_name('i'))
      return z3.ForAll([i], z3.Implies(z3.And(i >= 0, i < E.to_z3(xs.length)), E.to_z3(xs.get(i))))
    from vlib.pyvc import libspec
    return libspec.h_all(en_, xs)
  _reg(en, builtins.all, h_all, 'all(vector of booleans) == universally quantified')

  def h_isclose(en_, a, b, rtol=1e-5, atol=1e-8):
    a_, b_ = E._real(a), E._real(b)
    d = z3.If(a_ - b_ >= 0, a_ - b_, b_ - a_)
    ab = z3.If(b_ >= 0, b_, -b_)
    return d <= E.to_z3(atol) + E.to_z3(rtol) * ab
  _reg(en, np.isclose, h_isclose, 'np.isclose(a, b) == |a - b| <= atol + rtol |b| (finite inputs)')
  _reg(en, np.asarray, lambda en_, x, *a, **k: x, 'np.asarray (identity on vectors)')
  en.contracts[E._callable_key(object.__setattr__)] = lambda en_, o, name, v: setattr(o, name, v)


def _ensure_nra(en, name, int_hyps, real_hyps, goal):
  """Obligation discharged through vlib/pyvc/nra.py (index cases resolved, uninterpreted applications abstracted, nlsat)."""
  v = nra.prove(int_hyps, real_hyps, goal)
  r = E.ObligationResult(name, v.status, seconds=v.seconds, back_end=v.back_end, detail=v.reason)
  if v.status == 'invalid':
    r.model = en.model_of_inputs(v.model) if v.model is not None else None
    r.detail = f'counter-model: {r.model}' if r.model is not None else v.reason
    r.smt2 = v.smt2[:20000]
  en.results.append(r)
  return v.status == 'valid'


def _coords(en, valid=True):
  en.inputs['N'] = N
  en.assume(N >= 1)
  b = E.SymSeq(N + 1, lambda i: B(E.to_z3(i)), z3.RealSort(), 'boundaries')
  en.inputs['boundaries'] = b
  if valid:
    j = z3.Int('j')
    en.assume(z3.ForAll([j], z3.Implies(z3.And(j >= 0, j < N), B(j) < B(j + 1))))
  return b


def _self(en, b):
  from dinosaur import sigma_coordinates as sc
  self = E.Obj(boundaries=b)
  for prop in ('centers', 'layer_thickness'):
    kind, v = en.invoke(en.load_function(getattr(sc.SigmaCoordinates, prop).fget), self)
    if kind == 'raise':
      raise E.Unsupported(f'property {prop} raised {v}')
    setattr(self, prop, v)
  kind, v = en.invoke(en.load_function(sc.SigmaCoordinates.center_to_center.fget), self)
  if kind == 'raise':
    raise E.Unsupported(f'center_to_center raised {v}')
  self.center_to_center = v
  kind, v = en.invoke(en.load_function(sc.SigmaCoordinates.layers.fget), self)
  self.layers = v
  return self


def geometry_contract(en: E.Engine):
  b = _coords(en)
  en.cover('requires: boundaries strictly increasing, N >= 1')
  s = _self(en, b)
  k = z3.Int('k')
  rng = z3.And(k >= 0, k < N)
  en.ensure('layers == len(boundaries) - 1', E.to_z3(s.layers) == N)
  en.ensure('centers: one per layer, the midpoint, strictly inside its layer',
            z3.And(E.to_z3(s.centers.length) == N, z3.ForAll([k], z3.Implies(rng, z3.And(s.centers.get(k) == (B(k) + B(k + 1)) / 2, B(k) < s.centers.get(k), s.centers.get(k) < B(k + 1))))))
  en.ensure('layer_thickness == boundaries[k+1] - boundaries[k] > 0',
            z3.And(E.to_z3(s.layer_thickness.length) == N, z3.ForAll([k], z3.Implies(rng, z3.And(s.layer_thickness.get(k) == B(k + 1) - B(k), s.layer_thickness.get(k) > 0)))))
  rng1 = z3.And(k >= 0, k < N - 1)
  en.ensure('center_to_center[k] == centers[k+1] - centers[k] == (dsigma_k + dsigma_{k+1}) / 2 > 0',
            z3.And(E.to_z3(s.center_to_center.length) == N - 1,
                   z3.ForAll([k], z3.Implies(rng1, z3.And(s.center_to_center.get(k) == ((B(k + 2) + B(k + 1)) - (B(k + 1) + B(k))) / 2,
                                                           s.center_to_center.get(k) == ((B(k + 1) - B(k)) + (B(k + 2) - B(k + 1))) / 2, s.center_to_center.get(k) > 0)))))


def validation_contract(en: E.Engine):
  from dinosaur import sigma_coordinates as sc
  b = _coords(en, valid=False)
  en.cover('requires: N >= 1')
  self = E.Obj()
  kind, r = en.invoke(en.load_function(sc.SigmaCoordinates.__init__), self, b)
  j = z3.Int('j')
  increasing = z3.ForAll([j], z3.Implies(z3.And(j >= 0, j < N), B(j) < B(j + 1)))
  a0 = z3.If(B(0) >= 0, B(0), -B(0))
  a1 = z3.If(B(N) - 1 >= 0, B(N) - 1, 1 - B(N))
  ends = z3.And(a0 <= E.to_z3(1e-8), a1 <= E.to_z3(1e-8) + E.to_z3(1e-5))
  if kind == 'raise':
    en.ensure('the only exception is ValueError', r == 'ValueError')
    en.ensure('raises only for invalid level sets (ends not at 0 / 1, or not strictly increasing)', z3.Not(z3.And(ends, increasing)))
  else:
    en.ensure('accepted => boundaries[0] ~ 0, boundaries[-1] ~ 1 (isclose tolerances)', ends)
    en.ensure('accepted => boundaries strictly increasing', increasing)
    en.ensure('the stored boundaries are the given ones', z3.BoolVal(getattr(self, 'boundaries', None) is b))


def difference_contract(en: E.Engine):
  from dinosaur import sigma_coordinates as sc
  b = _coords(en)
  en.assume(N >= 2)
  s = _self(en, b)
  X = z3.Function('x.at', z3.IntSort(), z3.RealSort())
  x = E.SymSeq(N, lambda i: X(E.to_z3(i)), z3.RealSort(), 'x')
  en.cover('requires: N >= 2')
  kind, d = en.invoke(en.load_function(sc.centered_difference), x, s, axis=0)
  if kind == 'raise' or not arrays._is_seq(d):
    en.ensure(f'centered_difference returns a vector ({d})', False)
    return
  k = z3.Int('k')
  rng = z3.And(k >= 0, k < N - 1)
  cen = lambda i: (B(i) + B(i + 1)) / 2
  en.ensure('centered_difference: N-1 interface values (x[k+1] - x[k]) / (centers[k+1] - centers[k])',
            z3.And(E.to_z3(d.length) == N - 1, z3.ForAll([k], z3.Implies(rng, d.get(k) == (X(k + 1) - X(k)) / (cen(k + 1) - cen(k))))))
  al, be = en.real('alpha'), en.real('beta')
  xa = E.SymSeq(N, lambda i: al + be * cen(E.to_z3(i)), z3.RealSort(), 'affine')
  kind, da = en.invoke(en.load_function(sc.centered_difference), xa, s, axis=0)
  en.ensure('centered_difference is exact on affine profiles: == beta at every interface', z3.ForAll([k], z3.Implies(rng, da.get(k) == be)))
  # wrong length is rejected
  xs = E.SymSeq(N + 1, lambda i: X(E.to_z3(i)), z3.RealSort(), 'x_long')
  kind, r = en.invoke(en.load_function(sc.centered_difference), xs, s, axis=0)
  en.ensure('a column whose length differs from the layer count is rejected (ValueError)', z3.BoolVal(kind == 'raise' and r == 'ValueError'))


W = z3.Function('w.at', z3.IntSort(), z3.RealSort())      # w.at(k) = vertical velocity at the interface below layer k (k = 0..N-2)
X_ = z3.Function('x.at', z3.IntSort(), z3.RealSort())


def _adv_spec(n):
  """-(1/2)(w_{n+1/2} dx_{n+1/2} + w_{n-1/2} dx_{n-1/2}), zero boundary values: the documented formula."""
  cen = lambda i: (B(i) + B(i + 1)) / 2
  wl = lambda i: z3.If(z3.And(i >= 0, i <= N - 2), W(i), 0)                                   # interface i + 1/2
  dx = lambda i: z3.If(z3.And(i >= 0, i <= N - 2), (X_(i + 1) - X_(i)) / (cen(i + 1) - cen(i)), 0)
  return -(wl(n) * dx(n) + wl(n - 1) * dx(n - 1)) / 2


def advection_contract(en: E.Engine):
  from dinosaur import sigma_coordinates as sc
  b = _coords(en)
  en.assume(N >= 2)
  s = _self(en, b)
  w = E.SymSeq(N - 1, lambda i: W(E.to_z3(i)), z3.RealSort(), 'w')
  x = E.SymSeq(N, lambda i: X_(E.to_z3(i)), z3.RealSort(), 'x')
  en.cover('requires: N >= 2')
  kind, a = en.invoke(en.load_function(sc.centered_vertical_advection), w, x, s, axis=0)
  if kind == 'raise' or not arrays._is_seq(a):
    en.ensure(f'centered_vertical_advection returns a vector ({a})', False)
    return
  en.ensure('centered_vertical_advection: one value per layer', E.to_z3(a.length) == N)
  # a generic layer index n (fresh constant: validity for it is validity for all n), split into top / interior / bottom layer
  n = en.int('n')
  en.assume(z3.And(n >= 0, n < N))
  for j in (-1, 0, 1):
    en.assume(z3.Implies(z3.And(n + j >= 0, n + j < N), B(n + j) < B(n + j + 1)))
  got = z3.simplify(a.get(n))
  incr = [z3.Implies(z3.And(n + j >= 0, n + j < N), B(n + j) < B(n + j + 1)) for j in (-1, 0, 1)]
  for nm, cond in (('top layer (n = 0)', n == 0), ('bottom layer (n = N-1)', n == N - 1), ('interior layer', z3.And(n > 0, n < N - 1))):
    _ensure_nra(en, f'centered_vertical_advection(w, x)[n] == -(w_{{n+1/2}} dx_{{n+1/2}} + w_{{n-1/2}} dx_{{n-1/2}}) / 2 with zero boundary values: {nm}',
                [N >= 2, n >= 0, n < N, cond], incr, got == _adv_spec(n))


LHS = z3.RecFunction('SBP_LHS', z3.IntSort(), z3.RealSort())
RHS = z3.RecFunction('SBP_RHS', z3.IntSort(), z3.RealSort())
_k = z3.Int('k')
_wl = lambda i: z3.If(z3.And(i >= 0, i <= N - 2), W(i), 0)
z3.RecAddDefinition(LHS, [_k], z3.If(_k <= 0, z3.RealVal(0), LHS(_k - 1) + (B(_k) - B(_k - 1)) * _adv_spec(_k - 1)))
z3.RecAddDefinition(RHS, [_k], z3.If(_k <= 0, z3.RealVal(0), RHS(_k - 1) + X_(_k - 1) * (_wl(_k - 1) - _wl(_k - 2))))


def _remainder(k):
  cen = lambda i: (B(i) + B(i + 1)) / 2
  return z3.If(z3.And(k >= 1, k <= N - 1), W(k - 1) * (-((B(k) - B(k - 1)) / 2) * (X_(k) - X_(k - 1)) / (cen(k) - cen(k - 1)) - X_(k - 1)), 0)


def summation_by_parts_lemma(en: E.Engine):
  _coords(en)
  en.assume(N >= 2)
  k = en.int('k')
  en.cover('lemma hypotheses')
  en.ensure('SBP-base: both partial sums vanish at k = 0', z3.And(LHS(0) == 0, RHS(0) == 0, _remainder(z3.IntVal(0)) == 0))
  en.assume(z3.And(k >= 0, k < N))
  for j in (-1, 0, 1):
    en.assume(z3.Implies(z3.And(k + j >= 0, k + j < N), B(k + j) < B(k + j + 1)))
  # step in increment form: the k-th terms of the two sums differ by R(k+1) - R(k); with the definitions
  # LHS(k+1) = LHS(k) + dsigma_k adv_k and RHS(k+1) = RHS(k) + x_k (w_{k+1/2} - w_{k-1/2}) this is IH(k) => IH(k+1)
  inc_l = (B(k + 1) - B(k)) * _adv_spec(k)
  inc_r = X_(k) * (_wl(k) - _wl(k - 1))
  incr = [z3.Implies(z3.And(k + j >= 0, k + j < N), B(k + j) < B(k + j + 1)) for j in (-1, 0, 1)]
  for nm, cond in (('k = 0', k == 0), ('k = N-1', z3.And(k == N - 1, k > 0)), ('0 < k < N-1', z3.And(k > 0, k < N - 1))):
    _ensure_nra(en, f'SBP-step ({nm}): dsigma_k adv_k - x_k (w_(k+1/2) - w_(k-1/2)) == R(k+1) - R(k)', [N >= 2, k >= 0, k < N, cond], incr,
                inc_l - inc_r == _remainder(k + 1) - _remainder(k))
  # induction step, modular: with the partial sums defined by  S(k+1) = S(k) + increment_k  (definition) and the increment identity
  # just proved (used as a hypothesis on abstract increments), IH(k) => IH(k+1) is linear arithmetic
  Lk, Rk_, IL, IR, Rem0, Rem1 = (z3.Real(nm) for nm in ('LHS_k', 'RHS_k', 'inc_lhs', 'inc_rhs', 'R_k', 'R_k1'))
  en.ensure('SBP-step: IH(k) and the increment identity => IH(k+1)  (partial sums defined by S(k+1) = S(k) + increment)',
            z3.Implies(z3.And(Lk - Rk_ == Rem0, IL - IR == Rem1 - Rem0), (Lk + IL) - (Rk_ + IR) == Rem1))
  en.ensure('SBP-conclusion: R(N) == 0 (no flux through the surface), so the column sums agree', _remainder(N) == 0)


def canary_contract(en: E.Engine):
  b = _coords(en)
  en.assume(N >= 2)
  s = _self(en, b)
  k = z3.Int('k')
  en.ensure('canary: center_to_center equals the layer thickness below', z3.ForAll([k], z3.Implies(z3.And(k >= 0, k < N - 1), s.center_to_center.get(k) == B(k + 2) - B(k + 1))))


def replay_sigma(w):
  """Real functions on uneven level sets against the documented formulas (float64)."""
  import numpy as np
  import jax
  jax.config.update('jax_enable_x64', True)
  import jax.numpy as jnp
  from dinosaur import sigma_coordinates as sc
  rng = np.random.RandomState(0)
  for n in (2, 3, 5):
    inner = np.sort(rng.uniform(0.05, 0.95, n - 1))
    b = np.concatenate([[0.0], inner, [1.0]])
    s = sc.SigmaCoordinates(b)
    cen = (b[1:] + b[:-1]) / 2
    ok = np.allclose(s.centers, cen) and np.allclose(s.layer_thickness, np.diff(b)) and np.allclose(s.center_to_center, np.diff(cen))
    x = rng.randn(n)
    wv = rng.randn(n - 1)
    d = np.asarray(sc.centered_difference(jnp.asarray(3.0 - 2.5 * cen), s, axis=0))
    ok = ok and np.allclose(d, -2.5)
    adv = np.asarray(sc.centered_vertical_advection(jnp.asarray(wv), jnp.asarray(x), s, axis=0))
    wp = np.concatenate([[0.0], wv, [0.0]])
    dx = np.concatenate([[0.0], np.diff(x) / np.diff(cen), [0.0]])
    want = -0.5 * (wp[1:] * dx[1:] + wp[:-1] * dx[:-1])
    ok = ok and np.allclose(adv, want)
    sbp = abs((np.diff(b) * adv).sum() - (x * (wp[1:] - wp[:-1])).sum())
    ok = ok and sbp < 1e-12
    if not ok:
      return True, (f'boundaries {np.round(b, 4).tolist()}: centers {np.round(s.centers, 4).tolist()}, center_to_center {np.round(s.center_to_center, 4).tolist()} '
                    f'(expected {np.round(np.diff(cen), 4).tolist()}), d/dsigma(3-2.5 sigma) = {np.round(d, 4).tolist()}, advection {np.round(adv, 4).tolist()} vs {np.round(want, 4).tolist()}, '
                    f'summation-by-parts residual {sbp:.3e}')
  for bad in ([0.1, 0.5, 1.0], [0.0, 0.6, 0.4, 1.0], [0.0, 0.5, 0.9]):
    try:
      sc.SigmaCoordinates(bad)
      return True, f'SigmaCoordinates({bad}) accepted'
    except ValueError:
      pass
  return False, 'real sigma-coordinate functions agree with the documented formulas on the sampled uneven level sets'


def replay_cumsum(w):
  import numpy as np
  import jax
  jax.config.update('jax_enable_x64', True)
  import jax.numpy as jnp
  from dinosaur import jax_numpy_utils as jnu
  for n in (1, 2, 5):
    x = np.arange(1.0, n + 1) ** 2
    f = np.asarray(jnu._single_device_dot_cumsum(jnp.asarray(x), 0))
    r = np.asarray(jnu._single_device_dot_cumsum(jnp.asarray(x), 0, reverse=True))
    if np.abs(f - np.cumsum(x)).max() > 1e-12 or np.abs(r - np.cumsum(x[::-1])[::-1]).max() > 1e-12:
      return True, f'x = {x.tolist()}: _single_device_dot_cumsum = {f.tolist()} (prefix sums {np.cumsum(x).tolist()}); reverse = {r.tolist()} (suffix sums {np.cumsum(x[::-1])[::-1].tolist()})'
  return False, '_single_device_dot_cumsum equals numpy prefix / suffix sums on the sampled vectors'


def clauses():
  rc = lambda c, n=2: (lambda ctx: run_contract(c, min_obligations=n, setup=_setup, timeout_ms=60000, max_paths=2000))
  S = [SC + n for n in ('SigmaCoordinates.centers', 'SigmaCoordinates.layer_thickness', 'SigmaCoordinates.center_to_center', 'SigmaCoordinates.layers')]
  return [
      Clause('smt:SigmaCoordinates geometry: midpoints, positive thickness, center_to_center == mean of adjacent thicknesses (all N)', 'smt', S, rc(geometry_contract, 5),
             replay=replay_sigma, group='pyvc'),
      Clause('smt:SigmaCoordinates.__init__ accepts exactly the level sets starting at 0, ending at 1 and strictly increasing (all N)', 'smt', [SC + 'SigmaCoordinates.__init__'],
             rc(validation_contract, 3), replay=replay_sigma, group='pyvc'),
      Clause('smt:centered_difference == documented quotient; exact on affine profiles; length validated (all N)', 'smt', [SC + 'centered_difference', 'dinosaur.jax_numpy_utils.diff'] + S,
             rc(difference_contract, 4), replay=replay_sigma, group='pyvc'),
      Clause('smt:centered_vertical_advection == documented averaged formula with zero boundary values (all N)', 'smt', [SC + 'centered_vertical_advection', SC + 'centered_difference'] + S,
             rc(advection_contract, 5), replay=replay_sigma, group='pyvc'),
      Clause('lemma:summation by parts for centred vertical advection (induction over layers: base + step)', 'smt', [SC + 'centered_vertical_advection'], rc(summation_by_parts_lemma, 6), group='pyvc'),
      Clause('smt:_single_device_dot_cumsum contracts the weight matrix [i <= j] with the input: prefix sum (all lengths)', 'smt', ['dinosaur.jax_numpy_utils._single_device_dot_cumsum'],
             rc(lambda en: cumsum_contract(en, False), 5), replay=replay_cumsum, group='pyvc'),
      Clause('smt:_single_device_dot_cumsum(reverse=True) contracts the weight matrix [i >= j]: suffix sum (all lengths)', 'smt', ['dinosaur.jax_numpy_utils._single_device_dot_cumsum'],
             rc(lambda en: cumsum_contract(en, True), 5), replay=replay_cumsum, group='pyvc'),
      Clause('lemma:contraction with [i <= j] equals the prefix sum (induction: base + step)', 'smt', ['dinosaur.jax_numpy_utils._single_device_dot_cumsum'], rc(prefix_sum_lemma, 4), group='pyvc'),
      Clause('canary:center_to_center equals the lower layer thickness must fail', 'smt', S, rc(canary_contract, 1), canary=True, group='pyvc'),
  ]


# ---- _single_device_dot_cumsum: the weight matrix w[i, j] = [i <= j] (resp. >=) contracted on i is the prefix (suffix) sum ----------

XC = z3.Function('xc.at', z3.IntSort(), z3.RealSort())
NC = z3.Int('n_cumsum')
# ghost partial contraction  G(k, j) = sum_{i<k} W(i, j) * x(i)  for the weight function actually built by the code (filled in per run)
_WFUN = {}


def cumsum_contract(en: E.Engine, reverse=False):
  """Runs the real _single_device_dot_cumsum on a vector of symbolic length: the einsum contraction is a ghost sum over i of
  weights(i, j) * x(i), where weights(i, j) is *whatever the code built*; obligations: weights(i, j) == [i <= j] (forward) /
  [i >= j] (reverse) as 0/1, the contraction runs over the input index and leaves the output index free."""
  from dinosaur import jax_numpy_utils as jnu
  import jax.numpy as jnp
  import numpy as np
  from vlib.pyvc.libspec import _reg
  en.inputs['n_cumsum'] = NC
  en.assume(NC >= 1)
  x = E.SymSeq(NC, lambda i: XC(E.to_z3(i)), z3.RealSort(), 'x')

  class Mat:
    def __init__(self, f):
      self.f = f            # (i, j) -> term
      self.astype = E.SymCallable(lambda en_, *a, **k: Mat(lambda i, j: arrays._num(f(i, j))), 'astype (bool -> 0/1)')

  class ColIdx:             # arange(n)[:, newaxis]
    pass

  class RowIdx:             # arange(n)[newaxis, :]
    pass

  def sub_arange(en_, obj, idx):
    if isinstance(idx, tuple) and len(idx) == 2:
      a, b = idx
      if a == slice(None, None, None) and b is None:
        return ColIdx()
      if a is None and b == slice(None, None, None):
        return RowIdx()
    return E.Engine.subscript(en_, obj, idx) if False else (_ for _ in ()).throw(E.Unsupported(f'subscript {idx} of arange'))

  class Arange(E.SymSeq):
    pass
  _reg(en, jnp.arange, lambda en_, n, *a, **k: Arange(n, lambda i: E.to_z3(i), z3.IntSort(), 'arange'), 'jnp.arange')
  en.libspec[('subscript', 'Arange')] = (None, sub_arange)

  def h_cmp(le):
    def h(en_, a, b):
      if isinstance(a, ColIdx) and isinstance(b, RowIdx):
        return Mat(lambda i, j: (i <= j) if le else (i >= j))
      if isinstance(a, RowIdx) and isinstance(b, ColIdx):
        return Mat(lambda i, j: (j <= i) if le else (j >= i))
      raise E.Unsupported('comparison of unexpected operands')
    return h
  _reg(en, jnp.less_equal, h_cmp(True), 'jnp.less_equal (broadcast column vs row index)')
  _reg(en, jnp.greater_equal, h_cmp(False), 'jnp.greater_equal (broadcast column vs row index)')
  _reg(en, jnp.less, lambda en_, a, b: Mat(lambda i, j: (i < j)) if isinstance(a, ColIdx) else (_ for _ in ()).throw(E.Unsupported('less')), 'jnp.less')
  _reg(en, jnp.greater, lambda en_, a, b: Mat(lambda i, j: (i > j)) if isinstance(a, ColIdx) else (_ for _ in ()).throw(E.Unsupported('greater')), 'jnp.greater')
  seen = {}

  def h_einsum(en_, w, w_axes, xx, x_axes, out_axes, **kw):
    w_axes, x_axes, out_axes = (list(en_.iter_concrete(v)) for v in (w_axes, x_axes, out_axes))
    if not (isinstance(w, Mat) and arrays._is_seq(xx) and len(w_axes) == 2 and len(x_axes) == 1 and len(out_axes) == 1):
      raise E.Unsupported('einsum pattern')
    contracted = x_axes[0]
    if contracted not in w_axes or out_axes[0] not in w_axes or out_axes[0] == contracted:
      raise E.Unsupported('einsum axes do not describe a matrix-vector contraction')
    # weight as a function of (input index i, output index j), whichever way the code ordered the matrix axes
    if w_axes[0] == contracted:
      wij = lambda i, j: w.f(i, j)
    else:
      wij = lambda i, j: w.f(j, i)
    seen['wij'] = wij
    seen['x'] = xx
    i_, j_ = z3.Int('i'), z3.Int('j')
    # ghost contraction G(k, j) = sum_{i<k} w(i, j) x(i): an opaque symbol here; its closed form is the separate prefix-sum lemma
    G = z3.Function(en_.fresh_name('GSUM'), z3.IntSort(), z3.IntSort(), z3.RealSort())
    seen['G'] = G
    return E.SymSeq(xx.length, lambda j: G(E.to_z3(xx.length), E.to_z3(j)), z3.RealSort(), 'einsum')
  _reg(en, jnp.einsum, h_einsum, 'jnp.einsum(w, [a, b], x, [a], [b]) == ghost sum over a of w * x (A8)')
  en.libspec[('attr', 'SymSeq', 'ndim')] = (None, lambda en_, s: 1)
  en.libspec[('attr', 'SymSeq', 'shape')] = (None, lambda en_, s: (s.length,))
  en.cover('requires: n >= 1')
  kind, r = en.invoke(en.load_function(jnu._single_device_dot_cumsum), x, 0, reverse)
  if kind == 'raise' or 'wij' not in seen:
    en.ensure(f'_single_device_dot_cumsum contracts a weight matrix with the input ({r})', False)
    return
  i, j = en.int('i'), en.int('j')
  en.assume(z3.And(i >= 0, i < NC, j >= 0, j < NC))
  want = (i >= j) if reverse else (i <= j)
  en.ensure(f'weight of input i in output j is 1 if {"i >= j" if reverse else "i <= j"} else 0 (so output j is the {"suffix" if reverse else "prefix"} sum)',
            E._real(arrays._num(seen['wij'](i, j))) == z3.If(want, z3.RealVal(1), z3.RealVal(0)))
  en.ensure('the contraction runs over the input vector itself', z3.BoolVal(seen['x'] is x))
  en.ensure('one output per input position', E.to_z3(r.length) == NC)
  kind, bad = en.invoke(en.load_function(jnu._single_device_dot_cumsum), x, 3, reverse)
  en.ensure('an axis outside the array rank is rejected (ValueError)', z3.BoolVal(kind == 'raise' and bad == 'ValueError'))


_PS = z3.RecFunction('PS_prefix', z3.IntSort(), z3.RealSort())
_kk = z3.Int('kk')
z3.RecAddDefinition(_PS, [_kk], z3.If(_kk <= 0, z3.RealVal(0), _PS(_kk - 1) + XC(_kk - 1)))


def prefix_sum_lemma(en: E.Engine):
  """sum_{i<k} [i <= j] x_i == PS(min(k, j+1))  by induction on k (and the mirror statement for suffix sums)."""
  PS = _PS
  Gk, Gk1, PSm, PSm1 = (z3.Real(nm) for nm in ('G_k', 'G_k1', 'PS_min_k', 'PS_min_k1'))
  k, j = en.int('k'), en.int('j')
  en.assume(z3.And(k >= 0, j >= 0))
  en.cover('lemma hypotheses')
  en.ensure('prefix-base: the empty contraction is 0 == PS(0)', PS(0) == 0)
  # step: G(k+1, j) = G(k, j) + [k <= j] x_k ;  PS(min(k+1, j+1)) = PS(min(k, j+1)) + [k <= j] x_k
  mn = lambda a, b: z3.If(a <= b, a, b)
  en.ensure('prefix-step: PS(min(k+1, j+1)) == PS(min(k, j+1)) + [k <= j] x_k', PS(mn(k + 1, j + 1)) == PS(mn(k, j + 1)) + z3.If(k <= j, XC(k), 0))
  en.ensure('prefix-step: IH(k) and the two recurrences => IH(k+1)',
            z3.Implies(z3.And(Gk == PSm, Gk1 == Gk + z3.If(k <= j, XC(k), 0), PSm1 == PSm + z3.If(k <= j, XC(k), 0)), Gk1 == PSm1))
  en.ensure('prefix-conclusion: at k = n > j the contraction equals PS(j+1), the sum of x_0..x_j', z3.Implies(k > j, mn(k, j + 1) == j + 1))
