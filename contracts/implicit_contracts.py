"""C03: the shallow-water implicit solve is the exact resolvent -- proved from the real source for all inputs.

ShallowWaterEquations.implicit_terms / implicit_inverse are broadcasting arithmetic over (layer, m, l) entries plus
`laplacian`, whose contract (C02: the Laplacian is diagonal in spectral space) is `laplacian(x)[.., l] = lambda_l x[.., l]`.
pyvc elementwise mode: every array is its generic entry; eta (step size, either sign), the layer's reference potential Phi,
the eigenvalue lambda and the state entries are arbitrary reals.  Obligations (QF_NRA):
  requires 1 - eta^2 Phi lambda != 0  (the code divides by it; for Phi >= 0, lambda <= 0 it is >= 1)
  ensures  implicit_inverse(x - eta * implicit_terms(x), eta) == x         (left inverse)
           y - eta * implicit_terms(y) == x   for y = implicit_inverse(x)  (right inverse)
           implicit_terms additive and homogeneous (linear)
TimeReversedImExODE: modular, from the forward contract for both signs of eta.
"""
from __future__ import annotations

import z3

from vlib.core import Clause
from vlib.pyvc import elem
from vlib.pyvc import engine as E
from vlib.pyvc.run import run_contract

SW = 'dinosaur.shallow_water.ShallowWaterEquations.'
TI = 'dinosaur.time_integration.'


def _setup(en):
  elem.install(en)
  from dinosaur import shallow_water as sw
  en.contracts[E._callable_key(sw.State)] = lambda en_, *a, **k: E.Struct(**dict(zip(('vorticity', 'divergence', 'potential'), a), **k))
  en.trusted.add('tree_math.struct constructor State(...) == record of its fields (A4)')


def _self(en, lam, phi):
  horizontal = E.Obj(laplacian=E.SymCallable(lambda en_, x: lam * E._real(x), 'Grid.laplacian == eigenvalue * x (C02 contract)'),
                     laplacian_eigenvalues=lam)
  return E.Obj(coords=E.Obj(horizontal=horizontal), ref_potential=phi)


def _state(en, tag):
  return E.Struct(vorticity=en.real('vorticity' + tag), divergence=en.real('divergence' + tag), potential=en.real('potential' + tag))


def resolvent_contract(en: E.Engine):
  from dinosaur import shallow_water as sw
  lam, phi, eta = en.real('laplacian_eigenvalue'), en.real('reference_potential'), en.real('step_size')
  self = _self(en, lam, phi)
  x = _state(en, '')
  en.assume(1 - eta * eta * phi * lam != 0)
  en.cover('requires: 1 - eta^2 Phi lambda != 0')
  it = en.load_function(sw.ShallowWaterEquations.implicit_terms)
  inv = en.load_function(sw.ShallowWaterEquations.implicit_inverse)
  k, g = en.invoke(it, self, x)
  if k == 'raise':
    en.ensure(f'implicit_terms raises {g}', False)
    return
  rhs = E.Struct(**{f: getattr(x, f) - eta * getattr(g, f) for f in x.fields()})
  k, y = en.invoke(inv, self, rhs, eta)
  if k == 'raise':
    en.ensure(f'implicit_inverse raises / divides by zero ({y}) although 1 - eta^2 Phi lambda != 0', False)
    return
  for f in x.fields():
    en.ensure(f'left inverse: implicit_inverse(x - eta*implicit_terms(x), eta).{f} == x.{f}', getattr(y, f) == getattr(x, f))
  k, y2 = en.invoke(inv, self, x, eta)
  k, g2 = en.invoke(it, self, y2)
  for f in x.fields():
    en.ensure(f'right inverse: (y - eta*implicit_terms(y)).{f} == x.{f} for y = implicit_inverse(x, eta)',
              getattr(y2, f) - eta * getattr(g2, f) == getattr(x, f))
  en.ensure('vorticity passes through the solve unchanged', y2.vorticity == x.vorticity)
  en.ensure('implicit vorticity tendency is zero', g.vorticity == 0)


def linearity_contract(en: E.Engine):
  from dinosaur import shallow_water as sw
  lam, phi, c = en.real('laplacian_eigenvalue'), en.real('reference_potential'), en.real('c')
  self = _self(en, lam, phi)
  x, y = _state(en, '_x'), _state(en, '_y')
  it = en.load_function(sw.ShallowWaterEquations.implicit_terms)
  en.cover('requires')
  _, gx = en.invoke(it, self, x)
  _, gy = en.invoke(it, self, y)
  _, gs = en.invoke(it, self, E.Struct(**{f: getattr(x, f) + c * getattr(y, f) for f in x.fields()}))
  for f in x.fields():
    en.ensure(f'implicit_terms(x + c y).{f} == implicit_terms(x).{f} + c implicit_terms(y).{f}', getattr(gs, f) == getattr(gx, f) + c * getattr(gy, f))
  eta = en.real('step_size')
  en.assume(1 - eta * eta * phi * lam != 0)
  inv = en.load_function(sw.ShallowWaterEquations.implicit_inverse)
  _, ix = en.invoke(inv, self, x, eta)
  _, iy = en.invoke(inv, self, y, eta)
  _, is_ = en.invoke(inv, self, E.Struct(**{f: getattr(x, f) + c * getattr(y, f) for f in x.fields()}), eta)
  for f in x.fields():
    en.ensure(f'implicit_inverse(x + c y).{f} linear', getattr(is_, f) == getattr(ix, f) + c * getattr(iy, f))


def well_posed_contract(en: E.Engine):
  """For physical parameters (Phi >= 0, lambda <= 0) the Schur complement never vanishes, for either sign of eta."""
  lam, phi, eta = en.real('laplacian_eigenvalue'), en.real('reference_potential'), en.real('step_size')
  en.assume(z3.And(phi >= 0, lam <= 0))
  en.cover('requires: Phi >= 0, lambda <= 0')
  en.ensure('1 - eta^2 Phi lambda >= 1 (no division by zero for any step size of either sign)', 1 - eta * eta * phi * lam >= 1)


def time_reversed_contract(en: E.Engine):
  """TimeReversedImExODE(fwd).implicit_inverse(x - eta * rev.implicit_terms(x), eta) == x, from the forward contract only."""
  from dinosaur import time_integration as ti
  V = E.V
  G = z3.Function('G_fwd', V, V)
  Ginv = z3.Function('Ginv_fwd', V, z3.RealSort(), V)
  F = z3.Function('F_fwd', V, V)
  fwd = E.Obj(explicit_terms=E.SymCallable(lambda en_, s: F(s), 'F'), implicit_terms=E.SymCallable(lambda en_, s: G(s), 'G'),
              implicit_inverse=E.SymCallable(lambda en_, s, eta: Ginv(s, E._real(eta)), 'G_inv'))
  x = en.val('x', register=True)
  eta = en.real('step_size')
  # forward contract, for every eta of either sign:  Ginv(s - eta G(s), eta) == s   (written with the vector-space ops of the engine)
  s_, e_ = z3.Const('s', V), z3.Real('e')
  fwd_contract = z3.ForAll([s_, e_], Ginv(E.VSUB(s_, E.SMUL(e_, G(s_))), e_) == s_)
  ax = [fwd_contract,
        z3.ForAll([s_, e_], E.SMUL(e_, E.VNEG(s_)) == E.VNEG(E.SMUL(e_, s_))),
        z3.ForAll([s_, e_], E.SMUL(-e_, s_) == E.VNEG(E.SMUL(e_, s_))),
        z3.ForAll([s_, z3.Const('t', V)], E.VSUB(s_, E.VNEG(z3.Const('t', V))) == E.VADD(s_, z3.Const('t', V))),
        z3.ForAll([s_, z3.Const('t', V)], E.VSUB(s_, z3.Const('t', V)) == E.VADD(s_, E.VNEG(z3.Const('t', V))))]
  self = E.Obj(forward_eq=fwd)
  en.cover('requires')
  cls = ti.TimeReversedImExODE
  k, g = en.invoke(en.load_function(cls.implicit_terms), self, x)
  if k == 'raise':
    en.ensure(f'implicit_terms raises {g}', False)
    return
  rhs = E.VSUB(x, E.SMUL(eta, g))
  k, y = en.invoke(en.load_function(cls.implicit_inverse), self, rhs, eta)
  if k == 'raise':
    en.ensure(f'implicit_inverse raises {y}', False)
    return
  en.ensure('reversed: implicit_inverse(x - eta*implicit_terms(x), eta) == x (from the forward contract at -eta)', y == x, extra=ax)
  k, e = en.invoke(en.load_function(cls.explicit_terms), self, x)
  en.ensure('reversed explicit terms == -forward explicit terms', z3.Or(e == E.VNEG(F(x)), e == E.SMUL(z3.RealVal(-1), F(x))), extra=ax)


def time_reversed_scalar_contract(en: E.Engine):
  """The same statement on the scalar linear instance G(s) = mu s, G_inv(s, eta) = s / (1 - eta mu): real arithmetic, so a broken
  TimeReversedImExODE yields a concrete counterexample (the abstract clause above can only time out on one)."""
  from dinosaur import time_integration as ti
  mu, nu, eta, x = en.real('mu'), en.real('nu'), en.real('step_size'), en.real('x')
  fwd = E.Obj(explicit_terms=E.SymCallable(lambda en_, s: nu * s * s, 'F(s) = nu s^2'), implicit_terms=E.SymCallable(lambda en_, s: mu * s, 'G(s) = mu s'),
              implicit_inverse=E.SymCallable(lambda en_, s, e: en_.binop(E.ast.Div(), s, 1 - E._real(e) * mu), 'G_inv(s, eta) = s / (1 - eta mu)'))
  self = E.Obj(forward_eq=fwd)
  en.assume(z3.And(1 + eta * mu != 0, 1 - eta * mu != 0))
  en.cover('requires: 1 +- eta mu != 0')
  cls = ti.TimeReversedImExODE
  k, g = en.invoke(en.load_function(cls.implicit_terms), self, x)
  k2, y = en.invoke(en.load_function(cls.implicit_inverse), self, x - eta * g if k == 'return' else x, eta)
  if 'raise' in (k, k2):
    en.ensure('TimeReversedImExODE raises / divides by zero on the scalar instance', False)
    return
  en.ensure('scalar instance: reversed implicit_inverse(x - eta*implicit_terms(x), eta) == x', y == x)
  k3, e = en.invoke(en.load_function(cls.explicit_terms), self, x)
  en.ensure('scalar instance: reversed explicit terms == -F(x), reversed implicit terms == -G(x)', z3.And(e == -(nu * x * x), g == -(mu * x)))


def replay_reversed(w):
  import numpy as np
  from dinosaur import time_integration as ti
  mu, eta, x = (_f(w.get(k, d)) for k, d in (('mu', 0.7), ('step_size', 0.3), ('x', 1.0)))
  fwd = ti.ImplicitExplicitODE.from_functions(lambda s: 0 * s, lambda s: mu * s, lambda s, e: s / (1 - e * mu))
  rev = ti.TimeReversedImExODE(fwd)
  xs = np.asarray([x if x else 1.0])
  y = rev.implicit_inverse(xs - eta * rev.implicit_terms(xs), eta)
  err = float(np.abs(np.asarray(y) - xs).max())
  return err > 1e-9 * max(1.0, abs(xs[0])), f'mu={mu}, eta={eta}, x={xs[0]}: TimeReversedImExODE.implicit_inverse(x - eta*implicit_terms(x), eta) - x = {err:.3e}'


def canary_contract(en: E.Engine):
  """Deliberately false: the solve inverts (1 + eta * implicit_terms)."""
  from dinosaur import shallow_water as sw
  lam, phi, eta = en.real('laplacian_eigenvalue'), en.real('reference_potential'), en.real('step_size')
  self = _self(en, lam, phi)
  x = _state(en, '')
  en.assume(1 - eta * eta * phi * lam != 0)
  _, g = en.invoke(en.load_function(sw.ShallowWaterEquations.implicit_terms), self, x)
  rhs = E.Struct(**{f: getattr(x, f) + eta * getattr(g, f) for f in x.fields()})
  k, y = en.invoke(en.load_function(sw.ShallowWaterEquations.implicit_inverse), self, rhs, eta)
  if k == 'return':
    en.ensure('canary: implicit_inverse(x + eta*implicit_terms(x)).divergence == x.divergence', y.divergence == x.divergence)


def _f(v):
  from fractions import Fraction
  try:
    return float(v)
  except (TypeError, ValueError):
    return float(Fraction(str(v)))


def replay_sw(w):
  """One spectral entry (m = 0, l = 1) of a one-layer system with the counter-model's parameters, real code, float64."""
  import numpy as np
  import jax
  jax.config.update('jax_enable_x64', True)
  import jax.numpy as jnp
  from dinosaur import coordinate_systems as cs, layer_coordinates, shallow_water as sw, spherical_harmonic as sh
  g = sh.Grid(longitude_wavenumbers=2, total_wavenumbers=3, longitude_nodes=6, latitude_nodes=4)
  coords = cs.CoordinateSystem(g, layer_coordinates.LayerCoordinates(1))
  phi = _f(w.get('reference_potential', 1.0))
  eta = _f(w.get('step_size', 0.5))
  eq = sw.ShallowWaterEquations(coords, sw.ShallowWaterSpecs.from_si(), jnp.zeros(g.modal_shape), np.array([phi]))
  x = sw.State(*[jnp.zeros(coords.modal_shape).at[0, 0, 1].set(_f(w.get(k, 1.0)) or 1.0) for k in ('vorticity', 'divergence', 'potential')])
  gx = eq.implicit_terms(x)
  rhs = jax.tree_util.tree_map(lambda a, b: a - eta * b, x, gx)
  y = eq.implicit_inverse(rhs, eta)
  err = max(float(jnp.abs(a - b).max()) for a, b in zip(jax.tree_util.tree_leaves(y), jax.tree_util.tree_leaves(x)))
  return err > 1e-9, f'Phi={phi}, eta={eta}: max |implicit_inverse(x - eta*implicit_terms(x)) - x| = {err:.3e}'


def clauses():
  rc = lambda c, n=2: (lambda ctx: run_contract(c, min_obligations=n, setup=_setup, timeout_ms=60000))
  fns = [SW + 'implicit_terms', SW + 'implicit_inverse']
  return [
      Clause('smt:shallow-water implicit_inverse is the exact two-sided inverse of 1 - eta*implicit_terms (all eta of either sign, Phi, lambda, states)', 'smt', fns,
             rc(resolvent_contract, 8), replay=replay_sw, group='pyvc'),
      Clause('smt:shallow-water implicit_terms and implicit_inverse are linear', 'smt', fns, rc(linearity_contract, 6), group='pyvc'),
      Clause('smt:shallow-water Schur complement >= 1 for Phi >= 0, lambda <= 0 (solve well posed for both signs of eta)', 'smt', fns, rc(well_posed_contract, 1), group='pyvc'),
      Clause('smt:TimeReversedImExODE solve inverts its own implicit terms (modular, from the forward contract)', 'smt',
             [TI + 'TimeReversedImExODE.implicit_terms', TI + 'TimeReversedImExODE.implicit_inverse', TI + 'TimeReversedImExODE.explicit_terms'],
             rc(time_reversed_contract, 2), group='pyvc'),
      Clause('smt:TimeReversedImExODE on the scalar linear instance (refutation-complete twin of the modular clause)', 'smt',
             [TI + 'TimeReversedImExODE.implicit_terms', TI + 'TimeReversedImExODE.implicit_inverse', TI + 'TimeReversedImExODE.explicit_terms'],
             rc(time_reversed_scalar_contract, 3), replay=replay_reversed, group='pyvc'),
      Clause('canary:shallow-water solve inverts 1 + eta*implicit_terms must fail', 'smt', fns, rc(canary_contract, 1), canary=True, group='pyvc'),
  ]
