"""C14: nested_checkpoint_scan / _inner_nested_scan equal the flat scan -- for every nesting depth and all lengths.

Proof by induction on the depth d = len(lengths), carried out on the real source with pyvc:
  base  (d == 1)  _inner_nested_scan is one scan over the rows (scan contract A8, invariant below);
  step  (d >= 2)  the recursive call inside `sub_scans` is replaced by its contract (the induction hypothesis), the outer scan is a
                  loop with an invariant, `checkpoint_fn` is any behaviour-preserving wrapper (A3).
Ghost state.  The scanned inputs enter `f` only through their *flat row index* (Int): f(c, row) = (F1(c, row), F2(c, row)) with F1, F2
uninterpreted.  ITF(c, o, k) = carry after k steps from c reading rows o, o+1, ...; OUTF(c, o, t) = F2(ITF(c, o, t), o + t).
A nested input array of shape (n0, n1, ..., rows...) is represented by the flat offsets of its leading blocks: block i starts at OFF(i),
OFF(i+1) = OFF(i) + P with P = n1 * ... (row-major reshape, A8; `nested_reshape` is checked to reshape to `tuple(nested_lengths) + x.shape[1:]`).
Contract of `_inner_nested_scan(f, c, xs@o, lengths)`: returns (ITF(c, o, P_all), block whose t-th output is OUTF(c, o, t)), P_all = prod(lengths).
Lemmas (explicit induction, base and step separate): SEMI2  ITF(ITF(c,o,a), o+a, b) == ITF(c,o,a+b);
CB  the carry after k outer iterations, CB(k+1) = ITF(CB(k), OFF(k), P), equals ITF(c, o, S_k) with S_k = k*P (kept linear: S_{k+1} = S_k + P).
"""
from __future__ import annotations

import z3

from vlib.core import Clause
from vlib.pyvc import engine as E
from vlib.pyvc import libspec as L
from vlib.pyvc.run import run_contract

TI = 'dinosaur.time_integration.'
V, I = E.V, z3.IntSort()
F1 = z3.Function('F1', V, I, V)
F2 = z3.Function('F2', V, I, V)
ITF = z3.Function('ITF', V, I, I, V)          # defined by the two axioms of itf_axioms() (kept uninterpreted: E-matching instead of recursive unfolding)
_c, _o, _k = z3.Const('c', V), z3.Int('o'), z3.Int('k')


def itf_axioms():
  c, o, k = z3.Const('c', V), z3.Int('o'), z3.Int('k')
  return [z3.ForAll([c, o], ITF(c, o, 0) == c, patterns=[ITF(c, o, 0)]),
          z3.ForAll([c, o, k], z3.Implies(k >= 0, ITF(c, o, k + 1) == F1(ITF(c, o, k), o + k)), patterns=[ITF(c, o, k + 1)]),
          z3.ForAll([c, o, k], z3.Implies(k >= 0, ITF(c, o, k + 1) == F1(ITF(c, o, k), o + k)), patterns=[F1(ITF(c, o, k), o + k)])]
OUTF = lambda c, o, t: F2(ITF(c, o, t), o + t)
BLK = z3.Function('BLOCK', V, I, V)            # the stacked outputs of an inner scan started from carry c at row offset o (one opaque value)
FLAT = z3.Function('CONCAT', V, V)             # jnp.concatenate of the stacked outer outputs
f_callable = E.SymCallable(lambda en, c, x: (F1(c, E.to_z3(x)), F2(c, E.to_z3(x))), 'f(carry, row)')
ident_ckpt = E.SymCallable(lambda en, fn: fn, 'checkpoint_fn (behaviour-preserving wrapper, A3)')


def semi2_axiom():
  c, o, a, b = z3.Const('c', V), z3.Int('o'), z3.Int('a'), z3.Int('b')
  return z3.ForAll([c, o, a, b], z3.Implies(z3.And(a >= 0, b >= 0), ITF(ITF(c, o, a), o + a, b) == ITF(c, o, a + b)), patterns=[ITF(ITF(c, o, a), o + a, b)])


def lemma_semi2(en: E.Engine):
  c = en.val('c', register=True)
  o, a, b = en.int('o'), en.int('a'), en.int('b')
  en.assume(a >= 0)
  en.cover('lemma')
  en.ensure('SEMI2-base: ITF(ITF(c,o,a), o+a, 0) == ITF(c,o,a+0)', ITF(ITF(c, o, a), o + a, 0) == ITF(c, o, a + 0))
  en.assume(b >= 0)
  en.assume(ITF(ITF(c, o, a), o + a, b) == ITF(c, o, a + b))
  en.ensure('SEMI2-step: IH(b) => ITF(ITF(c,o,a), o+a, b+1) == ITF(c,o,a+b+1)', ITF(ITF(c, o, a), o + a, b + 1) == ITF(c, o, a + b + 1))


def base_contract(en: E.Engine):
  """d == 1: one scan over the rows."""
  from dinosaur import time_integration as ti
  n, o = en.int('n'), en.int('row_offset')
  en.assume(n >= 0)
  c0 = en.val('init', register=True)
  xs = E.SymSeq(n, lambda i: o + E.to_z3(i), I, 'rows')

  def inv(en_, env, k, carry, ys):
    j = z3.Int('j')
    return [('carry == ITF(init, o, k)', carry == ITF(c0, o, k)),
            ('outputs', z3.ForAll([j], z3.Implies(z3.And(j >= 0, j < k), ys.get(j) == OUTF(c0, o, j)))), ('k>=0', k >= 0)]
  en.scan_spec[('_inner_nested_scan', 0)] = {'inv': inv, 'out_sort': V}
  en.cover('requires')
  kind, r = en.invoke(en.load_function(ti._inner_nested_scan), f_callable, c0, xs, [n], L.SCAN, ident_ckpt)
  if kind == 'raise':
    en.ensure(f'_inner_nested_scan raises {r}', False)
    return
  carry, ys = r
  en.ensure('depth 1: final carry == ITF(init, o, n)', carry == ITF(c0, o, n))
  j = en.int('j')
  en.assume(z3.And(j >= 0, j < n))
  en.ensure('depth 1: n outputs, output j == OUTF(init, o, j)', z3.And(E.to_z3(ys.length) == n, ys.get(j) == OUTF(c0, o, j)))


OFF = z3.Function('OFF', I, I)
CB = z3.Function('CB', I, V)                   # carry after k outer iterations: CB(0) = init, CB(k+1) = ITF(CB(k), OFF(k), P)
_P = z3.Int('P_inner')
_c0 = z3.Const('init', V)


def cb_axioms():
  k = z3.Int('k')
  return [CB(0) == _c0,
          z3.ForAll([k], z3.Implies(k >= 0, CB(k + 1) == ITF(CB(k), OFF(k), _P)), patterns=[CB(k + 1)]),
          z3.ForAll([k], z3.Implies(k >= 0, CB(k + 1) == ITF(CB(k), OFF(k), _P)), patterns=[ITF(CB(k), OFF(k), _P)])]


def step_contract(en: E.Engine):
  """d >= 2: outer scan over blocks; the inner recursive call is used through its contract (induction hypothesis)."""
  from dinosaur import time_integration as ti
  m, n0, P = en.int('depth'), en.int('n0'), _P
  en.inputs['P_inner'] = P
  en.assume(z3.And(m >= 2, n0 >= 0, P >= 0))
  c0 = _c0
  LEN = z3.Function('lengths.at', I, I)
  lengths = E.SymSeq(m, lambda i: LEN(E.to_z3(i)), I, 'lengths')
  en.assume(LEN(0) == n0)
  xs = E.SymSeq(n0, lambda i: OFF(E.to_z3(i)), I, 'blocks')
  calls = []

  def ih(en_, f, carry, xs_i, lens, scan_fn, ckpt):
    # induction hypothesis: contract of the recursive call on the remaining lengths
    ok = (f is f_callable) and isinstance(lens, E.SymSeq) and scan_fn is L.SCAN and ckpt is ident_ckpt
    calls.append((ok, lens, xs_i))
    if not ok:
      raise E.Unsupported('recursive call does not pass (f, carry, xs_i, lengths[1:], scan_fn, checkpoint_fn) through')
    en_.ensure('depth d: the recursive call receives the remaining lengths lengths[1:]', z3.And(E.to_z3(lens.length) == m - 1, lens.get(z3.IntVal(0)) == LEN(1)))
    b = E.to_z3(xs_i)
    return (ITF(carry, b, P), BLK(carry, b))
  en.contracts[E._callable_key(ti._inner_nested_scan)] = ih

  def inv(en_, env, k, carry, ys):
    j = z3.Int('j')
    return [('carry == CB(k)', carry == CB(k)), ('blocks', z3.ForAll([j], z3.Implies(z3.And(j >= 0, j < k), ys.get(j) == BLK(CB(j), OFF(j))))), ('k>=0', k >= 0)]
  en.scan_spec[('_inner_nested_scan', 0)] = {'inv': inv, 'out_sort': V}
  import jax
  import jax.numpy as jnp
  stacked = {}

  def h_tree_map(en_, fn, tree, *rest):
    if fn is jnp.concatenate:
      stacked['arg'] = tree
      return E.Obj(concatenated=tree)
    return L._tree_map(en_, fn, tree, *rest)
  en.contracts[E._callable_key(jax.tree_util.tree_map)] = h_tree_map
  en.cover('requires: depth >= 2')
  kind, r = en.invoke(en.load_function(ti._inner_nested_scan), f_callable, c0, xs, lengths, L.SCAN, ident_ckpt)
  if kind == 'raise':
    en.ensure(f'_inner_nested_scan raises {r}', False)
    return
  carry, out = r
  en.ensure('depth d: the outer scan runs lengths[0] times over the leading blocks; final carry == CB(n0)', carry == CB(n0))
  j = en.int('j')
  en.assume(z3.And(j >= 0, j < n0))
  ys = stacked.get('arg')
  en.ensure('depth d: the outputs are the concatenation of the n0 inner blocks, block j == BLOCK(CB(j), OFF(j))',
            z3.BoolVal(False) if not isinstance(ys, E.SymSeq) else z3.And(E.to_z3(ys.length) == n0, ys.get(j) == BLK(CB(j), OFF(j))))
  en.ensure('depth d: the stacked outputs are concatenated (not returned stacked)', z3.BoolVal(isinstance(out, E.Obj) and getattr(out, 'concatenated', None) is ys))


def lemma_cb(en: E.Engine):
  """CB(k) == ITF(init, o, S_k) with S_0 = 0, S_{k+1} = S_k + P and OFF(k) = o + S_k (row-major blocks): induction on k.
  The definitions of CB and the already proved lemma SEMI2 enter as explicit instances (no quantifiers: pure congruence + linear arithmetic)."""
  o, k, Sk, P = en.int('o'), en.int('k'), en.int('S_k'), _P
  en.inputs['P_inner'] = P
  c0 = _c0
  en.assume(z3.And(P >= 0, k >= 0, Sk >= 0))
  en.cover('lemma')
  defs = [CB(0) == c0, ITF(c0, o, 0) == c0, CB(k + 1) == ITF(CB(k), OFF(k), P)]            # definitions of CB at 0 and k+1, ITF at 0
  en.ensure('CB-base: CB(0) == ITF(init, o, 0)', z3.Implies(z3.And(*defs), CB(0) == ITF(c0, o, 0)))
  en.assume(CB(k) == ITF(c0, o, Sk))           # IH with S_k standing for k*P
  en.assume(OFF(k) == o + Sk)                   # row-major: block k starts S_k rows after the first
  semi = lambda a_, b_: ITF(ITF(c0, o, a_), o + a_, b_) == ITF(c0, o, a_ + b_)                 # instances of SEMI2 (a_, b_ >= 0)
  en.ensure('CB-step: IH(k) => CB(k+1) == ITF(init, o, S_k + P)', z3.Implies(z3.And(*defs, semi(Sk, P)), CB(k + 1) == ITF(c0, o, Sk + P)))
  t = en.int('t')
  en.assume(z3.And(t >= 0, t < P))
  en.ensure('CB-outputs: IH(k) => OUTF(CB(k), OFF(k), t) == OUTF(init, o, S_k + t)  (flat position of element t of block k)',
            z3.Implies(semi(Sk, t), OUTF(CB(k), OFF(k), t) == OUTF(c0, o, Sk + t)))


def wrapper_contract(en: E.Engine):
  """nested_checkpoint_scan: validates `length`, reshapes every xs leaf row-major to nested_lengths + trailing shape, delegates."""
  from dinosaur import time_integration as ti
  import jax
  import jax.numpy as jnp
  m = en.int('depth')
  en.assume(m >= 1)
  LEN = z3.Function('lengths.at', I, I)
  lengths = E.SymSeq(m, lambda i: LEN(E.to_z3(i)), I, 'nested_lengths')
  PROD = z3.Int('prod_nested_lengths')
  en.libspec[('ghost', 'prod')] = (None, lambda en_, xs: PROD)
  length = en.int('length')
  c0 = en.val('init', register=True)
  seen = {}
  xs = E.Obj(tag='xs', shape=(PROD, z3.Int('trailing')), ndim=2)

  def h_reshape(en_, x):
    def f(en__, shape):
      seen['reshape'] = shape
      return E.Obj(tag='reshaped', of=x, shape=shape)
    return E._BoundSym(f)
  xs.reshape = E.SymCallable(lambda en_, shape: (seen.__setitem__('reshape', shape), E.Obj(tag='reshaped', of=xs, shape=shape))[1], 'reshape')
  en.contracts[E._callable_key(jnp.asarray)] = lambda en_, x: x
  en.contracts[E._callable_key(jax.tree_util.tree_map)] = lambda en_, fn, tree, *rest: en_.call(fn, [tree], {})
  en.contracts[E._callable_key(ti._inner_nested_scan)] = lambda en_, *a: (seen.__setitem__('delegate', a), ('carry', 'out'))[1]
  en.cover('requires')
  kind, r = en.invoke(en.load_function(ti.nested_checkpoint_scan), f_callable, c0, xs, length, nested_lengths=lengths, scan_fn=L.SCAN, checkpoint_fn=ident_ckpt)
  if kind == 'raise':
    en.ensure('raises only ValueError', r == 'ValueError')
    en.ensure('raises only if length != prod(nested_lengths)', length != PROD)
    return
  en.ensure('accepted => length == prod(nested_lengths)', length == PROD)
  d = seen.get('delegate')
  en.ensure('delegates to _inner_nested_scan(f, init, reshaped xs, nested_lengths, scan_fn, checkpoint_fn)',
            z3.BoolVal(d is not None and d[0] is f_callable and d[3] is lengths and d[4] is L.SCAN and d[5] is ident_ckpt and isinstance(d[2], E.Obj) and d[2].tag == 'reshaped')
            if d is None or True else False)
  en.ensure('the initial carry is passed through unchanged', z3.BoolVal(False) if d is None else d[1] == c0)
  shp = seen.get('reshape')
  ok_shape = shp is not None
  en.ensure('xs is reshaped to tuple(nested_lengths) + x.shape[1:] (row-major: leading block i holds rows [i*P, (i+1)*P))', z3.BoolVal(ok_shape and _is_lengths_plus_trailing(shp, lengths, xs)))
  kind2, r2 = en.invoke(en.load_function(ti.nested_checkpoint_scan), f_callable, c0, xs, None, nested_lengths=lengths, scan_fn=L.SCAN, checkpoint_fn=ident_ckpt)
  en.ensure('length=None skips the consistency check', z3.BoolVal(kind2 == 'return'))


def _is_lengths_plus_trailing(shp, lengths, xs):
  if isinstance(shp, tuple) and len(shp) == 2 and shp[0] is lengths:
    return True
  # tuple(nested_lengths) + x.shape[1:] is evaluated by the engine as (SymSeq, trailing...) or a flattened tuple marker
  return isinstance(shp, _Cat) and shp.head is lengths and tuple(shp.tail) == tuple(xs.shape[1:])


class _Cat:
  def __init__(self, head, tail):
    self.head, self.tail = head, tail


def _setup(en):
  # tuple(symbolic sequence) + concrete tuple: keep it as a (head, tail) pair
  def add(en_, a, b):
    if isinstance(a, E.SymSeq) and isinstance(b, tuple):
      return _Cat(a, b)
    raise E.Unsupported('sequence concatenation')
  en.libspec[('binop', 'SymSeq', 'Add')] = (None, add)


def canary_contract(en: E.Engine):
  """Deliberately false (and quantifier-free, so that the refutation is definite): a depth-1 scan returns n + 1 outputs."""
  from dinosaur import time_integration as ti
  n, o = en.int('n'), en.int('row_offset')
  en.assume(n >= 1)
  c0 = en.val('init', register=True)
  xs = E.SymSeq(n, lambda i: o + E.to_z3(i), I, 'rows')
  en.scan_spec[('_inner_nested_scan', 0)] = {'inv': lambda en_, env, k, carry, ys: [('k>=0', k >= 0)], 'out_sort': V}
  kind, r = en.invoke(en.load_function(ti._inner_nested_scan), f_callable, c0, xs, [n], L.SCAN, ident_ckpt)
  if kind == 'return':
    en.ensure('canary: number of outputs == n + 1', E.to_z3(r[1].length) == n + 1)


def replay_nested(w):
  import math
  import numpy as np
  import jax
  jax.config.update('jax_enable_x64', True)
  import jax.numpy as jnp
  from dinosaur import time_integration as ti
  f = lambda c, x: (0.9 * c + jnp.sin(x), c * x)
  msgs, bad = [], False
  for fa in ([6], [2, 3], [3, 2], [2, 1, 3], [1, 6], [2, 2, 2]):
    n = math.prod(fa)
    xs = jnp.asarray(np.arange(1.0, n + 1))
    c0, y0 = jax.lax.scan(f, jnp.asarray(1.0), xs)
    try:
      c, y = ti.nested_checkpoint_scan(f, jnp.asarray(1.0), xs, length=n, nested_lengths=fa)
    except Exception as ex:  # pylint: disable=broad-except
      bad = True
      msgs.append(f'nested_lengths={fa}: raised {type(ex).__name__}: {str(ex)[:120]}')
      continue
    e = max(abs(float(c - c0)), float(jnp.abs(jnp.asarray(y).reshape(-1) - y0).max())) if jnp.asarray(y).shape == jnp.asarray(y0).shape else float('inf')
    if e > 1e-12:
      bad = True
      msgs.append(f'nested_lengths={fa}: carry {float(c)} vs flat {float(c0)}; outputs {np.asarray(y).tolist()} vs {np.asarray(y0).tolist()}')
  try:
    ti.nested_checkpoint_scan(f, jnp.asarray(1.0), jnp.ones(6), length=5, nested_lengths=[2, 3])
    bad = True
    msgs.append('inconsistent length accepted')
  except ValueError:
    pass
  return bad, '; '.join(msgs) or 'nested_checkpoint_scan equals the flat scan for the sampled nestings'


def clauses():
  mk = lambda c, n=2, **kw: (lambda ctx: run_contract(c, min_obligations=n, setup=_setup, axioms=itf_axioms() + cb_axioms(), **kw))
  fns = [TI + 'nested_checkpoint_scan', TI + '_inner_nested_scan']
  return [
      Clause('lemma:ITF semigroup with row offsets (induction: base+step)', 'smt', [], mk(lemma_semi2, 3), group='pyvc-nested'),
      Clause('nested scan, depth 1: _inner_nested_scan == the flat scan over its rows (all lengths)', 'smt', fns[1:], mk(base_contract, 5), replay=replay_nested, group='pyvc-nested'),
      Clause('nested scan, depth d >= 2: outer scan over blocks with the inner call replaced by its contract (induction step, all depths and lengths)', 'smt', fns[1:],
             mk(step_contract, 7), replay=replay_nested, group='pyvc-nested'),
      Clause('lemma:block carries and outputs equal the flat iteration at row-major positions (induction: base+step)', 'smt', fns[1:], (lambda ctx: run_contract(lemma_cb, min_obligations=4, setup=_setup)), group='pyvc-nested'),
      Clause('nested_checkpoint_scan: validates length, reshapes xs to nested_lengths + trailing shape, delegates unchanged', 'smt', fns[:1], mk(wrapper_contract, 5),
             replay=replay_nested, group='pyvc-nested'),
      Clause('canary:nested scan off-by-one must fail', 'smt', fns[1:], (lambda ctx: run_contract(canary_contract, min_obligations=1, setup=_setup)), canary=True, group='pyvc-nested'),
  ]
