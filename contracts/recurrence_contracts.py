"""C02: the latitude-derivative recurrences, from the real source, for every truncation, padding and zonal wavenumber.

Row mode: the (m, l) coefficient arrays are taken at one generic zonal row m (symbolic), i.e. vectors along the total-wavenumber axis of
symbolic length n = L + pad; `modal_mesh` and `mask` are given by the layout contract of C01 (l[k] = k for k < L and 0 on padded columns;
mask[k] = 1 iff m <= k < L).  sqrt is uninterpreted (A9).  `shift` enters by its contract (proved for all lengths in this property).
Proved for all L >= 1, pad >= 0, 0 <= m, all coefficient rows x:
  _derivative_recurrence_weights   a[k] = sqrt(mask[k] (l^2 - m^2) / (4 l^2 - 1)) for k >= 1, a[0] = 0
                                   b[k] = sqrt(mask[k] ((l+1)^2 - m^2) / (4 (l+1)^2 - 1)) for k < n-1, b[n-1] = 0      (only the last stored column)
  cos_lat_d_dlat(x)[k]      = (l[k+1] + 1) a[k+1] x[k+1]  -  l[k-1] b[k-1] x[k-1]           (terms outside 0..n-1 absent)
  sec_lat_d_dlat_cos2(x)[k] = (l[k+1] - 1) a[k+1] x[k+1]  -  (l[k-1] + 2) b[k-1] x[k-1]
"""
from __future__ import annotations

import z3

from vlib.core import Clause
from vlib.pyvc import arrays, matrix
from vlib.pyvc import engine as E
from vlib.pyvc.run import run_contract

G = 'dinosaur.spherical_harmonic.Grid.'
SQRT = z3.Function('u_sqrt', z3.RealSort(), z3.RealSort())
X = z3.Function('x.at', z3.IntSort(), z3.RealSort())


def _setup(en):
  arrays.install(en)
  matrix.install(en)
  import numpy as np
  import jax.numpy as jnp
  from dinosaur import jax_numpy_utils as jnu
  from vlib.pyvc.libspec import _reg

  def h_sqrt(en_, x):
    if arrays._is_seq(x):
      g = x.get
      return E.SymSeq(x.length, lambda i: SQRT(E._real(arrays._num(g(i)))), z3.RealSort(), f'sqrt({x.name})')
    return SQRT(E._real(arrays._num(x)))
  for mod in (np, jnp):
    _reg(en, mod.sqrt, h_sqrt, f'{mod.__name__}.sqrt (uninterpreted, A9)')

  def h_pow(en_, a, b):
    if arrays._is_seq(a) and isinstance(b, int) and 1 <= b <= 4:
      g = a.get

      def get(i):
        v = E._real(arrays._num(g(i)))
        r = v
        for _ in range(b - 1):
          r = r * v
        return r
      return E.SymSeq(a.length, get, z3.RealSort(), f'{a.name}**{b}')
    raise E.Unsupported('power of a vector')
  en.libspec[('binop', 'SymSeq', 'Pow')] = (None, h_pow)

  def h_shift(en_, x, offset, axis):
    if not arrays._is_seq(x) or not isinstance(offset, int) or axis != -1:
      raise E.Unsupported('shift outside row mode')
    g, n = x.get, E.to_z3(x.length)
    return E.SymSeq(x.length, lambda i: z3.If(z3.And(E.to_z3(i) - offset >= 0, E.to_z3(i) - offset < n), E._real(arrays._num(g(E.to_z3(i) - offset))), z3.RealVal(0)), z3.RealSort(),
                    f'shift({x.name}, {offset})')
  en.contracts[E._callable_key(jnu.shift)] = h_shift
  en.trusted.add('callee contract: shift(x, o, axis)[i] == x[i - o] inside the range, 0 outside (proved for all lengths by the shift clause of this property)')
  en.row_mode = True


def _grid(en):
  from dinosaur import spherical_harmonic as sh
  L, pad, m = en.int('total_wavenumbers'), en.int('modal_padding_l'), en.int('m')
  en.assume(z3.And(L >= 1, pad >= 0, m >= 0))
  n = L + pad
  lz = lambda k: z3.If(k < L, z3.ToReal(k), z3.RealVal(0))
  maskz = lambda k: z3.If(z3.And(k >= m, k < L), z3.RealVal(1), z3.RealVal(0))
  lseq = E.SymSeq(n, lambda k: lz(E.to_z3(k)), z3.RealSort(), 'l')
  mask = E.SymSeq(n, lambda k: maskz(E.to_z3(k)), z3.RealSort(), 'mask')
  M = en.int('longitude_wavenumbers')
  en.assume(z3.And(M >= 1, m < M))
  g = E.Obj(class_ref=sh.Grid, modal_mesh=(z3.ToReal(m), lseq), mask=mask, longitude_wavenumbers=M, total_wavenumbers=L, modal_shape=(en.int('modal_rows'), n),
            modal_padding=(en.int('modal_padding_m'), pad))
  return g, L, pad, m, n, lz, maskz


def _weights_spec(L, m, n, lz, maskz):
  mr = z3.ToReal(m)
  a = lambda k: z3.If(k == 0, z3.RealVal(0), SQRT(maskz(k) * (lz(k) * lz(k) - mr * mr) / (4 * lz(k) * lz(k) - 1)))
  b = lambda k: z3.If(k == n - 1, z3.RealVal(0), SQRT(maskz(k) * ((lz(k) + 1) * (lz(k) + 1) - mr * mr) / (4 * (lz(k) + 1) * (lz(k) + 1) - 1)))
  return a, b


def weights_contract(en: E.Engine):
  from dinosaur import spherical_harmonic as sh
  g, L, pad, m, n, lz, maskz = _grid(en)
  en.cover('requires: L >= 1, padding >= 0, m >= 0')
  kind, ab = en.invoke(en.load_function(sh.Grid._derivative_recurrence_weights.func), g)
  if kind == 'raise' or not (isinstance(ab, tuple) and len(ab) == 2 and all(arrays._is_seq(v) for v in ab)):
    en.ensure(f'_derivative_recurrence_weights returns two rows ({ab})', False)
    return
  a, b = ab
  sa, sb = _weights_spec(L, m, n, lz, maskz)
  k = en.int('k')
  en.assume(z3.And(k >= 0, k < n))
  en.ensure('a[k] == sqrt(mask (l^2 - m^2) / (4 l^2 - 1)) with a[0] = 0', a.get(k) == sa(k))
  en.ensure('b[k] == sqrt(mask ((l+1)^2 - m^2) / (4 (l+1)^2 - 1)) with only the last stored column set to 0', b.get(k) == sb(k))


def _derivs(en, which, c_up, c_dn):
  from dinosaur import spherical_harmonic as sh
  g, L, pad, m, n, lz, maskz = _grid(en)
  sa, sb = _weights_spec(L, m, n, lz, maskz)
  g._derivative_recurrence_weights = (E.SymSeq(n, lambda k: sa(E.to_z3(k)), z3.RealSort(), 'a'), E.SymSeq(n, lambda k: sb(E.to_z3(k)), z3.RealSort(), 'b'))   # callee contract (weights clause)
  x = E.SymSeq(n, lambda k: X(E.to_z3(k)), z3.RealSort(), 'x')
  en.cover('requires: L >= 1, padding >= 0, m >= 0')
  kind, y = en.invoke(en.getattr(g, which), x)
  if kind == 'raise' or not arrays._is_seq(y):
    en.ensure(f'{which} returns a row ({y})', False)
    return
  k = en.int('k')
  en.assume(z3.And(k >= 0, k < n))
  up = z3.If(k + 1 < n, c_up(lz(k + 1)) * sa(k + 1) * X(k + 1), z3.RealVal(0))
  dn = z3.If(k - 1 >= 0, c_dn(lz(k - 1)) * sb(k - 1) * X(k - 1), z3.RealVal(0))
  return y, k, up, dn


def cos_lat_d_dlat_contract(en: E.Engine):
  r = _derivs(en, 'cos_lat_d_dlat', lambda l: l + 1, lambda l: -l)
  if r:
    y, k, up, dn = r
    en.ensure('cos_lat_d_dlat(x)[k] == (l[k+1] + 1) a[k+1] x[k+1] - l[k-1] b[k-1] x[k-1]', y.get(k) == up + dn)


def sec_lat_d_dlat_cos2_contract(en: E.Engine):
  r = _derivs(en, 'sec_lat_d_dlat_cos2', lambda l: l - 1, lambda l: -(l + 2))
  if r:
    y, k, up, dn = r
    en.ensure('sec_lat_d_dlat_cos2(x)[k] == (l[k+1] - 1) a[k+1] x[k+1] - (l[k-1] + 2) b[k-1] x[k-1]', y.get(k) == up + dn)


def padding_independence_contract(en: E.Engine, which='cos_lat_d_dlat'):
  """C09: on a padded layout (FastSphericalHarmonics) the latitude derivative of a field whose padded columns are zero agrees, on every
  resolved column, with the derivative on the unpadded layout (RealSphericalHarmonics) of the same truncation."""
  from dinosaur import spherical_harmonic as sh
  g, L, pad, m, n, lz, maskz = _grid(en)
  kind, ab = en.invoke(en.load_function(sh.Grid._derivative_recurrence_weights.func), g)
  lseq0 = E.SymSeq(L, lambda k: z3.ToReal(E.to_z3(k)), z3.RealSort(), 'l')
  mask0 = E.SymSeq(L, lambda k: z3.If(E.to_z3(k) >= m, z3.RealVal(1), z3.RealVal(0)), z3.RealSort(), 'mask')
  g0 = E.Obj(class_ref=sh.Grid, modal_mesh=(z3.ToReal(m), lseq0), mask=mask0, longitude_wavenumbers=g.longitude_wavenumbers, total_wavenumbers=L,
             modal_shape=(g.modal_shape[0], L), modal_padding=(g.modal_padding[0], 0))
  kind0, ab0 = en.invoke(en.load_function(sh.Grid._derivative_recurrence_weights.func), g0)
  if 'raise' in (kind, kind0):
    en.ensure('_derivative_recurrence_weights runs on both layouts', False)
    return
  g._derivative_recurrence_weights, g0._derivative_recurrence_weights = ab, ab0
  xp = E.SymSeq(n, lambda k: z3.If(E.to_z3(k) < L, X(E.to_z3(k)), z3.RealVal(0)), z3.RealSort(), 'x_padded')      # requires: padded columns are zero
  x0 = E.SymSeq(L, lambda k: X(E.to_z3(k)), z3.RealSort(), 'x')
  en.cover('requires: same truncation, padded columns zero')
  k1, yp = en.invoke(en.getattr(g, which), xp)
  k2, y0 = en.invoke(en.getattr(g0, which), x0)
  if 'raise' in (k1, k2):
    en.ensure(f'{which} runs on both layouts', False)
    return
  k = en.int('k')
  en.assume(z3.And(k >= 0, k < L))
  from contracts import vertical_matrix_contracts as VM
  cases = [('k = 0 < L-1', [k == 0, k < L - 1]), ('k = 0 = L-1', [k == 0, k == L - 1]), ('0 < k < L-1', [k >= 1, k < L - 1]), ('0 < k = L-1', [k >= 1, k == L - 1])]
  cases = [(f'{a}, {b}', ca + cb) for a, ca in cases for b, cb in (('no padding', [pad == 0]), ('padded', [pad >= 1]))]
  VM.ensure_cases(en, f'{which}: padded and unpadded layouts agree on every resolved column k < L', [L >= 1, pad >= 0, m >= 0, k >= 0, k < L], cases, [], yp.get(k) == y0.get(k), timeout_ms=30000)


def canary_contract(en: E.Engine):
  from dinosaur import spherical_harmonic as sh
  g, L, pad, m, n, lz, maskz = _grid(en)
  kind, ab = en.invoke(en.load_function(sh.Grid._derivative_recurrence_weights.func), g)
  k = en.int('k')
  en.assume(z3.And(k >= 0, k < n))
  if kind == 'return':
    en.ensure('canary: b vanishes from column L-1 on', z3.Implies(k >= L - 1, ab[1].get(k) == 0))


def replay_recurrence(w):
  import numpy as np
  import jax
  jax.config.update('jax_enable_x64', True)
  import functools
  import jax.numpy as jnp
  from dinosaur import spherical_harmonic as sh
  rng = np.random.RandomState(4)
  msgs = []
  for impl, M, L in ((sh.RealSphericalHarmonics, 4, 5), (sh.RealSphericalHarmonics, 3, 6), (functools.partial(sh.FastSphericalHarmonics, base_shape_multiple=4), 4, 5)):
    g = sh.Grid(longitude_wavenumbers=M, total_wavenumbers=L, longitude_nodes=4 * M, latitude_nodes=2 * L, spherical_harmonics_impl=impl)
    mm, ll = (np.asarray(v, dtype=float) for v in g.modal_mesh)
    mask = np.asarray(g.mask, dtype=float)
    with np.errstate(invalid='ignore', divide='ignore'):
      a = np.sqrt(mask * (ll ** 2 - mm ** 2) / (4 * ll ** 2 - 1))
      b = np.sqrt(mask * ((ll + 1) ** 2 - mm ** 2) / (4 * (ll + 1) ** 2 - 1))
    a[:, 0] = 0
    b[:, -1] = 0
    ga, gb = g._derivative_recurrence_weights
    if not (np.allclose(ga, a) and np.allclose(gb, b)):
      msgs.append(f'M={M}, L={L}: recurrence weights differ from the documented ones (max |da| {np.max(np.abs(ga - a)):.3e}, |db| {np.max(np.abs(gb - b)):.3e})')
    x = np.where(mask > 0, rng.randn(*g.modal_shape), 0.0)
    sh_ = lambda v, o: np.pad(v, [(0, 0), (max(o, 0), max(-o, 0))])[:, (max(-o, 0)):(v.shape[1] + max(-o, 0))]
    want = sh_((ll + 1) * a * x, -1) + sh_(-ll * b * x, 1)
    got = np.asarray(g.cos_lat_d_dlat(jnp.asarray(x)))
    if not np.allclose(got, want, atol=1e-12):
      msgs.append(f'M={M}, L={L}: cos_lat_d_dlat differs from the documented recurrence by {np.max(np.abs(got - want)):.3e}')
    want = sh_((ll - 1) * a * x, -1) + sh_(-(ll + 2) * b * x, 1)
    got = np.asarray(g.sec_lat_d_dlat_cos2(jnp.asarray(x)))
    if not np.allclose(got, want, atol=1e-12):
      msgs.append(f'M={M}, L={L}: sec_lat_d_dlat_cos2 differs from the documented recurrence by {np.max(np.abs(got - want)):.3e}')
  return bool(msgs), ('; '.join(msgs[:3]) if msgs else 'recurrence weights and both latitude derivatives equal the documented recurrences on the sampled grids')


def clauses(prop='C02'):
  rc = lambda c, n=2, **kw: (lambda ctx: run_contract((lambda en: c(en, **kw)) if kw else c, min_obligations=n, setup=_setup, timeout_ms=60000))
  if prop == 'C09':
    return [Clause(f'smt:{w} agrees between padded (fast) and unpadded (reference) layouts on every resolved column (all truncations, paddings, rows)', 'smt', [G + w, G + '_derivative_recurrence_weights'],
                   rc(padding_independence_contract, 2, which=w), replay=replay_recurrence, group='pyvc') for w in ('cos_lat_d_dlat', 'sec_lat_d_dlat_cos2')]
  rc = lambda c, n=2: (lambda ctx: run_contract(c, min_obligations=n, setup=_setup, timeout_ms=60000))
  return [
      Clause('smt:_derivative_recurrence_weights == documented a, b (a[0] = 0, only the last stored column of b zeroed) for all truncations, paddings, zonal rows', 'smt',
             [G + '_derivative_recurrence_weights'], rc(weights_contract, 3), replay=replay_recurrence, group='pyvc'),
      Clause('smt:cos_lat_d_dlat == documented two-term recurrence (all sizes, all rows)', 'smt', [G + 'cos_lat_d_dlat'], rc(cos_lat_d_dlat_contract, 2), replay=replay_recurrence, group='pyvc'),
      Clause('smt:sec_lat_d_dlat_cos2 == documented two-term recurrence (all sizes, all rows)', 'smt', [G + 'sec_lat_d_dlat_cos2'], rc(sec_lat_d_dlat_cos2_contract, 2),
             replay=replay_recurrence, group='pyvc'),
      Clause('canary:recurrence weight b vanishes from column L-1 on must fail', 'smt', [G + '_derivative_recurrence_weights'], rc(canary_contract, 1), canary=True, group='pyvc'),
  ]
