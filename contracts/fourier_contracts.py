"""C02 / C07 / C09: longitude-derivative pairing, shift, and the sharded frequency offset -- from the real source, for all sizes.

pyvc 1-d array mode along the zonal-wavenumber axis (axis=-2 of an (m, l) array; the total-wavenumber axis is carried
elementwise by the real code: `i` is reshaped to a column and broadcast).  Assumed library contracts (A8):
  lax.slice_in_dim(x, lo, hi, axis)           x[lo:hi] along axis
  lax.pad(x, 0, config) with one padded axis  zeros before / after along that axis (no interior padding)
  jnp.zeros_like, jnp.where, jnp.arange, reshape((-1, 1, ...)) of a vector = the vector as a column
  shard_map(f, mesh, in_specs, out_specs)(x)  the result restricted to shard s is f(x restricted to shard s) with lax.axis_index = s
Post-conditions (from the mathematics d/dlambda (c cos j lambda + s sin j lambda) = j s cos j lambda - j c sin j lambda and the
coefficient layouts documented in the basis properties):
  shift(x, o)[i] == x[i - o] if 0 <= i - o < n else 0                                    (all n, o = +-1 and |o| >= n)
  real_basis_derivative (odd n = 2M-1):   out[0] = 0, out[2j-1] = j u[2j], out[2j] = -j u[2j-1]
  real_basis_derivative_with_zero_imag (even n, offset f0): out[2k] = (f0+k) u[2k+1], out[2k+1] = -(f0+k) u[2k]
      -- in particular rows 2k, 2k+1 only read rows 2k, 2k+1 (never across an even block edge)
  sharded derivative: on shard s of x-size X (local rows 2K), the real `differentiate` closure equals the unsharded derivative
      restricted to rows [2Ks, 2K(s+1))  -- i.e. the frequency offset must be K*s.
  the two layouts are conjugate under the re-indexing R(0)=0, R(2m-1)=2m, R(2m)=2m+1 (C09).
"""
from __future__ import annotations

import z3

from vlib.core import Clause
from vlib.pyvc import arrays
from vlib.pyvc import engine as E
from vlib.pyvc.run import run_contract

FO = 'dinosaur.fourier.'
JNU = 'dinosaur.jax_numpy_utils.'
SH = 'dinosaur.spherical_harmonic.'

U = z3.Function('u.at', z3.IntSort(), z3.RealSort())


class Col(E.SymSeq):
  """A vector along axis -2 of a 2-d array whose trailing axis is carried elementwise."""
  meta = {'ndim': 2}


def _col(n, f=None, name='u'):
  c = Col(n, (lambda i: U(E.to_z3(i))) if f is None else f, z3.RealSort(), name)
  return c


def _wrap(x):
  if isinstance(x, E.SymSeq) and not isinstance(x, Col):
    c = Col(x.length, x.get, x.sort, x.name)
    return c
  return x


def _setup(en):
  arrays.install(en)
  import jax
  import jax.numpy as jnp
  import numpy as np
  from jax import lax
  from vlib.pyvc.libspec import _reg
  L = z3.Int('L_trailing')
  en.libspec[('attr', 'SymSeq', 'ndim')] = (None, lambda en_, s: 2)
  en.libspec[('attr', 'SymSeq', 'shape')] = (None, lambda en_, s: (s.length, L))
  en.libspec[('attr', 'SymSeq', 'dtype')] = (None, lambda en_, s: 'float')

  def h_reshape(en_, s):
    def f(en__, *shape):
      shp = shape[0] if len(shape) == 1 and isinstance(shape[0], tuple) else shape
      if shp[0] == -1 and all(v == 1 for v in shp[1:]):
        return s
      raise E.Unsupported(f'reshape {shp} of a vector')
    return E._BoundSym(f)
  en.libspec[('attr', 'SymSeq', 'reshape')] = (None, h_reshape)
  for op in ('FloorDiv', 'Mod'):
    def mk(op_):
      def f(x, y):
        x, y = arrays._num(x), arrays._num(y)
        if not (z3.is_int(x) and z3.is_int(y)):
          raise E.Unsupported('// or % on non-integers')
        return (x / y) if op_ == 'FloorDiv' else (x % y)
      return lambda en_, a, b: arrays._elementwise(en_, a, b, f, op_)
    en.libspec[('binop', 'SymSeq', op)] = (None, mk(op))

  def h_slice_in_dim(en_, x, lo, hi, stride=1, axis=0):
    if axis not in (-2, 0):
      raise E.Unsupported(f'slice_in_dim along axis {axis} (the vector lives on axis -2)')
    return en_.subscript(x, slice(lo, hi, None))
  _reg(en, lax.slice_in_dim, h_slice_in_dim, 'lax.slice_in_dim (A8)')

  def h_lax_pad(en_, x, value, config):
    cfg = [tuple(c) for c in config]
    nontrivial = [(k, c) for k, c in enumerate(cfg) if tuple(E.to_z3(v).eq(z3.IntVal(0)) for v in c) != (True, True, True)]
    if any(not E.to_z3(c[2]).eq(z3.IntVal(0)) for c in cfg):
      raise E.Unsupported('interior padding')
    if len(cfg) != 2:
      raise E.Unsupported('lax.pad config rank')
    if nontrivial and any(k != 0 for k, _ in nontrivial):
      raise E.Unsupported('lax.pad along the trailing axis (the vector lives on axis -2)')
    (lo, hi, _) = cfg[0]
    return arrays.h_pad(en_, x, [(lo, hi)])
  _reg(en, lax.pad, h_lax_pad, 'lax.pad(x, 0, [(lo, hi, 0), (0, 0, 0)]) == zeros before/after along axis -2 (A8)')
  _reg(en, jnp.zeros_like, lambda en_, x: E.SymSeq(x.length, lambda i: z3.RealVal(0), z3.RealSort(), 'zeros') if arrays._is_seq(x) else 0, 'jnp.zeros_like')
  _reg(en, jnp.array, lambda en_, v, *a, **k: v, 'jnp.array(scalar)')
  E.SAFE_NATIVE.add(jax.sharding.PartitionSpec)


def _neg_patch():
  # unary minus on vectors
  orig = E.Engine.ex_UnaryOp

  def ex_UnaryOp(self, e, env):
    if isinstance(e.op, E.ast.USub):
      v = self.eval(e.operand, env)
      if isinstance(v, E.SymSeq):
        return E.SymSeq(v.length, lambda i: -v.get(i), v.sort, f'-{v.name}')
      if E.is_sym(v) and v.sort() == E.V:
        return self.vec('neg', v)
      return -v
    return orig(self, e, env)
  E.Engine.ex_UnaryOp = ex_UnaryOp


_neg_patch()


def shift_contract(en: E.Engine):
  from dinosaur import jax_numpy_utils as jnu
  n = en.int('n')
  en.assume(n >= 1)
  u = _col(n)
  en.cover('requires: n >= 1')
  i = z3.Int('i')
  for o in (1, -1, 2, -3):
    kind, r = en.invoke(en.load_function(jnu.shift), u, o, -2)
    if kind == 'raise' or not arrays._is_seq(r):
      en.ensure(f'shift(x, {o}) returns a vector ({r})', False)
      continue
    en.ensure(f'shift(x, {o}): same length; out[i] == x[i - {o}] inside the range, 0 outside (also when |offset| >= n)',
              z3.And(E.to_z3(r.length) == n, z3.ForAll([i], z3.Implies(z3.And(i >= 0, i < n), r.get(i) == z3.If(z3.And(i - o >= 0, i - o < n), U(i - o), 0)))))


def real_derivative_contract(en: E.Engine):
  from dinosaur import fourier
  M = en.int('wavenumbers')
  en.assume(M >= 1)
  n = 2 * M - 1
  u = _col(n)
  en.cover('requires: n = 2 wavenumbers - 1')
  kind, r = en.invoke(en.load_function(fourier.real_basis_derivative), u, axis=-2)
  if kind == 'raise' or not arrays._is_seq(r):
    en.ensure(f'real_basis_derivative returns a vector ({r})', False)
    return
  j = z3.Int('j')
  en.ensure('out[0] == 0 (the zonal mean has no longitude derivative)', r.get(0) == 0)
  en.ensure('out[2j-1] == j u[2j] and out[2j] == -j u[2j-1] for 1 <= j < wavenumbers',
            z3.ForAll([j], z3.Implies(z3.And(j >= 1, j < M), z3.And(r.get(2 * j - 1) == z3.ToReal(j) * U(2 * j), r.get(2 * j) == -z3.ToReal(j) * U(2 * j - 1)))))
  ev = _col(2 * M, name='even')
  kind, r2 = en.invoke(en.load_function(fourier.real_basis_derivative), ev, axis=-2)
  en.ensure('an even number of rows is rejected (ValueError)', z3.BoolVal(kind == 'raise' and r2 == 'ValueError'))


def zero_imag_derivative_contract(en: E.Engine):
  from dinosaur import fourier
  K, f0 = en.int('half_rows'), en.int('frequency_offset')
  en.assume(z3.And(K >= 1, f0 >= 0))
  u = _col(2 * K)
  en.cover('requires: even number of rows')
  kind, r = en.invoke(en.load_function(fourier.real_basis_derivative_with_zero_imag), u, -2, f0)
  if kind == 'raise' or not arrays._is_seq(r):
    en.ensure(f'real_basis_derivative_with_zero_imag returns a vector ({r})', False)
    return
  k = z3.Int('k')
  en.ensure('out[2k] == (f0 + k) u[2k+1] and out[2k+1] == -(f0 + k) u[2k]  (rows 2k, 2k+1 read only rows 2k, 2k+1)',
            z3.ForAll([k], z3.Implies(z3.And(k >= 0, k < K), z3.And(r.get(2 * k) == z3.ToReal(f0 + k) * U(2 * k + 1), r.get(2 * k + 1) == -z3.ToReal(f0 + k) * U(2 * k)))))
  od = _col(2 * K + 1, name='odd')
  kind, r2 = en.invoke(en.load_function(fourier.real_basis_derivative_with_zero_imag), od, -2, f0)
  en.ensure('an odd number of rows is rejected (ValueError)', z3.BoolVal(kind == 'raise' and r2 == 'ValueError'))


def conjugacy_contract(en: E.Engine):
  """C09: the two derivative layouts are conjugate under R(0)=0, R(2m-1)=2m, R(2m)=2m+1 (fast row 1, the zero imaginary part of m=0, holds 0)."""
  from dinosaur import fourier
  M = en.int('wavenumbers')
  en.assume(M >= 1)
  Rinv = lambda i: z3.If(i == 0, 0, z3.If(i == 1, -1, i - 1))          # fast row -> real row (row 1 has no pre-image)
  ur = _col(2 * M - 1)
  uf = _col(2 * M, f=lambda i: z3.If(E.to_z3(i) == 1, z3.RealVal(0), U(Rinv(E.to_z3(i)))), name='u_fast')
  en.cover('requires')
  k1, dr = en.invoke(en.load_function(fourier.real_basis_derivative), ur, axis=-2)
  k2, df = en.invoke(en.load_function(fourier.real_basis_derivative_with_zero_imag), uf, -2, 0)
  if 'raise' in (k1, k2):
    en.ensure('both derivatives run', False)
    return
  i = z3.Int('i')
  R = lambda i_: z3.If(i_ == 0, 0, i_ + 1)
  en.ensure('d/dlon in the fast layout at row R(i) equals d/dlon in the reference layout at row i, for every reference row i',
            z3.ForAll([i], z3.Implies(z3.And(i >= 0, i < 2 * M - 1), df.get(R(i)) == dr.get(i))))
  en.ensure('fast row 1 (imaginary part of m = 0) of the derivative stays 0', df.get(1) == 0)


def sharded_derivative_contract(en: E.Engine):
  """C07: the real `differentiate` closure run on shard s equals the unsharded derivative restricted to that shard."""
  from dinosaur import spherical_harmonic as sh
  from jax import lax
  K, X, s = en.int('half_rows_per_shard'), en.int('x_shards'), en.int('shard')
  Y = en.int('y_shards')
  en.assume(z3.And(K >= 1, X >= 1, Y >= 1, s >= 0, s < X))
  n = 2 * K * X
  u = _col(n)
  local = _col(2 * K, f=lambda i: U(2 * K * s + E.to_z3(i)), name='u_local')
  en.contracts[E._callable_key(lax.axis_index)] = lambda en_, name: s if name == 'x' else (_ for _ in ()).throw(E.Unsupported(f'axis_index({name})'))
  captured = {}

  def h_shmap(en_, f, mesh, in_specs, out_specs, **kw):
    def apply(en__, x):
      # SPMD semantics: the result on shard s is f(local shard); the x-axis shard of `x` is rows [2Ks, 2K(s+1))
      captured['local_result'] = en__.call(f, [local], {})
      captured['in_specs'], captured['out_specs'] = in_specs, out_specs
      return captured['local_result']
    return E.SymCallable(apply, 'shard_map(differentiate)')
  en.contracts[E._callable_key(sh.shmap)] = h_shmap
  en.trusted.add('libspec:shard_map(f, mesh, specs)(x) on shard s == f(rows of x owned by shard s) with lax.axis_index(x) = s (A8)')
  mesh = E.Obj(shape={'x': X, 'y': Y, 'z': z3.IntVal(1)})
  en.cover('requires: rows = 2 K X, 0 <= s < X')
  fn = en.load_function(sh._fourier_derivative_for_real_basis_with_zero_imag)
  kind, loc = en.invoke(fn, u, mesh)
  kind2, glob = en.invoke(fn, u, None)
  if 'raise' in (kind, kind2) or not arrays._is_seq(loc) or not arrays._is_seq(glob):
    en.ensure(f'sharded and unsharded derivative run ({loc}, {glob})', False)
    return
  i = z3.Int('i')
  en.ensure('local result on shard s has the local number of rows', E.to_z3(loc.length) == 2 * K)
  en.ensure('sharded derivative on shard s == unsharded derivative restricted to rows [2Ks, 2K(s+1)) (frequency offset K s)',
            z3.ForAll([i], z3.Implies(z3.And(i >= 0, i < 2 * K), loc.get(i) == glob.get(2 * K * s + i))))


def canary_contract(en: E.Engine):
  from dinosaur import fourier
  M = en.int('wavenumbers')
  en.assume(M >= 2)
  u = _col(2 * M - 1)
  kind, r = en.invoke(en.load_function(fourier.real_basis_derivative), u, axis=-2)
  if kind == 'return':
    en.ensure('canary: out[1] == u[1]', r.get(1) == U(1))


def replay_fourier(w):
  import numpy as np
  import jax
  jax.config.update('jax_enable_x64', True)
  import jax.numpy as jnp
  from dinosaur import fourier, jax_numpy_utils as jnu
  rng = np.random.RandomState(0)
  msgs = []
  for M in (1, 2, 3, 5):
    u = rng.randn(2 * M - 1, 3)
    d = np.asarray(fourier.real_basis_derivative(jnp.asarray(u), axis=-2))
    want = np.zeros_like(u)
    for j in range(1, M):
      want[2 * j - 1], want[2 * j] = j * u[2 * j], -j * u[2 * j - 1]
    if np.abs(d - want).max() > 1e-12:
      msgs.append(f'real_basis_derivative, {M} wavenumbers: got {np.round(d[:, 0], 4).tolist()} expected {np.round(want[:, 0], 4).tolist()}')
    for f0 in (0, 3):
      uf = rng.randn(2 * M, 3)
      d = np.asarray(fourier.real_basis_derivative_with_zero_imag(jnp.asarray(uf), -2, f0))
      want = np.zeros_like(uf)
      for k in range(M):
        want[2 * k], want[2 * k + 1] = (f0 + k) * uf[2 * k + 1], -(f0 + k) * uf[2 * k]
      if np.abs(d - want).max() > 1e-12:
        msgs.append(f'real_basis_derivative_with_zero_imag, {2 * M} rows, offset {f0}: got {np.round(d[:, 0], 4).tolist()} expected {np.round(want[:, 0], 4).tolist()}')
  x = rng.randn(5, 2)
  for o in (1, -1, 2, -3, 7):
    r = np.asarray(jnu.shift(jnp.asarray(x), o, -2))
    want = np.zeros_like(x)
    for i in range(5):
      if 0 <= i - o < 5:
        want[i] = x[i - o]
    if np.abs(r - want).max() > 0:
      msgs.append(f'shift(x, {o}) wrong')
  return bool(msgs), '; '.join(msgs) or 'real derivative / shift functions agree with the pairing formulas on the sampled sizes'


def replay_sharded(w):
  """8 virtual devices (if this process has them): sharded d_dlon against unsharded on a grid spanning the x-shards."""
  import numpy as np
  import jax
  jax.config.update('jax_enable_x64', True)
  if len(jax.devices()) < 4:
    return False, 'fewer than 4 devices in this process: see the 8-device clause of C07 for the native comparison'
  import jax.numpy as jnp
  from dinosaur import spherical_harmonic as sh
  worst = 0.0
  for shape in ((1, 2, 1), (1, 4, 2), (1, 2, 2)):
    n = int(np.prod(shape))
    mesh = jax.sharding.Mesh(np.array(jax.devices()[:n]).reshape(shape), ['z', 'x', 'y'])
    g0 = sh.Grid(longitude_wavenumbers=20, total_wavenumbers=21, longitude_nodes=64, latitude_nodes=32, spherical_harmonics_impl=sh.FastSphericalHarmonics)
    g = sh.Grid(longitude_wavenumbers=20, total_wavenumbers=21, longitude_nodes=64, latitude_nodes=32, spherical_harmonics_impl=sh.FastSphericalHarmonics, spmd_mesh=mesh)
    x = np.random.RandomState(1).randn(*g0.modal_shape) * np.asarray(g0.mask)
    xp = np.pad(x, [(0, g.modal_shape[0] - x.shape[0]), (0, g.modal_shape[1] - x.shape[1])])
    a = np.asarray(g.d_dlon(jnp.asarray(xp)))[:x.shape[0], :x.shape[1]]
    b = np.asarray(g0.d_dlon(jnp.asarray(x)))
    worst = max(worst, float(np.abs(a - b).max()))
  return worst > 1e-10, f'max |sharded d_dlon - unsharded d_dlon| over meshes (1,2,1), (1,4,2), (1,2,2) on a 20-wavenumber grid: {worst:.3e}'


def clauses():
  rc = lambda c, n=2: (lambda ctx: run_contract(c, min_obligations=n, setup=_setup, timeout_ms=60000, max_paths=2000))
  return [
      Clause('smt:shift == zero-padded translation (all sizes)', 'smt', [JNU + 'shift', JNU + 'pad_in_dim'], rc(shift_contract, 4), replay=replay_fourier, group='pyvc'),
      Clause('smt:real_basis_derivative pairing out[2j-1] = j u[2j], out[2j] = -j u[2j-1] (all wavenumber counts)', 'smt', [FO + 'real_basis_derivative', JNU + 'shift'],
             rc(real_derivative_contract, 3), replay=replay_fourier, group='pyvc'),
      Clause('smt:real_basis_derivative_with_zero_imag pairing with frequency offset, block-local (all sizes)', 'smt', [FO + 'real_basis_derivative_with_zero_imag', JNU + 'shift'],
             rc(zero_imag_derivative_contract, 3), replay=replay_fourier, group='pyvc'),
      Clause('smt:longitude derivatives of the two layouts are conjugate under the re-indexing R (all wavenumber counts)', 'smt',
             [FO + 'real_basis_derivative', FO + 'real_basis_derivative_with_zero_imag'], rc(conjugacy_contract, 3), replay=replay_fourier, group='pyvc'),
      Clause('smt:sharded longitude derivative on shard s == unsharded derivative restricted to the shard (all x/y mesh sizes, all shard sizes)', 'smt',
             [SH + '_fourier_derivative_for_real_basis_with_zero_imag', FO + 'real_basis_derivative_with_zero_imag'], rc(sharded_derivative_contract, 3),
             replay=replay_sharded, group='pyvc'),
      Clause('canary:derivative out[1] == u[1] must fail', 'smt', [FO + 'real_basis_derivative'], rc(canary_contract, 1), canary=True, group='pyvc'),
  ]
