"""C19: flatten_dict / unflatten_dict are mutually inverse -- VCs over *arbitrary key strings and separators*.

The real source of dinosaur.pytree_utils.flatten_dict and unflatten_dict is executed by pyvc on nested dictionaries of fixed
*shape* (enumerated below, depth <= 3, empty sub-dictionaries included) whose keys and separator are symbolic strings; the
obligations are string-theory formulas (z3 seq solver, cvc5 --strings-exp on z3's unknowns).  Library contracts assumed (A8):
  str.__contains__ / + / truthiness       as in SMT-LIB strings (str.contains, str.++, len != 0)
  s.split(sep)                             repeated split at the *first* occurrence (str.indexof), at most MAXPARTS parts explored
  np.unique(keys, return_counts=True); (counts > 1).any()    ==  "two of the keys are equal"
  dict / list construction                 structural
Post-condition taken from the property: for keys that do not contain the separator, unflatten_dict(*flatten_dict(d)) == d.
The statement is split by hypothesis so that what holds is proved and what does not is reported with the solver's witness:
  P1  keys non-empty, separator a single character                      -> proved for every shape
  P2  keys non-empty, separator any non-empty string                    -> refuted: overlapping separators (finding S4)
  P3  separator a single character, keys possibly empty                 -> refuted: the empty key loses its level (finding S1)
  R   flatten_dict raises ValueError iff a key contains the separator or two flattened keys coincide.
"""
from __future__ import annotations

import itertools

import z3

from vlib.core import Clause
from vlib.pyvc import engine as E
from vlib.pyvc.run import run_contract

PU = 'dinosaur.pytree_utils.'
MAXPARTS = 4


class _Counts:
  def __init__(self, keys):
    self.keys = keys


class _Dup:
  def __init__(self, keys):
    self.keys = keys


def _setup(en):
  import builtins
  import numpy as np
  from vlib.pyvc.libspec import _reg

  def _atoms(t):
    if z3.is_app(t) and t.decl().kind() == z3.Z3_OP_SEQ_CONCAT:
      out = []
      for c in t.children():
        out += _atoms(c)
      return out
    return [t]

  def h_split(en_, s, sep=None, *a):
    if sep is None or a:
      raise E.Unsupported('split without separator / with maxsplit')
    sep_ = E.to_z3(sep)
    s_ = E.to_z3(s)
    # Lemma L1 (its own obligation, clause "lemma:first occurrence"): for a single-character separator and a separator-free
    # string a, the first occurrence of sep in a ++ sep ++ rest is at position len(a).  Under these hypotheses the split of a
    # concatenation  a1 ++ sep ++ a2 ++ sep ++ ... ++ an  of separator-free atoms is [a1, ..., an]: no case split is needed.
    if not en_._sat(z3.Length(sep_) != 1):
      atoms = _atoms(s_)
      parts, cur, ok = [], [], True
      for t in atoms:
        if t.eq(sep_):
          parts.append(cur)
          cur = []
        else:
          cur.append(t)
      parts.append(cur)
      for p_ in parts:
        if len(p_) > 1 or (len(p_) == 1 and en_._sat(z3.Contains(p_[0], sep_))):
          ok = False
      if ok:
        en_.trusted.add('lemma L1 (proved in clause "lemma:first occurrence of a one-character separator") used to split joined keys')
        return [p_[0] if p_ else z3.StringVal('') for p_ in parts]
    parts, cur = [], s_
    for _ in range(MAXPARTS):
      idx = z3.IndexOf(cur, sep_, z3.IntVal(0))
      if en_.truth(idx < 0):
        parts.append(z3.simplify(cur))
        return parts
      parts.append(z3.simplify(z3.SubString(cur, z3.IntVal(0), idx)))
      cur = z3.SubString(cur, idx + z3.Length(sep_), z3.Length(cur) - idx - z3.Length(sep_))
    raise E.Unsupported(f'split into more than {MAXPARTS} parts')
  en.libspec[('attr', 'String', 'split')] = (None, lambda en_, obj: E._BoundSym(lambda en__, *a, **k: h_split(en__, obj, *a, **k)))

  def h_array(en_, x, *a, **k):
    return list(en_.iter_concrete(x))

  def h_unique(en_, x, return_counts=False, **k):
    xs = list(en_.iter_concrete(x))
    if not return_counts:
      raise E.Unsupported('np.unique without counts')
    return (xs, _Counts(xs))
  _reg(en, np.array, h_array, 'np.array(list of keys) == the list')
  _reg(en, np.unique, h_unique, 'np.unique(keys, return_counts=True): counts > 1 somewhere iff two keys are equal')
  en.libspec[('compare', '_Counts', 'Gt')] = (None, None)

  def h_dict(en_, *a, **k):
    if not a:
      return dict(**k)
    src = a[0]
    out = {}
    pairs = list(src.items()) if isinstance(src, dict) else [tuple(en_.iter_concrete(p)) for p in en_.iter_concrete(src)]
    for key, val in pairs:
      en_.store_subscript(out, key, val, None)
    return out
  _reg(en, builtins.dict, h_dict, 'dict(pairs)')
  en.trusted.add('libspec:str.split(sep) == repeated split at the first occurrence of sep (SMT-LIB str.indexof), up to %d parts' % MAXPARTS)


# comparison `counts > 1` and `.any()` for the duplicate test
_orig_compare = E.Engine.compare


def _compare(self, op, a, b):
  if isinstance(a, _Counts) and isinstance(op, E.ast.Gt) and b == 1:
    return _Dup(a.keys)
  return _orig_compare(self, op, a, b)


E.Engine.compare = _compare
_orig_getattr = E.Engine.getattr


def _getattr(self, obj, attr):
  if isinstance(obj, _Dup) and attr == 'any':
    keys = obj.keys
    pairs = [E.to_z3(x) == E.to_z3(y) for x, y in itertools.combinations(keys, 2)]
    return E._BoundSym(lambda en: z3.Or(*pairs) if pairs else False)
  if isinstance(obj, list) and attr == '__getitem__':
    return obj.__getitem__
  return _orig_getattr(self, obj, attr)


E.Engine.getattr = _getattr
_orig_subscript = E.Engine.subscript


def _subscript(self, obj, idx, lineno=None):
  if isinstance(obj, list) and isinstance(idx, _Dup):
    return [k for k in obj]           # only used inside an f-string message
  return _orig_subscript(self, obj, idx, lineno)


E.Engine.subscript = _subscript


# ---- shapes -----------------------------------------------------------------------------------------------------------


def _shapes():
  """Nested dictionary shapes: leaf 'v' (a value) or {} (empty branch) or a dict of sub-shapes; keys are placeholders."""
  return {
      'depth1: {k1: v, k2: v}': {'k1': 'v', 'k2': 'v'},
      'depth2: {k1: {k2: v}}': {'k1': {'k2': 'v'}},
      'depth2: {k1: {k2: v, k3: {}}, k4: v}': {'k1': {'k2': 'v', 'k3': {}}, 'k4': 'v'},
      'depth2: {k1: {}, k2: {k3: {}}}': {'k1': {}, 'k2': {'k3': {}}},
      'depth3: {k1: {k2: {k3: v}}}': {'k1': {'k2': {'k3': 'v'}}},
      'depth3: {k1: {k2: {k3: v}, k4: v}}': {'k1': {'k2': {'k3': 'v'}, 'k4': 'v'}},
  }


def _instantiate(en, shape, keys, vals):
  """Builds the dictionary with symbolic string keys; returns (dict, list of sibling groups)."""
  groups = []

  def rec(sh):
    if sh == 'v':
      v = z3.Int(f'value{len(vals)}')
      vals.append(v)
      return v
    out = {}
    sibs = []
    for name, sub in sh.items():
      k = keys.setdefault(name, en.string(name))
      sibs.append(k)
      out[k] = rec(sub)
    groups.append(sibs)
    return out
  return rec(shape), groups


def _dict_eq(a, b):
  """Semantic equality of two nested dictionaries with z3-string keys (values: z3 Ints or dicts)."""
  if isinstance(a, dict) != isinstance(b, dict):
    return z3.BoolVal(False)
  if not isinstance(a, dict):
    return E.to_z3(a) == E.to_z3(b)
  if len(a) != len(b):
    return z3.BoolVal(False)
  conj = []
  for ka, va in a.items():
    conj.append(z3.Or(*[z3.And(E.to_z3(ka) == E.to_z3(kb), _dict_eq(va, vb)) for kb, vb in b.items()]) if b else z3.BoolVal(False))
  return z3.And(*conj) if conj else z3.BoolVal(True)


def _copy(d):
  return {k: _copy(v) for k, v in d.items()} if isinstance(d, dict) else d


def roundtrip_contract(en: E.Engine, shape_name=None, nonempty=True, single_char_sep=True):
  from dinosaur import pytree_utils as pu
  shape = _shapes()[shape_name]
  keys, vals = {}, []
  d, groups = _instantiate(en, shape, keys, vals)
  sep = en.string('separator')
  en.assume(z3.Length(sep) == 1 if single_char_sep else z3.Length(sep) >= 1)
  for g in groups:                      # a Python dict has distinct keys
    for x, y in itertools.combinations(g, 2):
      en.assume(x != y)
  for k in keys.values():
    en.assume(z3.Not(z3.Contains(k, sep)))          # requires: no key contains the separator (else flatten_dict raises: clause R)
    if nonempty:
      en.assume(z3.Length(k) >= 1)
  en.cover('requires: distinct sibling keys, separator-free keys')
  kind, r = en.invoke(en.load_function(pu.flatten_dict), _copy(d), sep=sep)
  if kind == 'raise':
    en.ensure(f'flatten_dict accepts a dictionary whose keys do not contain the separator (raised {r})', False)
    return
  flat, empty = r
  kind, back = en.invoke(en.load_function(pu.unflatten_dict), flat, empty, sep=sep)
  if kind == 'raise':
    en.ensure(f'unflatten_dict accepts the output of flatten_dict (raised {back})', False)
    return
  en.ensure('unflatten_dict(*flatten_dict(d)) == d', _dict_eq(back, d))


def raises_contract(en: E.Engine, shape_name=None):
  from dinosaur import pytree_utils as pu
  shape = _shapes()[shape_name]
  keys, vals = {}, []
  d, groups = _instantiate(en, shape, keys, vals)
  sep = en.string('separator')
  en.assume(z3.Length(sep) == 1)
  for g in groups:
    for x, y in itertools.combinations(g, 2):
      en.assume(x != y)
  for k in keys.values():
    en.assume(z3.Length(k) >= 1)
  en.cover('requires: distinct non-empty sibling keys')
  kind, r = en.invoke(en.load_function(pu.flatten_dict), _copy(d), sep=sep)
  has_sep = z3.Or(*[z3.Contains(k, sep) for k in keys.values()])
  if kind == 'raise':
    en.ensure('the only exception is ValueError', r == 'ValueError')
    en.ensure('flatten_dict raises only if some key contains the separator (flattened keys of separator-free paths never collide)', has_sep)
  else:
    en.ensure('a key containing the separator is rejected', z3.Not(has_sep))


def canary_contract(en: E.Engine):
  """Deliberately false: flattening {k1: {k2: v}} yields the key k2."""
  from dinosaur import pytree_utils as pu
  k1, k2, sep = en.string('k1'), en.string('k2'), en.string('separator')
  en.assume(z3.And(z3.Length(sep) == 1, z3.Length(k1) >= 1, z3.Length(k2) >= 1, z3.Not(z3.Contains(k1, sep)), z3.Not(z3.Contains(k2, sep))))
  kind, r = en.invoke(en.load_function(pu.flatten_dict), {k1: {k2: z3.Int('v')}}, sep=sep)
  if kind == 'return':
    en.ensure('canary: the flattened key equals the inner key', z3.Or(*[k == k2 for k in r[0]]))


def replay_roundtrip(w):
  """Rebuilds the dictionary from the counter-model's key strings and runs the real functions."""
  from dinosaur import pytree_utils as pu
  sep = w.get('separator', w.get('sep'))
  if not isinstance(sep, str) or sep == '':
    return False, 'counter-model has no concrete separator'
  shape_name = w.get('_shape')
  tried = []
  for name, shape in _shapes().items():
    if shape_name and name != shape_name:
      continue

    def build(sh):
      if sh == 'v':
        return 1
      return {str(w.get(k, k)): build(v) for k, v in sh.items()}
    d = build(shape)
    try:
      flat, empty = pu.flatten_dict(d, sep=sep)
      back = pu.unflatten_dict(flat, empty, sep=sep)
    except Exception as e:  # pylint: disable=broad-except
      tried.append(f'{d!r} sep={sep!r}: raised {type(e).__name__}: {e}')
      if not any(sep in k for k in _all_keys(d)):
        return True, tried[-1]
      continue
    tried.append(f'{d!r} sep={sep!r} -> flat {flat!r}, empty {empty!r} -> {back!r}')
    if back != d:
      return True, tried[-1]
  return False, '; '.join(tried)[:800]


def _all_keys(d):
  for k, v in d.items():
    yield k
    if isinstance(v, dict):
      yield from _all_keys(v)


def run_shapes(contract, min_obl, shapes=None, finding_key=None, **kw):
  """finding_key: the clause states a hypothesis set under which the property is *known* not to hold (recorded finding): every refuted
  obligation is reported under that one key, and paths the solvers could not decide are not reported once a refutation exists."""
  def run(ctx):
    from vlib.core import Outcome
    total = Outcome()
    for name in (shapes or _shapes()):
      o = run_contract((lambda en, n=name: contract(en, shape_name=n, **kw)), min_obligations=min_obl, setup=_setup, timeout_ms=30000, max_paths=3000)
      for f in o.failures:
        f.obligation = f'{name}: {f.obligation}'
        if isinstance(f.witness, dict):
          f.witness['_shape'] = name
      o.undecided = [f'{name}: {u}' for u in o.undecided]
      if finding_key and o.failures:
        for f in o.failures:
          f.key = finding_key
        o.obligations -= len(o.undecided)
        o.undecided = []
        o.status = 'fail'
      total.merge(o)
    return total
  return run


def lemma_first_occurrence(en: E.Engine):
  a, rest, sep = en.string('a'), en.string('rest'), en.string('separator')
  en.assume(z3.And(z3.Length(sep) == 1, z3.Not(z3.Contains(a, sep))))
  en.cover('lemma hypotheses')
  en.ensure('L1: indexof(a ++ sep ++ rest, sep, 0) == len(a) for a one-character separator and separator-free a',
            z3.IndexOf(z3.Concat(a, sep, rest), sep, z3.IntVal(0)) == z3.Length(a))
  b = en.string('b')
  en.assume(z3.Not(z3.Contains(b, sep)))
  en.ensure('L1: a separator-free string has no occurrence (indexof < 0) and splits into itself', z3.IndexOf(b, sep, z3.IntVal(0)) < 0)
  en.ensure('L1: the remainder after the first occurrence is exactly `rest`',
            z3.SubString(z3.Concat(a, sep, rest), z3.Length(a) + 1, z3.Length(z3.Concat(a, sep, rest)) - z3.Length(a) - 1) == rest)


def clauses():
  fns = [PU + 'flatten_dict', PU + 'unflatten_dict']
  only = lambda names: (lambda f: f)
  return [
      Clause('lemma:first occurrence of a one-character separator in a ++ sep ++ rest is at len(a) (string lemma used by the split contract)', 'smt', fns[1:],
             lambda ctx: run_contract(lemma_first_occurrence, min_obligations=3, timeout_ms=60000), group='pyvc-d'),
      Clause('smt:flatten/unflatten round trip for all non-empty separator-free keys and single-character separators (every shape of depth <= 3)', 'smt', fns,
             run_shapes(roundtrip_contract, 2, nonempty=True, single_char_sep=True), replay=replay_roundtrip, group='pyvc-a'),
      Clause('smt:flatten/unflatten round trip for separators of any length', 'smt', fns,
             run_shapes(roundtrip_contract, 2, shapes=['depth2: {k1: {k2: v}}'], nonempty=True, single_char_sep=False,
                        finding_key='multi-character separator overlapping a key boundary breaks the round trip'), replay=replay_roundtrip, group='pyvc-b'),
      Clause('smt:flatten/unflatten round trip with possibly empty keys', 'smt', fns,
             run_shapes(roundtrip_contract, 2, shapes=['depth2: {k1: {k2: v}}', 'depth2: {k1: {k2: v, k3: {}}, k4: v}'], nonempty=False, single_char_sep=True,
                        finding_key="a non-empty sub-dictionary under the key '' loses its nesting level (`if prefix`)"),
             replay=replay_roundtrip, group='pyvc-c'),
      Clause('smt:flatten_dict raises ValueError iff a key contains the separator', 'smt', fns[:1], run_shapes(raises_contract, 2), replay=replay_roundtrip, group='pyvc-d'),
      Clause('canary:flattened key equals the inner key must fail', 'smt', fns[:1],
             lambda ctx: run_contract(canary_contract, min_obligations=1, setup=_setup), canary=True, group='pyvc-d'),
  ]
