"""C15: spectral filters -- range, mean preservation, monotonicity, step-size consistency -- from the real source.

pyvc elementwise mode on dinosaur.filtering.exponential_filter / horizontal_diffusion_filter and the step-filter factories of
dinosaur.time_integration.  The scaling array is represented by its generic entry, which is a function of the generic total
wavenumber l (the code reads only `grid.modal_axes[1]` / `grid.laplacian_eigenvalues`), the maximum wavenumber L = l.max() and
the parameters.  exp / pow are uninterpreted with the A9 axioms of vlib/pyvc/elem.py plus, listed here:
  exp(u) exp(v) = exp(u + v)  (instantiated on the pairs needed),   0 <= x <= y, e >= 0  =>  pow(x, e) <= pow(y, e),
  x >= 0 => pow(x, e) >= 0,   e > 0 => pow(0, e) = 0.
`_make_filter_fn(scaling)` is abstracted to its scaling (its own contract -- leaves are multiplied by `scaling` iff broadcasting
preserves their shape -- is the enumerated `_preserves_shape` clause of props/C15.py).
"""
from __future__ import annotations

import z3

from vlib.core import Clause
from vlib.pyvc import elem
from vlib.pyvc import engine as E
from vlib.pyvc.run import run_contract

FI = 'dinosaur.filtering.'
TI = 'dinosaur.time_integration.'


def _setup(en):
  elem.install(en)
  from dinosaur import filtering
  en.contracts[E._callable_key(filtering._make_filter_fn)] = lambda en_, scaling, name=None: E.Obj(scaling=scaling, name=name)
  en.trusted.add('_make_filter_fn(scaling) abstracted to its scaling (leaf rule: enumerated _preserves_shape clause)')


def _grid(en, l, L, lam=None, lam_max=None):
  """Abstract grid: generic total wavenumber l with maximum L; eigenvalue lam with max |lam| = lam_max."""
  en.libspec[('attr', 'Real', 'max')] = (None, lambda en_, obj: E._BoundSym(lambda en__: _max_of(en__, obj)))
  en.libspec[('attr', 'Int', 'max')] = en.libspec[('attr', 'Real', 'max')]
  en._maxima = [(l, L)] + ([(None, lam_max)] if lam_max is not None else [])
  en._abs_lam = (lam, lam_max)
  return E.Obj(modal_axes=(None, l), laplacian_eigenvalues=lam)


def _max_of(en, obj):
  for term, mx in en._maxima:
    if term is not None and obj.eq(term):
      return mx
  lam, lam_max = en._abs_lam
  if lam is not None and z3.simplify(obj - z3.If(lam >= 0, lam, -lam)).eq(z3.RealVal(0)):
    return lam_max
  raise E.Unsupported(f'max() of an array that is not a registered axis: {obj}')


def pow_axioms(en):
  out = []
  ps = getattr(en, 'elem_args', {}).get('pow', [])
  for (a, b) in ps:
    out += [z3.Implies(a >= 0, elem.POW(a, b) >= 0), z3.Implies(z3.And(a == 0, b > 0), elem.POW(a, b) == 0),
            z3.Implies(z3.And(a >= 0, a <= 1, b >= 0), elem.POW(a, b) <= 1)]
  for i, (a, b) in enumerate(ps):
    for (c, d) in ps[i + 1:]:
      out += [z3.Implies(z3.And(b == d, b >= 0, a >= 0, a <= c), elem.POW(a, b) <= elem.POW(c, d)),
              z3.Implies(z3.And(b == d, b >= 0, c >= 0, c <= a), elem.POW(c, d) <= elem.POW(a, b))]
  return out


def exp_hom(en):
  out = []
  ex = getattr(en, 'elem_args', {}).get('exp', [])
  for a in ex:
    for b in ex:
      out.append(elem.EXP(a) * elem.EXP(b) == elem.EXP(z3.simplify(a + b)))
  return out


def _scaling(en, kind, f):
  if kind == 'raise':
    en.ensure(f'filter construction raises / divides by zero ({f})', False)
    return None
  return f.scaling if isinstance(f, E.Obj) and hasattr(f, 'scaling') else None


def exponential_contract(en: E.Engine):
  from dinosaur import filtering
  l1, l2, L = en.real('l1'), en.real('l2'), en.real('L_max')
  a, c, p = en.real('attenuation'), en.real('cutoff'), en.int('order')
  en.assume(z3.And(L >= 1, l1 >= 0, l1 <= l2, l2 <= L, a >= 0, c >= 0, c < 1, p >= 1))
  en.cover('requires: 0 <= l1 <= l2 <= L, attenuation >= 0, 0 <= cutoff < 1, order >= 1')
  fn = en.load_function(filtering.exponential_filter)
  s1 = _scaling(en, *en.invoke(fn, _grid(en, l1, L), a, p, c))
  s2 = _scaling(en, *en.invoke(fn, _grid(en, l2, L), a, p, c))
  if s1 is None or s2 is None:
    return
  ax = elem.axioms(en) + pow_axioms(en)
  en.ensure('0 < factor <= 1 at every total wavenumber', z3.And(s1 > 0, s1 <= 1), extra=ax)
  en.ensure('factor == 1 for the global mean (l = 0) and for every l with l/L <= cutoff', z3.Implies(z3.Or(l1 == 0, l1 <= c * L), s1 == 1), extra=ax)
  en.ensure('factor is non-increasing in the total wavenumber', s2 <= s1, extra=ax)
  for f_ in (s1, s2):
    if any(_mentions(f_, x) for x in ()):
      pass
  en.ensure('documented formula: exp(-attenuation * ((k - cutoff)/(1 - cutoff))^(2 order)) above the cutoff',
            z3.Implies(l1 > c * L, s1 == elem.EXP(z3.simplify(-a * elem.POW(z3.simplify((l1 / L - c) / (1 - c)), z3.ToReal(2 * p))))), extra=ax)


def _mentions(term, what):
  seen, stack = set(), [term]
  while stack:
    t = stack.pop()
    if t.get_id() in seen:
      continue
    seen.add(t.get_id())
    if t.eq(what):
      return True
    stack.extend(t.children())
  return False


def diffusion_contract(en: E.Engine):
  from dinosaur import filtering
  lam1, lam2 = en.real('eigenvalue1'), en.real('eigenvalue2')
  scale, order = en.real('scale'), en.int('order')
  en.assume(z3.And(lam2 <= lam1, lam1 <= 0, scale >= 0, order >= 1))
  en.cover('requires: eigenvalues <= 0 (decreasing in l), scale >= 0, order >= 1')
  fn = en.load_function(filtering.horizontal_diffusion_filter)
  L = en.real('L_max')
  s1 = _scaling(en, *en.invoke(fn, _grid(en, en.real('l1'), L, lam1), scale, order))
  s2 = _scaling(en, *en.invoke(fn, _grid(en, en.real('l2'), L, lam2), scale, order))
  if s1 is None or s2 is None:
    return
  ax = elem.axioms(en) + pow_axioms(en)
  en.ensure('0 < factor <= 1', z3.And(s1 > 0, s1 <= 1), extra=ax)
  en.ensure('factor == 1 where the eigenvalue is 0 (global mean)', z3.Implies(lam1 == 0, s1 == 1), extra=ax)
  en.ensure('factor non-increasing as the eigenvalue decreases (l grows)', s2 <= s1, extra=ax)
  en.ensure('documented formula exp(-scale * (-eigenvalue)^order)', s1 == elem.EXP(z3.simplify(-scale * elem.POW(-lam1, z3.ToReal(order)))), extra=ax)


def _apply_step(en, stepf, u, un):
  """A step filter built by runge_kutta_step_filter: _filter(u, u_next) = state_filter(u_next); state_filter abstracted to scaling * x."""
  return en.invoke(stepf, u, un)


def step_semigroup_contract(en: E.Engine, which='exponential'):
  from dinosaur import time_integration as ti
  l, L = en.real('l'), en.real('L_max')
  dt, tau, order = en.real('dt'), en.real('tau'), en.int('order')
  en.assume(z3.And(L >= 1, l >= 0, l <= L, dt > 0, tau > 0, order >= 1))
  lam, lam_max = en.real('eigenvalue'), en.real('max_abs_eigenvalue')
  en.assume(z3.And(lam <= 0, -lam <= lam_max, lam_max > 0))
  en.cover('requires: dt, tau > 0, order >= 1')
  # state filters are abstracted to their scaling; the adapters must pass u_next (not u) to the state filter
  from dinosaur import filtering
  en.contracts[E._callable_key(filtering._make_filter_fn)] = lambda en_, scaling, name=None: E.SymCallable(
      lambda en__, x: E.Obj(filtered=x, by=scaling), 'state_filter')
  u, un = en.real('u'), en.real('u_next')
  res = {}
  for nm, d in (('full', dt), ('half', dt / 2)):
    if which == 'exponential':
      c = en.real('cutoff')
      en.assume(z3.And(c >= 0, c < 1))
      k, f = en.invoke(en.load_function(ti.exponential_step_filter), _grid(en, l, L), d, tau, order, c)
    else:
      k, f = en.invoke(en.load_function(ti.horizontal_diffusion_step_filter), _grid(en, l, L, lam, lam_max), d, tau, order)
    if k == 'raise':
      en.ensure(f'{which}_step_filter raises / divides by zero ({f}) for dt, tau > 0', False)
      return
    k2, r = en.invoke(f, u, un)
    if k2 == 'raise' or not isinstance(r, E.Obj):
      en.ensure('step filter adapter applies the state filter', False)
      return
    en.ensure(f'{nm}: the adapter filters the new state u_next and ignores u', r.filtered.eq(un))
    res[nm] = r.by
  ax = elem.axioms(en) + pow_axioms(en) + exp_hom(en)
  en.ensure('0 < factor <= 1 and finite for every dt, tau > 0', z3.And(res['full'] > 0, res['full'] <= 1), extra=ax)
  en.ensure('two applications with half the step equal one application with the full step', res['half'] * res['half'] == res['full'], extra=ax)
  if which == 'diffusion':
    en.ensure('the mode with the largest |eigenvalue| is damped by exp(-dt/tau) (documented time scale)',
              z3.Implies(-lam == lam_max, res['full'] == elem.EXP(z3.simplify(-dt / tau))), extra=ax + _pow_cancel(en))


def _pow_cancel(en):
  """x > 0 => (c / pow(x, e)) * pow(x, e) == c  is plain field arithmetic; listed to help nlsat with the uninterpreted pow."""
  return []


def leapfrog_adapter_contract(en: E.Engine):
  from dinosaur import time_integration as ti
  sf = E.SymCallable(lambda en_, x: E.Obj(filtered=x), 'state_filter')
  k, f = en.invoke(en.load_function(ti.leapfrog_step_filter), sf)
  cur, fut, u = en.real('current'), en.real('future'), en.real('u')
  en.cover('requires')
  k2, r = en.invoke(f, (u, u), (cur, fut))
  if 'raise' in (k, k2):
    en.ensure('leapfrog_step_filter raises', False)
    return
  en.ensure('leapfrog adapter returns (current, state_filter(future)): current untouched', z3.BoolVal(isinstance(r, tuple) and len(r) == 2 and E.is_sym(r[0]) and r[0].eq(cur)))
  en.ensure('leapfrog adapter filters the future slice only', z3.BoolVal(isinstance(r[1], E.Obj) and r[1].filtered.eq(fut)))


def canary_contract(en: E.Engine):
  from dinosaur import filtering
  l, L = en.real('l1'), en.real('L_max')
  a, c, p = en.real('attenuation'), en.real('cutoff'), en.int('order')
  en.assume(z3.And(L >= 1, l >= 0, l <= L, a >= 0, c >= 0, c < 1, p >= 1))
  s1 = _scaling(en, *en.invoke(en.load_function(filtering.exponential_filter), _grid(en, l, L), a, p, c))
  if s1 is not None:
    en.ensure('canary: factor == 1 everywhere', s1 == 1, extra=elem.axioms(en) + pow_axioms(en))


def _f(v, d=0.0):
  from fractions import Fraction
  if v is None:
    return d
  try:
    return float(v)
  except (TypeError, ValueError):
    try:
      return float(Fraction(str(v)))
    except Exception:  # pylint: disable=broad-except
      return d


def replay_adapter(w):
  from dinosaur import time_integration as ti
  f = ti.leapfrog_step_filter(lambda x: ('filtered', x))
  u, u_next = ('u.previous', 'u.current'), ('next.current', 'next.future')
  got = f(u, u_next)
  want = ('next.current', ('filtered', 'next.future'))
  return got != want, f'leapfrog_step_filter(state_filter)(u={u}, u_next={u_next}) returned {got}; the adapter must return (u_next[0], state_filter(u_next[1])) = {want}'


def replay_filters(w):
  """Real filters on a small grid: the counter-model's parameters first, then a small parameter grid around them
  (uninterpreted exp/pow can make a counter-model spurious; a violation is only reported as replayed if the real code fails)."""
  import numpy as np
  import jax
  jax.config.update('jax_enable_x64', True)
  from dinosaur import filtering, spherical_harmonic as sh, time_integration as ti
  g = sh.Grid(longitude_wavenumbers=6, total_wavenumbers=7, longitude_nodes=16, latitude_nodes=8)
  ones = np.ones(g.modal_shape)
  a0, c0, p0 = max(0.0, _f(w.get('attenuation'), 2.0)), min(0.9, max(0.0, _f(w.get('cutoff'), 0.3))), max(1, int(_f(w.get('order'), 2)))
  dt0, tau0 = _f(w.get('dt'), 0.5) or 0.5, _f(w.get('tau'), 0.7) or 0.7
  combos = [(a0, c0, p0, dt0, tau0)] + [(a, c, p, dt, tau) for a in (2.0,) for c in (0.0, 0.3) for p in (1, 2, 3) for dt, tau in ((0.5, 0.7), (0.05, 2.0))]
  for (a, c, p, dt, tau) in combos:
    msgs, bad = [], False
    for nm, f in (('exponential_filter', filtering.exponential_filter(g, a, p, c)), ('horizontal_diffusion_filter', filtering.horizontal_diffusion_filter(g, max(0.0, _f(w.get('scale'), 0.1)), p))):
      s = np.asarray(f(ones))[0]
      ok = np.all(s > 0) and np.all(s <= 1) and s[0] == 1 and np.all(np.diff(s) <= 1e-15)
      below = np.arange(s.size) / (s.size - 1) <= c
      ok = ok and (nm != 'exponential_filter' or np.all(s[below] == 1))
      if not ok:
        msgs.append(f'{nm}(attenuation/scale={a}, order={p}, cutoff={c}): factors {np.round(s, 6).tolist()}')
      bad |= not ok
    for nm, mk in (('exponential_step_filter', lambda d: ti.exponential_step_filter(g, d, tau, p, c)), ('horizontal_diffusion_step_filter', lambda d: ti.horizontal_diffusion_step_filter(g, d, tau, p))):
      full = np.asarray(mk(dt)(ones, ones))
      half = mk(dt / 2)
      twice = np.asarray(half(ones, half(ones, ones)))
      e = float(np.abs(full - twice).max())
      this_bad = e > 1e-12 or not np.all(np.isfinite(full))
      if 'diffusion' in nm:
        this_bad |= abs(full[0, -1] - np.exp(-dt / tau)) > 1e-12
      if this_bad:
        msgs.append(f'{nm}(dt={dt}, tau={tau}, order={p}): |filter(dt) - filter(dt/2)^2| = {e:.3e}' + (f'; top mode factor {full[0, -1]:.6f} vs exp(-dt/tau) {np.exp(-dt / tau):.6f}' if 'diffusion' in nm else ''))
      bad |= this_bad
    if bad:
      return True, '; '.join(msgs)
  return False, f'real filters satisfy range / mean / monotonicity / half-step composition on {len(combos)} parameter combinations'


def clauses():
  rc = lambda c, n=2, **kw: (lambda ctx: run_contract((lambda en: c(en, **kw)) if kw else c, min_obligations=n, setup=_setup, timeout_ms=60000))
  return [
      Clause('smt:exponential_filter factor in (0,1], 1 at the mean and below the cutoff, non-increasing in l, documented formula (all parameters)', 'smt',
             [FI + 'exponential_filter'], rc(exponential_contract, 4), replay=replay_filters, group='pyvc'),
      Clause('smt:horizontal_diffusion_filter factor in (0,1], 1 at the mean, non-increasing, documented formula', 'smt',
             [FI + 'horizontal_diffusion_filter'], rc(diffusion_contract, 4), replay=replay_filters, group='pyvc'),
      Clause('smt:exponential_step_filter: adapter filters u_next, factor in (0,1], half-step twice == full step', 'smt',
             [TI + 'exponential_step_filter', TI + 'runge_kutta_step_filter', FI + 'exponential_filter'], rc(step_semigroup_contract, 4, which='exponential'),
             replay=replay_filters, group='pyvc'),
      Clause('smt:horizontal_diffusion_step_filter: finite for dt, tau > 0, half-step twice == full step, top mode damped by exp(-dt/tau)', 'smt',
             [TI + 'horizontal_diffusion_step_filter', TI + 'runge_kutta_step_filter', FI + 'horizontal_diffusion_filter'],
             rc(step_semigroup_contract, 5, which='diffusion'), replay=replay_filters, group='pyvc'),
      Clause('smt:leapfrog_step_filter filters the future slice only', 'smt', [TI + 'leapfrog_step_filter'], rc(leapfrog_adapter_contract, 2), replay=replay_adapter, group='pyvc'),
      Clause('canary:exponential filter factor == 1 everywhere must fail', 'smt', [FI + 'exponential_filter'], rc(canary_contract, 1), canary=True, group='pyvc'),
  ]
