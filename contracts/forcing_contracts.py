"""C20 (and C18 phase reduction): sidecar contracts for dinosaur.radiation and dinosaur.held_suarez.

Discharged by pyvc in *elementwise mode* (vlib/pyvc/elem.py): the bodies of these functions are
broadcasting arithmetic, so arrays are represented by their generic entry and the statements hold for
every entry of every array shape.  sin/cos/exp/log/pow are uninterpreted; the axioms used are listed
in elem.py (A9) and instantiated on the arguments that occur.  Floats are reals (A1).

Post-conditions are taken from the property statement:
  flux >= 0; flux <= mean + variation (perihelion constant); flux == 0 where sin(altitude) <= 0;
  flux is periodic in the orbital and in the synodic phase (period P = 2*pi, the period of sin/cos);
  the normalised flux is the same function of (mean, variation)/(mean+variation), hence <= 1;
  time_to_orbital_time reduces both phases to [0, 2*pi_float) and changes them by a multiple of 2*pi_float;
  kv >= 0, kv == 0 for sigma <= sigma_b; kt is a convex combination of ka and ks (>= 0 when both are);
  equilibrium_temperature >= minT.
"""
from __future__ import annotations

import math

import z3

from vlib.core import Clause
from vlib.pyvc import elem
from vlib.pyvc import engine as E
from vlib.pyvc.run import run_contract

RAD = 'dinosaur.radiation.'
HS = 'dinosaur.held_suarez.HeldSuarezForcing.'


def _setup(en):
  elem.install(en)


def _orbital(en, suffix=''):
  return E.Struct(orbital_phase=en.real('orbital_phase' + suffix), synodic_phase=en.real('synodic_phase' + suffix))


def _mentions(term, what):
  """True if `what` (a constant or a function declaration) occurs in term."""
  seen = set()
  stack = [term]
  while stack:
    t = stack.pop()
    if t.get_id() in seen:
      continue
    seen.add(t.get_id())
    if z3.is_app(t):
      if isinstance(what, z3.FuncDeclRef):
        if t.decl().eq(what):
          return True
      elif t.eq(what):
        return True
      stack.extend(t.children())
  return False


def _finite_or_fail(en, kind, val, what):
  if kind == 'raise':
    en.ensure(f'{what}: no exception / non-finite value ({val})', False)
    return False
  return True


# ---- radiation --------------------------------------------------------------------------------------


def flux_bounds_contract(en: E.Engine):
  from dinosaur import radiation as rad
  ot = _orbital(en)
  lon, lat = en.real('longitude'), en.real('latitude')
  mean, var = en.real('mean_irradiance'), en.real('variation')
  en.assume(z3.And(var >= 0, mean >= var))
  en.cover('requires: mean >= variation >= 0')
  kind, flux = en.invoke(en.load_function(rad.get_radiation_flux), ot, lon, lat, mean_irradiance=mean, variation=var)
  if not _finite_or_fail(en, kind, flux, 'get_radiation_flux'):
    return
  ax = elem.axioms(en)
  kind2, sa = en.invoke(en.load_function(rad.get_solar_sin_altitude), ot.orbital_phase, ot.synodic_phase, lon, lat)
  ax = elem.axioms(en)
  co = elem.COS(z3.simplify(ot.orbital_phase - E.to_z3(float(rad.PERIHELION))))
  # lemmas (each its own obligation), then the property clauses over the abstracted atoms x = sin altitude, c = cos(orbital - perihelion)
  en.ensure('lemma: |sin(solar altitude)| <= 1 (Cauchy-Schwarz from sin^2 + cos^2 = 1)', z3.And(sa <= 1, sa >= -1), extra=ax)
  en.ensure('lemma: |cos(orbital phase - perihelion)| <= 1', z3.And(co <= 1, co >= -1), extra=ax)
  x, c = z3.Real('x_sin_altitude'), z3.Real('c_cos_orbital')
  fa = z3.substitute(flux, (sa, x), (co, c))
  if not (_mentions(fa, x) and _mentions(fa, c)) or _mentions(fa, elem.SIN) or _mentions(fa, elem.COS):
    en.ensure('flux is a function of (sin altitude, cos(orbital - perihelion), mean, variation) only', False)
    return
  hyp = z3.And(x >= -1, x <= 1, c >= -1, c <= 1)
  en.ensure('flux >= 0', z3.Implies(hyp, fa >= 0))
  en.ensure('flux <= mean + variation (perihelion solar constant)', z3.Implies(hyp, fa <= mean + var))
  en.ensure('flux == 0 wherever the sun is below the horizon (sin altitude <= 0)', z3.Implies(z3.And(hyp, x <= 0), fa == 0))
  en.ensure('flux == irradiance(orbital phase) * max(0, sin altitude)', z3.Implies(hyp, fa == (mean + var * c) * z3.If(x > 0, x, 0)))


def flux_periodic_contract(en: E.Engine):
  from dinosaur import radiation as rad
  P = en.real('two_pi')
  en.assume(P > 0)
  en.period = P          # sin/cos arguments are reduced by integer multiples of P (the defining property of the period)
  ot = _orbital(en)
  lon, lat = en.real('longitude'), en.real('latitude')
  mean, var = en.real('mean_irradiance'), en.real('variation')
  f = en.load_function(rad.get_radiation_flux)
  k0, f0 = en.invoke(f, ot, lon, lat, mean_irradiance=mean, variation=var)
  k1, f1 = en.invoke(f, E.Struct(orbital_phase=ot.orbital_phase + P, synodic_phase=ot.synodic_phase), lon, lat,
                     mean_irradiance=mean, variation=var)
  k2, f2 = en.invoke(f, E.Struct(orbital_phase=ot.orbital_phase, synodic_phase=ot.synodic_phase + P), lon, lat,
                     mean_irradiance=mean, variation=var)
  k3, f3 = en.invoke(f, ot, lon + P, lat, mean_irradiance=mean, variation=var)
  if 'raise' in (k0, k1, k2, k3):
    en.ensure('get_radiation_flux: no exception / non-finite value', False)
    return
  en.cover('requires')
  en.ensure('flux(orbital + 2pi, synodic) == flux(orbital, synodic)', f1 == f0)
  en.ensure('flux(orbital, synodic + 2pi) == flux(orbital, synodic)', f2 == f0)
  en.ensure('flux(longitude + 2pi) == flux(longitude)', f3 == f0)
  en.ensure('non-vacuity: the flux depends on the phases', z3.Not(z3.And(_mentions(f0, ot.orbital_phase), _mentions(f0, ot.synodic_phase))) == False)


def normalized_flux_contract(en: E.Engine):
  from dinosaur import radiation as rad
  ot = _orbital(en)
  lon, lat = en.real('longitude'), en.real('latitude')
  mean, var = en.real('mean_irradiance'), en.real('variation')
  en.assume(z3.And(var >= 0, mean >= var, mean > 0))
  en.cover('requires: mean >= variation >= 0, mean > 0')
  kind, nf = en.invoke(en.load_function(rad.get_normalized_radiation_flux), ot, lon, lat, mean_irradiance=mean, variation=var)
  if not _finite_or_fail(en, kind, nf, 'get_normalized_radiation_flux'):
    return
  kind, fl = en.invoke(en.load_function(rad.get_radiation_flux), ot, lon, lat, mean_irradiance=mean, variation=var)
  kind2, sa = en.invoke(en.load_function(rad.get_solar_sin_altitude), ot.orbital_phase, ot.synodic_phase, lon, lat)
  co = elem.COS(z3.simplify(ot.orbital_phase - E.to_z3(float(rad.PERIHELION))))
  x, c = z3.Real('x_sin_altitude'), z3.Real('c_cos_orbital')
  nfa, fla = z3.substitute(nf, (sa, x), (co, c)), z3.substitute(fl, (sa, x), (co, c))
  if _mentions(nfa, elem.SIN) or _mentions(nfa, elem.COS) or not _mentions(nfa, x):
    en.ensure('normalized flux is a function of (sin altitude, cos(orbital - perihelion), mean, variation) only', False)
    return
  hyp = z3.And(x >= -1, x <= 1, c >= -1, c <= 1)      # the two lemmas of the flux-bounds clause
  en.ensure('0 <= normalized flux <= 1', z3.Implies(hyp, z3.And(nfa >= 0, nfa <= 1)))
  en.ensure('normalized flux * (mean + variation) == flux', z3.Implies(hyp, nfa * (mean + var) == fla))


def irradiance_contract(en: E.Engine):
  from dinosaur import radiation as rad
  o = en.real('orbital_phase')
  mean, var, per = en.real('mean_irradiance'), en.real('variation'), en.real('perihelion')
  en.assume(z3.And(var >= 0, mean >= var))
  kind, s = en.invoke(en.load_function(rad.get_direct_solar_irradiance), o, mean, var, per)
  if not _finite_or_fail(en, kind, s, 'get_direct_solar_irradiance'):
    return
  ax = elem.axioms(en)
  en.cover('requires')
  en.ensure('mean - variation <= irradiance <= mean + variation', z3.And(s >= mean - var, s <= mean + var), extra=ax)
  kind, s0 = en.invoke(en.load_function(rad.get_direct_solar_irradiance), per, mean, var, per)
  en.ensure('irradiance at perihelion == mean + variation (cos 0 = 1)', s0 == mean + var, extra=elem.axioms(en))


def orbital_reduction_contract(en: E.Engine):
  """SolarRadiation.time_to_orbital_time: both phases reduced to [0, 2pi), congruent to ref + rate*t (reals, A1)."""
  from dinosaur import radiation as rad
  time = en.real('time')
  ref = E.Struct(orbital_phase=en.real('ref_orbital'), synodic_phase=en.real('ref_synodic'))
  rate = E.Struct(orbital_phase=en.real('rate_orbital'), synodic_phase=en.real('rate_synodic'))
  self = E.Obj(reference_orbital_time=ref, orbital_rate=rate)
  tp = E.to_z3(2 * math.pi)
  en.assume(z3.And(ref.orbital_phase >= 0, ref.orbital_phase < tp, ref.synodic_phase >= 0, ref.synodic_phase < tp))   # datetime_to_orbital_time
  en.cover('requires: reference phases in [0, 2pi)')
  kind, ot = en.invoke(en.load_function(rad.SolarRadiation.time_to_orbital_time), self, time)
  if not _finite_or_fail(en, kind, ot, 'time_to_orbital_time'):
    return
  twopi = E.to_z3(2 * math.pi)
  for f in ('orbital_phase', 'synodic_phase'):
    raw = getattr(ref, f) + getattr(rate, f) * time
    got = getattr(ot, f)
    en.ensure(f'{f}: 0 <= reduced phase < 2*pi', z3.And(got >= 0, got < twopi))
    n = z3.Int('n_' + f)
    en.ensure(f'{f}: reduced phase == ref + rate*time - n*2*pi for an integer n (consistent with elapsed time)',
              z3.Exists([n], got == raw - z3.ToReal(n) * twopi))


# ---- Held-Suarez -------------------------------------------------------------------------------------


def _hs_self(en):
  sigma, sigma_b = en.real('sigma'), en.real('sigma_b')
  from dinosaur import held_suarez as _hs
  self = E.Obj(class_ref=_hs.HeldSuarezForcing, sigma=sigma, sigma_b=sigma_b, kf=en.real('kf'), ka=en.real('ka'), ks=en.real('ks'), lat=en.real('lat'),
               p0=en.real('p0'), minT=en.real('minT'), maxT=en.real('maxT'), dTy=en.real('dTy'), dThz=en.real('dThz'),
               physics_specs=E.Obj(kappa=en.real('kappa')))
  en.assume(z3.And(sigma > 0, sigma < 1, sigma_b >= 0, sigma_b < 1))
  return self


def kv_contract(en: E.Engine):
  from dinosaur import held_suarez as hs
  self = _hs_self(en)
  en.assume(self.kf >= 0)
  en.cover('requires: 0 < sigma < 1, 0 <= sigma_b < 1, kf >= 0')
  kind, kv = en.invoke(en.load_function(hs.HeldSuarezForcing.kv), self)
  if not _finite_or_fail(en, kind, kv, 'kv'):
    return
  en.ensure('kv >= 0', kv >= 0)
  en.ensure('kv == 0 above the boundary layer (sigma <= sigma_b)', z3.Implies(self.sigma <= self.sigma_b, kv == 0))
  en.ensure('kv == kf * (sigma - sigma_b)/(1 - sigma_b) inside the boundary layer',
            z3.Implies(self.sigma > self.sigma_b, kv == self.kf * (self.sigma - self.sigma_b) / (1 - self.sigma_b)))
  en.ensure('kv <= kf', kv <= self.kf)


def kt_contract(en: E.Engine):
  from dinosaur import held_suarez as hs
  self = _hs_self(en)
  en.assume(self.kf >= 0)                # kf = 0 (no friction) is an admissible forcing parameter
  en.cover('requires: 0 < sigma < 1, 0 <= sigma_b < 1, kf >= 0')
  kind, kt = en.invoke(en.load_function(hs.HeldSuarezForcing.kt), self)
  if not _finite_or_fail(en, kind, kt, 'kt (for every kf >= 0, ka, ks)'):
    return
  ax = elem.axioms(en)
  lo = z3.If(self.ka <= self.ks, self.ka, self.ks)
  hi = z3.If(self.ka <= self.ks, self.ks, self.ka)
  en.ensure('min(ka, ks) <= kt <= max(ka, ks) (convex combination)', z3.And(kt >= lo, kt <= hi), extra=ax)
  en.ensure('ka, ks >= 0 => kt >= 0', z3.Implies(z3.And(self.ka >= 0, self.ks >= 0), kt >= 0), extra=ax)
  en.ensure('kt == ka above the boundary layer', z3.Implies(self.sigma <= self.sigma_b, kt == self.ka), extra=ax)
  c = elem.COS(self.lat)
  en.ensure('kt == ka + (ks - ka) * max(0, (sigma - sigma_b)/(1 - sigma_b)) * cos(lat)^4',
            kt == self.ka + (self.ks - self.ka) * z3.If(self.sigma > self.sigma_b, (self.sigma - self.sigma_b) / (1 - self.sigma_b), 0) * c * c * c * c,
            extra=ax)


def teq_contract(en: E.Engine):
  from dinosaur import held_suarez as hs
  self = _hs_self(en)
  ps = en.real('nodal_surface_pressure')
  en.assume(z3.And(ps > 0, self.p0 > 0))
  en.cover('requires: surface pressure > 0, p0 > 0')
  kind, teq = en.invoke(en.load_function(hs.HeldSuarezForcing.equilibrium_temperature), self, ps)
  if not _finite_or_fail(en, kind, teq, 'equilibrium_temperature'):
    return
  ax = elem.axioms(en)
  en.ensure('equilibrium temperature >= minT (its floor)', teq >= self.minT, extra=ax)
  p = self.sigma * ps / self.p0
  s, c = elem.SIN(self.lat), elem.COS(self.lat)
  en.ensure('equilibrium temperature == max(minT, (p/p0)^kappa * (maxT - dTy sin^2 - dThz log(p/p0) cos^2))',
            teq == z3.If(self.minT >= elem.POW(p, self.physics_specs.kappa) * (self.maxT - self.dTy * s * s - self.dThz * elem.LOG(p) * c * c),
                         self.minT,
                         elem.POW(p, self.physics_specs.kappa) * (self.maxT - self.dTy * s * s - self.dThz * elem.LOG(p) * c * c)),
            extra=ax)


def canary_contract(en: E.Engine):
  """Deliberately false: the direct irradiance never exceeds its mean (ignores the variation).  Kept linear so that the
  refutation is immediate and stable (the earlier canary on the full flux was a non-linear sat query with unstable run time)."""
  from dinosaur import radiation as rad
  o = en.real('orbital_phase')
  mean, var, per = en.real('mean_irradiance'), en.real('variation'), en.real('perihelion')
  en.assume(z3.And(var >= 0, mean >= var))
  kind, s = en.invoke(en.load_function(rad.get_direct_solar_irradiance), o, mean, var, per)
  if kind == 'return':
    en.ensure('canary: irradiance <= mean', s <= mean, extra=elem.axioms(en))


# ---- replays (real code, floats) ------------------------------------------------------------------------


def _f(x):
  try:
    return float(x)
  except (TypeError, ValueError):
    from fractions import Fraction
    return float(Fraction(str(x)))


def replay_flux(w):
  import numpy as np
  from dinosaur import radiation as rad
  g = lambda k, d=0.0: _f(w.get(k, d)) if w.get(k) is not None else d
  ot = rad.OrbitalTime(orbital_phase=g('orbital_phase'), synodic_phase=g('synodic_phase'))
  mean, var = g('mean_irradiance', 1.0), g('variation', 0.0)
  lon, lat = g('longitude'), g('latitude')
  fl = float(rad.get_radiation_flux(ot, np.asarray(lon), np.asarray(lat), mean_irradiance=mean, variation=var))
  sa = float(rad.get_solar_sin_altitude(ot.orbital_phase, ot.synodic_phase, np.asarray(lon), np.asarray(lat)))
  bad = not (fl >= 0) or fl > (mean + var) * (1 + 1e-6) or (sa <= 0 and fl != 0)
  return bad, f'get_radiation_flux(orbital={ot.orbital_phase}, synodic={ot.synodic_phase}, lon={lon}, lat={lat}, mean={mean}, var={var}) = {fl}; sin_altitude = {sa}'


def replay_hs(w):
  import numpy as np
  from dinosaur import held_suarez as hs
  g = lambda k, d=0.0: _f(w[k]) if w.get(k) is not None else d

  s = object.__new__(hs.HeldSuarezForcing)       # real class (all methods from the source), attributes from the counter-model
  s.sigma = np.array([g('sigma', 0.9)])
  s.sigma_b, s.kf, s.ka, s.ks = g('sigma_b', 0.7), g('kf'), g('ka'), g('ks')
  s.lat = np.array([[g('lat')]])
  with np.errstate(all='ignore'):
    kv = s.kv()
    kt = s.kt()
  lo, hi = min(s.ka, s.ks), max(s.ka, s.ks)
  cut = np.maximum(0.0, (s.sigma - s.sigma_b) / (1 - s.sigma_b))
  kv_spec = s.kf * cut
  kt_spec = s.ka + (s.ks - s.ka) * cut * np.cos(g('lat')) ** 4
  tol = 1e-12 * max(1.0, abs(s.kf), abs(s.ka), abs(s.ks))
  bad = ((not np.all(np.isfinite(kt))) or (not np.all(np.isfinite(kv))) or np.any(kv < 0) or np.any(kt < lo - tol) or np.any(kt > hi + tol)
         or np.abs(np.ravel(kv) - kv_spec).max() > tol or np.abs(np.ravel(kt) - kt_spec).max() > tol)
  return bool(bad), f'sigma={s.sigma}, sigma_b={s.sigma_b}, kf={s.kf}, ka={s.ka}, ks={s.ks}, lat={s.lat.ravel()}: kv={np.ravel(kv)}, kt={np.ravel(kt)}'


def replay_orbital(w):
  import numpy as np
  from dinosaur import radiation as rad
  g = lambda k, d=0.0: _f(w[k]) if w.get(k) is not None else d
  sr = object.__new__(rad.SolarRadiation)
  sr.reference_orbital_time = rad.OrbitalTime(g('ref_orbital'), g('ref_synodic'))
  sr.orbital_rate = rad.OrbitalTime(g('rate_orbital'), g('rate_synodic'))
  t = g('time')
  ot = sr.time_to_orbital_time(t)
  o, s = float(ot.orbital_phase), float(ot.synodic_phase)
  raw = (g('ref_orbital') + g('rate_orbital') * t, g('ref_synodic') + g('rate_synodic') * t)
  tp = 2 * math.pi
  cong = [abs(((a - b) / tp) - round((a - b) / tp)) for a, b in zip((o, s), raw)]
  bad = not (0 <= o < tp and 0 <= s < tp) or max(cong) > 1e-6
  return bad, (f'time_to_orbital_time(time={t}) with reference phases ({g("ref_orbital")}, {g("ref_synodic")}) and rates '
               f'({g("rate_orbital")}, {g("rate_synodic")}) = ({o}, {s}); must lie in [0, 2pi) and be congruent to ref + rate*time')


def clauses():
  rc = lambda c, n=2: (lambda ctx: run_contract(c, min_obligations=n, setup=_setup, timeout_ms=60000))
  R = [RAD + n for n in ('get_radiation_flux', 'get_solar_sin_altitude', 'get_direct_solar_irradiance', 'get_declination',
                          'equation_of_time', 'get_hour_angle')]
  return [
      Clause('smt:radiation flux bounds, night-side zero, defining formula (all phases, places, irradiances)', 'smt', R,
             rc(flux_bounds_contract, 5), replay=replay_flux, group='pyvc'),
      Clause('smt:radiation flux periodic in orbital phase, synodic phase and longitude', 'smt', R,
             rc(flux_periodic_contract, 3), replay=replay_flux, group='pyvc'),
      Clause('smt:normalized flux in [0,1] and proportional to the flux', 'smt', R + [RAD + 'get_normalized_radiation_flux'],
             rc(normalized_flux_contract, 2), replay=replay_flux, group='pyvc'),
      Clause('smt:direct solar irradiance within mean +- variation, maximal at perihelion', 'smt', [RAD + 'get_direct_solar_irradiance'],
             rc(irradiance_contract, 2), group='pyvc'),
      Clause('smt:time_to_orbital_time reduces phases to [0, 2pi) consistently with elapsed time (reals)', 'smt',
             [RAD + 'SolarRadiation.time_to_orbital_time'], rc(orbital_reduction_contract, 4), replay=replay_orbital, group='pyvc'),
      Clause('smt:Held-Suarez kv >= 0, zero above the boundary layer', 'smt', [HS + 'kv'], rc(kv_contract, 3), replay=replay_hs, group='pyvc'),
      Clause('smt:Held-Suarez kt convex combination of ka, ks (finite for every kf >= 0)', 'smt', [HS + 'kt', HS + 'kv'], rc(kt_contract, 3),
             replay=replay_hs, group='pyvc'),
      Clause('smt:Held-Suarez equilibrium temperature >= minT and equals the documented formula', 'smt', [HS + 'equilibrium_temperature'],
             rc(teq_contract, 2), group='pyvc'),
      Clause('canary:irradiance <= mean must fail', 'smt', R, rc(canary_contract, 1), canary=True, group='pyvc'),
  ]
