"""C05 / C04: the vertical discretisation of the primitive-equation tendencies, from the real source, for every number of layers.

*Column mode.*  After `to_nodal`, every operation of the explicit tendencies that involves the vertical is pointwise in the horizontal:
the nodal fields enter as their columns at one generic grid point (vectors of symbolic length N along the vertical axis, uninterpreted
entries), horizontal factors (sec^2 lat, grad ln ps, which has a single level) as scalars.  The horizontal operators themselves
(`to_nodal`, `get_cos_lat_vector`, `cos_lat_grad`) are abstract here: their contracts are C01 / C02; what is used is only that they
return arrays of the documented shapes.  Vertical sums are ghost prefix sums  CS_y(0) = 0, CS_y(k+1) = CS_y(k) + y[k]  (one symbol per
summed vector); `_dot_cumsum` and `centered_vertical_advection` enter by their contracts (C13 / C07).

Proved for all N >= 1, all valid sigma boundaries, all columns:
  compute_diagnostic_state   u.grad(ln ps)[k] = (U[k] gx + V[k] gy) sec^2;   with G = that (explicit) or G + divergence (full):
                             sigma_dot[k] = sigma_{k+1/2} * sum_{j<N} G[j] dsigma[j] - sum_{j<=k} G[j] dsigma[j],  k = 0..N-2      (interfaces)
  _t_omega_over_sigma_sp     T[n] * ( v.grad(ln ps)[n] - (alpha[n] F[n] + alpha[n-1] F[n-1]) / dsigma[n] ),  F[n] = sum_{j<=n} G[j] dsigma[j]   (Durran 8.124)
  nodal_log_pressure_tendency  - sum_{j<N} u.grad(ln ps)[j] dsigma[j]
  temperature equation (C04) explicit vertical + adiabatic tendency + implicit temperature term, as a function of the absolute temperature
                             T = T_ref + T', is the same for any two reference profiles -- at every level, for every column.
"""
from __future__ import annotations

import z3

from contracts import sigma_contracts as SC_
from contracts import vertical_matrix_contracts as VM
from vlib.core import Clause
from vlib.pyvc import arrays, matrix, nra
from vlib.pyvc import engine as E
from vlib.pyvc.run import run_contract

PE = 'dinosaur.primitive_equations.'
B, N = SC_.B, SC_.N
d_, alpha_, c_ = VM.d_, VM.alpha_, VM.c_
F = lambda nm: z3.Function(nm, z3.IntSort(), z3.RealSort())
DIV, TV, UU, VV, VOR = F('divergence.at'), F('temperature_variation.at'), F('cos_lat_u.at'), F('cos_lat_v.at'), F('vorticity.at')
GXs, GYs, SEC2 = z3.Real('cos_lat_grad_log_sp_x'), z3.Real('cos_lat_grad_log_sp_y'), z3.Real('sec2_lat')


def gdot(k):
  """u . grad(ln ps) at level k of the column."""
  return UU(k) * GXs * SEC2 + VV(k) * GYs * SEC2


def _col(f, name):
  return E.SymSeq(N, lambda i: f(E.to_z3(i)), z3.RealSort(), name)


def ghost(en, summand):
  """The ghost prefix-sum symbol of the vector with generic entry summand(k) (shared with matrix.h_cumsum's table)."""
  kq = z3.Int('k!cs')
  key = (str(z3.simplify(summand(kq), som=True, sort_sums=True)), str(z3.simplify(N)))
  table = en.__dict__.setdefault('ghost_sum_table', {})
  if key not in table:
    CS = table[key] = z3.Function(en.fresh_name('CSUM'), z3.IntSort(), z3.RealSort())
    en.assume(CS(0) == 0)
    en.assume(z3.ForAll([kq], z3.Implies(z3.And(kq >= 0, kq < N), CS(kq + 1) == CS(kq) + summand(kq)), patterns=[CS(kq + 1)]))
  en.__dict__.setdefault('ghost_log', []).append((table[key], summand))        # in call order: contracts can pick up the code's own symbols
  return table[key]


def _setup(en):
  VM._setup(en)
  import jax
  import jax.numpy as jnp
  import numpy as np
  from jax import lax
  from dinosaur import jax_numpy_utils as jnu, primitive_equations as pe, sigma_coordinates as sc, spherical_harmonic as sh
  from vlib.pyvc.libspec import _reg
  # fields are columns of 3-d arrays (vertical axis leading)
  en.libspec[('attr', 'SymSeq', 'ndim')] = (None, lambda en_, s: 3)
  en.libspec[('attr', 'SymSeq', 'shape')] = (None, lambda en_, s: (s.length, 1, 1))
  en.trusted.add('column mode: a nodal field is its column at one generic grid point (operations after to_nodal are pointwise in the horizontal)')

  def h_einsum(en_, *args, **kw):
    if len(args) == 5 and arrays._is_seq(args[0]) and arrays._is_seq(args[2]):
      a, aa, b, ba, oa = args
      aa, ba, oa = (list(en_.iter_concrete(v)) for v in (aa, ba, oa))
      if aa == oa and len(ba) == 1 and ba[0] == aa[0]:
        return arrays._elementwise(en_, a, b, arrays._arith('Mult'), '*')
    raise E.Unsupported('einsum pattern outside column mode')
  en.contracts[E._callable_key(sc.einsum)] = h_einsum
  en.trusted.add('libspec:einsum(x, [0,1,2], w, [0], [0,1,2]) == x * w along the leading axis (A8)')

  def h_dot_cumsum(en_, y, axis, reverse=False):
    if not arrays._is_seq(y) or axis not in (0, -3):
      raise E.Unsupported('_dot_cumsum outside column mode')
    g = y.get
    CS = ghost(en_, lambda k: E._real(arrays._num(g(k))))
    n = E.to_z3(y.length)
    if reverse:
      return E.SymSeq(y.length, lambda i: CS(n) - CS(E.to_z3(i)), z3.RealSort(), 'reverse_cumsum')
    return E.SymSeq(y.length, lambda i: CS(E.to_z3(i) + 1), z3.RealSort(), 'cumsum')
  en.contracts[E._callable_key(jnu._single_device_dot_cumsum)] = h_dot_cumsum
  en.trusted.add('callee contract: _single_device_dot_cumsum(y, axis)[k] == sum_{j<=k} y[j] (reverse: sum_{j>=k}) -- discharged in C13 (weight matrix [i <= j] and the prefix-sum lemma); cumsum / reverse_cumsum / _dot_cumsum run from source with sharding=None (the sharded schedule is C07)')

  def sum_attr(en_, s):
    def fn(en__, axis=None, keepdims=False, **k):
      g = s.get
      CS = ghost(en__, lambda k_: E._real(arrays._num(g(k_))))
      return CS(E.to_z3(s.length))
    return E.SymCallable(fn, 'x.sum(axis=vertical) == ghost total (A8)')
  en.libspec[('attr', 'SymSeq', 'sum')] = (None, sum_attr)

  def h_adv(en_, w, x, coords, axis=-3, **kw):
    if kw or not (arrays._is_seq(w) and arrays._is_seq(x)):
      raise E.Unsupported('centered_vertical_advection outside the contract')
    gw, gx = w.get, x.get
    wl = lambda i: z3.If(z3.And(i >= 0, i <= N - 2), E._real(gw(i)), 0)
    dx = lambda i: z3.If(z3.And(i >= 0, i <= N - 2), (E._real(gx(i + 1)) - E._real(gx(i))) / (c_(i + 1) - c_(i)), 0)
    if en_._sat(z3.Or(E.to_z3(w.length) != N - 1, E.to_z3(x.length) != N)):
      raise E.PathRaise('ValueError')
    return E.SymSeq(N, lambda n: -(wl(E.to_z3(n)) * dx(E.to_z3(n)) + wl(E.to_z3(n) - 1) * dx(E.to_z3(n) - 1)) / 2, z3.RealSort(), 'vertical_advection')
  en.contracts[E._callable_key(sc.centered_vertical_advection)] = h_adv
  en.trusted.add('callee contract: centered_vertical_advection(w, x)[n] == -(w_{n+1/2} dx_{n+1/2} + w_{n-1/2} dx_{n-1/2}) / 2 with zero boundary values (proved in C13)')
  # horizontal operators: abstract (C01 / C02); markers carry which quantity they stand for
  en.contracts[E._callable_key(sh.get_cos_lat_vector)] = lambda en_, vor, div, grid, clip=True: ('modal', 'cos_lat_u')
  en.contracts[E._callable_key(pe.DiagnosticState)] = lambda en_, **kw: E.Obj(**kw)

  def h_tree_map(en_, f, *trees):
    t0 = trees[0]
    if isinstance(t0, tuple) and t0 and t0[0] == 'modal':
      return en_.call(f, list(trees), {})
    if isinstance(t0, dict):
      return {k: h_tree_map(en_, f, *[t[k] for t in trees]) for k in t0}
    if isinstance(t0, (tuple, list)):
      return type(t0)(h_tree_map(en_, f, *[t[i] for t in trees]) for i in range(len(t0)))
    return en_.call(f, list(trees), {})
  _reg(en, jax.tree_util.tree_map, h_tree_map, 'jax.tree_util.tree_map (leaf-wise)')

  def h_pad3(en_, x, cfg, *a, **k):
    cfg = [tuple(c) for c in cfg]
    if len(cfg) == 3 and cfg[1] == (0, 0) and cfg[2] == (0, 0):
      cfg = cfg[:1]
    return arrays.h_pad(en_, x, cfg, *a, **k)
  _reg(en, jnp.pad, h_pad3, 'jnp.pad along the vertical axis only')

  def h_unique(en_, x):
    g = x.get
    i, j = z3.Int(en_.fresh_name('i')), z3.Int(en_.fresh_name('j'))
    flag = z3.Bool(en_.fresh_name('nonconstant'))
    body = lambda a, b: z3.And(a >= 0, a < E.to_z3(x.length), b >= 0, b < E.to_z3(x.length), g(a) != g(b))
    en_.assume(flag == z3.Exists([i, j], body(i, j)))
    en_.__dict__.setdefault('unique_facts', []).append((flag, body))
    return E.Obj(size=z3.If(flag, z3.IntVal(2), z3.IntVal(1)))
  _reg(en, np.unique, h_unique, 'np.unique(x).size > 1  <=>  x has two different entries')
  en.libspec[('attr', 'SymSeq', 'ravel')] = (None, lambda en_, s: E.SymCallable(lambda en__: s, 'ravel (identity on a column)'))


def _coords(en):
  self = VM._coords(en)
  VM._alpha_callee(en)
  horizontal = E.Obj(
      to_nodal=E.SymCallable(lambda en_, x: _to_nodal(en_, x), 'Grid.to_nodal (abstract: the column of the nodal field at the generic point)'),
      cos_lat_grad=E.SymCallable(lambda en_, x, clip=True: ('modal', 'cos_lat_grad_log_sp'), 'Grid.cos_lat_grad (abstract, C02)'),
      sec2_lat=SEC2)
  en.assume(SEC2 > 0)
  return E.Obj(horizontal=horizontal, vertical=self, dycore_sharding=None, spmd_mesh=None), self


def _to_nodal(en, x):
  if isinstance(x, tuple) and x and x[0] == 'modal':
    if x[1] == 'cos_lat_u':
      return (_col(UU, 'cos_lat_u'), _col(VV, 'cos_lat_v'))
    if x[1] == 'cos_lat_grad_log_sp':
      return (GXs, GYs)
  if isinstance(x, dict):
    return {k: _to_nodal(en, v) for k, v in x.items()}
  return x          # a state field: its nodal column is the input itself


QH = F('specific_humidity.at')


def _state(en, tv=None, moist=False):
  return E.Obj(vorticity=_col(VOR, 'vorticity'), divergence=_col(DIV, 'divergence'), temperature_variation=tv if tv is not None else _col(TV, 'temperature_variation'),
               log_surface_pressure=('modal', 'log_surface_pressure'), tracers={'specific_humidity': _col(QH, 'specific_humidity')} if moist else {})


def _diag(en, coords, state):
  from dinosaur import primitive_equations as pe
  kind, aux = en.invoke(en.load_function(pe.compute_diagnostic_state), state, coords)
  if kind == 'raise':
    raise E.Unsupported(f'compute_diagnostic_state raised {aux}')
  return aux


def diagnostic_contract(en: E.Engine):
  coords, vert = _coords(en)
  en.cover('requires: valid sigma coordinates')
  aux = _diag(en, coords, _state(en))
  k = en.int('k')
  en.assume(z3.And(k >= 0, k < N))
  en.ensure('u.grad(ln ps)[k] == (cos_lat_u[k] gx + cos_lat_v[k] gy) sec^2(lat)', aux.u_dot_grad_log_sp.get(k) == gdot(k))
  CSs = ghost(en, lambda j: d_(j))
  CG = ghost(en, lambda j: gdot(j) * d_(j))
  CF = ghost(en, lambda j: (DIV(j) + gdot(j)) * d_(j))
  en.ensure('sigma_dot has one value per interior interface', z3.And(E.to_z3(aux.sigma_dot_full.length) == N - 1, E.to_z3(aux.sigma_dot_explicit.length) == N - 1))
  kk = en.int('kk')
  en.assume(z3.And(kk >= 0, kk < N - 1))
  en.ensure('sigma_dot_explicit[k] == sigma_{k+1/2} sum_j G[j] dsigma[j] - sum_{j<=k} G[j] dsigma[j] with G = u.grad(ln ps) (sigma_{k+1/2} = sum_{j<=k} dsigma[j])',
            aux.sigma_dot_explicit.get(kk) == CSs(kk + 1) * CG(N) - CG(kk + 1))
  # instances of the additivity lemma CS_{a+b} = CS_a + CS_b (proved by induction in its own clause): a variant of the code that integrates the two
  # summands separately is then still recognised
  CD = ghost(en, lambda j: DIV(j) * d_(j))
  add = [CF(N) == CD(N) + CG(N), CF(kk + 1) == CD(kk + 1) + CG(kk + 1)]
  en.ensure('sigma_dot_full[k]: the same with G = divergence + u.grad(ln ps)', aux.sigma_dot_full.get(kk) == CSs(kk + 1) * CF(N) - CF(kk + 1), extra=add)
  en.ensure('the nodal divergence / temperature columns are passed through', z3.And(aux.divergence.get(k) == DIV(k), aux.temperature_variation.get(k) == TV(k)))


def _pe_self(en, coords, tref, moist=False):
  from dinosaur import primitive_equations as pe
  kappa, R = en.real('kappa'), en.real('ideal_gas_constant')
  specs = E.Obj(kappa=kappa, R=R, ideal_gas_constant=R)
  if moist:
    specs.R_vapor, specs.Cp, specs.Cp_vapor = en.real('R_vapor'), en.real('Cp'), en.real('Cp_vapor')
  return E.Obj(class_ref=pe.MoistPrimitiveEquations if moist else pe.PrimitiveEquations, coords=coords, reference_temperature=tref, physics_specs=specs,
               include_vertical_advection=True, vertical_advection=_adv_fn(), vertical_matmul_method='dense'), kappa


def _adv_fn():
  from dinosaur import sigma_coordinates as sc
  return sc.centered_vertical_advection


TX, GT, VG = F('temperature_field.at'), F('g_term.at'), F('v_dot_grad_log_sp.at')


def t_omega_contract(en: E.Engine):
  coords, vert = _coords(en)
  self, kappa = _pe_self(en, coords, _col(F('reference_temperature.at'), 'reference_temperature'))
  en.cover('requires: valid sigma coordinates')
  kind, r = en.invoke(en.getattr(self, '_t_omega_over_sigma_sp'), _col(TX, 'temperature_field'), _col(GT, 'g_term'), _col(VG, 'v_dot_grad_log_sp'))
  if kind == 'raise' or not arrays._is_seq(r):
    en.ensure(f'_t_omega_over_sigma_sp returns a column ({r})', False)
    return
  n = en.int('n')
  en.assume(z3.And(n >= 0, n < N))
  CGt = ghost(en, lambda j: GT(j) * d_(j))
  Fn = lambda m: CGt(m + 1)                       # F[m] = sum_{j<=m} G[j] dsigma[j]
  spec = TX(n) * (VG(n) - (alpha_(n) * Fn(n) + z3.If(n >= 1, alpha_(n - 1) * Fn(n - 1), 0)) / d_(n))
  VM.ensure_cases(en, '_t_omega_over_sigma_sp[n] == T[n] (v.grad(ln ps)[n] - (alpha[n] F[n] + alpha[n-1] F[n-1]) / dsigma[n]), F = cumulative sigma integral of G (Durran 8.124)',
                  [N >= 1, n >= 0, n < N], [('n = 0', [n == 0]), ('n >= 1', [n >= 1])], VM._pos(n - 1, n, n + 1), r.get(n) == spec)


def log_pressure_contract(en: E.Engine):
  coords, vert = _coords(en)
  self, kappa = _pe_self(en, coords, _col(F('reference_temperature.at'), 'reference_temperature'))
  en.cover('requires: valid sigma coordinates')
  aux = _diag(en, coords, _state(en))
  kind, r = en.invoke(en.getattr(self, 'nodal_log_pressure_tendency'), aux)
  CG = ghost(en, lambda j: gdot(j) * d_(j))
  en.ensure('nodal_log_pressure_tendency == - sum_j u.grad(ln ps)[j] dsigma[j]', z3.BoolVal(False) if kind == 'raise' else E._real(r) == -CG(N))


def implicit_terms_contract(en: E.Engine):
  """PrimitiveEquations.implicit_terms on the column of one generic spectral coefficient (m, l) (the Laplacian multiplies it by the eigenvalue
  lambda_l: C02): the documented linear operator, for every number of layers."""
  from dinosaur import primitive_equations as pe
  import jax.numpy as jnp
  from vlib.pyvc.libspec import _reg
  coords, vert = _coords(en)
  lam = en.real('laplacian_eigenvalue')
  coords.horizontal.laplacian = E.SymCallable(lambda en_, x: arrays._elementwise(en_, x, lam, arrays._arith('Mult'), '*') if arrays._is_seq(x) else lam * E._real(x),
                                              'Grid.laplacian == eigenvalue * coefficient (C02 contract)')
  _reg(en, jnp.zeros_like, lambda en_, x: (E.SymSeq(x.length, lambda i: z3.RealVal(0), z3.RealSort(), 'zeros') if arrays._is_seq(x) else ({k: z3.RealVal(0) for k in x} if isinstance(x, dict) else z3.RealVal(0))),
       'jnp.zeros_like')
  TRf = F('reference_temperature.at')
  self, kappa = _pe_self(en, coords, _col(TRf, 'reference_temperature'))
  self.vertical_matmul_method = None
  R = self.physics_specs.R
  # row sums as ghost partial sums, one symbol per (matrix, vector) product in call order
  prods = []

  def h_matvec(en_, w, x):
    if not (matrix._is_mat(w) and arrays._is_seq(x)):
      raise E.Unsupported('_vertical_matvec outside column mode')
    D = z3.Function(en_.fresh_name('DSUM'), z3.IntSort(), z3.IntSort(), z3.RealSort())
    prods.append((D, w, x))
    rows = w.rows if w.rows is not None else 1
    return E.SymSeq(rows, lambda g_: D(E.to_z3(g_), E.to_z3(x.length)), z3.RealSort(), 'matvec')
  en.contracts[E._callable_key(pe._vertical_matvec)] = h_matvec
  en.trusted.add("callee contract: _vertical_matvec(W, x)[g] == sum_h W[g, h] x[h] (einsum 'gh,...hml->...gml', A8)")
  Gm = matrix.SymMat(N, N, lambda j, k: R * VM.g0_(E.to_z3(j), E.to_z3(k)), 'G')
  CSs = ghost(en, lambda j: d_(j))
  Hs = VM.h_spec(CSs, kappa)
  Hm = matrix.SymMat(N, N, lambda r_, s_: _rename_uf(Hs(E.to_z3(r_), E.to_z3(s_)), VM.TR, TRf), 'H')
  en.contracts[E._callable_key(pe.get_geopotential_weights)] = lambda en_, c, r=None: Gm            # callee contracts: the documented matrices (proved in C03)
  en.contracts[E._callable_key(pe.get_temperature_implicit_weights)] = lambda en_, c, t, k=None: Hm
  LNPS = en.real('log_surface_pressure')
  state = E.Obj(vorticity=_col(VOR, 'vorticity'), divergence=_col(DIV, 'divergence'), temperature_variation=_col(TV, 'temperature_variation'), log_surface_pressure=LNPS,
                tracers={'q': _col(F('q.at'), 'q')})
  en.contracts[E._callable_key(pe.State)] = lambda en_, **kw: E.Obj(**kw)
  en.cover('requires: valid sigma coordinates')
  kind, out = en.invoke(en.getattr(self, 'implicit_terms'), state)
  if kind == 'raise' or len(prods) != 3:
    en.ensure(f'implicit_terms runs with three vertical matrix products ({out}, {len(prods)})', False)
    return
  k = en.int('k')
  en.assume(z3.And(k >= 0, k < N))
  h = en.int('h')
  en.assume(z3.And(h >= 0, h < N))
  (Dg, Wg, xg), (Dh, Wh, xh), (Dp, Wp, xp) = prods
  en.ensure('the geopotential product contracts the documented G with the temperature variation', z3.And(Wg.get(k, h) == R * VM.g0_(k, h), xg.get(h) == TV(h)))
  en.ensure('the temperature product contracts -H (documented) with the divergence', z3.And(Wh.get(k, h) == -Hm.get(k, h), xh.get(h) == DIV(h)))
  en.ensure('the surface-pressure product contracts the layer thicknesses with the divergence', z3.And(Wp.get(0, h) == d_(h), xp.get(h) == DIV(h)))
  en.ensure('divergence: -lambda (sum_h G[k, h] T\'[h] + R T_ref[k] ln ps)', out.divergence.get(k) == -(lam * (Dg(k, N) + R * TRf(k) * LNPS)))
  en.ensure('temperature: -sum_h H[k, h] divergence[h] (as the product with -H)', out.temperature_variation.get(k) == Dh(k, N))
  en.ensure('log surface pressure: -sum_h dsigma[h] divergence[h]', out.log_surface_pressure.get(0) == -Dp(0, N))
  en.ensure('vorticity and tracers have no implicit term', z3.And(out.vorticity.get(k) == 0, out.tracers['q'].get(k) == 0))


# ---- C04: the temperature equation does not depend on the reference split -----------------------------------------------------------------

TABS = F('absolute_temperature.at')
TA, TB = F('reference_temperature_A.at'), F('reference_temperature_B.at')


def _temperature_total(en, coords, vert, TRf, tag, moist=False):
  """explicit vertical + adiabatic nodal tendency + implicit temperature term of the real code, for reference profile TRf and T' = T - TRf.
  Returns level -> term, and the hypotheses (instances) needed to relate its ghost symbols."""
  from dinosaur import primitive_equations as pe
  tref = _col(TRf, f'reference_temperature_{tag}')
  tv = E.SymSeq(N, lambda i: TABS(E.to_z3(i)) - TRf(E.to_z3(i)), z3.RealSort(), 'temperature_variation')
  self, kappa = _pe_self(en, coords, tref, moist)
  aux = _diag(en, coords, _state(en, tv, moist))
  kind1, vert_t = en.invoke(en.getattr(self, 'nodal_temperature_vertical_tendency'), aux)
  kind2, adia_t = en.invoke(en.getattr(self, 'nodal_temperature_adiabatic_tendency'), aux)
  if 'raise' in (kind1, kind2):
    raise E.Unsupported(f'temperature tendencies raised ({vert_t}, {adia_t})')
  # implicit temperature term: the dense form contracts the (proved) documented matrix -H with the divergence column
  CSs = ghost(en, lambda j: d_(j))
  Hs = VM.h_spec(CSs, kappa)
  return self, kappa, vert_t, adia_t, Hs


def split_independence_contract(en: E.Engine, moist=False):
  """Temperature equation at level r of the column: explicit (vertical advection + adiabatic) + implicit(-H D), for two reference profiles A, B
  and the same absolute temperature.  The implicit row sum  sum_s H[r, s] D[s]  is reduced to prefix sums of D dsigma by the partial-sum lemma
  (vertical_matrix_contracts), whose hypotheses are the structure facts of H (proved there for the real matrix)."""
  coords, vert = _coords(en)
  if moist:
    en.allow_nonfinite = True        # numpy division: a zero denominator gives a non-finite marker; the obligations below carry the facts that exclude it
    # physically admissible humidity and heat capacities (0 <= q <= 1, Cp, Cp_vapor > 0, so 1 + (Cp_vapor / Cp - 1) q = (1 - q) + (Cp_vapor / Cp) q > 0) are
    # hypotheses of the final obligations only: kept out of the path condition, where a quantified non-linear fact slows every feasibility query down
    en.assume(z3.And(z3.Real('Cp') > 0, z3.Real('Cp_vapor') > 0, z3.Real('ideal_gas_constant') > 0))
  en.cover('requires: valid sigma coordinates' + (', admissible humidity' if moist else ''))
  r = en.int('r')
  en.assume(z3.And(r >= 0, r < N))
  CSs = ghost(en, lambda j: d_(j))
  CD = ghost(en, lambda j: DIV(j) * d_(j))
  CG = ghost(en, lambda j: gdot(j) * d_(j))
  CF = ghost(en, lambda j: (DIV(j) + gdot(j)) * d_(j))
  totals = []
  nonconst = {}
  for tag, TRf in (('A', TA), ('B', TB)):
    self, kappa, vert_t, adia_t, Hs = _temperature_total(en, coords, vert, TRf, tag, moist)
    flag, body = en.unique_facts[-1]
    nonconst[tag] = (en.truth(flag), body)
    explicit = (E._real(vert_t.get(r)) if arrays._is_seq(vert_t) else E._real(vert_t)) + E._real(adia_t.get(r))
    totals.append((tag, TRf, kappa, explicit, Hs))
  kappa = totals[0][2]
  # lemma conclusion for row r of H(T_ref):  sum_s H[r, s] D[s] == u C(r) + H[r, r] D[r] + d (C(N) - C(r+1)),  u = H[r, 0] / dsigma[0] (r >= 1), d = H[r, N-1] / dsigma[N-1] (r < N-1)
  def implicit_row(TRf, Hs):
    ren = lambda t: _rename_uf(t, VM.TR, TRf)
    Hrr, Hr0, HrN = ren(Hs(r, r)), ren(Hs(r, z3.IntVal(0))), ren(Hs(r, N - 1))
    u = z3.If(r >= 1, Hr0 / d_(0), z3.RealVal(0))
    d = z3.If(r < N - 1, HrN / d_(N - 1), z3.RealVal(0))
    return -(u * CD(r) + Hrr * DIV(r) + d * (CD(N) - CD(r + 1)))
  lhs = totals[0][3] + implicit_row(totals[0][1], totals[0][4])
  rhs = totals[1][3] + implicit_row(totals[1][1], totals[1][4])
  # oriented equations between the ghost sums (each an instance of a defining recurrence, of the additivity lemma or of the telescoping lemma,
  # both proved by induction in their own clause) and the representation invariant B(0) = 0, B(N) = 1
  from vlib.pyvc import ring
  rules = []
  for nm, C_, summand in (('CD', CD, lambda j: DIV(j) * d_(j)), ('CG', CG, lambda j: gdot(j) * d_(j))):
    # C(t) -> C(t-1) + y[t-1] for t in {r+1, r+2} (so everything is expressed through C(r), C(r-1)... downwards) and for t = N when N = r+1 / r+2
    for off in (2, 1):
      rules.append(ring.Rule(f'recurrence {nm}(r+{off})', pattern=z3.simplify(C_(r + off)), replacement=C_(r + off - 1) + summand(r + off - 1), guard_term=z3.And(r + off - 1 >= 0, r + off - 1 < N)))
    rules.append(ring.Rule(f'recurrence {nm}(r) downwards', pattern=z3.simplify(C_(r)), replacement=C_(r - 1) + summand(r - 1), guard_term=z3.And(r - 1 >= 0, r - 1 < N)))
    rules.append(ring.Rule(f'{nm}(0) = 0', fn=C_, template=lambda t: z3.RealVal(0), guard=lambda t: t == 0))
  rules.append(ring.Rule('additivity CF = CD + CG', fn=CF, template=lambda t: CD(t) + CG(t), guard=lambda t: z3.And(t >= 0, t <= N)))
  rules.append(ring.Rule('telescoping CS_dsigma(t) = B(t) - B(0)', fn=CSs, template=lambda t: B(t) - B(0), guard=lambda t: z3.And(t >= 0, t <= N)))
  rules.append(ring.Rule('B(0) = 0', fn=B, template=lambda t: z3.RealVal(0), guard=lambda t: t == 0))
  rules.append(ring.Rule('B(N) = 1', fn=B, template=lambda t: z3.RealVal(1), guard=lambda t: t == N))
  hyps = list(VM._pos(r - 2, r - 1, r, r + 1, r + 2, z3.IntVal(0), N - 1)) + [B(0) == 0, B(N) == 1]
  if moist:
    hyps += [z3.Real('Cp') > 0, z3.Real('Cp_vapor') > 0, z3.Real('ideal_gas_constant') > 0, QH(r) >= 0, QH(r) <= 1] + [z3.Implies(z3.And(t >= 0, t < N), 1 + (z3.Real('Cp_vapor') / z3.Real('Cp') - 1) * QH(t) > 0) for t in (r - 1, r, r + 1)]
  for tag, (is_nonconst, body) in nonconst.items():
    if not is_nonconst:
      TRf = TA if tag == 'A' else TB
      # instance of the path condition "no two entries differ": every in-range entry equals entry r
      rules.append(ring.Rule(f'T_ref {tag} constant', fn=TRf, template=lambda t, TRf=TRf: TRf(r), guard=lambda t: z3.And(t >= 0, t < N, t != r)))
      for a in (r - 1, r, r + 1):
        for b in (r - 1, r, r + 1):
          hyps.append(z3.Not(body(a, b)))
  rows = [('r = 0 = N-1', [r == 0, N == 1]), ('r = 0, N = 2', [r == 0, N == 2]), ('r = 0, N >= 3', [r == 0, N >= 3]),
          ('r = 1 = N-1', [r == 1, N == 2], [(N, r + 1)]), ('r = 1 < N-1', [r == 1, N >= 3]), ('1 < r < N-1', [r >= 2, r < N - 1]), ('1 < r = N-1', [r >= 2, r == N - 1], [(N, r + 1)])]
  label = ', '.join(f'T_ref {t} {"varies" if nonconst[t][0] else "is constant"}' for t in ('A', 'B'))
  VM.ensure_cases(en, f'{"moist " if moist else ""}temperature tendency at level r (vertical advection + adiabatic + implicit) is the same for reference profiles A and B with the same absolute temperature [{label}]',
                  [N >= 1, r >= 0, r < N], rows, hyps, lhs == rhs, timeout_ms=30000, rules=rules)


def _rename_uf(term, old, new):
  """Replace applications of the unary uninterpreted function `old` by `new`."""
  cache = {}

  def fn(t):
    if z3.is_app(t) and t.decl().eq(old):
      return new(*[nra._walk_replace(c, fn, cache) for c in t.children()])
    return None
  return nra._walk_replace(term, fn, cache)


def ghost_lemmas(en: E.Engine):
  """Induction lemmas on the ghost sums used above (base + step each)."""
  k = en.int('k')
  en.assume(k >= 0)
  a, b, ab, Ca, Cb, Cab, Ca1, Cb1, Cab1 = (z3.Real(nm) for nm in ('a_k', 'b_k', 'ab_k', 'CA_k', 'CB_k', 'CAB_k', 'CA_k1', 'CB_k1', 'CAB_k1'))
  en.cover('lemma hypotheses')
  en.ensure('additivity base: CS_{a+b}(0) == CS_a(0) + CS_b(0) (all zero)', z3.Implies(z3.And(Ca == 0, Cb == 0, Cab == 0), Cab == Ca + Cb))
  en.ensure('additivity step: IH at k and the three recurrences with summand a+b => claim at k+1',
            z3.Implies(z3.And(Cab == Ca + Cb, ab == a + b, Ca1 == Ca + a, Cb1 == Cb + b, Cab1 == Cab + ab), Cab1 == Ca1 + Cb1))
  Bk, Bk1, B0, S, S1 = (z3.Real(nm) for nm in ('B_k', 'B_k1', 'B_0', 'CS_k', 'CS_k1'))
  en.ensure('telescoping base: CS_dsigma(0) == B(0) - B(0)', z3.Implies(S == 0, S == B0 - B0))
  en.ensure('telescoping step: CS(k) == B(k) - B(0) and CS(k+1) == CS(k) + (B(k+1) - B(k)) => CS(k+1) == B(k+1) - B(0)',
            z3.Implies(z3.And(S == Bk - B0, S1 == S + (Bk1 - Bk)), S1 == Bk1 - B0))


XI = F('x.at')
RHO = F('density.at')


def density_ratios_contract(en: E.Engine):
  """shallow_water.get_density_ratios: the inter-layer coupling of a stack of immiscible layers (top = layer 0).  The postcondition is the
  hydrostatic statement, not the function's docstring (which has the indices transposed): the pressure force on layer i is the gradient of
  sum_{j<i} (rho_j / rho_i) Phi_j + sum_{j>=i} Phi_j, so the off-diagonal coupling is rho_j / rho_i for the layers above i and 1 for those below."""
  from dinosaur import shallow_water as sw
  n = en.int('layers')
  en.assume(n >= 1)
  rho = E.SymSeq(n, lambda i: RHO(E.to_z3(i)), z3.RealSort(), 'density')
  j_ = z3.Int('j')
  en.assume(z3.ForAll([j_], z3.Implies(z3.And(j_ >= 0, j_ < n), RHO(j_) > 0)))
  a, b = z3.Int('a'), z3.Int('b')
  en.assume(z3.ForAll([a, b], z3.Implies(z3.And(a >= 0, a <= b, b < n), RHO(a) <= RHO(b)), patterns=[z3.MultiPattern(RHO(a), RHO(b))]))      # non-decreasing from the top
  en.cover('requires: positive densities, non-decreasing from the top')
  kind, D = en.invoke(en.load_function(sw.get_density_ratios), rho)
  if kind == 'raise' or not matrix._is_mat(D):
    en.ensure(f'get_density_ratios returns a matrix ({D})', False)
    return
  i, j = en.int('i'), en.int('j')
  en.assume(z3.And(i >= 0, i < n, j >= 0, j < n))
  en.ensure('layers x layers', z3.And(E.to_z3(D.rows) == n, E.to_z3(D.cols) == n))
  en.ensure('D[i, j] == rho[j] / rho[i] for the layers above (j < i), 1 for the layers below (j > i), 0 on the diagonal',
            D.get(i, j) == z3.If(j < i, RHO(j) / RHO(i), z3.If(j > i, z3.RealVal(1), z3.RealVal(0))))



def integrals_contract(en: E.Engine):
  """cumulative_sigma_integral (both directions, both cumulative-sum methods) and sigma_integral as ghost sums of x dsigma."""
  from dinosaur import sigma_coordinates as sc
  import jax.numpy as jnp
  from vlib.pyvc.libspec import _reg
  coords, vert = _coords(en)
  # method='jax': jnp.cumsum / jnp.flip by their textbook contracts (A8), sharing the ghost symbol of the summed vector
  def h_jcumsum(en_, y, axis=None, **k):
    g = y.get
    CS_ = ghost(en_, lambda k_: E._real(arrays._num(g(k_))))
    return E.SymSeq(y.length, lambda i: CS_(E.to_z3(i) + 1), z3.RealSort(), 'jnp.cumsum')
  _reg(en, jnp.cumsum, h_jcumsum, 'jnp.cumsum(y, axis)[k] == sum_{j<=k} y[j] (A8)')
  x = _col(XI, 'x')
  en.cover('requires: valid sigma coordinates')
  CX = ghost(en, lambda j: XI(j) * d_(j))
  k = en.int('k')
  en.assume(z3.And(k >= 0, k < N))
  res = {}
  for method in ('dot', 'jax'):
    for down in (True, False):
      if method == 'jax' and not down:
        continue           # reverse 'jax' goes through jnp.flip twice: covered by the bounded identities, not here
      kind, r = en.invoke(en.load_function(sc.cumulative_sigma_integral), x, vert, -3, down, method)
      if kind == 'raise' or not arrays._is_seq(r):
        en.ensure(f'cumulative_sigma_integral(downward={down}, method={method}) returns a column ({r})', False)
        return
      res[(method, down)] = r
  kind, tot = en.invoke(en.load_function(sc.sigma_integral), x, vert)
  if kind == 'raise':
    en.ensure(f'sigma_integral runs ({tot})', False)
    return
  tot = E._real(tot)
  dn, up = res[('dot', True)], res[('dot', False)]
  en.ensure('downward cumulative integral [k] == sum_{j<=k} x[j] dsigma[j]', dn.get(k) == CX(k + 1))
  en.ensure('upward cumulative integral [k] == sum_{j>=k} x[j] dsigma[j] (total minus the part above)', up.get(k) == CX(N) - CX(k))
  en.ensure('sigma_integral == sum over all layers', tot == CX(N))
  en.ensure('the downward cumulative integral ends at the total integral', dn.get(N - 1) == tot)
  en.ensure('the upward cumulative integral starts at the total integral', z3.Implies(CX(0) == 0, up.get(0) == tot))
  en.ensure('downward[k] + upward[k] - total == x[k] dsigma[k] (the local layer contribution)',
            z3.Implies(CX(k + 1) == CX(k) + XI(k) * d_(k), dn.get(k) + up.get(k) - tot == XI(k) * d_(k)))
  en.ensure("cumsum_method 'jax' agrees with 'dot'", res[('jax', True)].get(k) == dn.get(k))
  xs = E.SymSeq(N + 1, lambda i: XI(E.to_z3(i)), z3.RealSort(), 'x_long')
  for fn in (sc.cumulative_sigma_integral, sc.sigma_integral, sc.cumulative_log_sigma_integral):
    kind, r = en.invoke(en.load_function(fn), xs, vert)
    en.ensure(f'{fn.__name__}: a column whose length differs from the layer count is rejected (ValueError)', z3.BoolVal(kind == 'raise' and r == 'ValueError'))


def log_integral_contract(en: E.Engine):
  """cumulative_log_sigma_integral(upward) is the documented trapezoid sum, and R times it is the geopotential operator (sparse form)."""
  from dinosaur import primitive_equations as pe, sigma_coordinates as sc
  coords, vert = _coords(en)
  R = en.real('ideal_gas_constant')
  x = _col(XI, 'temperature')
  en.cover('requires: valid sigma coordinates')
  kind, up = en.invoke(en.load_function(sc.cumulative_log_sigma_integral), x, vert, -3, False)
  kind2, geo = en.invoke(en.load_function(pe.get_geopotential_diff), x, vert, R, 'sparse')
  if 'raise' in (kind, kind2):
    en.ensure(f'cumulative_log_sigma_integral / get_geopotential_diff run ({up}, {geo})', False)
    return
  LOG = matrix.LOG
  dlog = lambda j: z3.If(j == N - 1, -LOG(c_(N - 1)), LOG(c_(j + 1)) - LOG(c_(j)))
  integrand = lambda j: z3.If(j == N - 1, XI(N - 1), (XI(j + 1) + XI(j)) / 2)
  a = lambda j: integrand(j) * dlog(j)
  a2 = lambda j: z3.If(j >= 1, R * (alpha_(j) + alpha_(j - 1)), z3.RealVal(0)) * XI(j)
  # the ghost sums the code itself created (in call order: the log integral first, then the geopotential's reverse cumulative sum); their
  # summands are shown equal to the documented ones entry by entry, after which the documented recurrences hold for the code's symbols
  (CA, a_code), (CT, a2_code) = en.ghost_log[-2], en.ghost_log[-1]
  k = en.int('k')
  en.assume(z3.And(k >= 0, k < N))
  base = [N >= 1, k >= 0, k < N]
  lastcases = [('k = N-1', [k == N - 1]), ('k < N-1', [k < N - 1])]
  VM.ensure_cases(en, 'the log integral sums trapezoid(x)[j] * dlog(sigma)[j]: (x[j+1] + x[j]) / 2 against log sigma[j+1] - log sigma[j], x[N-1] against -log sigma[N-1]',
                  base, lastcases, VM._pos(k - 1, k, k + 1), a_code(k) == a(k))
  VM.ensure_cases(en, 'the geopotential sums R (alpha[j] + alpha[j-1]) T[j] (0 at j = 0)', base, [('k = 0', [k == 0]), ('k >= 1', [k >= 1])], VM._pos(k - 1, k, k + 1), a2_code(k) == a2(k))
  en.ensure('cumulative_log_sigma_integral(upward)[k] is the suffix sum of that vector', up.get(k) == CA(N) - CA(k))
  geo_spec = CT(N) - CT(k) + (R * alpha_(k) - z3.If(k >= 1, R * (alpha_(k) + alpha_(k - 1)), z3.RealVal(0))) * XI(k)
  VM.ensure_cases(en, "get_geopotential_diff(method='sparse')[k] == sum_{j>=k} R (alpha[j] + alpha[j-1]) T[j] + R (alpha[k] - alpha2[k]) T[k]", base,
                  [('k = 0', [k == 0]), ('k >= 1', [k >= 1])], VM._pos(k - 1, k, k + 1), geo.get(k) == geo_spec)
  # claim(k):  R (CA(N) - CA(k)) == geo_spec(k)   by downward induction on k
  base = [N >= 1, k >= 0, k < N]
  rec = lambda C_, f, t: C_(t + 1) == C_(t) + f(t)
  VM.ensure_cases(en, 'induction base (k = N-1): R * trapezoid suffix sum == geopotential row', base + [k == N - 1], [('N = 1', [N == 1]), ('N >= 2', [N >= 2])],
                  [rec(CA, a, k), rec(CT, a2, k)] + VM._pos(k - 1, k, k + 1), z3.Implies(z3.And(rec(CA, a, k), rec(CT, a2, k)), R * (CA(N) - CA(k)) == geo_spec),
                  rules=None, timeout_ms=60000)
  geo_next = z3.substitute(geo_spec, (k, k + 1))
  VM.ensure_cases(en, 'induction step (k < N-1): claim(k+1) and the two recurrences at k => claim(k)', base + [k < N - 1],
                  [('k = 0, N = 2', [k == 0, N == 2]), ('k = 0, N >= 3', [k == 0, N >= 3]), ('k >= 1, k = N-2', [k >= 1, k == N - 2]), ('k >= 1, k < N-2', [k >= 1, k < N - 2])],
                  VM._pos(k - 1, k, k + 1, k + 2),
                  z3.Implies(z3.And(R * (CA(N) - CA(k + 1)) == geo_next, rec(CA, a, k), rec(CT, a2, k)), R * (CA(N) - CA(k)) == geo_spec), timeout_ms=60000)
  en.ensure('conclusion: R * cumulative_log_sigma_integral(upward)[k] == get_geopotential_diff[k] given claim(k)',
            z3.Implies(R * (CA(N) - CA(k)) == geo_spec, R * up.get(k) == geo.get(k)))


def replay_density(w):
  import numpy as np
  from dinosaur import shallow_water as sw
  for rho in ([900.0, 1000.0, 1150.0], [1.0, 2.0], [3.0]):
    rho = np.asarray(rho)
    n = len(rho)
    want = np.array([[rho[j] / rho[i] if j < i else (1.0 if j > i else 0.0) for j in range(n)] for i in range(n)])
    got = np.asarray(sw.get_density_ratios(rho))
    if not np.allclose(got, want, rtol=1e-14, atol=0):
      return True, f'get_density_ratios({rho.tolist()}) = {got.tolist()}; hydrostatic coupling (rho[j]/rho[i] above, 1 below, 0 on the diagonal) = {want.tolist()}'
  return False, 'get_density_ratios equals the hydrostatic coupling on the sampled density stacks'


def replay_integrals(w):
  import numpy as np
  import jax
  jax.config.update('jax_enable_x64', True)
  import jax.numpy as jnp
  from dinosaur import primitive_equations as pe, sigma_coordinates as sc
  rng = np.random.RandomState(13)
  msgs = []
  for n in (1, 2, 5):
    b = np.concatenate([[0.0], np.sort(rng.uniform(0.05, 0.95, n - 1)), [1.0]])
    vert = sc.SigmaCoordinates(b)
    x = rng.randn(n, 2, 3)
    d = vert.layer_thickness[:, None, None]
    for method in ('dot', 'jax'):
      dn = np.asarray(sc.cumulative_sigma_integral(jnp.asarray(x), vert, cumsum_method=method))
      up = np.asarray(sc.cumulative_sigma_integral(jnp.asarray(x), vert, downward=False, cumsum_method=method))
      tot = np.asarray(sc.sigma_integral(jnp.asarray(x), vert))
      e1 = np.max(np.abs(dn - np.cumsum(x * d, axis=0)))
      e2 = np.max(np.abs(dn + up - tot - x * d))
      e3 = np.max(np.abs(dn[-1:] - tot))
      if max(e1, e2, e3) > 1e-12:
        msgs.append(f'{n} layers {b.tolist()} method={method}: |down - prefix sums| = {e1:.2e}, |down + up - total - x dsigma| = {e2:.2e}, |down[-1] - total| = {e3:.2e}')
    lg = 2.5 * np.asarray(sc.cumulative_log_sigma_integral(jnp.asarray(x), vert, downward=False))
    for m in ('dense', 'sparse'):
      geo = np.asarray(pe.get_geopotential_diff(jnp.asarray(x), vert, 2.5, method=m))
      if np.max(np.abs(lg - geo)) > 1e-10:
        msgs.append(f'{n} layers {b.tolist()}: |R * cumulative_log_sigma_integral(up) - get_geopotential_diff({m})| = {np.max(np.abs(lg - geo)):.2e}')
  return bool(msgs), ('; '.join(msgs[:3]) if msgs else 'sigma integrals and the geopotential operator agree with their documented sums on the sampled columns')


def replay_column(w):
  """Native re-run on a small grid with uneven levels: the real diagnostic state / omega term / log-pressure tendency against the
  documented vertical sums evaluated with numpy."""
  import numpy as np
  import jax
  jax.config.update('jax_enable_x64', True)
  import jax.numpy as jnp
  from dinosaur import coordinate_systems as cs, primitive_equations as pe, sigma_coordinates as sc, spherical_harmonic as sh
  rng = np.random.RandomState(11)
  g = sh.Grid(longitude_wavenumbers=4, total_wavenumbers=5, longitude_nodes=12, latitude_nodes=8)
  msgs = []
  for n in (1, 2, 4):
    b = np.concatenate([[0.0], np.sort(rng.uniform(0.05, 0.95, n - 1)), [1.0]])
    vert = sc.SigmaCoordinates(b)
    coords = cs.CoordinateSystem(g, vert)
    specs = pe.PrimitiveEquationsSpecs.from_si()
    tref = 250.0 + 10.0 * np.arange(n)
    eq = pe.PrimitiveEquations(tref, np.zeros(g.modal_shape), coords, specs)
    mask = np.asarray(g.mask)
    fld = lambda: jnp.asarray(np.where(mask, rng.randn(n, *g.modal_shape), 0.0)).at[:, 0, 0].set(0.0)
    st = pe.State(fld(), fld(), fld(), jnp.asarray(np.where(mask, 0.1 * rng.randn(1, *g.modal_shape), 0.0)), {})
    aux = pe.compute_diagnostic_state(st, coords)
    d = vert.layer_thickness[:, None, None]
    sig = np.cumsum(vert.layer_thickness)[:, None, None]
    for nm, G, got in (('explicit', np.asarray(aux.u_dot_grad_log_sp), np.asarray(aux.sigma_dot_explicit)),
                       ('full', np.asarray(aux.u_dot_grad_log_sp) + np.asarray(aux.divergence), np.asarray(aux.sigma_dot_full))):
      Fc = np.cumsum(G * d, axis=0)
      want = (sig * Fc[-1:] - Fc)[:-1]
      if got.shape != want.shape or (want.size and np.max(np.abs(got - want)) > 1e-9 * max(1.0, np.max(np.abs(want)))):
        msgs.append(f'{n} layers (boundaries {b.tolist()}): sigma_dot_{nm} differs from sigma_(k+1/2) sum(G dsigma) - cumsum(G dsigma) by {np.max(np.abs(got - want)) if got.shape == want.shape else "shape"}')
    T, G, V = (rng.randn(n, *g.nodal_shape) for _ in range(3))
    al = pe.get_sigma_ratios(vert)[:, None, None]
    Fc = np.cumsum(G * d, axis=0)
    aF = al * Fc
    want = T * (V - (aF + np.concatenate([np.zeros_like(aF[:1]), aF[:-1]])) / d)
    got = np.asarray(eq._t_omega_over_sigma_sp(jnp.asarray(T), jnp.asarray(G), jnp.asarray(V)))
    if np.max(np.abs(got - want)) > 1e-9 * max(1.0, np.max(np.abs(want))):
      msgs.append(f'{n} layers (boundaries {b.tolist()}): _t_omega_over_sigma_sp differs from Durran 8.124 by {np.max(np.abs(got - want)):.3e}')
    got = np.asarray(eq.nodal_log_pressure_tendency(aux))
    want = -np.sum(np.asarray(aux.u_dot_grad_log_sp) * d, axis=0, keepdims=True)
    if np.max(np.abs(got - want)) > 1e-9 * max(1.0, np.max(np.abs(want))):
      msgs.append(f'{n} layers: nodal_log_pressure_tendency differs from -sum(G dsigma) by {np.max(np.abs(got - want)):.3e}')
  return bool(msgs), ('; '.join(msgs) if msgs else 'the vertical sums of the real code equal the documented ones on the sampled columns')


def clauses():
  out = _clauses()
  for cl in out.values():
    for c in cl:
      c.refutation_needs_replay = True        # ghost sums: incomplete theory for the solver (applies once a native replay is attached)
  return out


def _clauses():
  rc = lambda c, n=2: (lambda ctx: run_contract(c, min_obligations=n, setup=_setup, timeout_ms=120000, max_paths=400))
  return {
      'C05': [
          Clause('smt:compute_diagnostic_state: u.grad(ln ps) and sigma_dot (explicit / full) equal the documented vertical sums at every interface (all layer counts)', 'smt',
                 [PE + 'compute_diagnostic_state', 'dinosaur.sigma_coordinates.cumulative_sigma_integral'], rc(diagnostic_contract, 5), replay=replay_column, group='pyvc-col'),
          Clause('smt:_t_omega_over_sigma_sp == T (v.grad(ln ps) - (alpha[n] F[n] + alpha[n-1] F[n-1]) / dsigma[n]) (Durran 8.124; all layer counts)', 'smt',
                 [PE + 'PrimitiveEquations._t_omega_over_sigma_sp', 'dinosaur.sigma_coordinates.cumulative_sigma_integral'], rc(t_omega_contract, 2), replay=replay_column, group='pyvc-col'),
          Clause('smt:nodal_log_pressure_tendency == - sum_j u.grad(ln ps)[j] dsigma[j] (all layer counts)', 'smt',
                 [PE + 'PrimitiveEquations.nodal_log_pressure_tendency', 'dinosaur.sigma_coordinates.sigma_integral'], rc(log_pressure_contract, 2), replay=replay_column, group='pyvc-col'),
      ],
      'C05sw': [
          Clause('smt:get_density_ratios == hydrostatic inter-layer coupling: rho[j] / rho[i] for layers above, 1 for layers below, 0 on the diagonal (all layer counts)', 'smt',
                 ['dinosaur.shallow_water.get_density_ratios'], rc(density_ratios_contract, 3), replay=replay_density, group='pyvc-col'),
      ],
      'C03': [
          Clause('smt:PrimitiveEquations.implicit_terms == documented linear operator on every spectral column (G, H, thickness products; Laplacian eigenvalue; all layer counts)', 'smt',
                 [PE + 'PrimitiveEquations.implicit_terms', PE + 'get_geopotential_diff', PE + 'get_temperature_implicit'], rc(implicit_terms_contract, 7), group='pyvc-col'),
      ],
      'C13': [
          Clause('smt:cumulative_sigma_integral / sigma_integral: prefix, suffix and total sums of x dsigma; ends at the total; down + up - total == local contribution; methods agree (all layer counts)', 'smt',
                 ['dinosaur.sigma_coordinates.cumulative_sigma_integral', 'dinosaur.sigma_coordinates.sigma_integral', 'dinosaur.jax_numpy_utils.cumsum', 'dinosaur.jax_numpy_utils.reverse_cumsum'],
                 rc(integrals_contract, 8), replay=replay_integrals, group='pyvc-col'),
          Clause('smt:R * cumulative_log_sigma_integral(upward) == geopotential operator: documented trapezoid sum, downward induction over layers (all layer counts)', 'smt',
                 ['dinosaur.sigma_coordinates.cumulative_log_sigma_integral', PE + 'get_geopotential_diff'], rc(log_integral_contract, 5), replay=replay_integrals, group='pyvc-col'),
      ],
      'C04': [
          Clause('smt:temperature equation (vertical advection + adiabatic + implicit) independent of the reference profile at every level of every column (all layer counts)', 'smt',
                 [PE + 'PrimitiveEquations.nodal_temperature_vertical_tendency', PE + 'PrimitiveEquations.nodal_temperature_adiabatic_tendency',
                  PE + 'PrimitiveEquations._t_omega_over_sigma_sp', PE + 'compute_diagnostic_state', PE + 'get_temperature_implicit_weights'],
                 rc(split_independence_contract, 2), group='pyvc-col'),
          Clause('smt:moist temperature equation (virtual-temperature adiabatic term with humidity) independent of the reference profile at every level of every column (all layer counts, all admissible humidities)', 'smt',
                 [PE + 'MoistPrimitiveEquations.nodal_temperature_adiabatic_tendency', PE + 'PrimitiveEquations.nodal_temperature_vertical_tendency',
                  PE + 'PrimitiveEquations._t_omega_over_sigma_sp', PE + 'compute_diagnostic_state', PE + 'get_temperature_implicit_weights'],
                 (lambda ctx: run_contract(lambda en: split_independence_contract(en, moist=True), min_obligations=2, setup=_setup, timeout_ms=120000, max_paths=400)), group='pyvc-col'),
          Clause('lemma:ghost sums are additive in the summand and telescope over layer thicknesses (induction: base + step)', 'smt',
                 ['dinosaur.sigma_coordinates.cumulative_sigma_integral'], rc(ghost_lemmas, 4), group='pyvc-col'),
      ],
  }
