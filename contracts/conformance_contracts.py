"""Engine / library-contract conformance (CPython cross-check of pyvc's array mode).

Every assumed library contract used by the array-mode clauses (slicing, pad, lax.pad, slice_in_dim, where, clip, searchsorted, dot,
concatenate, diff, arange, einsum index form, stores, guarded division, ...) is exercised *through the same engine code path* on
concrete data: the real function is (a) executed natively (numpy / JAX, float64) and (b) executed symbolically by pyvc on vectors whose
entries are those same concrete numbers; obligation: every entry of the symbolic result equals the native result (|diff| <= 1e-9).
A transcription error in a library contract (or in the engine's Python semantics) shows up here as a failed obligation, reported as an
ENGINE problem of the clause family -- this clause proves nothing about /repo; it guards the trusted base of the smt clauses.
"""
from __future__ import annotations

import fractions

import numpy as np
import z3

from vlib.core import Clause, Outcome
from vlib.pyvc import arrays
from vlib.pyvc import engine as E
from vlib.pyvc.run import run_contract


def cvec(vals, name='v', cls=E.SymSeq):
  """Vector of concrete reals as a SymSeq (symbolic index -> If-chain)."""
  vals = [float(v) for v in vals]
  terms = [E.to_z3(v) for v in vals]

  def get(i):
    i = E.to_z3(i)
    s = z3.simplify(i)
    if z3.is_int_value(s) and 0 <= s.as_long() < len(terms):
      return terms[s.as_long()]
    r = terms[-1] if terms else z3.RealVal(0)
    for k in range(len(terms) - 2, -1, -1):
      r = z3.If(i == k, terms[k], r)
    return r
  return cls(len(vals), get, z3.RealSort(), name)


def _close(en, name, sym, native, tol=1e-9):
  native = np.asarray(native, dtype=float).ravel()
  if isinstance(sym, E.SymSeq):
    n = z3.simplify(E.to_z3(sym.length))
    if not (z3.is_int_value(n) and n.as_long() == native.size):
      en.ensure(f'{name}: symbolic length {n} == native length {native.size}', E.to_z3(sym.length) == native.size)
      return
    conj = []
    for k in range(native.size):
      v = E._real(arrays._num(sym.get(k)))
      conj.append(z3.And(v - E.to_z3(float(native[k])) <= tol, E.to_z3(float(native[k])) - v <= tol))
    en.ensure(f'{name}: every entry of the symbolic result equals the native result', z3.And(*conj) if conj else z3.BoolVal(True))
  else:
    v = E._real(arrays._num(sym))
    en.ensure(f'{name}: symbolic result equals the native result', z3.And(v - E.to_z3(float(native[0])) <= tol, E.to_z3(float(native[0])) - v <= tol))


def interp_conformance(en: E.Engine):
  import jax
  jax.config.update('jax_enable_x64', True)
  import jax.numpy as jnp
  from dinosaur import vertical_interpolation as vi
  from contracts import interp_contracts as IC
  IC._setup(en)
  rng = np.random.RandomState(0)
  en.cover('conformance')
  for n in (2, 3, 6):
    xp = np.cumsum(rng.uniform(0.2, 1.5, n))
    fp = rng.randn(n)
    for x in (xp[0] - 0.4, xp[0], 0.5 * (xp[0] + xp[1]), xp[-1], xp[-1] + 0.7):
      for name in ('linear_interp_with_linear_extrap', '_dot_interp'):
        fn = IC._fn(name)
        native = float(fn(x, jnp.asarray(xp), jnp.asarray(fp)))
        kind, r = en.invoke(en.load_function(fn), E.to_z3(float(x)), cvec(xp, 'xp'), cvec(fp, 'fp'))
        if kind == 'raise':
          en.ensure(f'{name}(n={n}, x={x:.3f}) runs symbolically ({r})', False)
          continue
        _close(en, f'{name}(n={n}, x={x:.3f})', r, [native])


def fourier_conformance(en: E.Engine):
  import jax
  jax.config.update('jax_enable_x64', True)
  import jax.numpy as jnp
  from dinosaur import fourier, jax_numpy_utils as jnu
  from contracts import fourier_contracts as FC
  FC._setup(en)
  rng = np.random.RandomState(1)
  en.cover('conformance')
  for n in (1, 3, 7):
    u = rng.randn(n)
    col = lambda v: jnp.asarray(v)[:, None]
    native = np.asarray(fourier.real_basis_derivative(col(u), axis=-2))[:, 0]
    kind, r = en.invoke(en.load_function(fourier.real_basis_derivative), cvec(u, 'u', FC.Col), axis=-2)
    _close(en, f'real_basis_derivative(n={n})', r, native)
    for o in (1, -1, 2, -9):
      native = np.asarray(jnu.shift(col(u), o, -2))[:, 0]
      kind, r = en.invoke(en.load_function(jnu.shift), cvec(u, 'u', FC.Col), o, -2)
      _close(en, f'shift(n={n}, offset={o})', r, native)
  for n, f0 in ((2, 0), (6, 0), (4, 5)):
    u = rng.randn(n)
    native = np.asarray(fourier.real_basis_derivative_with_zero_imag(jnp.asarray(u)[:, None], -2, f0))[:, 0]
    kind, r = en.invoke(en.load_function(fourier.real_basis_derivative_with_zero_imag), cvec(u, 'u', FC.Col), -2, f0)
    _close(en, f'real_basis_derivative_with_zero_imag(n={n}, offset={f0})', r, native)


def sigma_conformance(en: E.Engine):
  import jax
  jax.config.update('jax_enable_x64', True)
  import jax.numpy as jnp
  from dinosaur import sigma_coordinates as sc
  from contracts import sigma_contracts as SC_
  SC_._setup(en)
  rng = np.random.RandomState(2)
  en.cover('conformance')
  for n in (2, 3, 5):
    b = np.concatenate([[0.0], np.sort(rng.uniform(0.05, 0.95, n - 1)), [1.0]])
    real = sc.SigmaCoordinates(b)
    bs = cvec(b, 'boundaries')
    self = E.Obj(boundaries=bs)
    for prop in ('centers', 'layer_thickness'):
      kind, v = en.invoke(en.load_function(getattr(sc.SigmaCoordinates, prop).fget), self)
      setattr(self, prop, v)
      _close(en, f'SigmaCoordinates.{prop}(n={n})', v, getattr(real, prop))
    kind, v = en.invoke(en.load_function(sc.SigmaCoordinates.center_to_center.fget), self)
    self.center_to_center = v
    _close(en, f'SigmaCoordinates.center_to_center(n={n})', v, real.center_to_center)
    self.layers = n
    x, w = rng.randn(n), rng.randn(n - 1)
    kind, d = en.invoke(en.load_function(sc.centered_difference), cvec(x, 'x'), self, axis=0)
    _close(en, f'centered_difference(n={n})', d, np.asarray(sc.centered_difference(jnp.asarray(x), real, axis=0)))
    kind, a = en.invoke(en.load_function(sc.centered_vertical_advection), cvec(w, 'w'), cvec(x, 'x'), self, axis=0)
    _close(en, f'centered_vertical_advection(n={n})', a, np.asarray(sc.centered_vertical_advection(jnp.asarray(w), jnp.asarray(x), real, axis=0)))


def grid_conformance(en: E.Engine):
  import functools
  import jax
  jax.config.update('jax_enable_x64', True)
  import jax.numpy as jnp
  from dinosaur import spherical_harmonic as sh
  from contracts import grid_contracts as GC
  GC._setup(en)
  rng = np.random.RandomState(3)
  en.cover('conformance')
  for impl, L in ((sh.RealSphericalHarmonics, 4), (functools.partial(sh.FastSphericalHarmonics, base_shape_multiple=4), 5)):
    real = sh.Grid(longitude_wavenumbers=3, total_wavenumbers=L, longitude_nodes=8, latitude_nodes=6, radius=2.5, spherical_harmonics_impl=impl)
    n = real.modal_shape[1]
    lvals = np.asarray(real.modal_axes[1], dtype=float)
    g = E.Obj(class_ref=sh.Grid, total_wavenumbers=L, radius=2.5, modal_axes=(None, cvec(lvals, 'l')), modal_shape=tuple(real.modal_shape), modal_padding=tuple(real.modal_padding))
    x = rng.randn(n)
    eig = en.getattr(g, 'laplacian_eigenvalues')
    _close(en, f'laplacian_eigenvalues(L={L}, n={n})', eig, np.asarray(real.laplacian_eigenvalues))
    g.laplacian_eigenvalues = eig
    kind, y = en.invoke(en.getattr(g, 'inverse_laplacian'), cvec(x, 'x'))
    _close(en, f'inverse_laplacian(L={L}, n={n})', y, np.asarray(real.inverse_laplacian(jnp.asarray(x)[None, :]))[0])
    for nc in (1, 2):
      kind, y = en.invoke(en.getattr(g, 'clip_wavenumbers'), cvec(x, 'x'), nc)
      _close(en, f'clip_wavenumbers(L={L}, n={n}, clip={nc})', y, np.asarray(real.clip_wavenumbers(jnp.asarray(x)[None, :], nc))[0])


def regrid_conformance(en: E.Engine):
  import jax
  jax.config.update('jax_enable_x64', True)
  import jax.numpy as jnp
  from dinosaur import vertical_interpolation as vi
  from contracts import regrid_contracts as RC
  RC._setup(en)
  rng = np.random.RandomState(4)
  en.cover('conformance')
  for S in (1, 3, 5):
    sb = np.cumsum(rng.uniform(0.2, 1.0, S + 1))
    tb = np.sort(rng.uniform(sb[0] - 0.3, sb[-1] + 0.3, 4))
    native = np.asarray(vi._interval_overlap(jnp.asarray(sb), jnp.asarray(tb)))
    for t in range(3):
      sub = {RC.TLO: E.to_z3(float(tb[t])), RC.THI: E.to_z3(float(tb[t + 1]))}
      en.target_cells = 3
      kind, row = en.invoke(en.load_function(vi._interval_overlap), RC.SourceRow(cvec(sb, 'sb')), RC.TargetRow(3))
      if kind == 'raise':
        en.ensure(f'_interval_overlap row runs symbolically ({row})', False)
        continue
      inst = E.SymSeq(row.length, (lambda row_, sub_: (lambda i: z3.substitute(row_.get(i), *sub_.items())))(row, sub), None, 'row')
      _close(en, f'_interval_overlap(S={S}, target cell {t})', inst, native[t])


def matrix_conformance(en: E.Engine):
  """pyvc matrix mode (2-d arrays) against native numpy on the vertical weight matrices (log values supplied as facts)."""
  from dinosaur import primitive_equations as pe, sigma_coordinates as sc
  from contracts import vertical_matrix_contracts as VM
  from vlib.pyvc import matrix
  VM._setup(en)
  rng = np.random.RandomState(5)
  en.cover('conformance')
  for n in (1, 2, 4):
    b = np.concatenate([[0.0], np.sort(rng.uniform(0.05, 0.95, n - 1)), [1.0]])
    real = sc.SigmaCoordinates(b)
    self = E.Obj(boundaries=cvec(b, 'boundaries'))
    for prop in ('centers', 'layer_thickness'):
      kind, v = en.invoke(en.load_function(getattr(sc.SigmaCoordinates, prop).fget), self)
      setattr(self, prop, v)
    self.layers = n
    for k_ in range(n):
      en.assume(matrix.LOG(z3.simplify(E._real(self.centers.get(k_)))) == E.to_z3(float(np.log(float(real.centers[k_])))))
    kind, a = en.invoke(en.load_function(pe.get_sigma_ratios), self)
    _close(en, f'get_sigma_ratios(n={n})', a, pe.get_sigma_ratios(real))
    kind, G = en.invoke(en.load_function(pe.get_geopotential_weights), self, 2.5)
    nat = pe.get_geopotential_weights(real, 2.5)
    for r in range(n):
      _close(en, f'get_geopotential_weights(n={n}) row {r}', en.subscript(G, r), nat[r])
    T = rng.uniform(200, 300, n)
    kind, H = en.invoke(en.load_function(pe.get_temperature_implicit_weights), self, cvec(T, 'T'), 0.3)
    nat = pe.get_temperature_implicit_weights(real, T, 0.3)
    for r in range(n):
      _close(en, f'get_temperature_implicit_weights(n={n}) row {r}', en.subscript(H, r), nat[r])


def clauses():
  rc = lambda c, n: (lambda ctx: run_contract(c, min_obligations=n, timeout_ms=60000, max_paths=4000))
  return {
      'C17': Clause('conformance:pyvc array mode == native execution on the interpolation kernels (library contracts and engine semantics)', 'enum',
                    ['dinosaur.vertical_interpolation.linear_interp_with_linear_extrap', 'dinosaur.vertical_interpolation._dot_interp'], rc(interp_conformance, 20), group='pyvc-conf'),
      'C02': Clause('conformance:pyvc array mode == native execution on shift and the Fourier derivatives', 'enum',
                    ['dinosaur.fourier.real_basis_derivative', 'dinosaur.fourier.real_basis_derivative_with_zero_imag', 'dinosaur.jax_numpy_utils.shift'], rc(fourier_conformance, 12),
                    group='pyvc-conf'),
      'C13': Clause('conformance:pyvc array mode == native execution on the sigma-coordinate functions', 'enum',
                    ['dinosaur.sigma_coordinates.centered_difference', 'dinosaur.sigma_coordinates.centered_vertical_advection'], rc(sigma_conformance, 12), group='pyvc-conf'),
      'C02b': Clause('conformance:pyvc array mode == native execution on Laplacian eigenvalues / inverse / clip', 'enum',
                     ['dinosaur.spherical_harmonic.Grid.inverse_laplacian', 'dinosaur.spherical_harmonic.Grid.clip_wavenumbers'], rc(grid_conformance, 8), group='pyvc-conf'),
      'C03': Clause('conformance:pyvc matrix mode == native execution on the vertical weight matrices (2-d library contracts)', 'enum',
                    ['dinosaur.primitive_equations.get_sigma_ratios', 'dinosaur.primitive_equations.get_geopotential_weights',
                     'dinosaur.primitive_equations.get_temperature_implicit_weights'], rc(matrix_conformance, 12), group='pyvc-conf'),
      'C16': Clause('conformance:pyvc row mode == native execution on the interval overlaps', 'enum', ['dinosaur.vertical_interpolation._interval_overlap'], rc(regrid_conformance, 8),
                    group='pyvc-conf'),
  }
