"""C01 / C09: coefficient layouts and masks of the two spherical-harmonic implementations -- from the real source, all sizes.

pyvc on the properties `modal_axes`, `modal_shape`, `modal_padding`, `mask` of RealSphericalHarmonics and FastSphericalHarmonics with
symbolic longitude_wavenumbers M >= 1 and total_wavenumbers L >= 1 (Fast: no mesh, base_shape_multiple in {None, 2, 4, 8}).
Assumed array contracts (A8): np.arange(a, b), np.stack([a, b], axis=1).ravel() interleaves a and b, np.concatenate, np.pad (1-d),
np.meshgrid(x, y, indexing='ij') broadcasts x along rows and y along columns, elementwise abs / comparisons / &.
Post-conditions (layouts documented in the `basis` properties; R is the re-indexing of C09):
  Real   m[0] = 0, m[2j-1] = j, m[2j] = -j;  l[k] = k;  mask[i, l]  <=>  (i+1)//2 <= l
  Fast   m[0] = m[1] = 0, m[2j] = j, m[2j+1] = -j, 0 on padding;  mask[i, l] <=> i != 1 and i < 2M and l < L and i//2 <= l
  mask_fast[R(i), l] == mask_real[i, l] with R(0) = 0, R(i) = i + 1 (i >= 1); rows of the fast layout outside R's image
  (row 1 and padded rows) and padded columns are masked out -- so both layouts carry the same degrees of freedom.
"""
from __future__ import annotations

import z3

from vlib.core import Clause
from vlib.pyvc import arrays
from vlib.pyvc import engine as E
from vlib.pyvc.run import run_contract

SH = 'dinosaur.spherical_harmonic.'


class Pred:
  """Boolean matrix given by its generic entry (i, j) -> z3 Bool."""

  def __init__(self, f):
    self.f = f

  def __and__(self, o):
    return Pred(lambda i, j: z3.And(self.f(i, j), o.f(i, j)))


class Mesh:
  """np.meshgrid(..., indexing='ij') component: value depends on the row index (kind 'i') or the column index (kind 'j')."""

  def __init__(self, seq, kind, fn=None):
    self.seq, self.kind = seq, kind
    self.fn = fn or (lambda v: v)

  def at(self, i, j):
    return self.fn(self.seq.get(i if self.kind == 'i' else j))

  def __abs__(self):
    return Mesh(self.seq, self.kind, lambda v: z3.If(self.fn(v) >= 0, self.fn(v), -self.fn(v)))

  def _pyvc_compare(self, op, other, reflected):
    a = (lambda i, j: self.at(i, j))
    b = (lambda i, j: other.at(i, j)) if isinstance(other, Mesh) else (lambda i, j: E.to_z3(other))
    if reflected:
      a, b = b, a
    ops = {'Eq': lambda x, y: x == y, 'NotEq': lambda x, y: x != y, 'Lt': lambda x, y: x < y, 'LtE': lambda x, y: x <= y, 'Gt': lambda x, y: x > y, 'GtE': lambda x, y: x >= y}
    return Pred(lambda i, j: ops[op](a(i, j), b(i, j)))


def _setup(en):
  arrays.install(en)
  import numpy as np
  from vlib.pyvc.libspec import _reg

  def h_arange(en_, a, b=None, *rest, **k):
    if rest or k:
      raise E.Unsupported('arange with step/dtype')
    lo, hi = (0, a) if b is None else (a, b)
    n = z3.simplify(E.to_z3(hi) - E.to_z3(lo))
    n = z3.If(n >= 0, n, 0) if not z3.is_int_value(n) else n
    return E.SymSeq(z3.simplify(n) if E.is_sym(n) else n, lambda i: E.to_z3(lo) + E.to_z3(i), z3.IntSort(), 'arange')
  _reg(en, np.arange, h_arange, 'np.arange(a, b)')

  class Stacked:
    def __init__(self, a, b):
      self.a, self.b = a, b

  def h_stack(en_, parts, axis=0):
    parts = list(en_.iter_concrete(parts))
    if len(parts) != 2 or axis != 1:
      raise E.Unsupported('stack other than two vectors along axis 1')
    arrays._same_length(en_, parts[0], parts[1])
    st = E.Obj(kind='stacked2', a=parts[0], b=parts[1])
    st.ravel = E.SymCallable(lambda en__: E.SymSeq(z3.simplify(2 * E.to_z3(parts[0].length)), lambda i: z3.If(E.to_z3(i) % 2 == 0, parts[0].get(E.to_z3(i) / 2), parts[1].get(E.to_z3(i) / 2)),
                                                    z3.IntSort(), 'interleaved'), 'ravel of stack(axis=1) interleaves')
    return st
  _reg(en, np.stack, h_stack, 'np.stack([a, b], axis=1).ravel() interleaves a and b (A8)')

  def h_meshgrid(en_, x, y, indexing='xy'):
    if indexing != 'ij':
      raise E.Unsupported('meshgrid indexing other than ij')
    return (Mesh(x, 'i'), Mesh(y, 'j'))
  _reg(en, np.meshgrid, h_meshgrid, "np.meshgrid(x, y, indexing='ij') (A8)")

  # unary minus on vectors (np: -m_pos)
  orig = E.Engine.ex_UnaryOp

  def ex_UnaryOp(self, e, env):
    if isinstance(e.op, E.ast.USub):
      v = self.eval(e.operand, env)
      if isinstance(v, E.SymSeq):
        return E.SymSeq(v.length, lambda i: -v.get(i), v.sort, f'-{v.name}')
      if E.is_sym(v) and v.sort() == E.V:
        return self.vec('neg', v)
      return -v
    return orig(self, e, env)
  E.Engine.ex_UnaryOp = ex_UnaryOp


def _real(en):
  from dinosaur import spherical_harmonic as sh
  M, L = en.int('longitude_wavenumbers'), en.int('total_wavenumbers')
  en.assume(z3.And(M >= 1, L >= 1))
  return E.Obj(class_ref=sh.RealSphericalHarmonics, longitude_wavenumbers=M, total_wavenumbers=L, longitude_nodes=en.int('lon_nodes'), latitude_nodes=en.int('lat_nodes')), M, L


def _fast(en, base):
  from dinosaur import spherical_harmonic as sh
  M, L = en.int('longitude_wavenumbers'), en.int('total_wavenumbers')
  en.assume(z3.And(M >= 1, L >= 1))
  return E.Obj(class_ref=sh.FastSphericalHarmonics, longitude_wavenumbers=M, total_wavenumbers=L, longitude_nodes=en.int('lon_nodes'), latitude_nodes=en.int('lat_nodes'),
               base_shape_multiple=base, spmd_mesh=None), M, L


def real_layout_contract(en: E.Engine):
  self, M, L = _real(en)
  en.cover('requires: M, L >= 1')
  m, l = en.getattr(self, 'modal_axes')
  shape = en.getattr(self, 'modal_shape')
  j, k = z3.Int('j'), z3.Int('k')
  en.ensure('modal_shape == (2M - 1, L); no padding', z3.And(E.to_z3(shape[0]) == 2 * M - 1, E.to_z3(shape[1]) == L, E.to_z3(m.length) == 2 * M - 1, E.to_z3(l.length) == L))
  en.ensure('zonal wavenumbers: m[0] = 0, m[2j-1] = j, m[2j] = -j (1 <= j < M)',
            z3.And(m.get(0) == 0, z3.ForAll([j], z3.Implies(z3.And(j >= 1, j < M), z3.And(m.get(2 * j - 1) == j, m.get(2 * j) == -j)))))
  en.ensure('total wavenumbers: l[k] = k', z3.ForAll([k], z3.Implies(z3.And(k >= 0, k < L), l.get(k) == k)))
  mask = en.getattr(self, 'mask')
  i, c = en.int('i'), en.int('l')
  en.assume(z3.And(i >= 0, i < 2 * M - 1, c >= 0, c < L))
  en.ensure('mask[i, l] <=> (i + 1) // 2 <= l  (triangular truncation |m| <= l)', mask.f(i, c) == ((i + 1) / 2 <= c))


def fast_layout_contract(en: E.Engine, base=None):
  self, M, L = _fast(en, base)
  en.cover('requires: M, L >= 1')
  shape = en.getattr(self, 'modal_shape')
  pad = en.getattr(self, 'modal_padding')
  m, l = en.getattr(self, 'modal_axes')
  b = base or 1
  en.ensure('modal_shape: smallest multiples of (2 base, base) holding (2M, L); padding = shape - limits >= 0',
            z3.And(E.to_z3(shape[0]) % (2 * b) == 0, E.to_z3(shape[0]) >= 2 * M, E.to_z3(shape[0]) < 2 * M + 2 * b, E.to_z3(shape[1]) % b == 0, E.to_z3(shape[1]) >= L, E.to_z3(shape[1]) < L + b,
                   E.to_z3(pad[0]) == E.to_z3(shape[0]) - 2 * M, E.to_z3(pad[1]) == E.to_z3(shape[1]) - L, E.to_z3(m.length) == E.to_z3(shape[0]), E.to_z3(l.length) == E.to_z3(shape[1])))
  j, k = z3.Int('j'), z3.Int('k')
  en.ensure('zonal wavenumbers: m[0] = m[1] = 0, m[2j] = j, m[2j+1] = -j (1 <= j < M), 0 on padded rows',
            z3.And(m.get(0) == 0, m.get(1) == 0, z3.ForAll([j], z3.Implies(z3.And(j >= 1, j < M), z3.And(m.get(2 * j) == j, m.get(2 * j + 1) == -j))),
                   z3.ForAll([k], z3.Implies(z3.And(k >= 2 * M, k < E.to_z3(shape[0])), m.get(k) == 0))))
  en.ensure('total wavenumbers: l[k] = k below L, 0 on padded columns',
            z3.ForAll([k], z3.Implies(z3.And(k >= 0, k < E.to_z3(shape[1])), l.get(k) == z3.If(k < L, k, 0))))
  mask = en.getattr(self, 'mask')
  i, c = en.int('i'), en.int('l')
  en.assume(z3.And(i >= 0, i < E.to_z3(shape[0]), c >= 0, c < E.to_z3(shape[1])))
  en.ensure('mask[i, l] <=> i != 1 and i < 2M and l < L and i // 2 <= l (padding and the zero imaginary part of m = 0 masked out)',
            mask.f(i, c) == z3.And(i != 1, i < 2 * M, c < L, i / 2 <= c))


def conjugacy_contract(en: E.Engine, base=None):
  """Same degrees of freedom under R: mask_fast[R(i), l] == mask_real[i, l]; fast entries outside R's image are masked out."""
  from dinosaur import spherical_harmonic as sh
  M, L = en.int('longitude_wavenumbers'), en.int('total_wavenumbers')
  en.assume(z3.And(M >= 1, L >= 1))
  real = E.Obj(class_ref=sh.RealSphericalHarmonics, longitude_wavenumbers=M, total_wavenumbers=L)
  fast = E.Obj(class_ref=sh.FastSphericalHarmonics, longitude_wavenumbers=M, total_wavenumbers=L, base_shape_multiple=base, spmd_mesh=None)
  en.cover('requires')
  mr, mf = en.getattr(real, 'mask'), en.getattr(fast, 'mask')
  shape = en.getattr(fast, 'modal_shape')
  i, c = en.int('i'), en.int('l')
  en.assume(z3.And(i >= 0, c >= 0))
  R = z3.If(i == 0, 0, i + 1)
  en.ensure('mask_fast[R(i), l] == mask_real[i, l] for every reference entry', z3.Implies(z3.And(i < 2 * M - 1, c < L), mf.f(R, c) == mr.f(i, c)))
  en.ensure('fast entries outside the image of R (row 1, padded rows, padded columns) are masked out',
            z3.Implies(z3.And(i < E.to_z3(shape[0]), c < E.to_z3(shape[1]), z3.Or(i == 1, i >= 2 * M, c >= L)), z3.Not(mf.f(i, c))))
  mra, _ = en.getattr(real, 'modal_axes')
  mfa, _ = en.getattr(fast, 'modal_axes')
  en.ensure('the zonal wavenumber of fast row R(i) equals that of reference row i', z3.Implies(i < 2 * M - 1, mfa.get(R) == mra.get(i)))


def canary_contract(en: E.Engine):
  self, M, L = _real(en)
  mask = en.getattr(self, 'mask')
  i, c = en.int('i'), en.int('l')
  en.assume(z3.And(i >= 0, i < 2 * M - 1, c >= 0, c < L))
  en.ensure('canary: mask[i, l] <=> i // 2 <= l', mask.f(i, c) == (i / 2 <= c))


def replay_layout(w):
  import numpy as np
  from dinosaur import spherical_harmonic as sh
  import functools
  for M, L in ((1, 1), (2, 3), (4, 5), (3, 7)):
    r = sh.RealSphericalHarmonics(longitude_wavenumbers=M, total_wavenumbers=L, longitude_nodes=2 * M + 1, latitude_nodes=L + 1)
    i, l = np.meshgrid(np.arange(2 * M - 1), np.arange(L), indexing='ij')
    if not np.array_equal(r.mask, (i + 1) // 2 <= l) or r.modal_axes[0].tolist() != [0] + [s * j for j in range(1, M) for s in (1, -1)]:
      return True, f'RealSphericalHarmonics(M={M}, L={L}): modal_axes {r.modal_axes[0].tolist()}, mask\n{r.mask.astype(int)}'
    for base in (None, 2, 4):
      f = sh.FastSphericalHarmonics(longitude_wavenumbers=M, total_wavenumbers=L, longitude_nodes=2 * M + 1, latitude_nodes=L + 1, base_shape_multiple=base)
      i, l = np.meshgrid(np.arange(f.modal_shape[0]), np.arange(f.modal_shape[1]), indexing='ij')
      want = (i != 1) & (i < 2 * M) & (l < L) & (i // 2 <= l)
      if not np.array_equal(f.mask, want):
        return True, f'FastSphericalHarmonics(M={M}, L={L}, base={base}): mask\n{f.mask.astype(int)}\nexpected\n{want.astype(int)}'
  return False, 'masks and layouts agree with the index predicates on the sampled sizes'


def clauses():
  rc = lambda c, n=2, **kw: (lambda ctx: run_contract((lambda en: c(en, **kw)) if kw else c, min_obligations=n, setup=_setup, timeout_ms=60000))

  def many(contract, bases, n):
    def run(ctx):
      from vlib.core import Outcome
      total = Outcome()
      for b in bases:
        o = run_contract((lambda en, b=b: contract(en, base=b)), min_obligations=n, setup=_setup, timeout_ms=60000)
        for f in o.failures:
          f.obligation = f'[base_shape_multiple={b}] {f.obligation}'
        o.undecided = [f'[base_shape_multiple={b}] {u}' for u in o.undecided]
        total.merge(o)
      return total
    return run
  R = [SH + 'RealSphericalHarmonics.' + n for n in ('modal_axes', 'modal_shape', 'mask')]
  F = [SH + 'FastSphericalHarmonics.' + n for n in ('modal_axes', 'modal_shape', 'modal_padding', 'modal_limits', 'mask')]
  return [
      Clause('smt:reference layout: m = [0, 1, -1, 2, -2, ...], l = 0..L-1, mask[i, l] <=> (i+1)//2 <= l (all M, L)', 'smt', R, rc(real_layout_contract, 5), replay=replay_layout, group='pyvc'),
      Clause('smt:fast layout: shapes/padding, m = [0, 0, 1, -1, ...] with zero padding, mask index predicate (all M, L; base multiples None/2/4/8)', 'smt', F,
             many(fast_layout_contract, (None, 2, 4, 8), 5), replay=replay_layout, group='pyvc'),
      Clause('smt:both layouts carry the same degrees of freedom under the re-indexing R (all M, L; base multiples None/4)', 'smt', R + F,
             many(conjugacy_contract, (None, 4), 4), replay=replay_layout, group='pyvc'),
      Clause('canary:reference mask <=> i//2 <= l must fail', 'smt', R, rc(canary_contract, 1), canary=True, group='pyvc'),
  ]
