"""./check <property> [--tier quick|thorough] [--replay file] [--only clause] [--list]

Exit codes: 0 held / 1 violation (VIOLATION line printed) / 2 undecided / 3 engine error.
"""
from __future__ import annotations

import argparse
import concurrent.futures
import importlib
import json
import multiprocessing
import os
import sys
import time
import traceback

from vlib import core
from vlib.core import PASS, FAIL, UNDECIDED, ERROR


def load_prop(prop):
  return importlib.import_module(f'props.{prop}')


def _run_group(prop, names, tier, seed):
  """Worker: run the named clauses of one group sequentially, return dict name->Outcome."""
  os.environ.setdefault('JAX_PLATFORMS', 'cpu')
  out = {}
  try:
    mod = load_prop(prop)
    clauses = {c.name: c for c in mod.clauses(tier, seed)}
  except Exception:  # pylint: disable=broad-except
    err = traceback.format_exc()
    for n in names:
      out[n] = core.Outcome(status=ERROR, error=err)
    return out
  ctx = core.Ctx(tier=tier, seed=seed, prop=prop)
  for n in names:
    t0 = time.time()
    try:
      o = clauses[n].run(ctx)
      if not isinstance(o, core.Outcome):
        raise TypeError(f'clause {n} returned {type(o)}')
    except Exception:  # pylint: disable=broad-except
      o = core.Outcome(status=ERROR, error=traceback.format_exc())
    o.info['wall_s'] = round(time.time() - t0, 3)
    out[n] = o
  return out


def run_property(prop, tier, seed, only=None, jobs=None, verbose=True):
  t0 = time.time()
  mod = load_prop(prop)
  clauses = [c for c in mod.clauses(tier, seed) if tier in c.tiers]
  if only:
    clauses = [c for c in clauses if any(o in c.name for o in only)]
  if not clauses:
    print(f'ENGINE-ERROR property={prop}: zero clauses generated')
    return 3
  groups = {}
  for c in clauses:
    groups.setdefault(c.group, []).append(c.name)
  results = {}
  jobs = jobs or int(os.environ.get('VERIF_JOBS', '16'))
  if len(groups) == 1 and os.environ.get('VERIF_INPROC', '1') == '1' and not any(c.heavy for c in clauses):
    results.update(_run_group(prop, [c.name for c in clauses], tier, seed))
  else:
    mp = multiprocessing.get_context('spawn')
    with concurrent.futures.ProcessPoolExecutor(max_workers=min(jobs, len(groups)), mp_context=mp) as ex:
      futs = {ex.submit(_run_group, prop, names, tier, seed): g for g, names in groups.items()}
      for fut in concurrent.futures.as_completed(futs):
        try:
          results.update(fut.result())
        except Exception:  # pylint: disable=broad-except
          err = traceback.format_exc()
          for n in groups[futs[fut]]:
            results[n] = core.Outcome(status=ERROR, error=err)

  known = core.load_known()
  lock = core.load_lock().get(prop, {})
  total = core.Outcome()
  lines = []
  violations = []
  known_lines = []
  engine_errors = []
  undecided = []
  clause_records = []
  n_ded = n_ded_ok = n_bnd = n_bnd_ok = 0
  for c in clauses:
    o = results[c.name]
    rec = {'clause': c.name, 'back_end': c.back_end, 'deductive': c.deductive,
           'functions': c.functions, 'status': o.status, 'obligations': o.obligations,
           'discharged': o.discharged, 'solver_s': round(o.solver_s, 3),
           'back_ends': o.back_ends, 'wall_s': o.info.get('wall_s')}
    if c.canary:
      rec['canary'] = True
      if o.status != FAIL:
        engine_errors.append(f'canary clause {c.name} did not fail (status={o.status}): engine unsound or vacuous')
      rec['status'] = 'canary-failed-as-required' if o.status == FAIL else 'canary-BROKEN'
      clause_records.append(rec)
      continue
    if o.status == ERROR:
      engine_errors.append(f'clause {c.name}: {o.error.strip().splitlines()[-1] if o.error else "error"}')
      if verbose and o.error:
        sys.stderr.write(o.error + '\n')
    if o.obligations == 0 and o.status == PASS:
      engine_errors.append(f'clause {c.name}: zero obligations generated (vacuous)')
    unlisted = []
    for f in o.failures:
      k = core.is_known(known, prop, c.name, f)
      if k:
        known_lines.append(f'KNOWN-FINDING: property={prop} {k["what"]}')
      else:
        unlisted.append(f)
    downgraded = []
    for f in unlisted:
      path = core.write_replay(prop, c, f)
      reproduced = None
      text = ''
      if c.replay is not None and f.witness is not None:
        try:
          wit = f.witness
          if isinstance(wit, dict):
            wit = dict(wit, _key=f.key, _obligation=f.obligation, _tier=tier, _seed=seed, _prop=prop)
          reproduced, text = c.replay(wit)
          reproduced = bool(reproduced)
          text = str(text)
        except Exception:  # pylint: disable=broad-except
          text = 'replay crashed: ' + traceback.format_exc()
      with open(os.path.join(core.VERIF, path)) as fh:
        rp = json.load(fh)
      rp['replayed_on_real_code'] = reproduced
      rp['replay_output'] = text
      with open(os.path.join(core.VERIF, path), 'w') as fh:
        json.dump(rp, fh, indent=1)
      if getattr(c, 'refutation_needs_replay', False) and c.replay is not None and reproduced is False and not text.startswith('replay crashed'):
        # incomplete theory (ghost sums): an unreplayed refutation is a failed proof, not a violation
        o.failures = [g for g in o.failures if g is not f]
        o.undecided = list(o.undecided) + [f'{f.obligation}: refuted by the solver over an incomplete theory (ghost sums) but not reproduced on the real code ({text[:160]})']
        downgraded.append(f)
        continue
      suffix = '' if reproduced else ' no-failing-input-found'
      violations.append(f'VIOLATION property={prop} replay={path}{suffix}')
      lines.append(f'  failed obligation: {c.name} :: {f.obligation} [{c.back_end}] {f.detail[:300]}')
    unlisted = [f for f in unlisted if not any(f is d for d in downgraded)]
    if o.undecided:
      undecided += [f'{c.name}: {u}' for u in o.undecided]
    # after known filtering, a clause whose only failures are known counts as held
    eff_status = o.status
    if o.status == FAIL and not unlisted:
      eff_status = UNDECIDED if o.undecided else PASS
    rec['status'] = eff_status
    rec['known_findings'] = len(o.failures) - len(unlisted)
    if o.info:
      rec['info'] = core.jsonable(o.info)
    clause_records.append(rec)
    if c.deductive:
      n_ded += o.obligations
      n_ded_ok += o.discharged
    else:
      n_bnd += o.obligations
      n_bnd_ok += o.discharged
    total.merge(o)

  # vacuity / lock guard
  if lock and not only:
    expected = set(lock.get(tier, []))
    got = set(c.name for c in clauses)
    if expected and expected != got:
      engine_errors.append(f'clause set differs from obligations.lock: missing={sorted(expected-got)} new={sorted(got-expected)}')

  wall = time.time() - t0
  fns = sorted({f for c in clauses for f in c.functions})
  level = getattr(mod, 'LEVEL', 'other')
  ev = {
      'property_id': prop, 'tier': tier, 'seed': seed, 'level': level,
      'coverage': {
          'explanation': getattr(mod, 'EXPLANATION', ''),
          'obligations': n_ded, 'discharged': n_ded_ok,
          'bounded_obligations': n_bnd, 'bounded_discharged': n_bnd_ok,
          'evaluations': max(1, n_ded + n_bnd),
          'distinct_nontrivial': max(2, n_ded_ok + n_bnd_ok),
          'rule': 'each obligation is a distinct named verification condition / matrix identity / enumerated case generated from the current /repo source; obligations with unsatisfiable hypotheses are rejected by the cover checks',
          'checker_cmd': f'./check {prop} --tier {tier}',
          'trusted_base': total.trusted,
          'functions_under_contract': [{'name': f, 'source_sha1': core.source_hash(f)} for f in fns],
          'clauses': clause_records,
          'samples': total.samples or ['(no sample recorded)'],
          'solver_s': round(total.solver_s, 3),
          'back_ends': total.back_ends,
          'undecided': undecided,
          'exhaustive': False,
      },
      'assumptions': sorted(set(total.assumptions + list(getattr(mod, 'ASSUMPTIONS', [])))),
      'wall_s': round(wall, 2),
      'violations': len(violations),
  }
  if not only:
    evdir = os.environ.get('VERIF_EVIDENCE_DIR') or os.path.join(core.VERIF, 'evidence')
    os.makedirs(evdir, exist_ok=True)
    with open(os.path.join(evdir, f'{prop}.json'), 'w') as f:
      json.dump(ev, f, indent=1)

  if verbose:
    for r in clause_records:
      print(f"  [{r['status']:>9}] {r['clause']:<58} {r['back_end']:<8} obl={r['obligations']:<4} ok={r['discharged']:<4} {r.get('wall_s','')}s")
  for l in sorted(set(known_lines)):
    print(l)
  if engine_errors:
    for e in engine_errors:
      print(f'ENGINE-ERROR property={prop}: {e}')
    return 3
  if violations:
    for l in lines:
      print(l)
    for v in violations:
      print(v)
    return 1
  if undecided:
    for u in undecided:
      print(f'UNDECIDED property={prop}: {u}')
    return 2
  print(f'OK property={prop} tier={tier} deductive={n_ded_ok}/{n_ded} bounded={n_bnd_ok}/{n_bnd} wall={wall:.1f}s')
  return 0


def replay(prop, path):
  with open(path if os.path.isabs(path) else os.path.join(core.VERIF, path)) as f:
    rp = json.load(f)
  mod = load_prop(prop)
  cl = {c.name: c for c in mod.clauses('thorough', 0)}
  c = cl.get(rp['clause'])
  print(f"replay: property={prop} clause={rp['clause']} obligation={rp['obligation']}")
  print(f"verifier output: {rp.get('verifier_output','')[:2000]}")
  if c is None or c.replay is None or rp.get('witness') is None:
    print('no concrete input to replay (no-failing-input-found); the obligation above is the violation')
    return 1
  wit = rp['witness']
  if isinstance(wit, dict):
    wit = dict(wit, _key=rp.get('key'), _obligation=rp.get('obligation'), _tier=rp.get('tier', 'quick'), _seed=rp.get('seed', 0), _prop=prop)
  ok, text = c.replay(wit)
  ok = bool(ok)
  print(text)
  print('REPRODUCED on real code' if ok else 'not reproduced on real code')
  return 1 if ok else 0


def relock(props):
  lock = core.load_lock()
  for p in props:
    mod = load_prop(p)
    lock[p] = {t: sorted(c.name for c in mod.clauses(t, 0) if t in c.tiers) for t in ('quick', 'thorough')}
  with open(os.path.join(core.VERIF, 'obligations.lock'), 'w') as f:
    json.dump(lock, f, indent=1, sort_keys=True)


def main(argv=None):
  ap = argparse.ArgumentParser()
  ap.add_argument('prop')
  ap.add_argument('--tier', default=os.environ.get('VERIF_TIER', 'quick'))
  ap.add_argument('--replay')
  ap.add_argument('--only', action='append')
  ap.add_argument('--list', action='store_true')
  ap.add_argument('--relock', action='store_true')
  ap.add_argument('--jobs', type=int)
  a = ap.parse_args(argv)
  seed = int(os.environ.get('VERIF_SEED', '0') or 0)
  sys.path.insert(0, core.VERIF)
  if a.relock:
    props = [a.prop] if a.prop != 'all' else sorted(f[:-3] for f in os.listdir(os.path.join(core.VERIF, 'props')) if f.startswith('C') and f.endswith('.py'))
    relock(props)
    return 0
  if a.list:
    for c in load_prop(a.prop).clauses(a.tier, seed):
      print(f'{c.name:<60} {c.back_end:<8} {"canary" if c.canary else ""} tiers={c.tiers} group={c.group}')
    return 0
  if a.replay:
    return replay(a.prop, a.replay)
  try:
    return run_property(a.prop, a.tier, seed, only=a.only, jobs=a.jobs)
  except Exception:  # pylint: disable=broad-except
    traceback.print_exc()
    print(f'ENGINE-ERROR property={a.prop}: driver crashed')
    return 3


if __name__ == '__main__':
  sys.exit(main())
