"""sympy polynomial -> z3 real term (monomials by repeated multiplication, never `**`)."""
import sympy as sp
import z3


def rat(q):
  q = sp.Rational(q)
  return z3.RealVal(f'{q.p}/{q.q}') if q.q != 1 else z3.RealVal(str(q.p))


def poly(expr, varmap):
  """expr: sympy polynomial in the symbols of varmap (sympy Symbol -> z3 Real)."""
  syms = list(varmap)
  expr = sp.expand(expr)
  if not syms or not expr.free_symbols:
    return rat(expr)
  p = sp.Poly(expr, *syms)
  if not all(c.is_Rational for c in p.coeffs()):
    raise ValueError(f'non-rational coefficient in {expr}')
  total = None
  for monom, coeff in p.terms():
    t = rat(coeff)
    for s, e in zip(syms, monom):
      for _ in range(e):
        t = t * varmap[s]
    total = t if total is None else total + t
  return total if total is not None else z3.RealVal(0)


def complex_split(expr, z, x, y):
  """Real and imaginary part (sympy polys in x,y) of polynomial expr(z) at z = x+iy."""
  e = sp.expand(expr.subs(z, x + sp.I * y))
  return sp.expand(sp.re(e)), sp.expand(sp.im(e))
