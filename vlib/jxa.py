"""jxa: static analyses of the traced program (jaxpr) of the real functions + operator extraction.

For a concrete configuration, jax.make_jaxpr(real_function) *is* the real program with
Python-level control flow resolved; it is extracted mechanically on every run.  One
abstract interpreter computes, for every variable:

  const  -- the concrete value, when it depends on no designated input;
  deg    -- polynomial degree in the designated inputs (None = not polynomial / unknown);
  nz     -- boolean array, True where the entry *may* be non-zero; False entries are exactly 0.0
            for every finite input (uses 0*x = 0: assumption A5);
  dep    -- set of input leaf indices the value depends on.

All rules are conservative: an unknown primitive yields deg=None, nz=all True, dep=union.
`primitives` collects the census of primitives on paths from designated inputs to outputs.
"""
from __future__ import annotations

import dataclasses
import functools
from typing import Any

import jax
import jax.numpy as jnp
import numpy as np
from jax import lax
from jax._src import core as _jcore

NONPOLY = None


@dataclasses.dataclass
class AV:
  const: Any = None          # numpy value or None
  deg: Any = 0               # int or None (=not polynomial)
  nz: Any = None             # bool ndarray (shape of the value)
  dep: frozenset = frozenset()
  why: str = ''              # first reason for non-polynomiality

  @property
  def is_const(self):
    return self.const is not None


def _shape(v):
  return tuple(v.aval.shape)


def const_av(val):
  val = np.asarray(val)
  return AV(const=val, deg=0, nz=(val != 0), dep=frozenset())


STRUCTURAL = {
    'reshape', 'transpose', 'squeeze', 'broadcast_in_dim', 'slice', 'rev', 'expand_dims', 'copy', 'copy_p',
    'convert_element_type', 'reduce_precision', 'real', 'stop_gradient_not',
}
LINEAR_UNARY = {'neg', 'reduce_sum', 'cumsum', 'convert_element_type', 'copy', 'real', 'imag', 'conj'}
NEVER_ZERO = {'exp', 'cos', 'cosh', 'exp2'}
ZERO_AT_ZERO = {'sin', 'tan', 'tanh', 'sinh', 'sqrt', 'asin', 'atan', 'asinh', 'expm1', 'log1p', 'abs', 'sign',
                'square', 'cbrt', 'erf'}
TRANSCENDENTAL = NEVER_ZERO | ZERO_AT_ZERO | {'log', 'rsqrt', 'logistic', 'acos', 'pow', 'atan2', 'erf_inv', 'erfc',
                                               'lgamma', 'digamma', 'is_finite', 'floor', 'ceil', 'round', 'nextafter'}
COMPARE = {'lt', 'le', 'gt', 'ge', 'eq', 'ne', 'and', 'or', 'not', 'xor'}
CALL_LIKE = {'pjit', 'jit', 'closed_call', 'core_call', 'remat', 'remat2', 'checkpoint', 'custom_jvp_call', 'custom_vjp_call',
             'custom_vjp_call_jaxpr', 'custom_lin', 'named_call', 'xla_call'}


class Analysis:
  def __init__(self):
    self.primitives = {}       # name -> count, on input-dependent paths
    self.all_primitives = {}   # name -> count, everywhere
    self.kinks = {}            # primitive -> count of first-hand non-polynomial applications (polynomial operands)
    self.notes = []

  # ---------------------------------------------------------------------------------------
  def run(self, closed_jaxpr, in_avs):
    jaxpr = closed_jaxpr.jaxpr
    consts = closed_jaxpr.consts
    env = {}

    def read(v):
      if isinstance(v, _jcore.Literal):
        return const_av(v.val)
      return env[v]

    for v, c in zip(jaxpr.constvars, consts):
      env[v] = const_av(np.asarray(c))
    assert len(jaxpr.invars) == len(in_avs), (len(jaxpr.invars), len(in_avs))
    for v, a in zip(jaxpr.invars, in_avs):
      if a.nz is None:
        a = dataclasses.replace(a, nz=np.ones(_shape(v), bool))
      env[v] = a
    for eqn in jaxpr.eqns:
      ins = [read(v) for v in eqn.invars]
      outs = self.eqn(eqn, ins)
      for v, o in zip(eqn.outvars, outs):
        if o.nz is None or tuple(o.nz.shape) != _shape(v):
          o = dataclasses.replace(o, nz=np.broadcast_to(True if o.nz is None else o.nz, _shape(v)).copy()
                                  if (o.nz is None or o.nz.size == 1) else np.ones(_shape(v), bool))
        env[v] = o
    return [read(v) for v in jaxpr.outvars]

  # ---------------------------------------------------------------------------------------
  def eqn(self, eqn, ins):
    name = eqn.primitive.name
    self.all_primitives[name] = self.all_primitives.get(name, 0) + 1
    dep = frozenset().union(*[a.dep for a in ins]) if ins else frozenset()
    if dep:
      self.primitives[name] = self.primitives.get(name, 0) + 1
    nout = len(eqn.outvars)
    # 1. everything constant: evaluate concretely
    if all(a.is_const for a in ins) and name not in ('scan', 'while', 'cond', 'shard_map', 'custom_partitioning'):
      try:
        vals = eqn.primitive.bind(*[jnp.asarray(a.const) for a in ins], **eqn.params)
        vals = vals if eqn.primitive.multiple_results else [vals]
        return [const_av(np.asarray(v)) for v in vals]
      except Exception:  # pylint: disable=broad-except
        pass
    # 2. call-like: recurse
    sub = None
    for k in ('jaxpr', 'call_jaxpr', 'fun_jaxpr'):
      if k in eqn.params:
        sub = eqn.params[k]
        break
    if name in CALL_LIKE and sub is not None:
      cj = sub if hasattr(sub, 'jaxpr') else _jcore.ClosedJaxpr(sub, ())
      n_in = len(cj.jaxpr.invars)
      return self.run(cj, ins[-n_in:] if n_in != len(ins) else ins)
    if name == 'shard_map' and sub is not None:
      # per-shard program: shapes differ; propagate degree/dependence only
      out = self._degree_only_call(sub, ins, eqn)
      return out
    if name == 'scan':
      return self._scan(eqn, ins)
    if name in ('cond', 'while'):
      return [AV(deg=NONPOLY, nz=None, dep=dep, why=f'{name} (control flow)') for _ in range(nout)]

    deg, why = self._degree(name, eqn, ins)
    if deg is NONPOLY and not any(a.deg is NONPOLY for a in ins):
      # first-hand source of non-polynomiality (operands polynomial, result not): a potential kink / singularity
      self.kinks[name] = self.kinks.get(name, 0) + 1
    nz = self._nz(name, eqn, ins)
    outs = []
    for i in range(nout):
      outs.append(AV(const=None, deg=deg, nz=nz[i] if isinstance(nz, list) else nz, dep=dep, why=why))
    return outs

  # ---------------------------------------------------------------------------------------
  def _degree(self, name, eqn, ins):
    degs = [a.deg for a in ins]
    first_why = next((a.why for a in ins if a.deg is NONPOLY and a.why), '')
    if any(d is NONPOLY for d in degs):
      # non-polynomial operand: result is non-polynomial unless multiplied by an exact structural zero (ignored)
      return NONPOLY, first_why
    mx = max(degs) if degs else 0
    if name in ('add', 'sub', 'add_any', 'concatenate', 'stack', 'split', 'pad', 'neg', 'reduce_sum', 'cumsum', 'cumlogsumexp_not',
                'dynamic_update_slice', 'select_and_scatter_add', 'psum', 'all_gather', 'ppermute', 'all_to_all',
                'psum_scatter', 'reduce_scatter', 'pbroadcast', 'axis_index', 'iota', 'conj', 'real', 'imag') \
        or name in STRUCTURAL:
      return mx, ''
    if name in ('mul', 'dot_general'):
      return sum(degs), ''
    if name == 'div':
      if degs[1] == 0:
        return degs[0], ''
      return NONPOLY, 'div by an input-dependent value'
    if name == 'integer_pow':
      y = eqn.params['y']
      if y >= 0:
        return degs[0] * y, ''
      return (0, '') if degs[0] == 0 else (NONPOLY, 'negative integer_pow of input')
    if name == 'square':
      return 2 * degs[0], ''
    if name == 'select_n':
      if degs[0] == 0 or True:
        # predicate (operand 0) must not depend on the inputs
        if ins[0].dep:
          return NONPOLY, 'select_n on an input-dependent predicate'
        return max(degs[1:]), ''
    if name in ('dynamic_slice', 'gather'):
      if any(a.dep for a in ins[1:]):
        return NONPOLY, f'{name} with input-dependent indices'
      return degs[0], ''
    if name in ('scatter', 'scatter-add', 'scatter_add'):
      if ins[1].dep:
        return NONPOLY, 'scatter with input-dependent indices'
      return max(degs[0], degs[2]), ''
    if name in ('max', 'min', 'reduce_max', 'reduce_min', 'clamp', 'sort', 'argmax', 'argmin', 'cummax', 'cummin') \
        or name in COMPARE or name in TRANSCENDENTAL:
      if mx == 0 and not any(a.dep for a in ins):
        return 0, ''
      return NONPOLY, f'{name} of an input-dependent value'
    if mx == 0 and not any(a.dep for a in ins):
      return 0, ''
    self.notes.append(f'unknown primitive {name}: treated as non-polynomial')
    return NONPOLY, f'unknown primitive {name}'

  # ---------------------------------------------------------------------------------------
  def _nz(self, name, eqn, ins):
    """May-be-nonzero masks (conservative: True when unsure)."""
    shape = _shape(eqn.outvars[0])
    T = lambda: np.ones(shape, bool)
    try:
      if name == 'mul':
        return np.broadcast_to(ins[0].nz, shape) & np.broadcast_to(ins[1].nz, shape)
      if name in ('add', 'sub', 'add_any', 'max', 'min'):
        return np.broadcast_to(ins[0].nz, shape) | np.broadcast_to(ins[1].nz, shape)
      if name in ('neg', 'integer_pow', 'square', 'convert_element_type', 'copy', 'real', 'conj', 'reduce_precision') \
          or name in ZERO_AT_ZERO:
        if name == 'integer_pow' and eqn.params['y'] <= 0:
          return T()
        return ins[0].nz.copy()
      if name == 'div':
        return np.broadcast_to(ins[0].nz, shape).copy()
      if name in NEVER_ZERO or name in ('log', 'rsqrt', 'logistic', 'acos'):
        return T()
      if name == 'dot_general':
        a = ins[0].nz.astype(np.float32)
        b = ins[1].nz.astype(np.float32)
        dn = eqn.params['dimension_numbers']
        r = lax.dot_general(jnp.asarray(a), jnp.asarray(b), dimension_numbers=dn)
        return np.asarray(r) > 0
      if name in ('reshape', 'transpose', 'squeeze', 'broadcast_in_dim', 'slice', 'rev', 'expand_dims', 'reduce_max',
                  'dynamic_slice', 'gather', 'concatenate', 'stack', 'dynamic_update_slice', 'select_n', 'cumsum', 'reduce_sum',
                  'pad', 'scatter', 'scatter-add', 'scatter_add', 'cummax'):
        return self._nz_structural(name, eqn, ins, shape)
      if name == 'split':
        r = eqn.primitive.bind(jnp.asarray(ins[0].nz.astype(np.float32)), **eqn.params)
        return [np.asarray(x) > 0 for x in r]
      if name in COMPARE:
        return T()
    except Exception as e:  # pylint: disable=broad-except
      self.notes.append(f'nz rule for {name} failed ({type(e).__name__}: {e}); conservative')
    return T()

  def _nz_structural(self, name, eqn, ins, shape):
    f32 = lambda a: jnp.asarray(a.nz.astype(np.float32))
    if name in ('reduce_sum', 'reduce_max'):
      return np.asarray(lax.reduce_max_p.bind(f32(ins[0]), axes=eqn.params['axes'], **({'out_sharding': None} if 'out_sharding' in eqn.params else {}))) > 0
    if name in ('cumsum', 'cummax'):
      return np.asarray(lax.cummax(f32(ins[0]), axis=eqn.params['axis'], reverse=eqn.params['reverse'])) > 0
    if name == 'select_n':
      if ins[0].is_const:
        pred = np.asarray(ins[0].const)
        cases = [np.broadcast_to(a.nz, shape) for a in ins[1:]]
        idx = pred.astype(int)
        out = np.zeros(shape, bool)
        for i, c in enumerate(cases):
          out |= (np.broadcast_to(idx, shape) == i) & c
        return out
      out = np.zeros(shape, bool)
      for a in ins[1:]:
        out |= np.broadcast_to(a.nz, shape)
      return out
    if name in ('dynamic_slice', 'gather', 'dynamic_update_slice', 'scatter', 'scatter-add', 'scatter_add'):
      idx_ops = {'dynamic_slice': ins[1:], 'gather': ins[1:2], 'dynamic_update_slice': ins[2:],
                 'scatter': ins[1:2], 'scatter-add': ins[1:2], 'scatter_add': ins[1:2]}[name]
      if not all(a.is_const for a in idx_ops):
        return np.ones(shape, bool)
      args = []
      for a in ins:
        args.append(jnp.asarray(a.const) if (a in idx_ops) else f32(a))
      if name.startswith('scatter'):
        # union semantics: use scatter-add of masks on top of the operand mask
        r = lax.scatter_add_p.bind(*args, **{k: v for k, v in eqn.params.items()}) if name != 'scatter' else None
        if r is None:
          # plain scatter overwrites: positions written take the update mask, others keep the operand mask
          written = lax.scatter_p.bind(jnp.zeros_like(args[0]), args[1], jnp.ones_like(args[2]), **eqn.params)
          upd = lax.scatter_p.bind(jnp.zeros_like(args[0]), args[1], args[2], **eqn.params)
          return np.asarray(jnp.where(written > 0, upd, args[0])) > 0
        return np.asarray(r) > 0
      r = eqn.primitive.bind(*args, **eqn.params)
      return np.asarray(r) > 0
    if name == 'pad':
      r = lax.pad_p.bind(f32(ins[0]), f32(ins[1]), **eqn.params)
      return np.asarray(r) > 0
    if name in ('concatenate', 'stack'):
      r = eqn.primitive.bind(*[jnp.broadcast_to(f32(a), v.aval.shape) for a, v in zip(ins, eqn.invars)], **eqn.params)
      return np.asarray(r) > 0
    r = eqn.primitive.bind(f32(ins[0]), **eqn.params)
    return np.asarray(r) > 0

  # ---------------------------------------------------------------------------------------
  def _degree_only_call(self, sub, ins, eqn):
    cj = sub if hasattr(sub, 'jaxpr') else _jcore.ClosedJaxpr(sub, ())
    inner_ins = [AV(const=None, deg=a.deg, nz=None, dep=a.dep, why=a.why) for a in ins]
    outs = self.run(cj, inner_ins)
    return [AV(const=None, deg=o.deg, nz=None, dep=o.dep, why=o.why) for o in outs]

  def _scan(self, eqn, ins):
    p = eqn.params
    if 'num_consts' in p:
      nc, ncar = p['num_consts'], p['num_carry']
    else:
      # newer JAX: input/output structure as flat trees (consts, carry, xs) / (carry, ys)
      groups = p['ft_in'].unpack()
      nc, ncar = len(list(groups[0].vals)), len(list(groups[1].vals))
    cj = p['jaxpr']
    length = p['length']
    consts, carry, xs = ins[:nc], ins[nc:nc + ncar], ins[nc + ncar:]
    # abstract xs slices: drop leading axis
    def drop(a):
      nzv = a.nz.any(axis=0) if a.nz is not None and a.nz.ndim >= 1 else a.nz
      return AV(const=None, deg=a.deg, nz=nzv, dep=a.dep, why=a.why)
    xs1 = [drop(a) for a in xs]
    cur = [AV(const=None, deg=a.deg, nz=a.nz, dep=a.dep, why=a.why) for a in carry]
    ys = None
    for _ in range(min(length, 6) if length else 1):
      outs = self.run(cj, list(consts) + cur + xs1)
      new = outs[:ncar]
      ys = outs[ncar:]
      changed = False
      merged = []
      for c, n in zip(cur, new):
        d = NONPOLY if (c.deg is NONPOLY or n.deg is NONPOLY) else max(c.deg, n.deg)
        if d is not NONPOLY and c.deg is not NONPOLY and d > c.deg:
          changed = True
        nzm = (c.nz | n.nz) if (c.nz is not None and n.nz is not None and c.nz.shape == n.nz.shape) else None
        merged.append(AV(const=None, deg=d, nz=nzm, dep=c.dep | n.dep, why=c.why or n.why))
      cur = merged
      if not changed:
        break
    else:
      # degree keeps growing with the trip count: polynomial of degree <= growth^length; report NONPOLY conservatively
      cur = [dataclasses.replace(c, deg=NONPOLY, why='degree grows through scan iterations') for c in cur]
    out_ys = []
    for y, v in zip(ys or [], eqn.outvars[ncar:]):
      out_ys.append(AV(const=None, deg=y.deg, nz=None, dep=y.dep, why=y.why))
    return cur + out_ys


# ---------------------------------------------------------------------------------------------
# front end


def analyze(fn, args, designated=None, zero_masks=None):
  """Traces fn(*args) and analyses it.

  args: pytree of example arrays (concrete shapes/dtypes matter, values do not).
  designated: pytree of bools like args (leaf-wise): which leaves are the polynomial variables
    (default: all).  zero_masks: optional pytree like args of bool arrays, True where the input entry
    is *known to be zero* (preconditions such as "masked entries are zero").
  Returns (out_avs pytree-flattened list, out_treedef, Analysis).
  """
  flat, treedef = jax.tree_util.tree_flatten(args)
  des = [True] * len(flat) if designated is None else jax.tree_util.tree_leaves(designated)
  zm = [None] * len(flat) if zero_masks is None else jax.tree_util.tree_flatten(
      zero_masks, is_leaf=lambda x: x is None)[0]
  closed, out_shape = jax.make_jaxpr(lambda *leaves: fn(*jax.tree_util.tree_unflatten(treedef, leaves)), return_shape=True)(*flat)
  in_avs = []
  for i, (x, d) in enumerate(zip(flat, des)):
    x = np.asarray(x)
    nz = np.ones(x.shape, bool) if zm[i] is None else ~np.asarray(zm[i], bool)
    if d:
      in_avs.append(AV(const=None, deg=1, nz=nz, dep=frozenset([i])))
    else:
      in_avs.append(AV(const=None, deg=0, nz=nz, dep=frozenset([i])))
  an = Analysis()
  outs = an.run(closed, in_avs)
  out_leaves, out_tree = jax.tree_util.tree_flatten(out_shape)
  return outs, out_tree, an, closed


def max_degree(outs):
  degs = [o.deg for o in outs]
  if any(d is NONPOLY for d in degs):
    return NONPOLY, next(o.why for o in outs if o.deg is NONPOLY)
  return (max(degs) if degs else 0), ''


# ---------------------------------------------------------------------------------------------
# operator extraction (numeric; complete over inputs once linearity is proved)


def matrix_of(fn, in_example, chunk=512):
  """Matrix of a linear map on flattened pytrees: columns = fn(e_k).  Returns (A, in_unravel, out_unravel)."""
  from jax.flatten_util import ravel_pytree
  x0, unravel = ravel_pytree(in_example)
  n = x0.size
  y0, out_unravel = ravel_pytree(fn(unravel(jnp.zeros_like(x0))))
  f = lambda v: ravel_pytree(fn(unravel(v)))[0]
  vf = jax.jit(jax.vmap(f))
  cols = []
  eye = np.eye(n, dtype=np.asarray(x0).dtype)
  for s in range(0, n, chunk):
    cols.append(np.asarray(vf(jnp.asarray(eye[s:s + chunk]))))
  A = np.concatenate(cols, axis=0).T          # shape (out, in)
  return A, unravel, out_unravel, np.asarray(y0)


def principal_lattice(n, d):
  """All x in N^n with sum <= d (unisolvent for polynomials of total degree <= d in n variables)."""
  pts = [np.zeros(n, np.int64)]
  if d >= 1:
    pts += [np.eye(n, dtype=np.int64)[i] for i in range(n)]
  if d >= 2:
    for i in range(n):
      for j in range(i, n):
        v = np.zeros(n, np.int64)
        v[i] += 1
        v[j] += 1
        pts.append(v)
  if d >= 3:
    for i in range(n):
      for j in range(i, n):
        for k in range(j, n):
          v = np.zeros(n, np.int64)
          v[i] += 1
          v[j] += 1
          v[k] += 1
          pts.append(v)
  if d >= 4:
    raise ValueError('lattice order > 3 not implemented')
  return np.stack(pts)


def lattice_max_abs(fn_flat, n, d, scale=None, chunk=2048, dtype=np.float64):
  """max |fn_flat(x)| over the order-d principal lattice (scaled per coordinate); fn_flat: (n,) -> (k,).

  Generated on the fly (no O(n^3) storage). Returns (max_abs, argmax_point, n_points)."""
  scale = np.ones(n, dtype) if scale is None else np.asarray(scale, dtype)
  vf = jax.jit(jax.vmap(lambda v: jnp.max(jnp.abs(fn_flat(v)))))
  best, arg, count = 0.0, None, 0
  buf = []

  def flush():
    nonlocal best, arg, count, buf
    if not buf:
      return
    X = np.stack(buf).astype(dtype) * scale
    r = np.asarray(vf(jnp.asarray(X)))
    r = np.where(np.isfinite(r), r, np.inf)
    i = int(np.argmax(r))
    if r[i] > best or arg is None:
      if r[i] >= best:
        best, arg = float(r[i]), X[i].copy()
    count += len(buf)
    buf = []

  def emit(v):
    buf.append(v)
    if len(buf) >= chunk:
      flush()

  z = np.zeros(n, np.int64)
  emit(z.copy())
  idx = range(n)
  if d >= 1:
    for i in idx:
      v = z.copy(); v[i] = 1; emit(v)
  if d >= 2:
    for i in idx:
      for j in range(i, n):
        v = z.copy(); v[i] += 1; v[j] += 1; emit(v)
  if d >= 3:
    for i in idx:
      for j in range(i, n):
        for k in range(j, n):
          v = z.copy(); v[i] += 1; v[j] += 1; v[k] += 1; emit(v)
  flush()
  return best, arg, count
