"""Discharging verification conditions: z3 first, cvc5 on z3's unknowns.

valid(hyps, goal) asks whether  /\\ hyps  =>  goal  is valid, i.e. whether
hyps /\\ not goal is unsat.  Returns a Verdict with status 'valid' | 'invalid' |
'unknown', the model (for 'invalid'), solver seconds and the back end that decided.
`unknown`, time-outs and solver exceptions are never mapped to 'invalid'.
"""
from __future__ import annotations

import dataclasses
import os
import subprocess
import tempfile
import time

import z3

QUICK_MS = int(os.environ.get('VERIF_SMT_MS', '20000'))


@dataclasses.dataclass
class Verdict:
  status: str
  model: object = None
  seconds: float = 0.0
  back_end: str = 'z3'
  smt2: str = ''
  reason: str = ''


def _cvc5(smt2: str, timeout_ms: int, strings=False):
  exe = '/usr/bin/cvc5'
  if not os.path.exists(exe):
    return 'unknown', 'cvc5 binary missing'
  with tempfile.NamedTemporaryFile('w', suffix='.smt2', delete=False, dir='/var/tmp') as f:
    f.write(smt2)
    path = f.name
  try:
    args = [exe, '--lang', 'smt2', f'--tlimit={timeout_ms}']
    if strings:
      args.append('--strings-exp')
    p = subprocess.run(args + [path], capture_output=True, text=True, timeout=timeout_ms / 1000 + 5)
    out = p.stdout.strip().splitlines()
    res = out[0].strip() if out else 'unknown'
    if res not in ('sat', 'unsat'):
      return 'unknown', (p.stdout + p.stderr)[:500]
    return res, ''
  except subprocess.TimeoutExpired:
    return 'unknown', 'cvc5 timeout'
  finally:
    os.unlink(path)


def valid(hyps, goal, timeout_ms=None, use_cvc5=True, tactic=None, logic=None) -> Verdict:
  timeout_ms = timeout_ms or QUICK_MS
  s = z3.Solver() if tactic is None else z3.Then(*tactic).solver() if isinstance(tactic, (list, tuple)) else z3.Tactic(tactic).solver()
  s.set('timeout', timeout_ms)
  for h in hyps:
    s.add(h)
  s.add(z3.Not(goal))
  t0 = time.time()
  try:
    r = s.check()
  except z3.Z3Exception as e:  # pragma: no cover
    return Verdict('unknown', seconds=time.time() - t0, reason=f'z3 exception {e}')
  dt = time.time() - t0
  smt2 = ''
  if r == z3.unsat:
    return Verdict('valid', seconds=dt, back_end='z3')
  if r == z3.sat:
    return Verdict('invalid', model=s.model(), seconds=dt, back_end='z3', smt2=s.to_smt2())
  reason = s.reason_unknown()
  if use_cvc5:
    smt2 = s.to_smt2()
    strings = 'String' in smt2 or 'str.' in smt2
    t1 = time.time()
    res, why = _cvc5(smt2, timeout_ms, strings)
    dt2 = time.time() - t1
    if res == 'unsat':
      return Verdict('valid', seconds=dt + dt2, back_end='cvc5')
    if res == 'sat':
      # cvc5 says there is a model but we have none to show: treat as invalid without witness
      return Verdict('invalid', model=None, seconds=dt + dt2, back_end='cvc5', smt2=smt2,
                     reason='cvc5 sat (no model extracted)')
    reason += ' | cvc5: ' + why
  return Verdict('unknown', seconds=dt, reason=reason, smt2=smt2)


def satisfiable(hyps, timeout_ms=None) -> Verdict:
  """Cover check: hyps must be satisfiable (vacuity guard)."""
  s = z3.Solver()
  s.set('timeout', timeout_ms or QUICK_MS)
  for h in hyps:
    s.add(h)
  t0 = time.time()
  r = s.check()
  dt = time.time() - t0
  if r == z3.sat:
    return Verdict('sat', model=s.model(), seconds=dt)
  if r == z3.unsat:
    return Verdict('unsat', seconds=dt)
  return Verdict('unknown', seconds=dt, reason=s.reason_unknown())


def model_value(model, term, default=None):
  if model is None:
    return default
  v = model.eval(term, model_completion=True)
  if z3.is_int_value(v):
    return v.as_long()
  if z3.is_rational_value(v):
    from fractions import Fraction
    return Fraction(v.numerator_as_long(), v.denominator_as_long())
  if z3.is_true(v):
    return True
  if z3.is_false(v):
    return False
  if z3.is_string_value(v):
    return v.as_string()
  if z3.is_algebraic_value(v):
    return float(v.approx(20).as_fraction())
  return str(v)
