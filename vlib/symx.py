"""symx: symbolic execution of the real integrator step functions through the interpreter.

The real factory functions of dinosaur.time_integration are *called* (nothing is
re-implemented) with
  * values from a free module (`LinComb`: finite formal linear combinations of named
    atoms whose coefficients are exact sympy expressions -- every Python float the code
    multiplies with is converted to the exact rational it denotes), and
  * an abstract ImplicitExplicitODE whose explicit_terms / implicit_terms /
    implicit_inverse record their arguments and return fresh atoms.
From the recorded run the exact stage system (the additive Runge-Kutta tableau the code
implements) is reconstructed.  What is assumed: tree_math.wrap/unwrap/Vector apply
`+`, scalar `*` leaf-wise to a one-leaf tree (A4).
"""
from __future__ import annotations

import fractions
import numbers

import sympy as sp

DT_SYM = sp.Symbol('dt', positive=True)


def exact(c):
  """Exact sympy value of a Python scalar (floats -> the dyadic rational they are)."""
  if isinstance(c, sp.Expr):
    if c.atoms(sp.Float):
      raise TypeError(f'symx: inexact sympy Float leaked into {c}')
    return c
  if isinstance(c, SX):
    return c.e
  if isinstance(c, bool):
    return sp.Integer(int(c))
  if isinstance(c, numbers.Integral):
    return sp.Integer(int(c))
  if isinstance(c, float):
    f = fractions.Fraction(c)
    return sp.Rational(f.numerator, f.denominator)
  if isinstance(c, fractions.Fraction):
    return sp.Rational(c.numerator, c.denominator)
  try:
    import numpy as np
    if isinstance(c, np.generic):
      return exact(c.item())
    if isinstance(c, np.ndarray) and c.shape == ():
      return exact(c.item())
  except ImportError:  # pragma: no cover
    pass
  raise TypeError(f'symx: cannot take {type(c)} as an exact scalar')


class LinComb:
  """Formal linear combination  sum_i coeff_i * atom_i  (coeffs exact sympy)."""
  __array_priority__ = 1000  # numpy scalars defer to us

  def __init__(self, terms=None):
    self.terms = {k: v for k, v in (terms or {}).items() if v != 0}

  @classmethod
  def atom(cls, name):
    return cls({name: sp.Integer(1)})

  def _bin(self, other, sign):
    if isinstance(other, LinComb):
      t = dict(self.terms)
      for k, v in other.terms.items():
        t[k] = sp.expand(t.get(k, 0) + sign * v)
      return LinComb(t)
    if isinstance(other, (int, float)) and other == 0:   # `h = 0; h = F(u) + beta*h`, sum() start
      return LinComb(self.terms)
    if isinstance(other, SX) and other.e == 0:           # dt * sum(<empty>) == 0
      return LinComb(self.terms)
    return NotImplemented

  def __add__(self, o):
    return self._bin(o, 1)

  def __radd__(self, o):
    return self._bin(o, 1)

  def __sub__(self, o):
    return self._bin(o, -1)

  def __rsub__(self, o):
    r = (-self)
    return r._bin(o, 1)

  def __neg__(self):
    return LinComb({k: -v for k, v in self.terms.items()})

  def __mul__(self, c):
    if isinstance(c, LinComb):
      return NotImplemented
    c = exact(c)
    return LinComb({k: sp.expand(v * c) for k, v in self.terms.items()})

  __rmul__ = __mul__

  def __truediv__(self, c):
    c = exact(c)
    return LinComb({k: sp.expand(v / c) for k, v in self.terms.items()})

  def key(self):
    return tuple(sorted((k, sp.srepr(v)) for k, v in self.terms.items()))

  def __repr__(self):
    return ' + '.join(f'({v})*{k}' for k, v in sorted(self.terms.items())) or '0'


class AbstractEquation:
  """Records calls; F arbitrary, G linear, G_inv(x, eta) = Y with Y - eta*G(Y) = x."""

  def __init__(self, base_atoms=('u0',)):
    from dinosaur import time_integration as ti
    self.ti = ti
    self.stages = []       # list of dict(name, x: LinComb|None, eta)
    self.calls = []        # chronological log of (kind, stage_index)
    for a in base_atoms:
      self.stages.append({'name': a, 'x': None, 'eta': sp.Integer(0)})
    eq = ti.ImplicitExplicitODE.from_functions(self.F, self.G, self.G_inv)
    self.equation = eq

  def _stage_of(self, arg):
    if not isinstance(arg, LinComb):
      raise TypeError(f'symx: equation called on {type(arg)}')
    if len(arg.terms) == 1:
      (k, v), = arg.terms.items()
      if v == 1:
        for i, s in enumerate(self.stages):
          if s['name'] == k:
            return i
    # an argument that is not a previously produced stage: explicit stage Y = arg
    name = f'Y{len(self.stages)}'
    self.stages.append({'name': name, 'x': arg, 'eta': sp.Integer(0), 'explicit_alias': True})
    return len(self.stages) - 1

  def F(self, x):
    i = self._stage_of(x)
    self.calls.append(('F', i))
    return LinComb.atom(f'F[{i}]')

  def G(self, x):
    i = self._stage_of(x)
    self.calls.append(('G', i))
    return LinComb.atom(f'G[{i}]')

  def G_inv(self, x, eta):
    if not isinstance(x, LinComb):
      raise TypeError(f'symx: implicit_inverse called on {type(x)}')
    name = f'Y{len(self.stages)}'
    self.stages.append({'name': name, 'x': x, 'eta': exact(eta)})
    self.calls.append(('Ginv', len(self.stages) - 1))
    return LinComb.atom(name)

  # ---- reconstruction ---------------------------------------------------------

  def expand(self, lc: LinComb) -> LinComb:
    """Rewrite in base atoms {base, F[j], G[j]} by substituting stage definitions."""
    names = {s['name']: i for i, s in enumerate(self.stages)}
    out = LinComb()
    for k, v in lc.terms.items():
      if k in names and self.stages[names[k]]['x'] is not None:
        i = names[k]
        s = self.stages[i]
        sub = self.expand(s['x']) + LinComb({f'G[{i}]': s['eta']})
        out = out + sub * v
      else:
        out = out + LinComb({k: v})
    return out


def _coeff_of_dt(expr, what):
  """expr must be c*dt with c free of dt; returns c."""
  expr = sp.expand(expr)
  c = sp.simplify(expr / DT_SYM)
  if c.has(DT_SYM):
    raise ValueError(f'{what}: coefficient {expr} is not linear-homogeneous in dt')
  return c


def derive_tableau(factory, base='u0', **kw):
  """Runs the real step function built by `factory(equation, dt)` on the atom u0.

  Returns dict with exact A_ex, A_im (s x s), b_ex, b_im, c_ex, c_im, u0 weights, the
  number of F/G/G_inv calls, and the raw stage list.
  """
  eq = AbstractEquation((base,))
  step = factory(eq.equation, DT, **kw)
  result = step(LinComb.atom(base))
  if not isinstance(result, LinComb):
    raise TypeError(f'step function returned {type(result)}')
  s = len(eq.stages)
  A_ex = sp.zeros(s, s)
  A_im = sp.zeros(s, s)
  w0 = []
  for i, st in enumerate(eq.stages):
    if st['x'] is None:
      w0.append(sp.Integer(1))
      continue
    full = eq.expand(LinComb.atom(st['name']))
    w0.append(full.terms.get(base, sp.Integer(0)))
    for k, v in full.terms.items():
      if k == base:
        continue
      kind, j = k[0], int(k[2:-1])
      c = _coeff_of_dt(v, f'stage {i} coefficient of {k}')
      (A_ex if kind == 'F' else A_im)[i, j] += c
  fin = eq.expand(result)
  b_ex = sp.zeros(1, s)
  b_im = sp.zeros(1, s)
  wfin = fin.terms.get(base, sp.Integer(0))
  for k, v in fin.terms.items():
    if k == base:
      continue
    kind, j = k[0], int(k[2:-1])
    c = _coeff_of_dt(v, f'result coefficient of {k}')
    (b_ex if kind == 'F' else b_im)[0, j] += c
  ones = sp.ones(s, 1)
  return {
      'stages': s, 'A_ex': A_ex, 'A_im': A_im, 'b_ex': b_ex, 'b_im': b_im,
      'c_ex': A_ex * ones, 'c_im': A_im * ones, 'w0_stages': w0, 'w0_result': wfin,
      'calls': list(eq.calls), 'raw': eq,
  }


# ---- scalar test problem through the real code (amplification factor) ---------------


class SX:
  """Exact scalar (sympy expression); floats it meets are converted exactly."""
  __array_priority__ = 1000

  def __init__(self, e):
    self.e = sp.sympify(e)

  @staticmethod
  def _c(o):
    if isinstance(o, SX):
      return o.e
    if isinstance(o, (int, float, fractions.Fraction, sp.Expr)):
      return exact(o)
    try:
      import numpy as np
      if isinstance(o, np.generic) or (isinstance(o, np.ndarray) and o.shape == ()):
        return exact(o)
    except ImportError:  # pragma: no cover
      pass
    return None

  def _op(self, o, f):
    c = self._c(o)
    if c is None:
      return NotImplemented
    return SX(f(self.e, c))

  def __add__(self, o):
    return self._op(o, lambda a, b: a + b)
  __radd__ = __add__

  def __sub__(self, o):
    return self._op(o, lambda a, b: a - b)

  def __rsub__(self, o):
    return self._op(o, lambda a, b: b - a)

  def __neg__(self):
    return SX(-self.e)

  def __mul__(self, o):
    return self._op(o, lambda a, b: a * b)
  __rmul__ = __mul__

  def __truediv__(self, o):
    return self._op(o, lambda a, b: a / b)

  def __rtruediv__(self, o):
    return self._op(o, lambda a, b: b / a)

  def __repr__(self):
    return f'SX({self.e})'


def amplification(factory, lam=None, mu=None, **kw):
  """R such that one real step on u' = lam*u (explicit) + mu*u (implicit) maps u0 -> R*u0.

  lam/mu are sympy expressions (0 allowed).  Returns a sympy rational function in
  (dt, lam, mu) obtained by running the real step function.
  """
  from dinosaur import time_integration as ti
  lam = sp.Integer(0) if lam is None else lam
  mu = sp.Integer(0) if mu is None else mu
  eq = ti.ImplicitExplicitODE.from_functions(
      lambda x: x * lam, lambda x: x * mu,
      lambda x, eta: x / (1 - exact(eta) * mu))
  step = factory(eq, DT, **kw)
  u0 = sp.Symbol('u0')
  out = step(SX(u0))
  return sp.cancel(sp.together(out.e / u0))


DT = SX(DT_SYM)
