"""Equality of operator expressions by multilinear normal form (no solver).

Terms are built from constants of an uninterpreted field sort with
  fld_add, fld_sub, fld_neg, fld_scale(s, .), fld_div(., s)      vector-space operations (s a real scalar term),
  nodal_mul(a, b)                                                 pointwise product: bilinear, commutative, associative,
  unary linear operators (any other unary function on fields),
  n-ary operators registered as *bilinear* (linear in each argument, not commutative) or *opaque* (a function of its canonicalised arguments).
`expand` rewrites a term into  sum_k c_k * m_k  with monomials m_k (nested tuples) and coefficients c_k in the commutative ring of scalar
expressions (sympy, exact).  Two terms are equal in every model of the vector-space / linearity / bilinearity laws iff -- sufficient direction
used here -- their expansions coincide.  `transform` maps a term through a symmetry action given by per-operator rules.
"""
from __future__ import annotations

import z3

FLD_ADD, FLD_SUB, FLD_NEG, FLD_SCALE, FLD_DIV, NMUL = 'fld_add', 'fld_sub', 'fld_neg', 'fld_scale', 'fld_div', 'nodal_mul'


def _scalar(t, table):
  import sympy
  if z3.is_rational_value(t):
    return sympy.Rational(t.numerator_as_long(), t.denominator_as_long())
  if z3.is_int_value(t):
    return sympy.Integer(t.as_long())
  if z3.is_app(t):
    k, ch = t.decl().kind(), t.children()
    if k == z3.Z3_OP_ADD:
      return sympy.Add(*[_scalar(c, table) for c in ch])
    if k == z3.Z3_OP_MUL:
      return sympy.Mul(*[_scalar(c, table) for c in ch])
    if k == z3.Z3_OP_SUB:
      r = _scalar(ch[0], table)
      for c in ch[1:]:
        r = r - _scalar(c, table)
      return r
    if k == z3.Z3_OP_UMINUS:
      return -_scalar(ch[0], table)
    if k == z3.Z3_OP_DIV:
      return _scalar(ch[0], table) / _scalar(ch[1], table)
    if k == z3.Z3_OP_TO_REAL:
      return _scalar(ch[0], table)
    if k == z3.Z3_OP_UNINTERPRETED and t.num_args() == 0:
      key = str(t)
      if key not in table:
        table[key] = sympy.Symbol('s_' + key)
      return table[key]
  raise ValueError(f'scalar outside the rational fragment: {t}')


class Algebra:
  def __init__(self, bilinear=(), opaque=()):
    self.bilinear, self.opaque = set(bilinear), set(opaque)
    self.scalars = {}

  def expand(self, t):
    """term -> {monomial: coefficient}"""
    import sympy
    name = t.decl().name() if z3.is_app(t) else None
    ch = t.children() if z3.is_app(t) else []
    out = {}

    def acc(m, c):
      c = sympy.simplify(out.get(m, 0) + c)
      if c == 0:
        out.pop(m, None)
      else:
        out[m] = c
    if name == FLD_ADD:
      for c_ in ch:
        for m, c in self.expand(c_).items():
          acc(m, c)
    elif name == FLD_SUB:
      for m, c in self.expand(ch[0]).items():
        acc(m, c)
      for m, c in self.expand(ch[1]).items():
        acc(m, -c)
    elif name == FLD_NEG:
      for m, c in self.expand(ch[0]).items():
        acc(m, -c)
    elif name == FLD_SCALE:
      s = _scalar(ch[0], self.scalars)
      for m, c in self.expand(ch[1]).items():
        acc(m, s * c)
    elif name == FLD_DIV:
      s = _scalar(ch[1], self.scalars)
      for m, c in self.expand(ch[0]).items():
        acc(m, c / s)
    elif name == NMUL:
      for m1, c1 in self.expand(ch[0]).items():
        for m2, c2 in self.expand(ch[1]).items():
          f1 = list(m1[1]) if m1[0] == 'prod' else [m1]
          f2 = list(m2[1]) if m2[0] == 'prod' else [m2]
          acc(('prod', tuple(sorted(f1 + f2, key=repr))), c1 * c2)
    elif name in self.bilinear:
      exps = [self.expand(c_) for c_ in ch]

      def rec(i, ms, coef):
        if i == len(exps):
          acc((name, tuple(ms)), coef)
          return
        for m, c in exps[i].items():
          rec(i + 1, ms + [m], coef * c)
      rec(0, [], sympy.Integer(1))
    elif name in self.opaque:
      acc((name, tuple(self.canon(c_) for c_ in ch)), sympy.Integer(1))
    elif z3.is_app(t) and len(ch) == 1:
      for m, c in self.expand(ch[0]).items():
        acc((name, m), c)
    elif z3.is_app(t) and not ch:
      acc(('atom', str(t)), sympy.Integer(1))
    else:
      raise ValueError(f'operator outside the multilinear fragment: {name} / {len(ch)} arguments')
    return out

  def canon(self, t):
    e = self.expand(t)
    return tuple(sorted(((repr(m), str(c)) for m, c in e.items())))

  def equal(self, a, b):
    """Returns (True, '') or (False, description of the differing monomials)."""
    import sympy
    ea, eb = self.expand(a), self.expand(b)
    diff = []
    for m in set(ea) | set(eb):
      d = sympy.simplify(ea.get(m, 0) - eb.get(m, 0))
      if d != 0:
        diff.append((m, ea.get(m, 0), eb.get(m, 0)))
    if not diff:
      return True, f'{len(ea)} monomials'
    diff.sort(key=repr)
    return False, '; '.join(f'{m}: {x} vs {y}' for m, x, y in diff[:3])[:900]


def transform(t, atom_map, op_sign, neg):
  """Push a linear symmetry action through a term: atoms by `atom_map` (name -> term), every operator commutes except those listed in
  `op_sign` (name -> -1: anti-commutes); products and bilinear operators are mapped argument-wise; scalars are invariant."""
  if not z3.is_app(t):
    raise ValueError('not an application')
  name, ch = t.decl().name(), t.children()
  if not ch:
    if str(t) in atom_map:
      return atom_map[str(t)]
    raise ValueError(f'no image given for atom {t}')
  new = []
  for c in ch:
    new.append(transform(c, atom_map, op_sign, neg) if str(c.sort()) == str(t.sort()) else c)
  r = t.decl()(*new)
  return neg(r) if op_sign.get(name, 1) < 0 else r
