"""Assumed contracts of builtins and library functions used by the analysed code (A8).

Every handler is `h(engine, *args, **kw)` and returns the value the call denotes in the
engine's value domain.  Names of the specs actually used by a run are collected in
engine.trusted and end up in the evidence file.  vlib/pyvc/conformance.py runs each of
them against the real library on concrete inputs (run-time conformance, not a proof).
"""
from __future__ import annotations

import builtins
import fractions
import math

import z3

from vlib.pyvc import engine as E


def _reg(eng, fn, handler, name):
  def wrapped(en, *a, **k):
    en.trusted.add('libspec:' + name)
    return handler(en, *a, **k)
  eng.libspec[E._callable_key(fn)] = (fn, wrapped)


def h_len(en, x):
  if isinstance(x, E.SymSeq):
    return x.length
  if isinstance(x, E.SymSet):
    items = x.items
    # number of distinct members
    n = 0
    total = z3.IntVal(0)
    for i, a in enumerate(items):
      dup = z3.Or([E.to_z3(a) == E.to_z3(b) for b in items[:i]]) if i else z3.BoolVal(False)
      total = total + z3.If(dup, 0, 1)
    return z3.simplify(total)
  if E.is_sym(x) and z3.is_string(x):
    return z3.Length(x)
  if E.is_sym(x):
    raise E.Unsupported(f'len of symbolic {x.sort()}')
  return len(x)


def h_range(en, *a):
  if not E._any_sym(a):
    return range(*a)
  if len(a) == 1:
    return E.SymRange(0, a[0])
  if len(a) == 2:
    return E.SymRange(a[0], a[1])
  raise E.Unsupported('range with symbolic step')


def h_sum(en, xs, start=0):
  items = en.try_concrete_iter(xs)
  if items is None:
    raise E.Unsupported('sum over a sequence of symbolic length')
  total = start
  for x in items:
    total = en.binop(E.ast.Add(), total, x)
  return total


def h_any(en, xs):
  items = en.try_concrete_iter(xs)
  if items is None:
    raise E.Unsupported('any over symbolic length')
  for x in items:
    if en.truth(x):
      return True
  return False


def h_all(en, xs):
  items = en.try_concrete_iter(xs)
  if items is None:
    raise E.Unsupported('all over symbolic length')
  for x in items:
    if not en.truth(x):
      return False
  return True


def _minmax(en, args, is_min):
  if len(args) == 1:
    args = en.try_concrete_iter(args[0])
    if args is None:
      raise E.Unsupported('min/max over symbolic length')
  if not args:
    raise E.PathRaise('ValueError')
  r = args[0]
  for x in args[1:]:
    if not E.is_sym(r) and not E.is_sym(x):
      r = min(r, x) if is_min else max(r, x)
    else:
      a, b = E._coerce_pair(r, x)
      r = z3.If(b < a, b, a) if is_min else z3.If(b > a, b, a)
  return r


def h_abs(en, x):
  if not E.is_sym(x):
    return abs(x)
  return z3.If(x >= 0, x, -x)


def h_enumerate(en, xs, start=0):
  items = en.try_concrete_iter(xs)
  if items is None:
    raise E.Unsupported('enumerate over symbolic length')
  return list(enumerate(items, start))


def h_zip(en, *xs):
  lists = [en.try_concrete_iter(x) for x in xs]
  if any(l is None for l in lists):
    raise E.Unsupported('zip over symbolic length')
  return list(zip(*lists))


def h_map(en, f, *xs):
  lists = [en.try_concrete_iter(x) for x in xs]
  if any(l is None for l in lists):
    raise E.Unsupported('map over symbolic length')
  return [en.call(f, list(a), {}) for a in zip(*lists)]


def h_tuple(en, xs=()):
  if isinstance(xs, E.SymSeq):
    return xs
  return tuple(en.iter_concrete(xs))


def h_list(en, xs=()):
  if isinstance(xs, E.SymSeq):
    return xs
  return list(en.iter_concrete(xs))


def h_isinstance(en, x, t):
  if E.is_sym(x) or isinstance(x, (E.SymSeq, E.Closure, E.SymCallable, E.Obj)):
    ts = t if isinstance(t, tuple) else (t,)
    if E.is_sym(x):
      if z3.is_int(x):
        return int in ts
      if z3.is_real(x):
        return float in ts
      if z3.is_string(x):
        return str in ts
      if z3.is_bool(x):
        return bool in ts or int in ts
    if isinstance(x, E.Obj) and hasattr(x, '__isinstance__'):
      return any(c in x.__isinstance__ for c in ts)
    raise E.Unsupported('isinstance of abstract value')
  return isinstance(x, t)


def h_prod(en, xs, start=1):
  if isinstance(xs, E.SymSeq):
    h = en.libspec.get(('ghost', 'prod'))
    if h:
      return h[1](en, xs)
    raise E.Unsupported('math.prod of symbolic sequence without ghost product')
  total = start
  for x in en.iter_concrete(xs):
    total = en.binop(E.ast.Mult(), total, x)
  return total


def h_identity(en, f, *a, **k):
  return f


def _tree_map(en, f, tree, *rest, is_leaf=None):
  """jax.tree_util.tree_map over tuples/lists/dicts; anything else is a leaf; None is an empty node."""
  if tree is None:
    return None
  if isinstance(tree, E.Struct):
    out = E.Struct()
    for f_ in tree.fields():
      setattr(out, f_, _tree_map(en, f, getattr(tree, f_), *[getattr(r, f_) for r in rest]))
    return out
  if isinstance(tree, tuple) and not hasattr(tree, '_fields'):
    return tuple(_tree_map(en, f, t, *[r[i] for r in rest]) for i, t in enumerate(tree))
  if isinstance(tree, list):
    return [_tree_map(en, f, t, *[r[i] for r in rest]) for i, t in enumerate(tree)]
  if isinstance(tree, dict):
    return {k: _tree_map(en, f, t, *[r[k] for r in rest]) for k, t in tree.items()}
  return en.call(f, [tree] + list(rest), {})


def h_round(en, x, nd=None):
  if not E.is_sym(x):
    return round(x) if nd is None else round(x, nd)
  raise E.Unsupported('round of symbolic value')


def h_int(en, x=0):
  if not E.is_sym(x):
    return int(x)
  if z3.is_int(x):
    return x
  if z3.is_real(x):
    # truncation toward zero
    return z3.If(x >= 0, z3.ToInt(x), -z3.ToInt(-x))
  raise E.Unsupported('int() of symbolic non-number')


def h_float(en, x=0.0):
  if not E.is_sym(x):
    return float(x)
  return E._real(x)


def h_bool(en, x=False):
  return en.truth(x)


def h_hasattr(en, o, name):
  if isinstance(o, E.Obj):
    return hasattr(o, name)
  if E.is_sym(o):
    return False
  return hasattr(o, name)


def h_getattr(en, o, name, *d):
  try:
    return en.getattr(o, name)
  except (E.PathRaise, E.Unsupported):
    if d:
      return d[0]
    raise


def h_ceil(en, x):
  if not E.is_sym(x):
    if isinstance(x, fractions.Fraction):
      return math.ceil(x)
    return math.ceil(x)
  if z3.is_int(x):
    return x
  return -z3.ToInt(-x)


def h_floor(en, x):
  if not E.is_sym(x):
    return math.floor(x)
  if z3.is_int(x):
    return x
  return z3.ToInt(x)


def h_sorted(en, xs, **kw):
  items = en.iter_concrete(xs)
  if E._any_sym(items):
    raise E.Unsupported('sorted of symbolic values')
  return sorted(items, **kw)


def install(eng):
  R = lambda fn, h, name: _reg(eng, fn, h, name)
  R(builtins.len, h_len, 'len')
  R(builtins.range, h_range, 'range')
  R(builtins.sum, h_sum, 'sum')
  R(builtins.any, h_any, 'any')
  R(builtins.all, h_all, 'all')
  R(builtins.min, lambda en, *a: _minmax(en, list(a), True), 'min')
  R(builtins.max, lambda en, *a: _minmax(en, list(a), False), 'max')
  R(builtins.abs, h_abs, 'abs')
  R(builtins.enumerate, h_enumerate, 'enumerate')
  R(builtins.zip, h_zip, 'zip')
  R(builtins.map, h_map, 'map')
  R(builtins.tuple, h_tuple, 'tuple')
  R(builtins.list, h_list, 'list')
  R(builtins.isinstance, h_isinstance, 'isinstance')
  R(builtins.round, h_round, 'round')
  R(builtins.int, h_int, 'int')
  R(builtins.float, h_float, 'float')
  R(builtins.bool, h_bool, 'bool')
  R(builtins.hasattr, h_hasattr, 'hasattr')
  R(builtins.getattr, h_getattr, 'getattr')
  R(builtins.sorted, h_sorted, 'sorted')
  R(builtins.slice, lambda en, *a: slice(*a), 'slice (constructor)')
  R(math.prod, h_prod, 'math.prod')
  R(math.ceil, h_ceil, 'math.ceil')
  R(math.floor, h_floor, 'math.floor')
  try:
    import tree_math
    R(tree_math.unwrap, h_identity, 'tree_math.unwrap = identity on one-leaf trees (A4)')
    R(tree_math.wrap, h_identity, 'tree_math.wrap = identity on one-leaf trees (A4)')
  except ImportError:  # pragma: no cover
    pass
  try:
    import jax
    R(jax.tree_util.tree_map, _tree_map, 'jax.tree_util.tree_map (leaf-wise application over tuples/lists/dicts)')
    R(jax.named_call, h_identity, "jax.named_call")
    install_jax(eng)
  except ImportError:  # pragma: no cover
    pass


# ------------------------------------------------------------------------------------
# scan as a loop with a caller-supplied invariant (assumed contract of lax.scan, A8):
#   scan(f, c0, xs, n) == c = c0; ys = []; for k in range(n): c, y = f(c, xs[k]); ys.append(y); (c, stack(ys))


def h_scan(en, f, init, xs=None, length=None, **kw):
  if kw:
    raise E.Unsupported(f'scan keyword arguments {list(kw)}')
  env = getattr(en, '_cur_env', None)
  fname = env.func.name if env is not None and hasattr(env, 'func') else '?'
  ordinal = next(env.scan_counter) if env is not None and hasattr(env, 'scan_counter') else 0
  key = (fname, ordinal)
  if key not in en.scan_spec:
    raise E.Unsupported(f'scan call {key} has no invariant')
  spec = en.scan_spec[key]
  if length is not None:
    n = length
  elif isinstance(xs, E.SymSeq):
    n = xs.length
  elif isinstance(xs, (list, tuple)):
    n = len(xs)
  else:
    raise E.Unsupported('scan without length over a non-sequence xs')
  inv = spec['inv']
  out_sort = spec.get('out_sort')

  def mk_ys(length_, base):
    if out_sort is None:
      return None
    return en.seq(en.fresh_name(base), out_sort, register=False, length=length_)

  def x_at(k):
    if xs is None:
      return None
    if isinstance(xs, E.SymSeq):
      return xs.get(k)
    raise E.Unsupported('scan over concrete xs with symbolic index')

  ys0 = mk_ys(z3.IntVal(0), 'ys0')
  for nm, c in inv(en, env, z3.IntVal(0), init, ys0):
    en.ensure(f'scan{key}:invariant-initially:{nm}', c)
  branch = en.fork(2)
  if branch == 0:
    k = z3.Int(en.fresh_name('k'))
    en.assume(z3.And(k >= 0, k < E.to_z3(n)))
    carry = spec['fresh_carry'](en, init) if 'fresh_carry' in spec else en.fresh_like(init, 'carry')
    ys = mk_ys(k, 'ys')
    for nm, c in inv(en, env, k, carry, ys):
      en.assume(c)
    res = en.call(f, [carry, x_at(k)], {})
    if not (isinstance(res, tuple) and len(res) == 2):
      raise E.Unsupported('scan body did not return a (carry, y) pair')
    c2, y = res
    if out_sort is None:
      if y is not None:
        raise E.Unsupported('scan body returns outputs but the scan spec declares none')
      ys2 = None
    else:
      if y is None:
        raise E.Unsupported('scan body returns no outputs but the scan spec declares a sort')
      old = ys
      ys2 = E.SymSeq(k + 1, (lambda old, k, y: (lambda i: z3.If(E.to_z3(i) == k, y, old.get(i))))(old, k, y), out_sort, 'ys+')
    for nm, c in inv(en, env, k + 1, c2, ys2):
      en.ensure(f'scan{key}:invariant-preserved:{nm}', c)
    raise E.PathAbort()
  carry = spec['fresh_carry'](en, init) if 'fresh_carry' in spec else en.fresh_like(init, 'carryN')
  ysn = mk_ys(E.to_z3(n), 'ysN')
  for nm, c in inv(en, env, E.to_z3(n), carry, ysn):
    en.assume(c)
  return (carry, ysn)


SCAN = E.SymCallable(h_scan, 'scan (assumed contract of lax.scan: sequential fold, A8)')

ZEROS_LIKE = z3.Function('zeros_like', E.V, E.V)


def install_jax(eng):
  import jax
  import jax.numpy as jnp
  _reg(eng, jax.lax.scan, h_scan, 'jax.lax.scan = sequential fold (A8)')
  _reg(eng, jnp.zeros_like, lambda en, x: ZEROS_LIKE(x) if E.is_sym(x) else jnp.zeros_like(x), 'jnp.zeros_like')
  _reg(eng, jnp.negative, lambda en, x: en.vec('neg', x) if E.is_sym(x) and x.sort() == E.V else -x, 'jnp.negative')
