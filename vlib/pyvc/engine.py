"""pyvc: verification-condition generation by symbolic execution of the real Python source.

The source of the function under contract is re-read from the working tree on every
run (inspect.getsource on the object imported from /repo, parsed with `ast`) and
executed path by path over a mixed concrete/symbolic value domain; z3 terms stand for
the symbolic part.  Obligations  (path condition => goal)  go to vlib.smt.

What is dropped from the source: type annotations, docstrings, f-string contents
(become opaque strings), and the decorators listed in TRANSPARENT_DECORATORS (A3).
Python semantics assumed by the encoding: int is mathematical; float is a mathematical
real (A1); // and % are floor division / modulo; chained comparisons are expanded as
Python does; and/or short-circuit; truthiness of ints, sequences, None; negative indices
are normalised with len.  Anything outside the subset raises Unsupported, which makes the
clause *undecided*, never a violation.
"""
from __future__ import annotations

import ast
import builtins
import dataclasses
import fractions
import inspect
import itertools
import math
import textwrap
import types

import z3

from vlib import smt

V = z3.DeclareSort('V')          # opaque pytree / state values


class Unsupported(Exception):
  pass


class PathAbort(Exception):
  """Ends the current path silently (e.g. after checking a loop body)."""


class PathRaise(Exception):
  """The analysed code raised."""

  def __init__(self, exc_name, lineno=None, value=None):
    super().__init__(exc_name)
    self.exc_name = exc_name
    self.lineno = lineno
    self.value = value


class _Return(Exception):
  def __init__(self, value):
    self.value = value


class _Break(Exception):
  pass


class _Continue(Exception):
  pass


TRANSPARENT_DECORATORS = {
    'jax.named_call', 'jax.jit', 'functools.cached_property', 'dataclasses.dataclass',
    'tree_math.wrap', 'functools.wraps', 'staticmethod', 'classmethod', 'property',
}


# ------------------------------------------------------------------------------------
# symbolic containers


class SymSeq:
  """Sequence of symbolic length: element i is get(i) for 0 <= i < length."""

  def __init__(self, length, get, sort=None, name='seq'):
    self.length = length
    self.get = get
    self.sort = sort
    self.name = name

  def slice_from(self, start):
    return SymSeq(self.length - start, lambda i: self.get(i + start), self.sort, f'{self.name}[{start}:]')

  def slice_to(self, stop):
    return SymSeq(stop, self.get, self.sort, f'{self.name}[:{stop}]')


class SymCallable:
  """A callable given by a specification: fn(engine, *args, **kw)."""

  def __init__(self, fn, name='spec'):
    self.fn = fn
    self.name = name

  def __repr__(self):
    return f'<SymCallable {self.name}>'


class Closure:
  def __init__(self, node, env, engine, name=None, owner=None):
    self.node = node
    self.env = env
    self.name = name or getattr(node, 'name', '<lambda>')
    self.owner = owner     # qualified name of enclosing function (for loop keys)

  def __repr__(self):
    return f'<Closure {self.name}>'


class Obj:
  """Plain record with attributes (for abstract objects such as an `equation`)."""

  def __init__(self, **kw):
    self.__dict__.update(kw)


class Struct(Obj):
  """Record whose arithmetic is field-wise (tree_math.struct semantics, A4)."""

  def fields(self):
    return [k for k in self.__dict__ if not k.startswith('_')]


class Env:
  def __init__(self, parent=None, globs=None):
    self.vars = {}
    self.parent = parent
    self.globs = globs if globs is not None else (parent.globs if parent else {})

  def lookup(self, name):
    e = self
    while e is not None:
      if name in e.vars:
        return e.vars[name]
      e = e.parent
    if name in self.globs:
      return self.globs[name]
    if hasattr(builtins, name):
      return getattr(builtins, name)
    raise Unsupported(f'unbound name {name}')

  def set(self, name, val):
    self.vars[name] = val


def is_sym(x):
  return isinstance(x, z3.ExprRef)


def is_concrete_num(x):
  return isinstance(x, (int, float, fractions.Fraction)) and not isinstance(x, bool) or isinstance(x, bool)


def to_z3(x, like=None):
  if is_sym(x):
    return x
  if isinstance(x, bool):
    return z3.BoolVal(x)
  if isinstance(x, int):
    if like is not None and z3.is_real(like):
      return z3.RealVal(x)
    return z3.IntVal(x)
  if isinstance(x, float):
    if x != x or x in (float('inf'), float('-inf')):
      raise Unsupported('non-finite float constant')
    f = fractions.Fraction(x)
    return z3.RealVal(f'{f.numerator}/{f.denominator}')
  if isinstance(x, fractions.Fraction):
    return z3.RealVal(f'{x.numerator}/{x.denominator}')
  if isinstance(x, str):
    return z3.StringVal(x)
  try:
    import numpy as np
    if isinstance(x, np.generic):
      return to_z3(x.item(), like)
  except ImportError:  # pragma: no cover
    pass
  raise Unsupported(f'cannot convert {type(x).__name__} to a term')


def _b2n(x):
  """Python/numpy semantics: a boolean used in arithmetic is 0/1."""
  if is_sym(x) and z3.is_bool(x):
    return z3.If(x, z3.IntVal(1), z3.IntVal(0))
  return x


def _coerce_pair(a, b, arith=False):
  if arith:
    a, b = _b2n(a), _b2n(b)
    if isinstance(a, bool):
      a = int(a)
    if isinstance(b, bool):
      b = int(b)
  a_, b_ = (to_z3(a, like=b if is_sym(b) else None), to_z3(b, like=a if is_sym(a) else None))
  if z3.is_int(a_) and z3.is_real(b_):
    a_ = z3.ToReal(a_)
  if z3.is_real(a_) and z3.is_int(b_):
    b_ = z3.ToReal(b_)
  return a_, b_


# ------------------------------------------------------------------------------------


@dataclasses.dataclass
class ObligationResult:
  name: str
  status: str          # valid | invalid | unknown
  model: dict = None
  detail: str = ''
  seconds: float = 0.0
  back_end: str = 'z3'
  smt2: str = ''


class Engine:
  """One engine per (function under contract, clause)."""

  def __init__(self, timeout_ms=None, max_paths=400, vector_ops=None):
    self.timeout_ms = timeout_ms
    self.max_paths = max_paths
    self.libspec = {}            # id(real callable) -> (callable, handler)
    self.contracts = {}          # id(real function) -> handler(engine, *args, **kw)
    self.loop_inv = {}           # (func name, ordinal) -> fn(engine, env, k) -> [(name, bool)]
    self.scan_spec = {}          # (func name, ordinal) -> dict(inv=..., out_sort=...)
    self.results = []            # ObligationResult (all paths)
    self.paths = 0
    self.path_outcomes = []
    self.axioms = []             # global hypotheses (ghost function axioms, lemmas already proved)
    self.trusted = set()
    self.inline_repo = True
    self.sort_ops = {}           # sort name -> {ast op name -> fn(engine, a, b)}
    self.vector_ops = vector_ops  # dict(add=..., smul=..., ...) for sort V arithmetic
    self._fresh = itertools.count()
    # path state
    self.plan = []
    self.pos = 0
    self.pc = []
    self.solver = None
    self.inputs = {}
    self._done = set()
    from vlib.pyvc import libspec as _ls
    _ls.install(self)

  # ---- path management ---------------------------------------------------------------

  def explore(self, body):
    """Runs body(engine) once per feasible path (decision-list re-execution)."""
    self.plan = []
    while True:
      self.paths += 1
      if self.paths > self.max_paths:
        raise Unsupported(f'more than {self.max_paths} paths')
      self.pos = 0
      self.pc = []
      self.inputs = {}
      self.elem_args = {}
      self._fresh = itertools.count()
      self.solver = z3.Solver()
      self.solver.set('timeout', 5000)
      for a in self.axioms:
        self.solver.add(a)
      try:
        body(self)
      except PathAbort:
        pass
      # backtrack
      while self.plan and (self.plan[-1][1] or self.plan[-1][0] + 1 >= self.plan[-1][2]):
        self.plan.pop()
      if not self.plan:
        break
      c, forced, n = self.plan[-1]
      self.plan[-1] = (c + 1, False, n)

  def fork(self, n, feasible=None):
    """Non-deterministic choice among n alternatives; returns the index chosen on this path."""
    if self.pos < len(self.plan):
      c = self.plan[self.pos][0]
      self.pos += 1
      return c
    if feasible is not None:
      alts = [i for i in range(n) if feasible[i]]
      if not alts:
        raise PathAbort()
      if len(alts) == 1:
        self.plan.append((alts[0], True, n))
        self.pos += 1
        return alts[0]
      if alts != list(range(n)):
        raise Unsupported('sparse fork')
    self.plan.append((0, False, n))
    self.pos += 1
    return 0

  def assume(self, cond):
    cond = to_z3(cond)
    self.pc.append(cond)
    self.solver.add(cond)

  def _sat(self, cond):
    self.solver.push()
    self.solver.add(cond)
    r = self.solver.check()
    self.solver.pop()
    return r != z3.unsat       # unknown counts as feasible (sound: explores more)

  def truth(self, v):
    """Python truthiness of a value; forks on symbolic booleans."""
    if isinstance(v, SymSeq):
      v = v.length != 0
    if not is_sym(v):
      if isinstance(v, (Closure, SymCallable, Obj)):
        return True
      try:
        return bool(v)
      except Exception as e:
        raise Unsupported(f'truthiness of {type(v).__name__}: {e}')
    if z3.is_int(v):
      v = v != 0
    elif z3.is_real(v):
      v = v != 0
    elif z3.is_string(v):
      v = z3.Length(v) != 0
    elif not z3.is_bool(v):
      raise Unsupported(f'truthiness of sort {v.sort()}')
    v = z3.simplify(v)
    if z3.is_true(v):
      return True
    if z3.is_false(v):
      return False
    if self.pos < len(self.plan):
      c = self.plan[self.pos][0]
      self.pos += 1
      choice = (c == 0)
    else:
      t, f = self._sat(v), self._sat(z3.Not(v))
      if t and f:
        self.plan.append((0, False, 2))
        choice = True
      elif t:
        self.plan.append((0, True, 2))
        choice = True
      elif f:
        self.plan.append((1, True, 2))
        choice = False
      else:
        raise PathAbort()     # path condition itself infeasible
      self.pos += 1
    self.assume(v if choice else z3.Not(v))
    return choice

  # ---- inputs & obligations ------------------------------------------------------------

  def fresh_name(self, base):
    return f'{base}!{next(self._fresh)}'

  def int(self, name, register=True):
    v = z3.Int(name)
    if register:
      self.inputs[name] = v
    return v

  def real(self, name, register=True):
    v = z3.Real(name)
    if register:
      self.inputs[name] = v
    return v

  def bool(self, name, register=True):
    v = z3.Bool(name)
    if register:
      self.inputs[name] = v
    return v

  def string(self, name, register=True):
    v = z3.String(name)
    if register:
      self.inputs[name] = v
    return v

  def val(self, name, sort=V, register=False):
    v = z3.Const(name, sort)
    if register:
      self.inputs[name] = v
    return v

  def seq(self, name, sort, register=True, length=None):
    n = z3.Int(name + '.len') if length is None else length
    f = z3.Function(name + '.at', z3.IntSort(), sort)
    if length is None:
      self.assume(n >= 0)
    s = SymSeq(n, lambda i: f(to_z3(i)), sort, name)
    if register:
      self.inputs[name] = s
    return s

  def fresh_like(self, v, base='h'):
    if is_sym(v):
      return z3.Const(self.fresh_name(base), v.sort())
    if isinstance(v, bool):
      return z3.Const(self.fresh_name(base), z3.BoolSort())
    if isinstance(v, int):
      return z3.Const(self.fresh_name(base), z3.IntSort())
    if isinstance(v, (float, fractions.Fraction)):
      return z3.Const(self.fresh_name(base), z3.RealSort())
    if isinstance(v, tuple):
      return tuple(self.fresh_like(x, base) for x in v)
    if isinstance(v, list):
      return [self.fresh_like(x, base) for x in v]
    if v is None:
      return None
    if isinstance(v, SymSeq):
      return self.seq(self.fresh_name(base), v.sort, register=False)
    raise Unsupported(f'cannot havoc a {type(v).__name__}')

  def model_of_inputs(self, model):
    out = {}
    for name, v in self.inputs.items():
      if isinstance(v, SymSeq):
        n = smt.model_value(model, v.length, 0)
        try:
          items = [smt.model_value(model, v.get(i)) for i in range(min(int(n), 30))]
        except Exception:  # pylint: disable=broad-except
          items = None
        out[name] = {'len': n, 'items': items}
      else:
        out[name] = smt.model_value(model, v)
    return out

  def ensure(self, name, cond, once=False, extra=()):
    """Obligation: under the current path condition (plus already-proved lemmas `extra`), cond holds."""
    cond = to_z3(cond) if not isinstance(cond, bool) else z3.BoolVal(cond)
    v = smt.valid(self.axioms + list(extra) + self.pc, cond, timeout_ms=self.timeout_ms)
    r = ObligationResult(name, v.status, seconds=v.seconds, back_end=v.back_end, detail=v.reason)
    if v.status == 'invalid':
      r.model = self.model_of_inputs(v.model) if v.model is not None else None
      r.detail = (f'counter-model: {r.model}' if r.model is not None else v.reason)
      r.smt2 = v.smt2[:20000]
    elif v.status == 'valid' and len(self.results) < 3:
      s = z3.Solver()
      for h in self.axioms + self.pc:
        s.add(h)
      s.add(z3.Not(cond))
      r.smt2 = s.to_smt2()[:4000]
    self.results.append(r)
    return v.status == 'valid'

  def cover(self, name):
    """Vacuity guard: the current path condition must be satisfiable."""
    v = smt.satisfiable(self.pc)     # lemmas (axioms) are valid sentences: only the path condition can be vacuous
    ok = v.status == 'sat'
    self.results.append(ObligationResult('cover:' + name, 'valid' if ok else ('unknown' if v.status == 'unknown' else 'invalid'),
                                         detail='' if ok else f'hypotheses {v.status}: vacuous', seconds=v.seconds))
    return ok

  # ---- calling ---------------------------------------------------------------------------

  def load_function(self, fn):
    """Closure over the real source of a /repo function object (re-read every run)."""
    fn = inspect.unwrap(fn) if not isinstance(fn, (staticmethod, classmethod)) else fn.__func__
    src = textwrap.dedent(inspect.getsource(fn))
    tree = ast.parse(src)
    node = tree.body[0]
    if not isinstance(node, (ast.FunctionDef,)):
      raise Unsupported(f'{fn} is not a plain function')
    env = Env(globs=fn.__globals__)
    # closure cells of the real function (rare for module-level functions)
    if fn.__closure__:
      for n, c in zip(fn.__code__.co_freevars, fn.__closure__):
        env.set(n, c.cell_contents)
    c = Closure(node, env, self, name=fn.__qualname__, owner=fn.__qualname__)
    # the class a method was defined in (for zero-argument super()): resolved through the qualified name
    parts = fn.__qualname__.split('.')
    if len(parts) >= 2 and '<locals>' not in parts:
      k = fn.__globals__.get(parts[0])
      for p_ in parts[1:-1]:
        k = getattr(k, p_, None)
      if inspect.isclass(k):
        c.defining_class = k
    return c

  def invoke(self, target, *args, **kw):
    """Calls target and returns ('return', value) or ('raise', exc_name)."""
    try:
      return ('return', self.call(target, list(args), dict(kw)))
    except PathRaise as e:
      return ('raise', e.exc_name)

  def call(self, f, args, kw):
    if isinstance(f, Closure):
      return self.call_closure(f, args, kw)
    if isinstance(f, SymCallable):
      return f.fn(self, *args, **kw)
    if isinstance(f, (types.MethodType, types.BuiltinMethodType)) and isinstance(getattr(f, '__self__', None), (list, dict)):
      if not _any_sym(args):
        return f(*args, **kw)
      if f.__name__ in ('append', 'extend', 'insert') and isinstance(f.__self__, list):
        # structural list operations do not inspect their members
        return f(*[list(self.iter_concrete(a)) if f.__name__ == 'extend' else a for a in args])
      if f.__name__ in ('items', 'keys', 'values'):
        return f()
    key = _callable_key(f)
    if key in self.contracts:
      return self.contracts[key](self, *args, **kw)
    if key in self.libspec:
      return self.libspec[key][1](self, *args, **kw)
    if isinstance(f, types.FunctionType) and (getattr(f, '__module__', '') or '').startswith('dinosaur') and self.inline_repo:
      # a /repo function without its own contract: checked against its body (inlined), re-read from source
      self.trusted.add(f'inlined (no separate contract): {f.__module__}.{f.__qualname__}')
      return self.call_closure(self.load_function(f), args, kw)
    if isinstance(f, type) and issubclass(f, BaseException):
      return f(*[a if not is_sym(a) else str(a) for a in args])
    if callable(f) and not _any_sym(args) and not _any_sym(list(kw.values())):
      if getattr(f, '__module__', '') in ('math', 'builtins', 'operator', 'functools', 'itertools') or f in SAFE_NATIVE:
        return f(*args, **kw)
    raise Unsupported(f'call to {getattr(f, "__qualname__", f)!r} has no contract/libspec')

  def call_closure(self, c: Closure, args, kw):
    node = c.node
    env = Env(parent=c.env)
    a = node.args
    params = [p.arg for p in a.posonlyargs + a.args]
    defaults = a.defaults
    if len(args) > len(params) and not a.vararg:
      raise Unsupported('too many positional arguments')
    bound = {}
    for p, v in zip(params, args):
      bound[p] = v
    if a.vararg:
      bound[a.vararg.arg] = tuple(args[len(params):])
    kw = dict(kw)
    for p in params[len(args):]:
      if p in kw:
        bound[p] = kw.pop(p)
    for i, p in enumerate(params):
      if p not in bound:
        di = i - (len(params) - len(defaults))
        if di < 0:
          raise Unsupported(f'missing argument {p}')
        bound[p] = self.eval(defaults[di], c.env)
    for p, d in zip(a.kwonlyargs, a.kw_defaults):
      if p.arg in kw:
        bound[p.arg] = kw.pop(p.arg)
      elif d is not None:
        bound[p.arg] = self.eval(d, c.env)
      else:
        raise Unsupported(f'missing kw-only argument {p.arg}')
    if kw:
      if a.kwarg:
        bound[a.kwarg.arg] = kw
      else:
        raise Unsupported(f'unexpected keyword arguments {list(kw)}')
    env.vars.update(bound)
    env.func = c
    env.loop_counter = itertools.count()
    env.scan_counter = itertools.count()
    if isinstance(node, ast.Lambda):
      return self.eval(node.body, env)
    try:
      self.exec_block(node.body, env)
    except _Return as r:
      return r.value
    return None

  # ---- statements ------------------------------------------------------------------------

  def exec_block(self, stmts, env):
    for s in stmts:
      self.exec_stmt(s, env)

  def exec_stmt(self, s, env):
    m = getattr(self, 'st_' + type(s).__name__, None)
    if m is None:
      raise Unsupported(f'statement {type(s).__name__} at line {getattr(s, "lineno", "?")}')
    return m(s, env)

  def st_Expr(self, s, env):
    if isinstance(s.value, ast.Constant) and isinstance(s.value.value, str):
      return
    self.eval(s.value, env)

  def st_Pass(self, s, env):
    pass

  def st_Return(self, s, env):
    raise _Return(self.eval(s.value, env) if s.value is not None else None)

  def st_Delete(self, s, env):
    for t in s.targets:
      if isinstance(t, ast.Name):
        env.vars.pop(t.id, None)
      else:
        raise Unsupported('del of non-name')

  def st_Assign(self, s, env):
    v = self.eval(s.value, env)
    for t in s.targets:
      self.assign(t, v, env)

  def st_AnnAssign(self, s, env):
    if s.value is not None:
      self.assign(s.target, self.eval(s.value, env), env)

  def st_AugAssign(self, s, env):
    cur = self.eval(_as_load(s.target), env)
    v = self.binop(s.op, cur, self.eval(s.value, env))
    self.assign(s.target, v, env)

  def assign(self, t, v, env):
    if isinstance(t, ast.Name):
      env.set(t.id, v)
    elif isinstance(t, (ast.Tuple, ast.List)):
      items = self.iter_concrete(v)
      if any(isinstance(e, ast.Starred) for e in t.elts):
        raise Unsupported('starred assignment')
      if len(items) != len(t.elts):
        raise PathRaise('ValueError', t.lineno)
      for e, x in zip(t.elts, items):
        self.assign(e, x, env)
    elif isinstance(t, ast.Subscript):
      obj = self.eval(t.value, env)
      idx = self.eval(t.slice, env)
      self.store_subscript(obj, idx, v, t)
    elif isinstance(t, ast.Attribute):
      obj = self.eval(t.value, env)
      if isinstance(obj, Obj):
        setattr(obj, t.attr, v)
      else:
        raise Unsupported('attribute assignment on non-abstract object')
    else:
      raise Unsupported(f'assignment target {type(t).__name__}')

  def store_subscript(self, obj, idx, v, node):
    if isinstance(obj, list) and isinstance(idx, int):
      if not -len(obj) <= idx < len(obj):
        raise PathRaise('IndexError', node.lineno)
      obj[idx] = v
      return
    if isinstance(obj, dict) and not is_sym(idx):
      obj[idx] = v
      return
    if isinstance(obj, SymSeq):
      n = to_z3(obj.length)
      old = obj.get
      if isinstance(idx, slice):
        if idx.step is not None:
          raise Unsupported('stepped slice assignment')
        lo = self._norm_slice_bound(idx.start, n) if idx.start is not None else 0
        hi = self._norm_slice_bound(idx.stop, n) if idx.stop is not None else n
        lo_, hi_ = to_z3(lo), to_z3(hi)
        val = (lambda i: v.get(to_z3(i) - lo_)) if isinstance(v, SymSeq) else (lambda i: _num_like(v))
        obj.get = lambda i: z3.If(z3.And(to_z3(i) >= lo_, to_z3(i) < hi_), val(i), old(i))
        return
      k = to_z3(idx)
      if self.truth(k < 0):
        k = k + n
      if not self.truth(z3.And(k >= 0, k < n)):
        raise PathRaise('IndexError', getattr(node, 'lineno', None))
      obj.get = lambda i: z3.If(to_z3(i) == k, _num_like(v), old(i))
      return
    if isinstance(obj, dict) and is_sym(idx):
      for k in list(obj):
        if self.truth(self.compare(ast.Eq(), idx, k)):
          obj[k] = v
          return
      obj[idx] = v
      return
    h = self.libspec.get(('store', type(obj).__name__))
    if h:
      return h[1](self, obj, idx, v)
    if is_sym(obj) and (z3.is_int(obj) or z3.is_real(obj) or z3.is_bool(obj)):
      raise PathRaise('TypeError', getattr(node, 'lineno', None))      # item assignment on a number
    raise Unsupported(f'subscript store on {type(obj).__name__}')

  def st_If(self, s, env):
    if self.truth(self.eval(s.test, env)):
      self.exec_block(s.body, env)
    else:
      self.exec_block(s.orelse, env)

  def st_Raise(self, s, env):
    name = 'Exception'
    if s.exc is not None:
      e = s.exc
      if isinstance(e, ast.Call):
        e = e.func
      if isinstance(e, ast.Name):
        name = e.id
      elif isinstance(e, ast.Attribute):
        name = e.attr
    raise PathRaise(name, s.lineno)

  def st_Assert(self, s, env):
    if not self.truth(self.eval(s.test, env)):
      raise PathRaise('AssertionError', s.lineno)

  def st_FunctionDef(self, s, env):
    c = Closure(s, env, self, name=s.name, owner=getattr(getattr(env, 'func', None), 'owner', None))
    val = c
    for d in reversed(s.decorator_list):
      dn = _dotted(d)
      if dn in TRANSPARENT_DECORATORS:
        self.trusted.add(f'A3 decorator {dn} treated as transparent')
        continue
      dv = self.eval(d, env)
      val = self.call(dv, [val], {})
    env.set(s.name, val)

  def st_Break(self, s, env):
    raise _Break()

  def st_Continue(self, s, env):
    raise _Continue()

  def st_Try(self, s, env):
    if s.finalbody or s.orelse:
      raise Unsupported('try/finally/else')
    try:
      self.exec_block(s.body, env)
    except PathRaise as e:
      for h in s.handlers:
        names = []
        if h.type is None:
          names = None
        elif isinstance(h.type, ast.Tuple):
          names = [_dotted(x).split('.')[-1] for x in h.type.elts]
        else:
          names = [_dotted(h.type).split('.')[-1]]
        if names is None or e.exc_name in names or 'Exception' in names or 'BaseException' in names:
          if h.name:
            env.set(h.name, e)
          self.exec_block(h.body, env)
          return
      raise

  def st_With(self, s, env):
    for item in s.items:
      name = _dotted(item.context_expr)
      if name not in ('np.errstate', 'numpy.errstate', 'jax.named_scope', 'contextlib.nullcontext'):
        raise Unsupported(f'with {name}')
      self.trusted.add(f'context manager {name} treated as transparent')
      if item.optional_vars is not None:
        raise Unsupported('with ... as ...')
    self.exec_block(s.body, env)

  def st_For(self, s, env):
    it = self.eval(s.iter, env)
    ordinal = next(env.loop_counter) if hasattr(env, 'loop_counter') else 0
    if s.orelse:
      raise Unsupported('for/else')
    items = self.try_concrete_iter(it)
    if items is not None:
      for x in items:
        self.assign(s.target, x, env)
        try:
          self.exec_block(s.body, env)
        except _Break:
          break
        except _Continue:
          continue
      return
    # symbolic trip count: needs an invariant
    seq = self.as_symseq(it)
    fname = env.func.name if hasattr(env, 'func') else '?'
    key = (fname, ordinal)
    if key not in self.loop_inv:
      raise Unsupported(f'loop {key} has a symbolic trip count and no invariant')
    inv = self.loop_inv[key]
    n = seq.length
    for nm, c in inv(self, env, 0):
      self.ensure(f'loop{key}:invariant-initially:{nm}', c)
    modified = sorted(_assigned_names(s.body) | _assigned_names([ast.Assign(targets=[s.target], value=None)]))
    branch = self.fork(2)
    for name in modified:
      if name in env.vars and name not in _assigned_names([ast.Assign(targets=[s.target], value=None)]):
        env.vars[name] = self.fresh_like(env.vars[name], name)
    if branch == 0:
      k = z3.Int(self.fresh_name('k'))
      self.assume(z3.And(k >= 0, k < n))
      for nm, c in inv(self, env, k):
        self.assume(c)
      self.assign(s.target, seq.get(k), env)
      env.vars['__k__'] = k
      try:
        self.exec_block(s.body, env)
      except (_Break, _Continue):
        raise Unsupported('break/continue in a loop with invariant')
      for nm, c in inv(self, env, k + 1):
        self.ensure(f'loop{key}:invariant-preserved:{nm}', c)
      raise PathAbort()
    else:
      for nm, c in inv(self, env, n):
        self.assume(c)

  def st_While(self, s, env):
    count = 0
    while self.truth(self.eval(s.test, env)):
      count += 1
      if count > 200:
        raise Unsupported('while loop not bounded by constant propagation')
      try:
        self.exec_block(s.body, env)
      except _Break:
        break
      except _Continue:
        continue

  # ---- iteration helpers -------------------------------------------------------------------

  def try_concrete_iter(self, it):
    if isinstance(it, (list, tuple, range, dict, set, frozenset, str)):
      return list(it)
    if isinstance(it, (zip, enumerate, map, filter, types.GeneratorType)) or type(it).__name__ in ('dict_items', 'dict_keys', 'dict_values', 'reversed', 'list_iterator'):
      return list(it)
    if isinstance(it, SymSeq):
      n = z3.simplify(to_z3(it.length))
      if z3.is_int_value(n):
        return [it.get(i) for i in range(n.as_long())]
      return None
    if isinstance(it, SymRange):
      if all(not is_sym(x) or z3.is_int_value(z3.simplify(x)) for x in (it.start, it.stop)):
        a = it.start if not is_sym(it.start) else z3.simplify(it.start).as_long()
        b = it.stop if not is_sym(it.stop) else z3.simplify(it.stop).as_long()
        return list(range(a, b))
      return None
    try:
      import numpy as np
      if isinstance(it, np.ndarray):
        return list(it)
    except ImportError:  # pragma: no cover
      pass
    raise Unsupported(f'iteration over {type(it).__name__}')

  def iter_concrete(self, it):
    if isinstance(it, tuple) or isinstance(it, list):
      return list(it)
    r = self.try_concrete_iter(it)
    if r is None:
      raise Unsupported('unpacking a sequence of symbolic length')
    return r

  def as_symseq(self, it):
    if isinstance(it, SymSeq):
      return it
    if isinstance(it, SymRange):
      n = it.stop - it.start
      n = z3.If(n >= 0, n, 0) if is_sym(n) else max(n, 0)
      return SymSeq(n, lambda i: it.start + i, z3.IntSort(), 'range')
    raise Unsupported(f'symbolic iteration over {type(it).__name__}')

  # ---- expressions -------------------------------------------------------------------------

  def eval(self, e, env):
    m = getattr(self, 'ex_' + type(e).__name__, None)
    if m is None:
      raise Unsupported(f'expression {type(e).__name__} at line {getattr(e, "lineno", "?")}')
    return m(e, env)

  def ex_Constant(self, e, env):
    return e.value

  def ex_Name(self, e, env):
    return env.lookup(e.id)

  def ex_Tuple(self, e, env):
    return tuple(self._elts(e.elts, env))

  def ex_List(self, e, env):
    return list(self._elts(e.elts, env))

  def ex_Set(self, e, env):
    items = self._elts(e.elts, env)
    if _any_sym(items):
      return SymSet(items)
    return set(items)

  def _elts(self, elts, env):
    out = []
    for x in elts:
      if isinstance(x, ast.Starred):
        out += self.iter_concrete(self.eval(x.value, env))
      else:
        out.append(self.eval(x, env))
    return out

  def ex_Dict(self, e, env):
    d = {}
    for k, v in zip(e.keys, e.values):
      if k is None:
        d.update(self.eval(v, env))
      else:
        kk = self.eval(k, env)
        if is_sym(kk):
          raise Unsupported('symbolic dict key in literal')
        d[kk] = self.eval(v, env)
    return d

  def ex_JoinedStr(self, e, env):
    return '<f-string>'

  def ex_Lambda(self, e, env):
    return Closure(e, env, self, name='<lambda>', owner=getattr(getattr(env, 'func', None), 'owner', None))

  def ex_IfExp(self, e, env):
    c = self.eval(e.test, env)
    if is_sym(c) and z3.is_bool(c):
      c = z3.simplify(c)
      if not (z3.is_true(c) or z3.is_false(c)):
        # try to build an ite when both sides are terms of one sort; else fork
        pass
    return self.eval(e.body, env) if self.truth(c) else self.eval(e.orelse, env)

  def ex_Attribute(self, e, env):
    obj = self.eval(e.value, env)
    return self.getattr(obj, e.attr)

  def getattr(self, obj, attr):
    if isinstance(obj, Obj) and 'super_lookup' in obj.__dict__:
      return obj.__dict__['super_lookup'](attr)
    if isinstance(obj, Obj):
      if not hasattr(obj, attr):
        # abstract instance of a real class: methods / properties not supplied by the contract are taken from the class source
        cls = obj.__dict__.get('class_ref')
        raw = inspect.getattr_static(cls, attr, None) if cls is not None else None
        if type(raw).__name__ == 'cached_property' and hasattr(raw, 'func'):
          return self.call_closure(self.load_function(raw.func), [obj], {})
        if isinstance(raw, property):
          return self.call_closure(self.load_function(raw.fget), [obj], {})
        if isinstance(raw, types.FunctionType):
          self.trusted.add(f'inlined (no separate contract): {cls.__module__}.{cls.__qualname__}.{attr}')
          return SymCallable(lambda en, *a, **k: en.call_closure(en.load_function(raw), [obj] + list(a), dict(k)), f'{cls.__name__}.{attr}')
        raise Unsupported(f'abstract object has no attribute {attr}')
      return getattr(obj, attr)
    if isinstance(obj, SymSeq):
      h = self.libspec.get(('attr', 'SymSeq', attr))
      if h:
        return h[1](self, obj)
      raise Unsupported(f'attribute {attr} of symbolic sequence')
    if is_sym(obj):
      h = self.libspec.get(('attr', str(obj.sort()), attr))
      if h:
        return h[1](self, obj)
      raise Unsupported(f'attribute {attr} of symbolic {obj.sort()}')
    h = self.libspec.get(('attr', type(obj).__name__, attr))          # contract-supplied container types
    if h:
      return h[1](self, obj)
    try:
      return getattr(obj, attr)
    except AttributeError:
      raise PathRaise('AttributeError')

  def ex_Subscript(self, e, env):
    obj = self.eval(e.value, env)
    idx = self.eval(e.slice, env)
    return self.subscript(obj, idx, getattr(e, 'lineno', None))

  def ex_Slice(self, e, env):
    return slice(self.eval(e.lower, env) if e.lower else None,
                 self.eval(e.upper, env) if e.upper else None,
                 self.eval(e.step, env) if e.step else None)

  def subscript(self, obj, idx, lineno=None):
    if isinstance(obj, SymSeq) and type(obj) is not SymSeq and isinstance(idx, tuple):
      h = self.libspec.get(('subscript', type(obj).__name__))     # specialised vectors (e.g. index vectors broadcast to matrices)
      if h:
        return h[1](self, obj, idx)
    if isinstance(obj, SymSeq):
      if isinstance(idx, slice):
        if idx.step is not None:
          raise Unsupported('stepped slice of symbolic sequence')
        lo, hi = idx.start, idx.stop
        s = obj
        n = obj.length
        if hi is not None:
          hi = self._norm_slice_bound(hi, n)
          s = s.slice_to(hi)
        if lo is not None:
          lo = self._norm_slice_bound(lo, n)
          lo2 = z3.If(lo <= s.length, lo, s.length) if is_sym(lo) or is_sym(s.length) else min(lo, s.length)
          s = s.slice_from(z3.simplify(to_z3(lo2)) if is_sym(lo2) else lo2)
        return s
      i = to_z3(idx)
      n = to_z3(obj.length)
      neg = z3.simplify(i < 0)
      if not z3.is_false(neg):
        if self.truth(i < 0):
          i = i + n
      ok = z3.And(i >= 0, i < n)
      # out-of-range subscripts raise IndexError in Python: fork
      if not self.truth(ok):
        raise PathRaise('IndexError', lineno)
      return obj.get(z3.simplify(i))
    if isinstance(obj, (list, tuple, str)) and is_sym(idx):
      n = len(obj)
      i = idx
      if self.truth(i < 0):
        i = i + n
      if not self.truth(z3.And(i >= 0, i < n)):
        raise PathRaise('IndexError', lineno)
      for j in range(n):           # case split on the concrete positions
        if self.truth(i == j):
          return obj[j]
      raise PathAbort()
    if isinstance(obj, SymSeq):
      n = to_z3(obj.length)
      old = obj.get
      if isinstance(idx, slice):
        if idx.step is not None:
          raise Unsupported('stepped slice assignment')
        lo = self._norm_slice_bound(idx.start, n) if idx.start is not None else 0
        hi = self._norm_slice_bound(idx.stop, n) if idx.stop is not None else n
        lo_, hi_ = to_z3(lo), to_z3(hi)
        val = (lambda i: v.get(to_z3(i) - lo_)) if isinstance(v, SymSeq) else (lambda i: _num_like(v))
        obj.get = lambda i: z3.If(z3.And(to_z3(i) >= lo_, to_z3(i) < hi_), val(i), old(i))
        return
      k = to_z3(idx)
      if self.truth(k < 0):
        k = k + n
      if not self.truth(z3.And(k >= 0, k < n)):
        raise PathRaise('IndexError', getattr(node, 'lineno', None))
      obj.get = lambda i: z3.If(to_z3(i) == k, _num_like(v), old(i))
      return
    if isinstance(obj, dict) and is_sym(idx):
      for k in obj:
        if self.truth(idx == to_z3(k)):
          return obj[k]
      raise PathRaise('KeyError', lineno)
    h = self.libspec.get(('subscript', type(obj).__name__))
    if h:
      return h[1](self, obj, idx)
    if is_sym(obj):
      h = self.libspec.get(('subscript', str(obj.sort())))
      if h:
        return h[1](self, obj, idx)
      raise Unsupported(f'subscript of symbolic {obj.sort()}')
    try:
      return obj[idx]
    except IndexError:
      raise PathRaise('IndexError', lineno)
    except KeyError:
      raise PathRaise('KeyError', lineno)

  def _norm_slice_bound(self, b, n):
    """Python slice-bound normalisation: negative counts from the end, then clamp to [0, n]."""
    if not is_sym(b) and not is_sym(n):
      if b < 0:
        b += n
      return max(0, min(b, n))
    b = to_z3(b)
    n = to_z3(n)
    b = z3.If(b < 0, b + n, b)
    return z3.simplify(z3.If(b < 0, 0, z3.If(b > n, n, b)))

  def ex_UnaryOp(self, e, env):
    v = self.eval(e.operand, env)
    if isinstance(e.op, ast.Not):
      return not self.truth(v)
    if isinstance(e.op, ast.USub):
      if is_sym(v) and v.sort() == V:
        return self.vec('neg', v)
      h = self.libspec.get(('neg', type(v).__name__))
      if h:
        return h[1](self, v)
      return -v
    if isinstance(e.op, ast.UAdd):
      return v
    raise Unsupported('unary op')

  def ex_BoolOp(self, e, env):
    # Python semantics: returns the deciding operand
    if isinstance(e.op, ast.And):
      v = True
      for x in e.values:
        v = self.eval(x, env)
        if not self.truth(v):
          return v
      return v
    v = False
    for x in e.values:
      v = self.eval(x, env)
      if self.truth(v):
        return v
    return v

  def ex_Compare(self, e, env):
    left = self.eval(e.left, env)
    result = None
    for op, rhs in zip(e.ops, e.comparators):
      right = self.eval(rhs, env)
      r = self.compare(op, left, right)
      # chained comparison: a op b op c  ==  (a op b) and (b op c), short-circuit
      if len(e.ops) == 1:
        return r
      if not self.truth(r):
        return False
      result = True
      left = right
    return result

  def compare(self, op, a, b):
    if isinstance(op, (ast.Is, ast.IsNot)):
      if is_sym(a) or is_sym(b):
        if a is None or b is None:
          r = False
        else:
          raise Unsupported('identity comparison of symbolic values')
      else:
        r = a is b
      return r if isinstance(op, ast.Is) else not r
    if isinstance(op, (ast.In, ast.NotIn)):
      r = self.contains(b, a)
      if isinstance(op, ast.In):
        return r
      return z3.Not(r) if is_sym(r) else not r
    for x_, y_, refl in ((a, b, False), (b, a, True)):
      if hasattr(x_, '_pyvc_compare'):
        return x_._pyvc_compare(type(op).__name__, y_, refl)
    if isinstance(a, SymSet) or isinstance(b, SymSet):
      raise Unsupported('set comparison')
    if type(a).__name__ == 'SymMat' or type(b).__name__ == 'SymMat':
      h = self.libspec.get(('compare', 'SymMat', type(op).__name__))
      if h:
        return h[1](self, a, b)
      raise Unsupported('comparison of symbolic matrices')
    if isinstance(a, SymSeq) or isinstance(b, SymSeq):
      h = self.libspec.get(('compare', 'SymSeq', type(op).__name__))
      if h:
        return h[1](self, a, b)
      raise Unsupported('comparison of symbolic sequences')
    if isinstance(a, (tuple, list)) and isinstance(b, (tuple, list)) and isinstance(op, (ast.Eq, ast.NotEq)) and (_any_sym(a) or _any_sym(b)):
      # sequences with symbolic members: equal iff same length and all members equal
      if len(a) != len(b):
        r = False
      else:
        parts = [self.compare(ast.Eq(), x, y) for x, y in zip(a, b)]
        parts = [to_z3(p_) if not isinstance(p_, bool) else z3.BoolVal(p_) for p_ in parts]
        r = z3.simplify(z3.And(*parts)) if parts else True
      if isinstance(op, ast.Eq):
        return r
      return z3.Not(r) if is_sym(r) else (not r)
    if not is_sym(a) and not is_sym(b):
      if isinstance(a, (SymSeq, Closure, SymCallable)) or isinstance(b, (SymSeq, Closure, SymCallable)):
        raise Unsupported('comparison of abstract objects')
      try:
        return {ast.Eq: lambda: a == b, ast.NotEq: lambda: a != b, ast.Lt: lambda: a < b, ast.LtE: lambda: a <= b,
                ast.Gt: lambda: a > b, ast.GtE: lambda: a >= b}[type(op)]()
      except TypeError as e:
        raise Unsupported(f'comparison {type(a).__name__} {type(op).__name__} {type(b).__name__}: {e}')
    if a is None or b is None:
      return isinstance(op, ast.NotEq)
    if (is_sym(a) and z3.is_string(a)) or (is_sym(b) and z3.is_string(b)):
      a_, b_ = to_z3(a), to_z3(b)
    else:
      a_, b_ = _coerce_pair(a, b)
    t = type(op)
    if t is ast.Eq:
      return a_ == b_
    if t is ast.NotEq:
      return a_ != b_
    if t is ast.Lt:
      return a_ < b_
    if t is ast.LtE:
      return a_ <= b_
    if t is ast.Gt:
      return a_ > b_
    if t is ast.GtE:
      return a_ >= b_
    raise Unsupported('comparison operator')

  def contains(self, container, item):
    if isinstance(container, (list, tuple, set, frozenset, dict)):
      if not is_sym(item) and not _any_sym(list(container)):
        return item in container
      if not container:
        return False
      return z3.Or([to_z3(item) == to_z3(c) for c in container])
    if is_sym(container) and z3.is_string(container):
      return z3.Contains(container, to_z3(item))
    if isinstance(container, str) and is_sym(item):
      return z3.Contains(z3.StringVal(container), item)
    if isinstance(container, str):
      return item in container
    raise Unsupported(f'membership in {type(container).__name__}')

  def ex_BinOp(self, e, env):
    return self.binop(e.op, self.eval(e.left, env), self.eval(e.right, env))

  def vec(self, op, *args):
    if self.vector_ops is None or op not in self.vector_ops:
      raise Unsupported(f'vector operation {op} on opaque values')
    return self.vector_ops[op](*args)

  def binop(self, op, a, b):
    t = type(op)
    if isinstance(a, Struct) or isinstance(b, Struct):
      ref = a if isinstance(a, Struct) else b
      out = Struct()
      for f in ref.fields():
        fa = getattr(a, f) if isinstance(a, Struct) else a
        fb = getattr(b, f) if isinstance(b, Struct) else b
        setattr(out, f, self.binop(op, fa, fb))
      return out
    for x_ in (a, b):                                                       # contract-supplied container types (e.g. stacks of abstract fields)
      tn = type(x_).__name__
      if tn not in ('SymSeq', 'SymMat', 'Struct') and ('binop', tn, t.__name__) in self.libspec:
        return self.libspec[('binop', tn, t.__name__)][1](self, a, b)
    if type(a).__name__ == 'SymMat' or type(b).__name__ == 'SymMat':      # 2-d mode (vlib/pyvc/matrix.py)
      h = self.libspec.get(('binop', 'SymMat', t.__name__))
      if h:
        return h[1](self, a, b)
      raise Unsupported('arithmetic on symbolic matrices')
    if isinstance(a, SymSeq) or isinstance(b, SymSeq):
      h = self.libspec.get(('binop', 'SymSeq', t.__name__))
      if h:
        return h[1](self, a, b)
      raise Unsupported('arithmetic on symbolic sequences')
    if not is_sym(a) and not is_sym(b):
      if isinstance(a, float) or isinstance(b, float):
        # keep float arithmetic exact (A1: floats are mathematical reals)
        if isinstance(a, (int, float, fractions.Fraction)) and isinstance(b, (int, float, fractions.Fraction)) \
            and not isinstance(a, bool) and not isinstance(b, bool) and t in (ast.Add, ast.Sub, ast.Mult, ast.Div):
          fa, fb = fractions.Fraction(a), fractions.Fraction(b)
          if t is ast.Div and fb == 0:
            raise PathRaise('ZeroDivisionError')
          return {ast.Add: fa + fb, ast.Sub: fa - fb, ast.Mult: fa * fb, ast.Div: fa / fb if fb else None}[t]
      try:
        return _PYOPS[t](a, b)
      except ZeroDivisionError:
        raise PathRaise('ZeroDivisionError')
      except KeyError:
        raise Unsupported(f'operator {t.__name__}')
    # other uninterpreted sorts (abstract arrays, ...): operations supplied by the contract
    for x_ in (a, b):
      if is_sym(x_) and x_.sort() != V and x_.sort().kind() == z3.Z3_UNINTERPRETED_SORT:
        ops = self.sort_ops.get(x_.sort().name(), {})
        if t.__name__ not in ops:
          raise Unsupported(f'operator {t.__name__} on abstract sort {x_.sort().name()}')
        return ops[t.__name__](self, a, b)
    # opaque vector values
    if (is_sym(a) and a.sort() == V) or (is_sym(b) and b.sort() == V):
      if t is ast.Add:
        if not is_sym(a) and a == 0:
          return b
        if not is_sym(b) and b == 0:
          return a
        return self.vec('add', a, b)
      if t is ast.Sub:
        return self.vec('sub', a, b)
      if t is ast.Mult:
        if is_sym(a) and a.sort() == V:
          return self.vec('smul', _real(b), a)
        return self.vec('smul', _real(a), b)
      if t is ast.Div:
        return self.vec('sdiv', a, _real(b))
      raise Unsupported(f'operator {t.__name__} on opaque values')
    if (is_sym(a) and z3.is_string(a)) or (is_sym(b) and z3.is_string(b)):
      if t is ast.Add:
        return z3.Concat(to_z3(a), to_z3(b))
      raise Unsupported('string operator')
    a_, b_ = _coerce_pair(a, b, arith=True)
    elementwise = getattr(self, 'elementwise', False)
    zero_div = 'NonFinite' if elementwise else 'ZeroDivisionError'   # numpy: x/0 is inf/nan, not an exception
    if t is ast.Add:
      return a_ + b_
    if t is ast.Sub:
      return a_ - b_
    if t is ast.Mult:
      return a_ * b_
    if t is ast.Div:
      ar, br = _real(a_), _real(b_)
      if self.truth(br == 0):
        raise PathRaise(zero_div)
      return ar / br
    if t is ast.FloorDiv:
      if self.truth(b_ == 0):
        raise PathRaise(zero_div)
      if z3.is_int(a_) and z3.is_int(b_):
        return _floordiv(a_, b_)
      # real floor division: floor(a / b), as a real
      return z3.ToReal(z3.ToInt(_real(a_) / _real(b_)))
    if t is ast.Mod:
      if self.truth(b_ == 0):
        raise PathRaise(zero_div)
      if z3.is_int(a_) and z3.is_int(b_):
        bs = z3.simplify(b_)
        if z3.is_int_value(bs) and bs.as_long() > 0:
          return a_ % b_
        return a_ - b_ * _floordiv(a_, b_)
      ar, br = _real(a_), _real(b_)
      return ar - br * z3.ToReal(z3.ToInt(ar / br))      # Python: a - b*floor(a/b)
    if t is ast.Pow:
      bs = z3.simplify(b_)
      if z3.is_int_value(bs) and 0 <= bs.as_long() <= 8:
        r = z3.RealVal(1) if z3.is_real(a_) else z3.IntVal(1)
        for _ in range(bs.as_long()):
          r = r * a_
        return r
      if elementwise:
        from vlib.pyvc import elem
        return elem.pow_(self, a_, b_)
      raise Unsupported('symbolic power')
    raise Unsupported(f'operator {t.__name__}')

  def _zero_arg_super(self, env):
    """super() inside a method executed for a class-backed abstract object: attribute lookup continues in the MRO of the object's class
    after the class the running method was defined in."""
    fr = env
    while fr is not None and not hasattr(fr, 'func'):
      fr = getattr(fr, 'parent', None)
    c = getattr(fr, 'func', None)
    owner = getattr(c, 'defining_class', None)
    params = [p.arg for p in c.node.args.posonlyargs + c.node.args.args] if c is not None else []
    if owner is None or not params:
      raise Unsupported('super() outside a method of a known class')
    obj = fr.vars.get(params[0])
    cls = obj.__dict__.get('class_ref') if isinstance(obj, Obj) else None
    if cls is None or owner not in cls.__mro__:
      raise Unsupported('super() on an object that is not a class-backed instance of the defining class')
    rest = cls.__mro__[cls.__mro__.index(owner) + 1:]
    engine = self

    class _Super(Obj):
      pass
    proxy = _Super(kind='super-proxy')

    def lookup(attr):
      for k in rest:
        if attr in vars(k):
          raw = vars(k)[attr]
          if isinstance(raw, property):
            return engine.call_closure(engine.load_function(raw.fget), [obj], {})
          if isinstance(raw, types.FunctionType):
            return SymCallable(lambda en, *a, **kw: en.call_closure(en.load_function(raw), [obj] + list(a), dict(kw)), f'super().{attr} ({k.__name__})')
          return raw
      raise PathRaise('AttributeError')
    proxy.__dict__['super_lookup'] = lookup
    return proxy

  def ex_Call(self, e, env):
    if isinstance(e.func, ast.Name) and e.func.id == 'super' and not e.args and not e.keywords:
      return self._zero_arg_super(env)
    f = self.eval(e.func, env)
    args = self._elts(e.args, env)
    kw = {}
    for k in e.keywords:
      if k.arg is None:
        kw.update(self.eval(k.value, env))
      else:
        kw[k.arg] = self.eval(k.value, env)
    # method calls on symbolic receivers
    if isinstance(e.func, ast.Attribute) and isinstance(f, _BoundSym):
      return f(self, *args, **kw)
    self._cur_env = env
    return self.call(f, args, kw)

  def _comprehension(self, e, env, emit):
    def rec(gi, env_):
      if gi == len(e.generators):
        emit(env_)
        return
      g = e.generators[gi]
      if g.is_async:
        raise Unsupported('async comprehension')
      it = self.eval(g.iter, env_)
      items = self.try_concrete_iter(it)
      if items is None:
        raise Unsupported('comprehension over a sequence of symbolic length')
      for x in items:
        sub = Env(parent=env_)
        for a in ('func', 'loop_counter', 'scan_counter'):
          if hasattr(env_, a):
            setattr(sub, a, getattr(env_, a))
        self.assign(g.target, x, sub)
        if all(self.truth(self.eval(c, sub)) for c in g.ifs):
          rec(gi + 1, sub)
    rec(0, env)

  def ex_ListComp(self, e, env):
    out = []
    self._comprehension(e, env, lambda en: out.append(self.eval(e.elt, en)))
    return out

  def ex_GeneratorExp(self, e, env):
    return self.ex_ListComp(e, env)

  def ex_SetComp(self, e, env):
    out = self.ex_ListComp(e, env)
    return SymSet(out) if _any_sym(out) else set(out)

  def ex_DictComp(self, e, env):
    out = {}

    def emit(en):
      k = self.eval(e.key, en)
      if is_sym(k):
        for k0 in list(out):
          if self.truth(self.compare(ast.Eq(), k, k0)):
            k = k0
            break
      out[k] = self.eval(e.value, en)
    self._comprehension(e, env, emit)
    return out

  def ex_Starred(self, e, env):
    raise Unsupported('starred expression')


class SymRange:
  def __init__(self, start, stop):
    self.start = start
    self.stop = stop


class SymSet:
  """Set literal with symbolic members (only len() is supported: number of distinct values)."""

  def __init__(self, items):
    self.items = items


class _BoundSym:
  def __init__(self, fn):
    self.fn = fn

  def __call__(self, eng, *a, **k):
    return self.fn(eng, *a, **k)


def _num_like(v):
  v = to_z3(v) if not isinstance(v, bool) else z3.IntVal(int(v))
  return z3.ToReal(v) if z3.is_int(v) else v


def _floordiv(a, b):
  """Python floor division on z3 Ints (z3 `/` on Ints is Euclidean: floor for positive divisors)."""
  bs = z3.simplify(b)
  if z3.is_int_value(bs) and bs.as_long() > 0:
    return a / b
  return z3.If(b > 0, a / b, (-a) / (-b))


def _real(x):
  x = to_z3(x)
  if z3.is_int(x):
    return z3.ToReal(x)
  return x


def _any_sym(xs):
  for x in xs:
    if is_sym(x) or isinstance(x, (SymSeq, SymSet, Closure, SymCallable, Obj, SymRange)):
      return True
    if isinstance(x, (list, tuple)) and _any_sym(x):
      return True
    if isinstance(x, dict) and _any_sym(list(x.values())):
      return True
  return False


def _callable_key(f):
  if isinstance(f, types.MethodType):
    return ('method', id(f.__func__))
  return id(f)


def _dotted(n):
  if isinstance(n, ast.Name):
    return n.id
  if isinstance(n, ast.Attribute):
    return _dotted(n.value) + '.' + n.attr
  if isinstance(n, ast.Call):
    return _dotted(n.func)
  return '?'


def _as_load(t):
  import copy
  t2 = copy.deepcopy(t)
  for n in ast.walk(t2):
    if hasattr(n, 'ctx'):
      n.ctx = ast.Load()
  return t2


def _assigned_names(stmts):
  names = set()

  def tgt(t):
    if isinstance(t, ast.Name):
      names.add(t.id)
    elif isinstance(t, (ast.Tuple, ast.List)):
      for e in t.elts:
        tgt(e)
    elif isinstance(t, ast.Starred):
      tgt(t.value)
    elif isinstance(t, (ast.Subscript, ast.Attribute)):
      v = t.value
      while isinstance(v, (ast.Subscript, ast.Attribute)):
        v = v.value
      if isinstance(v, ast.Name):
        names.add(v.id)

  for s in stmts:
    for n in ast.walk(s):
      if isinstance(n, ast.Assign):
        for t in n.targets:
          tgt(t)
      elif isinstance(n, (ast.AugAssign, ast.AnnAssign)):
        tgt(n.target)
      elif isinstance(n, ast.For):
        tgt(n.target)
      elif isinstance(n, ast.FunctionDef):
        names.add(n.name)
  return names


import operator as _op
_PYOPS = {ast.Add: _op.add, ast.Sub: _op.sub, ast.Mult: _op.mul, ast.Div: _op.truediv, ast.FloorDiv: _op.floordiv,
          ast.Mod: _op.mod, ast.Pow: _op.pow, ast.MatMult: _op.matmul, ast.BitAnd: _op.and_, ast.BitOr: _op.or_,
          ast.BitXor: _op.xor, ast.LShift: _op.lshift, ast.RShift: _op.rshift}

SAFE_NATIVE = set()


# ------------------------------------------------------------------------------------
# default (uninterpreted) vector-space operations on the opaque sort V

VADD = z3.Function('vadd', V, V, V)
VSUB = z3.Function('vsub', V, V, V)
SMUL = z3.Function('smul', z3.RealSort(), V, V)
VNEG = z3.Function('vneg', V, V)
R2V = z3.Function('real2vec', z3.RealSort(), V)   # a scalar broadcast to a state (e.g. `h = 0`)
VZERO = z3.Const('vzero', V)


def _as_vec(x):
  if is_sym(x) and x.sort() == V:
    return x
  r = z3.simplify(_real(x))
  if z3.is_rational_value(r) and r.numerator_as_long() == 0:
    return None    # additive zero
  return R2V(r)


def default_vector_ops():
  def add(a, b):
    a_, b_ = _as_vec(a), _as_vec(b)
    if a_ is None:
      return b_ if b_ is not None else VZERO
    if b_ is None:
      return a_
    return VADD(a_, b_)

  def sub(a, b):
    a_, b_ = _as_vec(a), _as_vec(b)
    if b_ is None:
      return a_ if a_ is not None else VZERO
    if a_ is None:
      return VNEG(b_)
    return VSUB(a_, b_)

  return {
      'add': add, 'sub': sub,
      'smul': lambda r, v: SMUL(_real(r), v),
      'sdiv': lambda v, r: SMUL(1 / _real(r), v),
      'neg': lambda v: VNEG(v),
  }
