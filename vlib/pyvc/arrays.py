"""pyvc 1-d array mode: numpy / jax.numpy vectors of *symbolic length* as SymSeq (length, index -> term).

Assumed library contracts (A8), each the textbook meaning of the numpy operation on 1-d arrays:
  a op b                  elementwise, scalars broadcast (lengths must be provably equal, else the clause is undecided)
  a[lo:hi], a[k]          slicing / indexing with Python normalisation (engine core)
  jnp.arange(n)[i] = i
  jnp.pad(a, [(b, e)])    b zeros, then a, then e zeros
  jnp.where(c, a, b)      elementwise select (c scalar or vector)
  jnp.clip(u, lo, hi)     min(max(u, lo), hi)
  jnp.searchsorted(xp, x, side='right') = u  with 0 <= u <= n,  xp[j] <= x for j < u,  x < xp[j] for j >= u   (xp sorted)
                          (side='left': xp[j] < x for j < u, x <= xp[j] for j >= u)
  jnp.dot(w, f)           sum_i w[i] f[i].  Only *finitely supported* weights are accepted: the handler collects the index terms t
                          of the comparisons `i == t` inside w(i), proves (an obligation of its own) that w(i) = 0 for every other
                          index, and returns the finite sum over the distinct support points.  Anything else: undecided.
  jnp.concatenate([a, b, ...]), jnp.array([x, ...]), jnp.diff(a)
"""
from __future__ import annotations

import z3

from vlib.pyvc import engine as E


def _is_seq(x):
  return isinstance(x, E.SymSeq)


def _num(x):
  if isinstance(x, bool):
    return z3.IntVal(1 if x else 0)
  x = E.to_z3(x)
  if z3.is_bool(x):
    return z3.If(x, z3.IntVal(1), z3.IntVal(0))
  return x


def _same_length(en, a, b):
  la, lb = E.to_z3(a.length), E.to_z3(b.length)
  if z3.simplify(la - lb).eq(z3.IntVal(0)):
    return
  if en._sat(la != lb):
    raise E.Unsupported(f'elementwise operation on vectors whose lengths are not provably equal ({a.name}, {b.name})')


def _elementwise(en, a, b, f, name):
  # results are new arrays: the operands' getters are captured now, so a later in-place store into an operand does not leak into them
  if _is_seq(a) and _is_seq(b):
    def one(s_):
      ln = z3.simplify(E.to_z3(s_.length))
      if z3.is_int_value(ln):
        return ln.as_long() == 1
      return not en._sat(ln != 1)
    same = z3.simplify(E.to_z3(a.length) - E.to_z3(b.length)).eq(z3.IntVal(0))        # syntactically equal lengths: the common case, no solver query
    if not same:
      if one(b) and not one(a):              # numpy broadcasting of a length-1 axis
        return _elementwise(en, a, b.get(0), f, name)
      if one(a) and not one(b):
        return _elementwise(en, a.get(0), b, f, name)
      _same_length(en, a, b)
    ga, gb = a.get, b.get
    return E.SymSeq(a.length, lambda i: f(ga(i), gb(i)), None, f'({a.name}{name}{b.name})')
  if _is_seq(a):
    ga = a.get
    return E.SymSeq(a.length, lambda i: f(ga(i), b), None, f'({a.name}{name}s)')
  gb = b.get
  return E.SymSeq(b.length, lambda i: f(a, gb(i)), None, f'(s{name}{b.name})')


def _arith(op):
  def f(x, y):
    x, y = _num(x), _num(y)
    if z3.is_int(x) and z3.is_real(y):
      x = z3.ToReal(x)
    if z3.is_real(x) and z3.is_int(y):
      y = z3.ToReal(y)
    if op == 'Add':
      return x + y
    if op == 'Sub':
      return x - y
    if op == 'Mult':
      return x * y
    if op == 'Div':
      return E._real(x) / E._real(y)
    raise E.Unsupported(f'vector operator {op}')
  return f


def _cmp(op):
  def f(x, y):
    x, y = _num(x), _num(y)
    if z3.is_int(x) and z3.is_real(y):
      x = z3.ToReal(x)
    if z3.is_real(x) and z3.is_int(y):
      y = z3.ToReal(y)
    return {'Eq': x == y, 'NotEq': x != y, 'Lt': x < y, 'LtE': x <= y, 'Gt': x > y, 'GtE': x >= y}[op]
  return f


def seq_binop(en, a, b, opname):
  if opname == 'Div':
    # numpy: division by zero gives inf/nan; the contract must exclude it (checked as "NonFinite" on the generic entry)
    den = b
    k = z3.Int(en.fresh_name('j'))
    d = den.get(k) if _is_seq(den) else E.to_z3(den)
    rng = z3.And(k >= 0, k < E.to_z3(den.length)) if _is_seq(den) else z3.BoolVal(True)
    if getattr(en, 'allow_nonfinite', False):
      # numpy semantics requested: decide quickly whether a zero denominator is possible at all; if that is not settled at once the
      # division is guarded (cheap) instead of spending the solver budget here -- the obligations decide the guard later
      en.solver.push()
      en.solver.set('timeout', 3000)
      en.solver.add(z3.And(rng, E._real(_num(d)) == 0))
      possible = en.solver.check() != z3.unsat
      en.solver.pop()
      en.solver.set('timeout', 5000)
    else:
      possible = en._sat(z3.And(rng, E._real(_num(d)) == 0))
    if possible:
      if not getattr(en, 'allow_nonfinite', False):
        raise E.PathRaise('NonFinite')
      # numpy semantics under np.errstate: x / 0 is inf/nan, not an exception.  The entry becomes an opaque non-finite marker
      # (a fresh uninterpreted value per position): any result that still depends on it cannot be proved equal to a finite spec.
      NF = z3.Function(en.fresh_name('nonfinite'), z3.IntSort(), z3.RealSort())
      def f(x, y, _arith=_arith('Div')):
        return _arith(x, y)
      seq = a if _is_seq(a) else b
      num = (lambda i: a.get(i)) if _is_seq(a) else (lambda i: a)
      den_ = (lambda i: b.get(i)) if _is_seq(b) else (lambda i: b)
      return E.SymSeq(seq.length, lambda i: z3.If(E._real(_num(den_(i))) == 0, NF(E.to_z3(i)), E._real(_num(num(i))) / E._real(_num(den_(i)))), None, 'guarded-div')
  return _elementwise(en, a, b, _arith(opname), {'Add': '+', 'Sub': '-', 'Mult': '*', 'Div': '/'}.get(opname, opname))


def seq_compare(en, a, b, opname):
  return _elementwise(en, a, b, _cmp(opname), opname)


def h_arange(en, n, *a, **k):
  if a or k:
    raise E.Unsupported('arange with start/step')
  return E.SymSeq(n, lambda i: E.to_z3(i), z3.IntSort(), 'arange')


def h_pad(en, x, cfg, *a, **k):
  if not _is_seq(x):
    raise E.Unsupported('pad of a non-vector in array mode')
  (b, e), = [tuple(c) for c in cfg]
  n = x.length
  b_, e_ = E.to_z3(b), E.to_z3(e)
  gx = x.get

  def get(i):
    i = E.to_z3(i)
    v = gx(i - b_)
    zero = z3.RealVal(0) if z3.is_real(v) else (z3.IntVal(0) if z3.is_int(v) else z3.BoolVal(False))
    return z3.If(z3.And(i >= b_, i < b_ + E.to_z3(n)), v, zero)
  return E.SymSeq(z3.simplify(E.to_z3(n) + b_ + e_), get, None, f'pad({x.name})')


def h_where(en, c, a, b):
  if not any(_is_seq(v) for v in (c, a, b)):
    c_ = E.to_z3(c)
    return z3.If(c_ if z3.is_bool(c_) else c_ != 0, _num(a), _num(b))
  length = next(v.length for v in (a, b, c) if _is_seq(v))
  getters = {id(v): v.get for v in (a, b, c) if _is_seq(v)}
  g = lambda v, i: getters[id(v)](i) if _is_seq(v) else v

  def get(i):
    ci = E.to_z3(g(c, i))
    ci = ci if z3.is_bool(ci) else ci != 0
    x, y = _num(g(a, i)), _num(g(b, i))
    if z3.is_int(x) and z3.is_real(y):
      x = z3.ToReal(x)
    if z3.is_real(x) and z3.is_int(y):
      y = z3.ToReal(y)
    return z3.If(ci, x, y)
  return E.SymSeq(length, get, None, 'where')


def h_clip(en, u, lo, hi):
  u, lo, hi = E.to_z3(u), E.to_z3(lo), E.to_z3(hi)
  return z3.If(u < lo, lo, z3.If(u > hi, hi, u))


def h_searchsorted(en, xp, x, side='left', **kw):
  if not _is_seq(xp) or _is_seq(x):
    raise E.Unsupported('searchsorted on non-vector / vector of queries')
  n = E.to_z3(xp.length)
  u = z3.Int(en.fresh_name('u'))
  j = z3.Int('j!ss')
  x_ = E._real(x)
  if side == 'right':
    below, above = xp.get(j) <= x_, x_ < xp.get(j)
    inst = [z3.Implies(u >= 1, xp.get(u - 1) <= x_), z3.Implies(u < n, x_ < xp.get(u))]
  else:
    below, above = xp.get(j) < x_, x_ <= xp.get(j)
    inst = [z3.Implies(u >= 1, xp.get(u - 1) < x_), z3.Implies(u < n, x_ <= xp.get(u))]
  en.assume(z3.And(u >= 0, u <= n))
  en.assume(z3.ForAll([j], z3.Implies(z3.And(j >= 0, j < u), below)))
  en.assume(z3.ForAll([j], z3.Implies(z3.And(j >= u, j < n), above)))
  for c in inst:
    en.assume(c)
  en.trusted.add(f"libspec:jnp.searchsorted(xp, x, side='{side}') (count of sorted nodes below x; A8)")
  return u


def _support_points(term, i):
  """Index terms t of the equalities `i == t` occurring in term."""
  out, seen, stack = [], set(), [term]
  while stack:
    t = stack.pop()
    if t.get_id() in seen:
      continue
    seen.add(t.get_id())
    if z3.is_eq(t):
      a, b = t.children()
      other = b if a.eq(i) else (a if b.eq(i) else None)
      if other is not None and not _mentions(other, i) and not any(other.eq(o) for o in out):
        out.append(other)
    stack.extend(t.children())
  return out


def _mentions(term, what):
  seen, stack = set(), [term]
  while stack:
    t = stack.pop()
    if t.get_id() in seen:
      continue
    seen.add(t.get_id())
    if t.eq(what):
      return True
    stack.extend(t.children())
  return False


def h_dot(en, w, f, **kw):
  if not (_is_seq(w) and _is_seq(f)):
    raise E.Unsupported('dot of non-vectors in array mode')
  _same_length(en, w, f)
  n = E.to_z3(w.length)
  i = z3.Int(en.fresh_name('i'))
  wi = z3.simplify(_num(w.get(i)))
  pts = [z3.simplify(p) for p in _support_points(wi, i)]
  # obligation: outside the support points (and outside the range) the weight vanishes
  outside = z3.And(i >= 0, i < n, *[i != p for p in pts])
  ok = en.ensure(f'dot: weights vanish off the {len(pts)} support point(s)', z3.Implies(outside, wi == 0))
  if not ok:
    raise E.Unsupported('dot with weights that are not provably finitely supported')
  # finite sum over distinct, in-range support points (coincidences resolved by case split)
  total = z3.RealVal(0)
  used = []
  for p in pts:
    if not en.truth(z3.And(p >= 0, p < n)):
      continue
    if any(en.truth(p == q) for q in used):
      continue
    used.append(p)
    total = total + E._real(_num(w.get(p))) * E._real(f.get(p))
  en.trusted.add('libspec:jnp.dot(w, f) == sum_i w[i] f[i], evaluated as a finite sum after proving w is finitely supported (A8)')
  return z3.simplify(total)


def h_concatenate(en, parts, axis=0):
  parts = list(parts)
  seqs = [p if _is_seq(p) else E.SymSeq(len(p), (lambda p_: (lambda i: _index_list(en, p_, i)))(list(p)), None, 'list') for p in parts]
  offs = [z3.IntVal(0)]
  for s in seqs:
    offs.append(z3.simplify(offs[-1] + E.to_z3(s.length)))
  gets = [s.get for s in seqs]

  def get(i):
    i = E.to_z3(i)
    r = gets[-1](i - offs[len(seqs) - 1])
    for k in range(len(seqs) - 2, -1, -1):
      r = z3.If(i < offs[k + 1], gets[k](i - offs[k]), r)
    return r
  return E.SymSeq(offs[-1], get, None, 'concat')


def _index_list(en, items, i):
  i = E.to_z3(i)
  r = E._real(_num(items[-1]))
  for k in range(len(items) - 2, -1, -1):
    r = z3.If(i == k, E._real(_num(items[k])), r)
  return r


def h_array(en, x, *a, **k):
  if _is_seq(x):
    return x
  items = list(x)
  return E.SymSeq(len(items), lambda i: _index_list(en, items, i), None, 'array')


def h_diff(en, x, *a, append=None, **k):
  if not _is_seq(x) or a or k:
    raise E.Unsupported('diff of non-vector / with n, axis or prepend')
  if append is not None:
    if _is_seq(append):
      raise E.Unsupported('diff(append=vector)')
    x = h_concatenate(en, [x, [append]])
  gx = x.get
  return E.SymSeq(z3.simplify(E.to_z3(x.length) - 1), lambda i: gx(E.to_z3(i) + 1) - gx(i), None, f'diff({x.name})')


def _install_at(en):
  """x.at[idx].set(v) / .add(v) / .multiply(v): JAX functional update of one in-range position or slice (A8).  An index that cannot
  be shown in range is outside the subset (JAX drops or clamps such updates; not modelled)."""
  def at_attr(en_, seq):
    return E.Obj(kind='at', seq=seq)

  def sub_at(en_, holder, idx):
    seq = holder.seq

    def upd(combine, label):
      def fn(en__, v):
        new = E.SymSeq(seq.length, seq.get, seq.sort, seq.name + '.at.' + label)
        if isinstance(idx, slice):
          if combine is not None:
            raise E.Unsupported('.at[slice].add')
          en__.store_subscript(new, idx, v, None)
          return new
        k = E.to_z3(idx)
        n = E.to_z3(seq.length)
        if en__.truth(k < 0):
          k = k + n
        if not en__.truth(z3.And(k >= 0, k < n)):
          raise E.Unsupported('.at[idx] with an index not provably in range')
        cur = seq.get(k)
        en__.store_subscript(new, k, v if combine is None else combine(_num(cur), _num(v)), None)
        return new
      return E.SymCallable(fn, f'.at[idx].{label} (functional update, A8)')
    return E.Obj(kind='at-index', set=upd(None, 'set'), add=upd(lambda a, b: a + b, 'add'), multiply=upd(lambda a, b: a * b, 'multiply'))
  en.libspec[('attr', 'SymSeq', 'at')] = (None, at_attr)
  prev = en.libspec.get(('subscript', 'Obj'))

  def sub_obj(en_, obj, idx):
    if getattr(obj, 'kind', None) == 'at':
      return sub_at(en_, obj, idx)
    if prev:
      return prev[1](en_, obj, idx)
    raise E.Unsupported('subscript of abstract object')
  en.libspec[('subscript', 'Obj')] = (None, sub_obj)


def install(en: E.Engine):
  import numpy as np
  import jax.numpy as jnp
  from vlib.pyvc.libspec import _reg
  for op in ('Add', 'Sub', 'Mult', 'Div'):
    en.libspec[('binop', 'SymSeq', op)] = (None, (lambda op_: (lambda en_, a, b: seq_binop(en_, a, b, op_)))(op))
  for op in ('Eq', 'NotEq', 'Lt', 'LtE', 'Gt', 'GtE'):
    en.libspec[('compare', 'SymSeq', op)] = (None, (lambda op_: (lambda en_, a, b: seq_compare(en_, a, b, op_)))(op))
  for mod in (np, jnp):
    nm = mod.__name__
    _reg(en, mod.arange, h_arange, f'{nm}.arange')
    _reg(en, mod.pad, h_pad, f'{nm}.pad (1-d)')
    _reg(en, mod.where, h_where, f'{nm}.where')
    _reg(en, mod.clip, h_clip, f'{nm}.clip')
    _reg(en, mod.searchsorted, h_searchsorted, f'{nm}.searchsorted')
    _reg(en, mod.dot, h_dot, f'{nm}.dot (finitely supported weights)')
    _reg(en, mod.concatenate, h_concatenate, f'{nm}.concatenate (1-d)')
    _reg(en, mod.array, h_array, f'{nm}.array')
    _reg(en, mod.asarray, h_array, f'{nm}.asarray')
    _reg(en, mod.diff, h_diff, f'{nm}.diff')
  _install_at(en)
  en.array_mode = True
  en.elementwise = True       # numpy division semantics (no ZeroDivisionError)
