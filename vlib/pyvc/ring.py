r"""Field identities by normal form (a decision procedure for the obligations nlsat times out on).

Obligation shape:   index facts  /\  oriented equations between atoms  /\  denominators non-zero   ==>   lhs == rhs
where lhs, rhs are rational expressions over uninterpreted applications (column entries, ghost sums, log values, ...).

  1. `If`s whose condition is decided by the integer facts are resolved (vlib/pyvc/nra.resolve_ifs); an undecided one => 'unknown';
  2. the oriented equations are applied as rewrite rules to a fixpoint.  A rule is (guard, pattern, replacement): it fires on an
     occurrence only if the integer facts imply the guard *instantiated at that occurrence* (checked with z3, linear integer arithmetic).
     Function rules rewrite every application f(t) by a template in t (guard in t);
  3. uninterpreted applications become indeterminates (equal simplified arguments => same indeterminate), the difference lhs - rhs is
     brought to a single fraction and its numerator expanded (sympy, exact rational arithmetic): the identity holds wherever the
     denominators are non-zero iff -- sufficient direction used here -- the numerator is the zero polynomial;
  4. every denominator factor must be non-zero: each is an obligation discharged by z3 from the given real facts.
'valid' only if 2-4 succeed; a non-zero numerator is reported as 'unknown' together with the residual (the rules may be incomplete),
never as 'invalid' -- refutations come from the SMT route, which is tried afterwards by the caller.
"""
from __future__ import annotations

import dataclasses
import time

import z3

from vlib import smt
from vlib.pyvc import nra


@dataclasses.dataclass
class Rule:
  name: str
  fn: object = None              # function rule: the z3 FuncDecl whose applications are rewritten ...
  template: object = None        # ... args -> replacement term
  guard: object = None           # args -> Bool over integers (must follow from the integer facts at each occurrence)
  pattern: object = None         # term rule: a concrete term ...
  replacement: object = None     # ... and its replacement (guard_term: Bool)
  guard_term: object = None


def _implied(int_hyps, cond):
  s = z3.Solver()
  s.set('timeout', 3000)
  for h in int_hyps:
    s.add(h)
  s.add(z3.Not(cond))
  return s.check() == z3.unsat


def _rewrite(term, rules, int_hyps, log, rounds=40):
  for _ in range(rounds):
    changed = [False]
    cache = {}

    def fn(t):
      if not z3.is_app(t):
        return None
      for r in rules:
        if r.fn is not None and t.decl().eq(r.fn):
          args = [z3.simplify(a) for a in t.children()]
          if _implied(int_hyps, r.guard(*args)):
            changed[0] = True
            log.add(r.name)
            return r.template(*args)
        elif r.pattern is not None and t.eq(r.pattern):
          if r.guard_term is None or _implied(int_hyps, r.guard_term):
            changed[0] = True
            log.add(r.name)
            return r.replacement
      return None
    term = z3.simplify(nra._walk_replace(term, fn, cache))
    if not changed[0]:
      return term
  return term


def _to_sympy(t, table):
  import sympy
  if z3.is_rational_value(t) or z3.is_int_value(t):
    return sympy.Rational(t.numerator_as_long(), t.denominator_as_long()) if z3.is_rational_value(t) else sympy.Integer(t.as_long())
  if z3.is_app(t):
    k = t.decl().kind()
    ch = t.children()
    if k == z3.Z3_OP_ADD:
      return sympy.Add(*[_to_sympy(c, table) for c in ch])
    if k == z3.Z3_OP_MUL:
      return sympy.Mul(*[_to_sympy(c, table) for c in ch])
    if k == z3.Z3_OP_SUB:
      r = _to_sympy(ch[0], table)
      for c in ch[1:]:
        r = r - _to_sympy(c, table)
      return r
    if k == z3.Z3_OP_UMINUS:
      return -_to_sympy(ch[0], table)
    if k in (z3.Z3_OP_DIV, z3.Z3_OP_IDIV):
      return _to_sympy(ch[0], table) / _to_sympy(ch[1], table)
    if k == z3.Z3_OP_TO_REAL:
      return _to_sympy(ch[0], table)
    if k == z3.Z3_OP_POWER and z3.is_int_value(ch[1]):
      return _to_sympy(ch[0], table) ** ch[1].as_long()
    if k == z3.Z3_OP_UNINTERPRETED:
      key = str(z3.simplify(t))
      if key not in table:
        table[key] = (sympy.Symbol(f'a{len(table)}'), t)
      return table[key][0]
  raise ValueError(f'term outside the field fragment: {t.decl().name() if z3.is_app(t) else t}')


def _has_ite(t):
  seen, stack = set(), [t]
  while stack:
    u = stack.pop()
    if u.get_id() in seen:
      continue
    seen.add(u.get_id())
    if z3.is_app(u) and u.decl().kind() == z3.Z3_OP_ITE:
      return True
    stack.extend(u.children())
  return False


def prove_identity(int_hyps, real_hyps, rules, lhs, rhs):
  """Returns smt.Verdict-like object (status in valid/unknown), reason, seconds."""
  import sympy
  t0 = time.time()
  log = set()
  terms = []
  for t in (lhs, rhs):
    # guards of the form `denominator == 0` (numpy's guarded division) are decided with the real facts as well
    t = nra.resolve_ifs(z3.simplify(t), list(int_hyps) + list(real_hyps))
    t = _rewrite(t, rules, int_hyps, log)
    t = nra.resolve_ifs(t, list(int_hyps) + list(real_hyps))
    if _has_ite(t):
      return smt.Verdict('unknown', reason='an If is not decided by the index facts of this case', seconds=time.time() - t0)
    terms.append(t)
  table = {}
  try:
    diff = _to_sympy(terms[0], table) - _to_sympy(terms[1], table)
  except ValueError as e:
    return smt.Verdict('unknown', reason=str(e), seconds=time.time() - t0)
  num, den = sympy.fraction(sympy.together(diff))
  num = sympy.expand(num)
  if num != 0:
    back = {str(s): str(t) for s, t in table.values()}
    return smt.Verdict('unknown', reason=f'numerator does not vanish after rewriting (rules used: {sorted(log)}): {str(num)[:300]} with {back}'[:1200], seconds=time.time() - t0)
  # denominators: every factor non-zero under the real facts
  inv = {s: t for s, t in table.values()}
  for fac, _ in sympy.factor_list(den)[1]:
    zt = _from_sympy(fac, inv)
    v = smt.valid(list(int_hyps) + list(real_hyps), zt != 0, timeout_ms=20000)
    if v.status != 'valid':
      return smt.Verdict('unknown', reason=f'denominator factor {fac} not shown non-zero ({v.status})', seconds=time.time() - t0)
  return smt.Verdict('valid', reason=f'ring normal form; rules used: {sorted(log)}', seconds=time.time() - t0, back_end='sympy-ring+z3')


def _from_sympy(e, inv):
  import sympy
  if e.is_Symbol:
    return inv[e]
  if e.is_Rational:
    return z3.RealVal(str(e))
  if e.is_Add:
    r = _from_sympy(e.args[0], inv)
    for a in e.args[1:]:
      r = r + _from_sympy(a, inv)
    return r
  if e.is_Mul:
    r = _from_sympy(e.args[0], inv)
    for a in e.args[1:]:
      r = r * _from_sympy(a, inv)
    return r
  if e.is_Pow and e.exp.is_Integer and e.exp > 0:
    b = _from_sympy(e.base, inv)
    r = b
    for _ in range(int(e.exp) - 1):
      r = r * b
    return r
  raise ValueError(f'cannot translate {e}')
