"""Helper for obligations that mix index case analysis with non-linear real arithmetic.

z3 times out on goals such as  (0 < n < N-1)  =>  f(B(n-1), B(n), B(n+1), W(n), X(n), ...) == g(...)  where f, g contain
`If(index condition, ..., ...)` and products/quotients of uninterpreted applications.  `prove` makes the goal easy without
changing its meaning for validity:
  1. every If whose condition is decided by the *integer* hypotheses alone (checked with a solver holding only those) is replaced
     by the taken branch;
  2. every application of an uninterpreted function to index terms is replaced by a fresh real constant, the same constant for
     syntactically equal (simplified) arguments -- a generalisation, so validity of the abstracted goal implies validity of the
     original (the converse may fail: then the result is 'unknown', never 'invalid');
  3. the hypotheses are abstracted the same way (quantified hypotheses are instantiated by the caller) and the result goes to nlsat.
"""
from __future__ import annotations

import z3

from vlib import smt


def _walk_replace(t, fn, cache):
  k = t.get_id()
  if k in cache:
    return cache[k]
  r = fn(t)
  if r is None:
    ch = t.children()
    if ch:
      new = [_walk_replace(c, fn, cache) for c in ch]
      if any(not a.eq(b) for a, b in zip(new, ch)):
        r = t.decl()(*new) if not z3.is_quantifier(t) else t
      else:
        r = t
    else:
      r = t
  cache[k] = r
  return r


def resolve_ifs(term, int_hyps, rounds=4):
  s = z3.Solver()
  s.set('timeout', 2000)
  for h in int_hyps:
    s.add(h)

  def decide(c):
    s.push()
    s.add(z3.Not(c))
    r1 = s.check()
    s.pop()
    if r1 == z3.unsat:
      return True
    s.push()
    s.add(c)
    r2 = s.check()
    s.pop()
    if r2 == z3.unsat:
      return False
    return None
  for _ in range(rounds):
    changed = [False]

    def fn(t):
      if z3.is_app(t) and t.decl().kind() == z3.Z3_OP_ITE:
        c, a, b = t.children()
        d = decide(c)
        if d is not None:
          changed[0] = True
          return a if d else b
      return None
    term = z3.simplify(_walk_replace(term, fn, {}))
    if not changed[0]:
      break
  return term


def abstract_ufs(terms):
  table = {}

  def fn(t):
    if z3.is_app(t) and t.decl().kind() == z3.Z3_OP_UNINTERPRETED and t.num_args() > 0 and z3.is_real(t):
      key = (t.decl().name(), tuple(str(z3.simplify(a)) for a in t.children()))
      if key not in table:
        table[key] = z3.Real('uf!' + key[0] + '!' + '!'.join(key[1]))
      return table[key]
    return None
  out = []
  cache = {}
  for t in terms:
    out.append(_walk_replace(t, fn, cache))
  return out, table


def prove(int_hyps, real_hyps, goal, timeout_ms=60000):
  """int_hyps: linear integer facts about the indices; real_hyps: quantifier-free facts (instances) about the data; goal: Bool."""
  g = resolve_ifs(z3.simplify(goal), int_hyps)
  hs = [resolve_ifs(z3.simplify(h), int_hyps) for h in real_hyps]
  abstracted, table = abstract_ufs(hs + [g])
  v = smt.valid(list(int_hyps) + abstracted[:-1], abstracted[-1], timeout_ms=timeout_ms)
  if v.status == 'invalid':
    # the abstraction may have lost the link between equal index terms: report unknown, never invalid
    v2 = smt.valid(list(int_hyps) + list(real_hyps), goal, timeout_ms=timeout_ms)
    return v2
  return v
