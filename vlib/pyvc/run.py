"""Glue: run a sidecar contract through the engine and fold the obligation results into an Outcome."""
from __future__ import annotations

import traceback

from vlib.core import Outcome
from vlib.pyvc import engine as E


def run_contract(contract, min_obligations=1, timeout_ms=None, max_paths=400, axioms=(), vector_ops='default', setup=None) -> Outcome:
  out = Outcome()
  en = E.Engine(timeout_ms=timeout_ms, max_paths=max_paths,
                vector_ops=E.default_vector_ops() if vector_ops == 'default' else vector_ops)
  en.axioms = list(axioms)
  if setup:
    setup(en)
  try:
    en.explore(contract)
  except E.Unsupported as e:
    out.undec(contract.__name__, f'source outside the pyvc subset: {e}')
  except E.PathRaise as e:
    out.undec(contract.__name__, f'uncaught exception {e.exc_name} escaped the contract harness at line {e.lineno}')
  seen = {}
  for r in en.results:
    # the same obligation name may be generated on several paths: all must hold
    if r.status == 'valid':
      seen.setdefault(r.name, []).append(r)
      out.ok(r.name, r.back_end, seconds=r.seconds,
             sample={'obligation': r.name, 'smt2': r.smt2} if r.smt2 else None)
    elif r.status == 'invalid':
      if any(f.key == r.name for f in out.failures):
        out.obligations += 1      # same obligation refuted on another path: reported once
        continue
      # a refutation without a counter-model (normal-form back ends) still gets its clause's native replay: an empty witness, not None
      out.fail(r.name, witness=r.model if r.model is not None else {}, detail=r.detail + ('\n' + r.smt2 if r.smt2 else ''), key=r.name)
    else:
      out.undec(r.name, r.detail)
  out.info['paths'] = en.paths
  out.trusted += sorted(en.trusted)
  if out.obligations < min_obligations and out.status == 'pass':
    out.undec(contract.__name__, f'only {out.obligations} obligations generated (< {min_obligations}): vacuous')
  if any('A1' in t for t in out.trusted) is False:
    pass
  return out
