"""pyvc elementwise mode: arrays are represented by their *generic entry* (a z3 Real).

Sound for function bodies that only use broadcasting arithmetic, comparisons, `where`,
`maximum`/`minimum`, elementwise transcendental functions and pure re-shaping subscripts
(`x[:, np.newaxis, np.newaxis]`, `x[..., None]`): every output entry is then the body's
expression evaluated at the corresponding (broadcast) input entries, so a statement proved
for symbolic real entries holds for every entry of every array shape.  Anything that mixes
entries (sum, cumsum, einsum, concatenate, integer subscripts) is *not* registered here: a
call to it raises Unsupported and the clause is undecided, never wrongly discharged.

Transcendental functions are uninterpreted symbols; the axioms used (A9) are instantiated
on the arguments that actually occur and are returned by `axioms(en)`:
  sin/cos : sin(x)^2 + cos(x)^2 = 1   (hence |sin|,|cos| <= 1)
  exp     : exp(x) > 0; x <= 0 => exp(x) <= 1; x >= 0 => exp(x) >= 1; exp(0) = 1; monotone on occurring pairs
  log     : log(1) = 0; monotone on occurring pairs (x > 0)
  pow     : x > 0 => pow(x, y) > 0;  pow(x, 0) = 1
Division by a symbolic entry that may be 0 does not raise in numpy: it produces inf/nan.
It is recorded in en.nonfinite (path condition under which a non-finite value appears).
"""
from __future__ import annotations

import z3

from vlib.pyvc import engine as E

R = z3.RealSort()
SIN = z3.Function('u_sin', R, R)
COS = z3.Function('u_cos', R, R)
EXP = z3.Function('u_exp', R, R)
LOG = z3.Function('u_log', R, R)
POW = z3.Function('u_pow', R, R, R)
SQRT = z3.Function('u_sqrt', R, R)
ARCSIN = z3.Function('u_arcsin', R, R)


def _r(x):
  if isinstance(x, bool):
    return z3.RealVal(1 if x else 0)
  x = E.to_z3(x)
  if z3.is_bool(x):
    return z3.If(x, z3.RealVal(1), z3.RealVal(0))
  return E._real(x)


def _is_scalar(x):
  return E.is_sym(x) or isinstance(x, (int, float, E.fractions.Fraction, bool))


def _note(en, kind, arg):
  en.__dict__.setdefault('elem_args', {}).setdefault(kind, [])
  lst = en.elem_args[kind]
  if not any(a.eq(arg) for a in lst):
    lst.append(arg)


def _unary(sym, kind, pyfn=None):
  def h(en, x, *a, **k):
    if not E.is_sym(x) and pyfn is not None and not isinstance(x, (E.SymSeq,)):
      import numpy as np
      if isinstance(x, (int, float)):
        # concrete argument: keep exact where the value is exact, else an uninterpreted constant application
        if kind == 'exp' and x == 0:
          return 1
        if kind in ('sin',) and x == 0:
          return 0
        if kind == 'cos' and x == 0:
          return 1
        if kind == 'log' and x == 1:
          return 0
      elif isinstance(x, np.ndarray):
        raise E.Unsupported(f'{kind} of a concrete array in elementwise mode')
    t = z3.simplify(_r(x))
    if kind in ('sin', 'cos') and getattr(en, 'period', None) is not None:
      t = reduce_mod_period(t, en.period)
    _note(en, kind, t)
    if kind == 'exp':
      en.assume(sym(t) > 0)       # A9: exp is positive (needed while executing when code divides by it)
    return sym(t)
  return h


def reduce_mod_period(t, P):
  """Applies  f(x + k*P) = f(x)  (k a concrete integer) syntactically: returns x if t == x + k*P, else t."""
  t0 = z3.simplify(z3.substitute(t, (P, z3.RealVal(0))))
  t1 = z3.simplify(z3.substitute(t, (P, z3.RealVal(1))))
  k = z3.simplify(t1 - t0)
  if z3.is_rational_value(k) and k.denominator_as_long() == 1:
    rest = z3.simplify(t - t0 - k * P)
    if z3.is_rational_value(rest) and rest.numerator_as_long() == 0:
      return t0
  return z3.simplify(t)


def h_maximum(en, a, b):
  a_, b_ = _r(a), _r(b)
  return z3.If(a_ >= b_, a_, b_)


def h_minimum(en, a, b):
  a_, b_ = _r(a), _r(b)
  return z3.If(a_ <= b_, a_, b_)


def h_abs(en, a):
  a_ = _r(a)
  return z3.If(a_ >= 0, a_, -a_)


def h_where(en, c, a, b):
  c = E.to_z3(c)
  if not z3.is_bool(c):
    c = c != 0
  return z3.If(c, _r(a), _r(b))


def h_zeros_like(en, x, *a, **k):
  if _is_scalar(x):
    return z3.RealVal(0)
  raise E.Unsupported('zeros_like of a non-scalar in elementwise mode')


def h_ones_like(en, x, *a, **k):
  if _is_scalar(x):
    return z3.RealVal(1)
  raise E.Unsupported('ones_like of a non-scalar in elementwise mode')


def h_asarray(en, x, *a, **k):
  if _is_scalar(x):
    return x
  raise E.Unsupported('asarray of a non-scalar in elementwise mode')


def h_power(en, a, b):
  return pow_(en, a, b)


def pow_(en, a, b):
  bs = z3.simplify(_r(b))
  if z3.is_rational_value(bs) and bs.denominator_as_long() == 1 and 0 <= bs.numerator_as_long() <= 8:
    r = z3.RealVal(1)
    for _ in range(bs.numerator_as_long()):
      r = r * _r(a)
    return r
  t = (_r(a), bs)
  en.__dict__.setdefault('elem_args', {}).setdefault('pow', [])
  if not any(x[0].eq(t[0]) and x[1].eq(t[1]) for x in en.elem_args['pow']):
    en.elem_args['pow'].append(t)
    # A9 instances needed already while executing (e.g. to divide by a power of a positive number)
    en.assume(z3.Implies(t[0] > 0, POW(*t) > 0))
    en.assume(z3.Implies(t[0] >= 0, POW(*t) >= 0))
  return POW(*t)


def h_subscript_real(en, obj, idx):
  """Pure re-shaping subscripts act as the identity on the generic entry."""
  items = idx if isinstance(idx, tuple) else (idx,)
  for it in items:
    if it is None or it is Ellipsis:
      continue
    if isinstance(it, slice) and it.start is None and it.stop is None and it.step is None:
      continue
    raise E.Unsupported(f'subscript {it!r} of an array in elementwise mode (not a pure re-shaping)')
  return obj


def h_attr_shape_dependent(en, obj):
  raise E.Unsupported('shape-dependent attribute in elementwise mode')


def install(en: E.Engine):
  """Registers the elementwise library specs on the engine (numpy and jax.numpy share them)."""
  import numpy as np
  import jax
  import jax.numpy as jnp
  from vlib.pyvc.libspec import _reg
  en.elem_args = {}
  en.nonfinite = []
  for mod in (np, jnp):
    nm = mod.__name__
    _reg(en, mod.sin, _unary(SIN, 'sin', True), f'{nm}.sin (uninterpreted, A9)')
    _reg(en, mod.cos, _unary(COS, 'cos', True), f'{nm}.cos (uninterpreted, A9)')
    _reg(en, mod.exp, _unary(EXP, 'exp', True), f'{nm}.exp (uninterpreted, A9)')
    _reg(en, mod.log, _unary(LOG, 'log', True), f'{nm}.log (uninterpreted, A9)')
    _reg(en, mod.sqrt, _unary(SQRT, 'sqrt', True), f'{nm}.sqrt (uninterpreted, A9)')
    _reg(en, mod.arcsin, _unary(ARCSIN, 'arcsin', True), f'{nm}.arcsin (uninterpreted, A9)')
    _reg(en, mod.maximum, h_maximum, f'{nm}.maximum (elementwise)')
    _reg(en, mod.minimum, h_minimum, f'{nm}.minimum (elementwise)')
    _reg(en, mod.abs, h_abs, f'{nm}.abs (elementwise)')
    _reg(en, mod.where, h_where, f'{nm}.where (elementwise select)')
    _reg(en, mod.zeros_like, h_zeros_like, f'{nm}.zeros_like')
    _reg(en, mod.ones_like, h_ones_like, f'{nm}.ones_like')
    _reg(en, mod.asarray, h_asarray, f'{nm}.asarray')
    _reg(en, mod.power, h_power, f'{nm}.power (small integer exponents exact, else uninterpreted, A9)')
    _reg(en, mod.square, lambda en_, x: _r(x) * _r(x), f'{nm}.square')
  from vlib.pyvc import libspec as L
  _reg(en, jax.tree.map, L._tree_map, 'jax.tree.map (leaf-wise application over tuples/lists/dicts)')
  en.libspec[('subscript', 'Real')] = (None, h_subscript_real)
  en.libspec[('subscript', 'Int')] = (None, h_subscript_real)
  en.elementwise = True


def axioms(en):
  """Instances of the A9 axioms on the transcendental arguments that occurred on this path."""
  out = []
  args = getattr(en, 'elem_args', {})
  seen = set()

  def pyth(t):
    k = str(t)
    if k in seen:
      return
    seen.add(k)
    out.append(SIN(t) * SIN(t) + COS(t) * COS(t) == 1)
    out.append(z3.Implies(t == 0, z3.And(SIN(t) == 0, COS(t) == 1)))
  for t in args.get('sin', []) + args.get('cos', []):
    pyth(t)
  ex = args.get('exp', [])
  for t in ex:
    out += [EXP(t) > 0, z3.Implies(t <= 0, EXP(t) <= 1), z3.Implies(t >= 0, EXP(t) >= 1), z3.Implies(t == 0, EXP(t) == 1)]
  for i, a in enumerate(ex):
    for b in ex[i + 1:]:
      out += [z3.Implies(a <= b, EXP(a) <= EXP(b)), z3.Implies(b <= a, EXP(b) <= EXP(a))]
  lg = args.get('log', [])
  for t in lg:
    out += [z3.Implies(t == 1, LOG(t) == 0), z3.Implies(z3.And(t > 0, t <= 1), LOG(t) <= 0), z3.Implies(t >= 1, LOG(t) >= 0)]
  for i, a in enumerate(lg):
    for b in lg[i + 1:]:
      out += [z3.Implies(z3.And(a > 0, a <= b), LOG(a) <= LOG(b)), z3.Implies(z3.And(b > 0, b <= a), LOG(b) <= LOG(a))]
  for (a, b) in args.get('pow', []):
    out += [z3.Implies(a > 0, POW(a, b) > 0), z3.Implies(b == 0, POW(a, b) == 1)]
  for t in args.get('sqrt', []):
    out += [z3.Implies(t >= 0, z3.And(SQRT(t) >= 0, SQRT(t) * SQRT(t) == t))]
  return out


def periodicity(en, period, kinds=('sin', 'cos'), multiples=(1, 2, 3, 4)):
  """Instances of  f(x + k*period) = f(x)  for all pairs of occurring arguments (k in multiples).

  `period` is a z3 Real standing for 2*pi (an uninterpreted positive constant: the axiom is the definition of
  the period of sin/cos)."""
  out = []
  args = getattr(en, 'elem_args', {})
  ts = args.get('sin', []) + args.get('cos', [])
  uniq = []
  for t in ts:
    if not any(t.eq(u) for u in uniq):
      uniq.append(t)
  for i, a in enumerate(uniq):
    for b in uniq[i + 1:]:
      d = z3.simplify(b - a)
      for k in multiples:
        for s in (1, -1):
          out.append(z3.Implies(d == s * k * period, z3.And(SIN(a) == SIN(b), COS(a) == COS(b))))
  return out
