"""pyvc 2-d array mode: numpy matrices of *symbolic shape* as SymMat (rows, cols, (i, j) -> term), on top of the 1-d array mode.

Built for the vertical weight matrices of the primitive equations (`get_geopotential_weights`, `get_temperature_implicit_weights`,
the sparse / cumulative-sum forms), whose sizes are the number of layers.  A dimension of size one that broadcasts is `None`.

Assumed library contracts (A8), each the textbook meaning of the numpy operation:
  np.ones([n, m]) / np.zeros([n, m])          constant matrices (a 1-element shape gives a vector)
  np.tril(a)                                  a[i, j] if j <= i else 0
  np.roll(a, 1, axis=0)                       row i of the result is row i-1 of a (row 0 is the last row); vectors: cyclic shift by +-1
  v[..., np.newaxis], v[:, np.newaxis]        column matrix (broadcasts along columns);  v[np.newaxis, :] row matrix
  v[:, np.newaxis, np.newaxis]                a vector along the leading (vertical) axis broadcast against a field: in *column mode*
                                              fields are vectors along the vertical axis at one generic horizontal position, so this is v
  a op b                                      elementwise with numpy broadcasting (matrix-matrix, matrix-vector = row broadcast, scalars)
  a[i, j], a[i], a[lo:hi, j], a[i, lo:hi]     entries, rows, column / row slices;   a[i, j] = x, a[i] = x   in-place stores
  np.diag(a)                                  the vector a[i, i]
  np.cumsum(v)                                ghost prefix sums: CS(0) = 0, CS(k+1) = CS(k) + v[k]; result[i] = CS(i+1)  (recorded in
                                              en.ghost_sums so that contracts can refer to them)
  np.log(v)                                   elementwise uninterpreted u_log (A9)
  -a                                          elementwise negation
  (v != 0).any()                              exists i. v[i] != 0
Results of arithmetic are new arrays (operand getters are captured at creation); stores mutate the stored-into object only -- writes
through slice views are outside the subset.
"""
from __future__ import annotations

import ast

import z3

from vlib.pyvc import arrays
from vlib.pyvc import engine as E

LOG = z3.Function('u_log', z3.RealSort(), z3.RealSort())


class SymMat:
  def __init__(self, rows, cols, get, name='mat'):
    self.rows, self.cols, self.get, self.name = rows, cols, get, name      # rows / cols None: broadcast dimension of size 1

  def copy(self, name=None):
    return SymMat(self.rows, self.cols, self.get, name or self.name)


def _is_mat(x):
  return isinstance(x, SymMat)


def _dim(en, a, b, what):
  if a is None:
    return b
  if b is None:
    return a
  if z3.simplify(E.to_z3(a) - E.to_z3(b)).eq(z3.IntVal(0)):
    return a
  if en._sat(E.to_z3(a) != E.to_z3(b)):
    raise E.Unsupported(f'broadcast of {what} not provably equal')
  return a


def as_mat(x):
  """Operand as (rows, cols, getter) under numpy broadcasting against a matrix."""
  if _is_mat(x):
    return x.rows, x.cols, x.get
  if arrays._is_seq(x):
    g = x.get
    return None, x.length, (lambda i, j: g(j))           # a 1-d operand broadcasts as a row
  return None, None, (lambda i, j: x)


def mat_binop(en, a, b, opname, cmp=False):
  ra, ca, ga = as_mat(a)
  rb, cb, gb = as_mat(b)
  f = arrays._cmp(opname) if cmp else arrays._arith(opname)
  if opname == 'Div' and not cmp:
    i_, j_ = z3.Int(en.fresh_name('i')), z3.Int(en.fresh_name('j'))
    rng = []
    for idx, d in ((i_, _dim(en, ra, rb, 'rows')), (j_, _dim(en, ca, cb, 'cols'))):
      if d is not None:
        rng.append(z3.And(idx >= 0, idx < E.to_z3(d)))
    if en._sat(z3.And(*rng, E._real(arrays._num(gb(i_, j_))) == 0)):
      raise E.PathRaise('NonFinite')
  return SymMat(_dim(en, ra, rb, 'rows'), _dim(en, ca, cb, 'cols'), lambda i, j: f(ga(i, j), gb(i, j)), f'({getattr(a, "name", "s")}{opname}{getattr(b, "name", "s")})')


def _shape(en, shape):
  if isinstance(shape, int) or E.is_sym(shape):
    return [shape]
  return list(en.iter_concrete(shape))


def _const(val):
  def h(en, shape, *a, **k):
    shp = _shape(en, shape)
    if len(shp) == 1:
      return E.SymSeq(shp[0], lambda i: z3.RealVal(val), z3.RealSort(), f'const{val}')
    if len(shp) == 2:
      return SymMat(shp[0], shp[1], lambda i, j: z3.RealVal(val), f'const{val}')
    raise E.Unsupported('constant array of rank > 2')
  return h


def h_tril(en, m, k=0):
  if not _is_mat(m) or k != 0:
    raise E.Unsupported('tril')
  g = m.get
  return SymMat(m.rows, m.cols, lambda i, j: z3.If(E.to_z3(j) <= E.to_z3(i), E._real(arrays._num(g(i, j))), z3.RealVal(0)), f'tril({m.name})')


def h_roll(en, x, shift, axis=None):
  if _is_mat(x):
    if shift != 1 or axis != 0 or x.rows is None:
      raise E.Unsupported('roll of a matrix other than by one row')
    g, n = x.get, E.to_z3(x.rows)
    return SymMat(x.rows, x.cols, lambda i, j: g(z3.If(E.to_z3(i) - 1 >= 0, E.to_z3(i) - 1, n - 1), j), f'roll({x.name})')
  if arrays._is_seq(x) and shift in (1, -1):
    g, m = x.get, E.to_z3(x.length)
    if shift == -1:
      return E.SymSeq(x.length, lambda i: g(z3.If(E.to_z3(i) + 1 < m, E.to_z3(i) + 1, 0)), x.sort, 'roll(-1)')
    return E.SymSeq(x.length, lambda i: g(z3.If(E.to_z3(i) - 1 >= 0, E.to_z3(i) - 1, m - 1)), x.sort, 'roll(+1)')
  raise E.Unsupported('roll outside the subset')


def h_diag(en, m):
  if not _is_mat(m):
    raise E.Unsupported('diag of a non-matrix')
  _dim(en, m.rows, m.cols, 'diag of a non-square matrix')
  g = m.get
  return E.SymSeq(m.rows, lambda i: g(i, i), z3.RealSort(), f'diag({m.name})')


def h_cumsum(en, x, *a, axis=None, **k):
  if _is_mat(x) and x.cols is None and axis == 0 and not a and not k:
    # cumulative sum down a column matrix: the column's prefix sums, still a column
    col = E.SymSeq(x.rows, (lambda g_: (lambda i: g_(i, 0)))(x.get), z3.RealSort(), x.name)
    cs = h_cumsum(en, col)
    gc = cs.get
    return SymMat(x.rows, None, lambda i, j: gc(i), f'cumsum({x.name})')
  if not arrays._is_seq(x) or a or k or axis not in (None, 0, -1):
    raise E.Unsupported('cumsum outside the vector subset')
  g, n = x.get, E.to_z3(x.length)
  kq = z3.Int('k!cs')
  # one ghost function per summed vector: two cumulative sums over the same entries (same generic entry term, same length) are the same
  # function (their defining recurrences coincide), so they share the symbol
  key = (str(z3.simplify(E._real(arrays._num(g(kq))), som=True, sort_sums=True)), str(z3.simplify(n)))
  table = en.__dict__.setdefault('ghost_sum_table', {})
  if key in table:
    CS = table[key]
  else:
    CS = table[key] = z3.Function(en.fresh_name('CSUM'), z3.IntSort(), z3.RealSort())
    en.assume(CS(0) == 0)
    en.assume(z3.ForAll([kq], z3.Implies(z3.And(kq >= 0, kq < n), CS(kq + 1) == CS(kq) + E._real(arrays._num(g(kq)))), patterns=[CS(kq + 1)]))
  if not hasattr(en, 'ghost_sums'):
    en.ghost_sums = []
  en.ghost_sums.append((CS, g, x.length))
  return E.SymSeq(x.length, lambda i: CS(E.to_z3(i) + 1), z3.RealSort(), f'cumsum({x.name})')


def h_log(en, x):
  if arrays._is_seq(x):
    g = x.get
    return E.SymSeq(x.length, lambda i: LOG(E._real(arrays._num(g(i)))), z3.RealSort(), f'log({x.name})')
  if _is_mat(x):
    g = x.get
    return SymMat(x.rows, x.cols, lambda i, j: LOG(E._real(arrays._num(g(i, j)))), f'log({x.name})')
  return LOG(E._real(arrays._num(x)))


def _minmax(is_min):
  def h(en, a, b):
    if not (_is_mat(a) or _is_mat(b)):
      if arrays._is_seq(a) or arrays._is_seq(b):
        f = (lambda x, y: z3.If(E._real(arrays._num(x)) <= E._real(arrays._num(y)), E._real(arrays._num(x)), E._real(arrays._num(y)))) if is_min else \
            (lambda x, y: z3.If(E._real(arrays._num(x)) >= E._real(arrays._num(y)), E._real(arrays._num(x)), E._real(arrays._num(y))))
        return arrays._elementwise(en, a, b, f, 'min' if is_min else 'max')
      x, y = E._real(arrays._num(a)), E._real(arrays._num(b))
      return z3.If(x <= y, x, y) if is_min else z3.If(x >= y, x, y)
    ra, ca, ga = as_mat(a)
    rb, cb, gb = as_mat(b)

    def get(i, j):
      x, y = E._real(arrays._num(ga(i, j))), E._real(arrays._num(gb(i, j)))
      return z3.If(x <= y, x, y) if is_min else z3.If(x >= y, x, y)
    return SymMat(_dim(en, ra, rb, 'rows'), _dim(en, ca, cb, 'cols'), get, 'minimum' if is_min else 'maximum')
  return h


def h_fill_diagonal(en, m, val, *a, **k):
  if not _is_mat(m) or a or k:
    raise E.Unsupported('fill_diagonal outside the subset')
  old, v = m.get, E._real(arrays._num(val))
  m.get = lambda i, j: z3.If(E.to_z3(i) == E.to_z3(j), v, old(i, j))      # in place, like numpy
  return None


def _norm(en, k, n, lineno=None):
  k = E.to_z3(k)
  n = E.to_z3(n)
  if en.truth(k < 0):
    k = k + n
  if not en.truth(z3.And(k >= 0, k < n)):
    raise E.PathRaise('IndexError', lineno)
  return z3.simplify(k)


def _full(s):
  return isinstance(s, slice) and s.start is None and s.stop is None and s.step is None


def seq_tuple_subscript(en, seq, idx):
  idx = tuple(idx)
  g = seq.get
  if len(idx) == 2 and (idx[0] is Ellipsis or _full(idx[0])) and idx[1] is None:
    return SymMat(seq.length, None, lambda i, j: g(i), f'{seq.name}[:, None]')
  if len(idx) == 2 and idx[0] is None and (idx[1] is Ellipsis or _full(idx[1])):
    return SymMat(None, seq.length, lambda i, j: g(j), f'{seq.name}[None, :]')
  if len(idx) == 3 and (_full(idx[0]) or idx[0] is Ellipsis) and idx[1] is None and idx[2] is None:
    en.trusted.add('column mode: v[:, None, None] * field == v * (field at one generic horizontal position), vertical axis leading')
    return seq
  if len(idx) == 2 and isinstance(idx[0], slice) and idx[1] is Ellipsis:
    return en.subscript(seq, idx[0])          # x[lo:hi, ...]: a slice along the leading axis
  raise E.Unsupported(f'subscript {idx} of a vector')


def mat_subscript(en, m, idx, lineno=None):
  g = m.get
  if not isinstance(idx, tuple):
    if isinstance(idx, slice):
      raise E.Unsupported('row slice of a matrix')
    i = _norm(en, idx, m.rows, lineno)
    return E.SymSeq(m.cols, lambda j: g(i, j), z3.RealSort(), f'{m.name}[{i}]')
  if len(idx) != 2:
    raise E.Unsupported(f'subscript {idx} of a matrix')
  a, b = idx
  if isinstance(a, slice) and not isinstance(b, slice):
    j = _norm(en, b, m.cols, lineno)
    col = E.SymSeq(m.rows, lambda i: g(i, j), z3.RealSort(), f'{m.name}[:, {j}]')
    return col if _full(a) else en.subscript(col, a)
  if isinstance(b, slice) and not isinstance(a, slice):
    i = _norm(en, a, m.rows, lineno)
    row = E.SymSeq(m.cols, lambda j: g(i, j), z3.RealSort(), f'{m.name}[{i}, :]')
    return row if _full(b) else en.subscript(row, b)
  if isinstance(a, slice) or isinstance(b, slice):
    raise E.Unsupported('2-d slice of a matrix')
  return g(_norm(en, a, m.rows, lineno), _norm(en, b, m.cols, lineno))


def mat_store(en, m, idx, v):
  old = m.get
  if isinstance(idx, tuple) and len(idx) == 2 and not any(isinstance(t, slice) for t in idx):
    a, b = _norm(en, idx[0], m.rows), _norm(en, idx[1], m.cols)
    val = E._real(arrays._num(v))
    m.get = lambda i, j: z3.If(z3.And(E.to_z3(i) == a, E.to_z3(j) == b), val, old(i, j))
    return
  if not isinstance(idx, (tuple, slice)):
    a = _norm(en, idx, m.rows)
    if arrays._is_seq(v):
      gv = v.get
      m.get = lambda i, j: z3.If(E.to_z3(i) == a, gv(j), old(i, j))
    else:
      val = E._real(arrays._num(v))
      m.get = lambda i, j: z3.If(E.to_z3(i) == a, val, old(i, j))
    return
  raise E.Unsupported(f'store {idx} into a matrix')


def install(en: E.Engine):
  import numpy as np
  import jax.numpy as jnp
  from vlib.pyvc.libspec import _reg
  if not getattr(en, 'array_mode', False):
    arrays.install(en)
  for op in ('Add', 'Sub', 'Mult', 'Div'):
    en.libspec[('binop', 'SymMat', op)] = (None, (lambda op_: (lambda en_, a, b: mat_binop(en_, a, b, op_)))(op))
  for op in ('Eq', 'NotEq', 'Lt', 'LtE', 'Gt', 'GtE'):
    en.libspec[('compare', 'SymMat', op)] = (None, (lambda op_: (lambda en_, a, b: mat_binop(en_, a, b, op_, cmp=True)))(op))
  for mod in (np, jnp):
    nm = mod.__name__
    _reg(en, mod.ones, _const(1), f'{nm}.ones (vector / matrix)')
    _reg(en, mod.zeros, _const(0), f'{nm}.zeros (vector / matrix)')
    _reg(en, mod.tril, h_tril, f'{nm}.tril')
    _reg(en, mod.roll, h_roll, f'{nm}.roll (one row / cyclic shift by +-1)')
    _reg(en, mod.diag, h_diag, f'{nm}.diag')
    _reg(en, mod.cumsum, h_cumsum, f'{nm}.cumsum (ghost prefix sums)')
    _reg(en, mod.log, h_log, f'{nm}.log (uninterpreted, A9)')
    _reg(en, mod.minimum, _minmax(True), f'{nm}.minimum (broadcast)')
    _reg(en, mod.maximum, _minmax(False), f'{nm}.maximum (broadcast)')
  _reg(en, np.fill_diagonal, h_fill_diagonal, 'np.fill_diagonal (in place)')
  en.libspec[('subscript', 'SymMat')] = (None, mat_subscript)
  en.libspec[('store', 'SymMat')] = (None, mat_store)
  en.libspec[('attr', 'SymMat', 'ndim')] = (None, lambda en_, m: 2)
  en.libspec[('attr', 'SymMat', 'shape')] = (None, lambda en_, m: (1 if m.rows is None else m.rows, 1 if m.cols is None else m.cols))
  en.libspec[('attr', 'SymSeq', 'ndim')] = (None, lambda en_, s: 1)
  en.libspec[('attr', 'SymSeq', 'shape')] = (None, lambda en_, s: (s.length,))

  def any_attr(en_, s):
    def fn(en__):
      g = s.get

      def body(i):
        b = E.to_z3(g(i))
        return z3.And(i >= 0, i < E.to_z3(s.length), b if z3.is_bool(b) else b != 0)
      i = z3.Int(en__.fresh_name('i'))
      flag = z3.Bool(en__.fresh_name('any'))
      en__.assume(flag == z3.Exists([i], body(i)))
      en__.__dict__.setdefault('any_facts', []).append((flag, body))      # contracts instantiate the quantifier at their own index
      return flag
    return E.SymCallable(fn, '.any() of a boolean vector == exists')
  en.libspec[('attr', 'SymSeq', 'any')] = (None, any_attr)

  def all_attr(en_, s):
    def fn(en__):
      g = s.get

      def body(i):
        b = E.to_z3(g(i))
        return z3.Implies(z3.And(i >= 0, i < E.to_z3(s.length)), b if z3.is_bool(b) else b != 0)
      i = z3.Int(en__.fresh_name('i'))
      flag = z3.Bool(en__.fresh_name('all'))
      en__.assume(flag == z3.ForAll([i], body(i)))
      en__.__dict__.setdefault('all_facts', []).append((flag, body))
      return flag
    return E.SymCallable(fn, '.all() of a vector == for all (non-zero / true)')
  en.libspec[('attr', 'SymSeq', 'all')] = (None, all_attr)

  def neg_seq(en_, v):
    g = v.get
    return E.SymSeq(v.length, lambda i: -E._real(arrays._num(g(i))), z3.RealSort(), f'-{v.name}')

  def neg_mat(en_, v):
    g = v.get
    return SymMat(v.rows, v.cols, lambda i, j: -E._real(arrays._num(g(i, j))), f'-{v.name}')
  en.libspec[('neg', 'SymSeq')] = (None, neg_seq)
  en.libspec[('neg', 'SymMat')] = (None, neg_mat)
  en.matrix_mode = True
  _patch_engine()


_PATCHED = False


def _patch_engine():
  """Engine hooks that dispatch on SymMat / tuple subscripts of vectors (idempotent, process-wide)."""
  global _PATCHED
  if _PATCHED:
    return
  _PATCHED = True
  o_sub, o_store, o_fresh = E.Engine.subscript, E.Engine.store_subscript, E.Engine.fresh_like

  def subscript(self, obj, idx, lineno=None):
    if isinstance(obj, SymMat):
      return mat_subscript(self, obj, idx, lineno)
    if type(obj) is E.SymSeq and isinstance(idx, tuple) and getattr(self, 'matrix_mode', False):
      return seq_tuple_subscript(self, obj, idx)
    if type(obj) is E.SymSeq and idx is None and getattr(self, 'matrix_mode', False):
      g = obj.get
      return SymMat(1, obj.length, lambda i, j: g(j), f'{obj.name}[None]')          # v[np.newaxis]: a 1 x n matrix
    return o_sub(self, obj, idx, lineno)

  def store_subscript(self, obj, idx, v, node):
    if isinstance(obj, SymMat):
      return mat_store(self, obj, idx, v)
    if isinstance(obj, E.SymSeq) and isinstance(idx, tuple) and len(idx) == 2 and _full(idx[0]) and getattr(self, 'row_mode', False):
      return o_store(self, obj, idx[1], v, node)        # row mode: x[:, k] = v on the generic row of a 2-d array
    return o_store(self, obj, idx, v, node)

  def fresh_like(self, v, base='h'):
    if isinstance(v, SymMat):
      F = z3.Function(self.fresh_name(base), z3.IntSort(), z3.IntSort(), z3.RealSort())
      return SymMat(v.rows, v.cols, lambda i, j: F(E.to_z3(i), E.to_z3(j)), base)
    return o_fresh(self, v, base)

  E.Engine.subscript, E.Engine.store_subscript, E.Engine.fresh_like = subscript, store_subscript, fresh_like
