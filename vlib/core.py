"""Common layer: clauses, verdicts, evidence, replay files, known findings, lock.

A *property* is a list of clauses.  A clause is one named obligation (or a family of
obligations generated from the real source) over one or more functions of /repo,
decided by one back end.  Deductive back ends: smt, exact, static.  Bounded stand-ins:
numeric, enum, crosshair.  See DESIGN.md 1.1/1.4.
"""
from __future__ import annotations

import dataclasses
import hashlib
import importlib
import inspect
import json
import os
import sys
import time
import traceback
from typing import Any, Callable, Optional

VERIF = os.path.dirname(os.path.dirname(os.path.abspath(__file__)))
REPO = os.environ.get('DINOSAUR_REPO', '/repo')

PASS, FAIL, UNDECIDED, ERROR = 'pass', 'fail', 'undecided', 'error'
DEDUCTIVE = ('smt', 'exact', 'static')
BOUNDED = ('numeric', 'enum', 'crosshair')


@dataclasses.dataclass
class Failure:
  """One failed obligation inside a clause."""
  obligation: str                 # name of the obligation that failed
  witness: Any = None             # JSON-able concrete input (None if none)
  detail: str = ''                # solver output / residuals / reason
  key: str = ''                   # stable identity used by known_findings


@dataclasses.dataclass
class Outcome:
  status: str = PASS
  obligations: int = 0            # obligations generated
  discharged: int = 0
  failures: list = dataclasses.field(default_factory=list)
  undecided: list = dataclasses.field(default_factory=list)   # names
  samples: list = dataclasses.field(default_factory=list)     # written-out obligations
  solver_s: float = 0.0
  back_ends: dict = dataclasses.field(default_factory=dict)   # e.g. {'z3': 12}
  trusted: list = dataclasses.field(default_factory=list)     # library specs / axioms used
  assumptions: list = dataclasses.field(default_factory=list)
  info: dict = dataclasses.field(default_factory=dict)        # residuals, configs, ...
  error: str = ''

  def ok(self, name, back_end='z3', sample=None, seconds=0.0):
    self.obligations += 1
    self.discharged += 1
    self.back_ends[back_end] = self.back_ends.get(back_end, 0) + 1
    self.solver_s += seconds
    if sample is not None and len(self.samples) < 3:
      self.samples.append(sample)

  def fail(self, name, witness=None, detail='', key=None):
    self.obligations += 1
    self.failures.append(Failure(name, witness, detail, key if key is not None else name))
    self.status = FAIL if self.status in (PASS, UNDECIDED) else self.status

  def undec(self, name, detail=''):
    self.obligations += 1
    self.undecided.append(name + (': ' + detail if detail else ''))
    if self.status == PASS:
      self.status = UNDECIDED

  def merge(self, other: 'Outcome'):
    self.obligations += other.obligations
    self.discharged += other.discharged
    self.failures += other.failures
    self.undecided += other.undecided
    for s in other.samples:
      if len(self.samples) < 3:
        self.samples.append(s)
    self.solver_s += other.solver_s
    for k, v in other.back_ends.items():
      self.back_ends[k] = self.back_ends.get(k, 0) + v
    for t in other.trusted:
      if t not in self.trusted:
        self.trusted.append(t)
    for t in other.assumptions:
      if t not in self.assumptions:
        self.assumptions.append(t)
    self.info.update(other.info)
    order = [PASS, UNDECIDED, FAIL, ERROR]
    if order.index(other.status) > order.index(self.status):
      self.status = other.status
    if other.error:
      self.error = (self.error + '\n' + other.error).strip()


@dataclasses.dataclass
class Clause:
  name: str
  back_end: str                       # smt | exact | static | numeric | enum | crosshair
  functions: list                     # qualified names of /repo functions under contract
  run: Callable[['Ctx'], Outcome]
  replay: Optional[Callable[[Any], tuple]] = None   # witness -> (reproduced: bool, text)
  doc: str = ''
  tiers: tuple = ('quick', 'thorough')
  canary: bool = False                # must FAIL (engine soundness guard)
  group: str = 'main'                 # clauses in the same group share a worker process
  heavy: bool = False                 # run in own subprocess (jax)
  # Clauses whose theory is incomplete for the solver (ghost sums defined by recurrences: induction is never done by the solver, so a
  # 'counter-model' may be a non-standard one).  For these a refutation counts as a violation only if the clause's native replay reproduces it
  # on the real code; otherwise the clause is reported undecided (exit 2), never as an alarm.
  refutation_needs_replay: bool = False

  @property
  def deductive(self):
    return self.back_end in DEDUCTIVE


@dataclasses.dataclass
class Ctx:
  tier: str
  seed: int
  prop: str


def source_hash(qualname: str) -> str:
  """sha1 of the current source text of a /repo function (evidence)."""
  try:
    obj = resolve(qualname)
    src = inspect.getsource(obj)
    return hashlib.sha1(src.encode()).hexdigest()[:12]
  except Exception as e:  # pylint: disable=broad-except
    return 'unavailable:' + type(e).__name__


def resolve(qualname: str):
  parts = qualname.split('.')
  for i in range(len(parts), 0, -1):
    try:
      obj = importlib.import_module('.'.join(parts[:i]))
    except ImportError:
      continue
    for p in parts[i:]:
      obj = inspect.getattr_static(obj, p) if inspect.isclass(obj) else getattr(obj, p)
      if isinstance(obj, (staticmethod, classmethod)):
        obj = obj.__func__
      if isinstance(obj, property):
        obj = obj.fget
      if hasattr(obj, 'func') and type(obj).__name__ == 'cached_property':
        obj = obj.func
    return obj
  raise ImportError(qualname)


# ---------------------------------------------------------------------------------
# known findings


def load_known():
  path = os.path.join(VERIF, 'known_findings.json')
  if not os.path.exists(path):
    return {'findings': [], 'fixed': []}
  with open(path) as f:
    return json.load(f)


def is_known(known, prop, clause, failure: Failure):
  for k in known.get('findings', []):
    if k['property'] == prop and k['clause'] == clause and k['key'] == failure.key:
      return k
  return None


# ---------------------------------------------------------------------------------
# lock (vacuity guard)


def load_lock():
  path = os.path.join(VERIF, 'obligations.lock')
  if not os.path.exists(path):
    return {}
  with open(path) as f:
    return json.load(f)


def jsonable(x):
  """Best-effort conversion of witnesses to JSON."""
  import fractions
  try:
    import numpy as np
  except ImportError:  # pragma: no cover
    np = None
  if isinstance(x, dict):
    return {str(k): jsonable(v) for k, v in x.items()}
  if isinstance(x, (list, tuple, set, frozenset)):
    return [jsonable(v) for v in x]
  if isinstance(x, (str, int, float, bool)) or x is None:
    if isinstance(x, float) and (x != x or x in (float('inf'), float('-inf'))):
      return repr(x)
    return x
  if isinstance(x, fractions.Fraction):
    return str(x)
  if np is not None:
    if isinstance(x, np.ndarray):
      return jsonable(x.tolist())
    if isinstance(x, np.generic):
      return jsonable(x.item())
  return repr(x)


def write_replay(prop, clause: Clause, failure: Failure):
  d = os.path.join(VERIF, 'replays', prop)
  os.makedirs(d, exist_ok=True)
  safe = ''.join(c if c.isalnum() or c in '-_.' else '_' for c in f'{clause.name}__{failure.obligation}')[:150]
  path = os.path.join(d, safe + '.json')
  with open(path, 'w') as f:
    json.dump({
        'property': prop,
        'clause': clause.name,
        'back_end': clause.back_end,
        'functions': clause.functions,
        'obligation': failure.obligation,
        'key': failure.key,
        'witness': jsonable(failure.witness),
        'verifier_output': failure.detail,
        'replay': f'./check {prop} --replay {os.path.relpath(path, VERIF)}',
    }, f, indent=1)
  return os.path.relpath(path, VERIF)


def rerun_any_replay(run_fn, select=None):
  """Replay for a deductive clause whose native counterpart is a bounded clause over real inputs: re-evaluates that clause on the real code
  and reports the first failing case (optionally only cases whose name contains `select`)."""
  cache = {}

  def replay(w):
    w = w if isinstance(w, dict) else {}
    ctx = Ctx(tier=w.get('_tier', 'quick'), seed=int(w.get('_seed', 0)), prop=w.get('_prop', ''))
    ck = (ctx.tier, ctx.seed)
    if ck not in cache:
      cache[ck] = run_fn(ctx)
    hits = [f for f in cache[ck].failures if select is None or select in f.obligation]
    if hits:
      return True, f'the bounded counterpart fails on the real code: {hits[0].obligation}: {hits[0].detail[:500]}'
    return False, 'the bounded counterpart holds on its enumerated inputs'
  return replay


def rerun_replay(run_fn):
  """Replay for bounded clauses: re-evaluates the clause (real functions on the same enumerated inputs) and reports
  whether the recorded obligation fails again.  The witness carries _key/_tier/_seed (added by the cli)."""
  cache = {}

  def replay(w):
    w = w if isinstance(w, dict) else {}
    ctx = Ctx(tier=w.get('_tier', 'quick'), seed=int(w.get('_seed', 0)), prop=w.get('_prop', ''))
    ck = (ctx.tier, ctx.seed)
    if ck not in cache:          # one re-evaluation serves every failed obligation of the clause
      cache[ck] = run_fn(ctx)
    o = cache[ck]
    hits = [f for f in o.failures if f.key == w.get('_key') or f.obligation == w.get('_obligation')]
    if hits:
      return True, f're-evaluated on the real code: obligation fails again: {hits[0].obligation}: {hits[0].detail[:500]}'
    return False, 're-evaluated on the real code: obligation holds'
  return replay
