"""Scale-leak dataflow over the real source (AST), C12.

Contract (for every function reachable from the equation / forcing classes): the body reads no module-level name whose
value derives from `scales.DEFAULT_SCALE`, and every call to a /repo function that has a parameter whose *default*
derives from it binds that parameter explicitly.  Then the only way a unit scale enters a computation is through the
`physics_specs` / `scale` object that the caller passed, which is what "scales only relabel numbers" needs.

The analysis re-parses the modules from the working tree on every run.  It is a syntactic may-analysis:
  tainted(m)   = least set of module-level names of m assigned from an expression mentioning DEFAULT_SCALE,
                 `scales.DEFAULT_SCALE`, or a tainted name (of m, or `mod.NAME` of another analysed module);
  defaults(f)  = parameters of f whose default expression mentions a tainted name;
  reach        = functions reachable from the roots through calls resolved by name:
                 `f(...)` (same module), `mod.f(...)` (analysed module alias), `self.f(...)` / `cls.f(...)` / `super().f(...)`
                 (any method of that name in the root class hierarchy), nested defs and lambdas belong to their owner.
Unresolvable calls (through variables, higher-order arguments) are listed in `unresolved` and reported in the evidence;
they cannot hide a *read* of a tainted global, which is checked in every function of the analysed modules that is
reachable, and a function passed as a value is treated as called (conservative).
"""
from __future__ import annotations

import ast
import importlib
import inspect
import os

MODULES = ['primitive_equations', 'shallow_water', 'held_suarez', 'radiation', 'primitive_equations_states',
           'shallow_water_states', 'sigma_coordinates', 'vertical_interpolation', 'time_integration', 'filtering',
           'spherical_harmonic', 'coordinate_systems', 'jax_numpy_utils']
SOURCE_ATTRS = {('scales', 'DEFAULT_SCALE'), ('scales', 'ATMOSPHERIC_SCALE')}
SOURCE_NAMES = {'DEFAULT_SCALE', 'ATMOSPHERIC_SCALE'}


class ModInfo:
  def __init__(self, name, tree, path):
    self.name = name
    self.tree = tree
    self.path = path
    self.aliases = {}        # local alias -> analysed module name
    self.tainted = {}        # name -> lineno
    self.functions = {}      # qualname -> ast.FunctionDef
    self.classes = {}        # class name -> (bases as strings, {method: node})


def _names_in(expr):
  for n in ast.walk(expr):
    if isinstance(n, ast.Name):
      yield ('name', n.id, n)
    elif isinstance(n, ast.Attribute) and isinstance(n.value, ast.Name):
      yield ('attr', (n.value.id, n.attr), n)


def load(repo_pkg='dinosaur'):
  mods = {}
  for m in MODULES:
    try:
      mod = importlib.import_module(f'{repo_pkg}.{m}')
    except ImportError:
      continue
    path = inspect.getsourcefile(mod)
    with open(path) as f:
      tree = ast.parse(f.read())
    mi = ModInfo(m, tree, path)
    for node in tree.body:
      if isinstance(node, ast.ImportFrom) and node.module == repo_pkg:
        for a in node.names:
          mi.aliases[a.asname or a.name] = a.name
      elif isinstance(node, ast.Import):
        for a in node.names:
          if a.name.startswith(repo_pkg + '.'):
            mi.aliases[a.asname or a.name.split('.')[-1]] = a.name.split('.')[-1]
      elif isinstance(node, (ast.FunctionDef, ast.AsyncFunctionDef)):
        mi.functions[node.name] = node
      elif isinstance(node, ast.ClassDef):
        methods = {}
        for b in node.body:
          if isinstance(b, (ast.FunctionDef, ast.AsyncFunctionDef)):
            methods[b.name] = b
            mi.functions[f'{node.name}.{b.name}'] = b
        mi.classes[node.name] = ([ast.unparse(b) for b in node.bases], methods)
    mods[m] = mi
  # taint fixpoint over module-level assignments
  changed = True
  while changed:
    changed = False
    for mi in mods.values():
      for node in mi.tree.body:
        targets, value = [], None
        if isinstance(node, ast.Assign):
          targets, value = node.targets, node.value
        elif isinstance(node, ast.AnnAssign) and node.value is not None:
          targets, value = [node.target], node.value
        if value is None:
          continue
        if _mentions_taint(value, mi, mods):
          for t in targets:
            for n in ast.walk(t):
              if isinstance(n, ast.Name) and n.id not in mi.tainted:
                mi.tainted[n.id] = node.lineno
                changed = True
  return mods


def _mentions_taint(expr, mi, mods):
  for kind, v, node in _names_in(expr):
    if kind == 'name':
      if v in SOURCE_NAMES and mi.name == 'scales':
        return True
      if v in mi.tainted:
        return True
    else:
      base, attr = v
      if (base, attr) in SOURCE_ATTRS:
        return True
      target = mi.aliases.get(base)
      if target == 'scales' and attr in SOURCE_NAMES:
        return True
      if target in mods and attr in mods[target].tainted:
        return True
  return False


def tainted_defaults(fn, mi, mods):
  """parameter name -> default source text, for defaults that derive from the default scale."""
  out = {}
  a = fn.args
  pos = a.posonlyargs + a.args
  for p, d in zip(pos[len(pos) - len(a.defaults):], a.defaults):
    if _mentions_taint(d, mi, mods):
      out[p.arg] = ast.unparse(d)
  for p, d in zip(a.kwonlyargs, a.kw_defaults):
    if d is not None and _mentions_taint(d, mi, mods):
      out[p.arg] = ast.unparse(d)
  return out


def _local_names(fn):
  """Names bound inside fn (parameters, assignments, loop targets, comprehension targets)."""
  names = set()
  a = fn.args
  for p in a.posonlyargs + a.args + a.kwonlyargs:
    names.add(p.arg)
  if a.vararg:
    names.add(a.vararg.arg)
  if a.kwarg:
    names.add(a.kwarg.arg)
  for n in ast.walk(fn):
    if isinstance(n, ast.Name) and isinstance(n.ctx, (ast.Store, ast.Del)):
      names.add(n.id)
    elif isinstance(n, (ast.FunctionDef, ast.AsyncFunctionDef)) and n is not fn:
      names.add(n.name)
      for p in n.args.posonlyargs + n.args.args + n.args.kwonlyargs:
        names.add(p.arg)
    elif isinstance(n, ast.Lambda):
      for p in n.args.posonlyargs + n.args.args + n.args.kwonlyargs:
        names.add(p.arg)
  return names


def _class_family(mods, roots):
  """All (module, class) pairs in the hierarchy of the root classes (ancestors and descendants inside the analysed modules)."""
  allc = {(m, c): mi.classes[c] for m, mi in mods.items() for c in mi.classes}

  def base_keys(m, bases):
    out = []
    for b in bases:
      parts = b.split('.')
      if len(parts) == 1 and (m, parts[0]) in allc:
        out.append((m, parts[0]))
      elif len(parts) == 2:
        tm = mods[m].aliases.get(parts[0])
        if tm and (tm, parts[1]) in allc:
          out.append((tm, parts[1]))
    return out
  fam = set(roots)
  changed = True
  while changed:
    changed = False
    for key, (bases, _) in allc.items():
      bk = base_keys(key[0], bases)
      if key in fam:
        for b in bk:
          if b not in fam:
            fam.add(b)
            changed = True
      elif any(b in fam for b in bk) and key in roots:
        fam.add(key)
        changed = True
  return fam


def analyse(roots, repo_pkg='dinosaur', function_roots=()):
  """roots: list of (module, class) whose methods are the entry points.

  Returns dict(violations=[...], reached=[qualnames], unresolved=[...], tainted={module: {name: line}}, defaults={...}).
  """
  mods = load(repo_pkg)
  fam = _class_family(mods, set(roots))
  methods_by_name = {}
  for (m, c) in fam:
    for name, node in mods[m].classes[c][1].items():
      methods_by_name.setdefault(name, []).append((m, f'{c}.{name}'))
  work = []
  for (m, c) in roots:
    for name in mods[m].classes[c][1]:
      work.append((m, f'{c}.{name}'))
  # inherited methods are entry points too
  for (m, c) in fam:
    for name in mods[m].classes[c][1]:
      work.append((m, f'{c}.{name}'))
  for (m, f) in function_roots:
    if m in mods and f in mods[m].functions:
      work.append((m, f))
  reached, violations, unresolved = set(), [], []
  defaults_all = {}
  for m, mi in mods.items():
    for q, fn in mi.functions.items():
      d = tainted_defaults(fn, mi, mods)
      if d:
        defaults_all[f'{m}.{q}'] = d
  while work:
    m, q = work.pop()
    if (m, q) in reached or q not in mods[m].functions:
      continue
    reached.add((m, q))
    mi = mods[m]
    fn = mi.functions[q]
    local = _local_names(fn)
    body_nodes = list(ast.walk(ast.Module(body=fn.body, type_ignores=[])))
    for n in body_nodes:
      # 1. reads of tainted globals
      if isinstance(n, ast.Name) and isinstance(n.ctx, ast.Load) and n.id in mi.tainted and n.id not in local:
        violations.append(dict(kind='reads-default-scale-constant', function=f'{m}.{q}', name=n.id, line=n.lineno,
                               file=os.path.basename(mi.path), defined_at=mi.tainted[n.id]))
      if isinstance(n, ast.Attribute) and isinstance(n.value, ast.Name) and isinstance(n.ctx, ast.Load):
        tm = mi.aliases.get(n.value.id)
        if n.value.id not in local and ((tm == 'scales' and n.attr in SOURCE_NAMES) or (tm in mods and n.attr in mods[tm].tainted)):
          violations.append(dict(kind='reads-default-scale-constant', function=f'{m}.{q}', name=f'{n.value.id}.{n.attr}', line=n.lineno,
                                 file=os.path.basename(mi.path)))
      # 2. calls
      if isinstance(n, ast.Call):
        callee = None
        f = n.func
        if isinstance(f, ast.Name) and f.id not in local:
          if f.id in mi.functions:
            callee = (m, f.id)
          elif f.id in mi.classes:
            callee = (m, f'{f.id}.__init__')
        elif isinstance(f, ast.Attribute):
          if isinstance(f.value, ast.Name) and f.value.id in ('self', 'cls'):
            for cand in methods_by_name.get(f.attr, []):
              work.append(cand)
            callee = ('*self*', f.attr)
          elif isinstance(f.value, ast.Call) and isinstance(f.value.func, ast.Name) and f.value.func.id == 'super':
            for cand in methods_by_name.get(f.attr, []):
              work.append(cand)
            callee = ('*self*', f.attr)
          elif isinstance(f.value, ast.Name) and f.value.id not in local and mi.aliases.get(f.value.id) in mods:
            tm = mi.aliases[f.value.id]
            if f.attr in mods[tm].functions:
              callee = (tm, f.attr)
            elif f.attr in mods[tm].classes:
              callee = (tm, f'{f.attr}.__init__')
          elif isinstance(f.value, ast.Attribute) and isinstance(f.value.value, ast.Name) and mi.aliases.get(f.value.value.id) in mods:
            tm = mi.aliases[f.value.value.id]     # mod.Class.method(...)
            qn = f'{f.value.attr}.{f.attr}'
            if qn in mods[tm].functions:
              callee = (tm, qn)
        if callee is None:
          continue
        cands = [callee] if callee[0] != '*self*' else methods_by_name.get(callee[1], [])
        for (cm, cq) in cands:
          work.append((cm, cq))
          cfn = mods[cm].functions.get(cq)
          if cfn is None:
            continue
          td = tainted_defaults(cfn, mods[cm], mods)
          if not td:
            continue
          params = [p.arg for p in cfn.args.posonlyargs + cfn.args.args]
          if params and params[0] in ('self', 'cls') and (callee[0] == '*self*' or cq.endswith('.__init__')):
            params = params[1:]
          bound = set(params[:len(n.args)]) | {k.arg for k in n.keywords if k.arg}
          star = any(isinstance(a, ast.Starred) for a in n.args) or any(k.arg is None for k in n.keywords)
          for p, src in td.items():
            if p not in bound and not star:
              violations.append(dict(kind='call-uses-default-scale-default', function=f'{m}.{q}', callee=f'{cm}.{cq}', parameter=p,
                                     default=src, line=n.lineno, file=os.path.basename(mi.path)))
      # 3. functions passed as values are treated as called
      if isinstance(n, ast.Name) and isinstance(n.ctx, ast.Load) and n.id in mi.functions and n.id not in local:
        work.append((m, n.id))
  return dict(violations=violations, reached=sorted(f'{m}.{q}' for m, q in reached), unresolved=unresolved,
              tainted={m: mi.tainted for m, mi in mods.items() if mi.tainted}, defaults=defaults_all)
