"""C12 -- physical results do not depend on the non-dimensionalisation scale."""
from __future__ import annotations

import numpy as np

from vlib.core import Clause, Outcome, rerun_replay
from props import common, tendency

LEVEL = 'other'
PE = 'dinosaur.primitive_equations.'
SW = 'dinosaur.shallow_water.'
EXPLANATION = (
    'Deductive (static dataflow over the AST of the real modules, re-parsed every run): no function reachable from the equation, '
    'forcing and initial-state entry points reads a module-level constant derived from DEFAULT_SCALE, and every call to a helper '
    'whose parameter default derives from it binds that parameter explicitly -- so a unit scale can enter only through the specs '
    'object passed by the caller. Bounded: the same physical problem is built under pairs of scales (each base scale changed '
    'separately over six decades, ATMOSPHERIC_SCALE, joint random draws); with S the diagonal change-of-units map, '
    'D(x) = F_default(x) - units(F_scale(S x)) is evaluated on the degree-3 principal lattice for the dry primitive and '
    'shallow-water tendencies (degree proved on the jaxpr: complete over states at the configuration), as matrix identities for '
    'implicit terms / implicit inverse, on sampled states for the moist and Held-Suarez tendencies, and along multi-step SIL3 / '
    'leapfrog runs.')
ASSUMPTIONS = [
    'A1/A2: float64, relative tolerance 1e-9 of the largest tendency',
    'bounded over scale pairs, grids, level sets; moist / Held-Suarez / trajectories on sampled states',
    'the AST analysis resolves calls by name (same module, module alias, self/super); higher-order calls are treated as calls of every function passed by name',
]
ROOTS = [('primitive_equations', 'PrimitiveEquations'), ('primitive_equations', 'PrimitiveEquationsWithTime'),
         ('primitive_equations', 'MoistPrimitiveEquations'), ('primitive_equations', 'MoistPrimitiveEquationsWithCloudMoisture'),
         ('held_suarez', 'HeldSuarezForcing'), ('shallow_water', 'ShallowWaterEquations'), ('radiation', 'SolarRadiation')]
FUNCTION_ROOTS = [('primitive_equations_states', n) for n in ('isothermal_rest_atmosphere', 'steady_state_jw', 'baroclinic_perturbation_jw', 'gaussian_scalar')] + \
    [('shallow_water_states', n) for n in ('one_layer', 'multi_layer', 'barotropic_instability_tc')] + \
    [('shallow_water', n) for n in ('shallow_water_leapfrog_step', 'shallow_water_leapfrog_trajectory', 'default_filters')] + \
    [('primitive_equations', n) for n in ('compute_diagnostic_state', 'compute_vertical_velocity', 'semi_lagrangian_vertical_advection_step')]


def run_leak(ctx):
  from vlib import leak
  out = Outcome()
  r = leak.analyse(ROOTS, function_roots=FUNCTION_ROOTS)
  out.info['tainted'] = r['tainted']
  out.info['parameters_with_default_scale_defaults'] = r['defaults']
  out.info['functions_reached'] = len(r['reached'])
  nm = 'module-level constants derived from DEFAULT_SCALE are identified (non-vacuity: the analysis finds the known ones)'
  known = {'SCALE', 'GRAVITY_ACCELERATION', 'IDEAL_GAS_CONSTANT', 'KAPPA'}
  if known <= set(r['tainted'].get('primitive_equations', {})) and len(r['reached']) >= 40 and len(r['defaults']) >= 5:
    out.ok(nm, 'static', sample={'obligation': nm, 'tainted': r['tainted'], 'reached': len(r['reached'])})
  else:
    out.undec(nm, f'analysis found tainted={r["tainted"]}, reached={len(r["reached"])}: the source changed shape; the clause would be vacuous')
  by_fn = {}
  for v in r['violations']:
    by_fn.setdefault((v['function'], v['kind'], v.get('name') or f"{v.get('callee')}:{v.get('parameter')}"), v)
  for fn in r['reached']:
    mine = [v for k, v in by_fn.items() if k[0] == fn]
    nm = f'{fn}: reads no default-scale constant and binds every default-scale parameter of its callees'
    if not mine:
      out.ok(nm, 'static')
    else:
      for v in mine:
        what = (f"reads {v['name']} at {v['file']}:{v['line']}" if v['kind'] == 'reads-default-scale-constant' else
                f"calls {v['callee']} at {v['file']}:{v['line']} without binding `{v['parameter']}` (default {v['default']})")
        out.fail(nm, witness=v, detail=what, key=f"{fn}:{v['kind']}:{v.get('name') or v.get('parameter')}")
  return out


def replay_leak(w):
  """Concrete demonstration for a dropped argument: run the dry/moist tendency under two scales on one state."""
  try:
    o = run_tendency_sampled(type('C', (), {'tier': 'quick', 'seed': 0, 'prop': 'C12'})())
    bad = [f for f in o.failures]
    if bad:
      return True, f'the leak is observable: {bad[0].obligation}: {bad[0].detail}'
    return False, (f'static violation at {w.get("file")}:{w.get("line")} ({w.get("kind")}); no scale-dependent result was observed on the sampled '
                   'states (the obligation above is the violation)')
  except Exception as e:  # pylint: disable=broad-except
    return False, f'replay crashed: {e}'


# ---- scale pairs -------------------------------------------------------------------------------------------


def _scale_family(tier):
  from dinosaur import scales
  u = scales.units
  base = dict(L=scales.RADIUS, T=1 / 2 / scales.OMEGA, M=1 * u.kg, K=1 * u.degK)

  def mk(**f):
    b = dict(base)
    for k, v in f.items():
      b[k] = b[k] * v
    return scales.Scale(b['L'], b['T'], b['M'], b['K'])
  fam = [('length*1e-3', mk(L=1e-3)), ('time*7.3', mk(T=7.3)), ('mass*1e3', mk(M=1e3)), ('temperature*1e-3', mk(K=1e-3)),
         ('atmospheric', scales.ATMOSPHERIC_SCALE), ('joint0', mk(L=0.37, T=12.5, M=3e-4, K=41.0))]
  if tier == 'thorough':
    fam += [('length*7.3', mk(L=7.3)), ('length*1e3', mk(L=1e3)), ('time*1e-3', mk(T=1e-3)), ('time*1e3', mk(T=1e3)), ('mass*1e-3', mk(M=1e-3)),
            ('mass*7.3', mk(M=7.3)), ('temperature*7.3', mk(K=7.3)), ('temperature*1e3', mk(K=1e3)),
            ('si', scales.Scale(1 * u.m, 1 * u.s, 1 * u.kg, 1 * u.degK)), ('joint1', mk(L=1e2, T=1e-2, M=1e5, K=0.2))]
  return fam


class Units:
  """Conversion factors between the default scale and another scale: nd_other = nd_default * ratio(unit)."""

  def __init__(self, scale):
    from dinosaur import scales
    self.u = scales.units
    self.d = scales.DEFAULT_SCALE
    self.s = scale

  def ratio(self, unit):
    q = 1.0 * unit
    return float(self.s.nondimensionalize(q)) / float(self.d.nondimensionalize(q))


def _primitive_problem(scale, impl, layers, cls, seed, M=2, L=3, lon=6, lat=5, tracers=('q',), with_oro=True):
  """The same physical atmosphere model expressed under `scale`."""
  from dinosaur import coordinate_systems as cs, primitive_equations as pe, scales, spherical_harmonic as sh
  u = scales.units
  specs = pe.PrimitiveEquationsSpecs.from_si(scale=scale)
  g = common.make_grid(M, L, lon, lat, 'gauss', impl, 0.0, float(specs.radius))
  sig = common.sigma_levels('uneven', layers, seed)
  tref_si = np.linspace(230.0, 295.0, layers)
  tref = np.asarray(specs.nondimensionalize(tref_si * u.degK), float)
  oro = np.zeros(g.modal_shape)
  if with_oro:
    r2 = np.random.RandomState(seed + 3)
    for (m, trig, l) in tendency.canonical_modes(g):
      oro[tendency.row_of(g, impl, m, trig), l] = float(specs.nondimensionalize(300.0 * r2.randn() * u.m))
  klass = {'dry': pe.PrimitiveEquations, 'time': pe.PrimitiveEquationsWithTime, 'moist': pe.MoistPrimitiveEquations}[cls]
  eq = klass(tref, oro, cs.CoordinateSystem(g, sig), specs)
  return eq, specs


def _prim_maps(sp, scale, eq):
  """(in_factor, in_shift, out_factor) per coordinate of the primitive state space for `scale` relative to the default scale."""
  U = Units(scale)
  u = U.u
  fin = np.ones(sp.n)
  fout = np.ones(sp.n)
  shift = np.zeros(sp.n)
  per_s = U.ratio(1 / u.s)
  c00 = float(np.sqrt(4 * np.pi))
  for i, (name, k, m, trig, l) in enumerate(sp.index):
    if name in ('vorticity', 'divergence'):
      fin[i] = per_s
      fout[i] = U.ratio(1 / u.s ** 2)
    elif name == 'temperature_variation':
      fin[i] = U.ratio(u.degK)
      fout[i] = U.ratio(u.degK / u.s)
    elif name == 'log_surface_pressure':
      fout[i] = per_s
      if (m, trig, l) == (0, 'c', 0):
        shift[i] = np.log(U.ratio(u.pascal)) * c00
    else:
      fout[i] = per_s
  return fin, shift, fout


def _lnps0(specs):
  """(0,0) coefficient of log surface pressure for a 1000 hPa mean."""
  from dinosaur import scales
  return float(np.log(specs.nondimensionalize(1e5 * scales.units.pascal))) * float(np.sqrt(4 * np.pi))


def _total(eq):
  import jax

  def f(s):
    return jax.tree_util.tree_map(lambda a, b: a + b, eq.explicit_terms(s), eq.implicit_terms(s))
  return f


def run_lattice(ctx):
  jax = common.jx()
  import jax.numpy as jnp
  from vlib import jxa
  from dinosaur import scales
  out = Outcome()
  cfgs = [('real', 2, 'dry'), ('fast', 3, 'dry')] + ([('real', 3, 'time')] if ctx.tier == 'thorough' else [])
  for impl, layers, cls in cfgs:
    eq0, specs0 = _primitive_problem(scales.DEFAULT_SCALE, impl, layers, cls, ctx.seed)
    sp = tendency.primitive_space(eq0, impl, tracers=('q',))
    so = tendency.StateSpace(eq0.coords.horizontal, impl, sp.fields, zero_mean=())
    base = np.zeros(sp.n)
    i00 = [i for i, ix in enumerate(sp.index) if ix[0] == 'log_surface_pressure' and ix[2:] == (0, 'c', 0)][0]
    base[i00] = _lnps0(specs0)

    def F(eq, spc, x):
      st = tendency.primitive_state(spc, x, with_time=(cls == 'time'))
      return tendency.StateSpace(eq.coords.horizontal, impl, spc.fields, zero_mean=()).coords_of(tendency.primitive_leaves(_total(eq)(st)))[0]
    f0 = lambda x: F(eq0, sp, x + base)
    outs, _, an, _ = jxa.analyze(f0, (jnp.zeros(sp.n),))
    d, why = jxa.max_degree(outs)
    tag = f'{cls}:{impl}:layers{layers}'
    nm = f'{tag}:explicit+implicit is a polynomial map of degree <= 3 of the state'
    if d is None or d > 3:
      (out.undec(nm, why) if d is None else out.fail(nm, witness={'cfg': tag}, detail=f'degree {d}', key=nm))
      continue
    out.ok(nm, 'static')
    fmx, _, _ = jxa.lattice_max_abs(f0, sp.n, 1, scale=sp.scale)
    for sname, scale in _scale_family(ctx.tier):
      eq1, specs1 = _primitive_problem(scale, impl, layers, cls, ctx.seed)
      sp1 = tendency.primitive_space(eq1, impl, tracers=('q',))
      fin, shift, _ = _prim_maps(sp, scale, eq1)
      _, _, fout = _prim_maps(so, scale, eq1)
      D = lambda x: f0(x) - F(eq1, sp1, (x + base) * fin + shift) / fout
      mx, arg, cnt = jxa.lattice_max_abs(D, sp.n, 3, scale=sp.scale)
      tol = 1e-9 * max(1.0, fmx)
      nm = f'{tag}:scale {sname}: tendency in physical units equals the default-scale tendency on the degree-3 lattice ({cnt} points, dim {sp.n})'
      if mx <= tol:
        out.ok(nm, 'numeric', sample={'obligation': nm, 'max_abs_diff': mx, 'tol': tol})
      else:
        out.fail(nm, witness={'cfg': tag, 'scale': sname, 'x': [float(v) for v in arg]}, detail=f'max |difference| {mx:.3e} > {tol:.1e} (largest tendency {fmx:.3e})',
                 key=f'{cls}:lattice scale dependence')
  return out


def _sw_problem(scale, impl, nlayers, seed):
  from dinosaur import coordinate_systems as cs, layer_coordinates, scales, shallow_water as sw
  u = scales.units
  dens = np.array([900.0, 1000.0, 1100.0][:nlayers])
  specs = sw.ShallowWaterSpecs.from_si(densities=dens * u.kg / u.m ** 3, scale=scale)
  g = common.make_grid(2, 3, 6, 5, 'gauss', impl, 0.0, float(specs.radius))
  coords = cs.CoordinateSystem(g, layer_coordinates.LayerCoordinates(nlayers))
  refpot = np.asarray(specs.nondimensionalize(np.array([3e4, 5e4, 8e4][:nlayers]) * u.m ** 2 / u.s ** 2), float)
  oro = np.zeros(g.modal_shape)
  r2 = np.random.RandomState(seed + 5)
  for (m, trig, l) in tendency.canonical_modes(g):
    oro[tendency.row_of(g, impl, m, trig), l] = float(specs.nondimensionalize(2000.0 * r2.randn() * u.m ** 2 / u.s ** 2))
  return sw.ShallowWaterEquations(coords=coords, physics_specs=specs, orography=oro, reference_potential=refpot), specs


def run_shallow_water(ctx):
  jax = common.jx()
  import jax.numpy as jnp
  from vlib import jxa
  from dinosaur import scales
  out = Outcome()
  for impl, nl in (('real', 2),) + ((('fast', 1),) if ctx.tier == 'thorough' else ()):
    eq0, specs0 = _sw_problem(scales.DEFAULT_SCALE, impl, nl, ctx.seed)
    sp = tendency.sw_space(eq0, impl)
    scale_amp = np.array([{'vorticity': 0.5, 'divergence': 0.5, 'potential': 0.02}[ix[0]] for ix in sp.index])

    def F(eq, x, which):
      st = tendency.sw_state(tendency.sw_space(eq, impl), x)
      r = _total(eq)(st) if which == 'total' else (eq.implicit_inverse(st, which))
      return tendency.StateSpace(eq.coords.horizontal, impl, sp.fields, zero_mean=()).coords_of(tendency.sw_leaves(r))[0]
    f0 = lambda x: F(eq0, x, 'total')
    outs, _, an, _ = jxa.analyze(f0, (jnp.zeros(sp.n),))
    d, why = jxa.max_degree(outs)
    nm = f'shallow-water:{impl}:{nl} layers: explicit+implicit is a polynomial map of degree <= 2'
    if d is None or d > 3:
      (out.undec(nm, why) if d is None else out.fail(nm, witness={}, detail=f'degree {d}', key=nm))
      continue
    out.ok(nm, 'static')
    fmx, _, _ = jxa.lattice_max_abs(f0, sp.n, 1, scale=scale_amp)
    for sname, scale in _scale_family(ctx.tier):
      eq1, specs1 = _sw_problem(scale, impl, nl, ctx.seed)
      U = Units(scale)
      u = U.u
      fin = np.array([U.ratio(1 / u.s) if ix[0] != 'potential' else U.ratio(u.m ** 2 / u.s ** 2) for ix in sp.index])
      so_index = tendency.StateSpace(eq0.coords.horizontal, impl, sp.fields, zero_mean=()).index
      fout = np.array([U.ratio(1 / u.s ** 2) if ix[0] != 'potential' else U.ratio(u.m ** 2 / u.s ** 3) for ix in so_index])
      ofin = np.array([U.ratio(1 / u.s) if ix[0] != 'potential' else U.ratio(u.m ** 2 / u.s ** 2) for ix in so_index])
      D = lambda x: f0(x) - F(eq1, x * fin, 'total') / fout
      mx, arg, cnt = jxa.lattice_max_abs(D, sp.n, max(d, 1), scale=scale_amp)
      tol = 1e-9 * max(1.0, fmx)
      nm = f'shallow-water:{impl}:{nl} layers: scale {sname}: tendency in physical units scale-independent on the degree-{d} lattice ({cnt} points)'
      (out.ok(nm, 'numeric', sample={'obligation': nm, 'max_abs_diff': mx}) if mx <= tol else
       out.fail(nm, witness={'scale': sname, 'x': [float(v) for v in arg]}, detail=f'{mx:.3e} > {tol:.1e}', key='shallow-water lattice scale dependence'))
      # implicit inverse with the same physical step (linear: matrix identity)
      dt_si = 600.0
      eta0 = float(specs0.nondimensionalize(dt_si * u.s))
      eta1 = float(specs1.nondimensionalize(dt_si * u.s))
      A0, *_ = jxa.matrix_of(lambda x: F(eq0, x, eta0), jnp.zeros(sp.n))
      A1, *_ = jxa.matrix_of(lambda x: F(eq1, x * fin, eta1) / ofin, jnp.zeros(sp.n))
      err = np.abs(A0 - A1).max() / max(1.0, np.abs(A0).max())
      nm = f'shallow-water:{impl}:{nl} layers: scale {sname}: implicit_inverse for the same physical step (matrix identity)'
      (out.ok(nm, 'numeric') if err <= 1e-9 else out.fail(nm, witness={'scale': sname}, detail=f'{err:.3e}', key='shallow-water implicit inverse scale dependence'))
  return out


def _sample_state(sp, rng, amp, base):
  return (rng.randn(sp.n) * sp.scale * amp) + base


def run_tendency_sampled(ctx):
  """Moist tendencies, Held-Suarez forcing, implicit operators and multi-step runs under scale pairs (sampled states)."""
  jax = common.jx()
  import jax.numpy as jnp
  from vlib import jxa
  from dinosaur import held_suarez as hs, scales, time_integration as ti
  out = Outcome()
  u = scales.units
  K = 3 if ctx.tier == 'quick' else 12
  for impl, layers in (('real', 3),) + ((('fast', 4),) if ctx.tier == 'thorough' else ()):
    probs = {}
    for cls in ('dry', 'moist'):
      tr = ('specific_humidity',) if cls == 'moist' else ('q',)
      eq0, specs0 = _primitive_problem(scales.DEFAULT_SCALE, impl, layers, cls, ctx.seed, 3, 4, 10, 7, tracers=tr)
      sp = tendency.primitive_space(eq0, impl, tracers=tr)
      so = tendency.StateSpace(eq0.coords.horizontal, impl, sp.fields, zero_mean=())
      base = np.zeros(sp.n)
      for i, ix in enumerate(sp.index):
        if ix[0] == 'log_surface_pressure' and ix[2:] == (0, 'c', 0):
          base[i] = _lnps0(specs0)
        if ix[0] == 'tracer:specific_humidity' and ix[2:] == (0, 'c', 0):
          base[i] = 0.008 * np.sqrt(4 * np.pi)
      rng = np.random.RandomState(ctx.seed + 31)
      xs = [_sample_state(sp, rng, amp, base) for amp in (0.05, 0.3, 1.0) for _ in range(K // 3)]

      def run_one(eq, spc, x, what, specs):
        st = tendency.primitive_state(spc, jnp.asarray(x), with_time=(cls == 'moist'))
        soc = tendency.StateSpace(eq.coords.horizontal, impl, spc.fields, zero_mean=())
        if what == 'explicit':
          r = eq.explicit_terms(st)
        elif what == 'implicit':
          r = eq.implicit_terms(st)
        elif what == 'inverse':
          r = eq.implicit_inverse(st, float(specs.nondimensionalize(900.0 * u.s)))
        elif what == 'held_suarez':
          f = hs.HeldSuarezForcing(eq.coords, specs, eq.reference_temperature)
          import dataclasses
          r = f.explicit_terms(st)
          r = type(st)(r.vorticity, r.divergence, r.temperature_variation, r.log_surface_pressure,
                       *((jnp.zeros(()),) if cls == 'moist' else ()), {k: jnp.zeros_like(v) for k, v in st.tracers.items()})
        elif what == 'sil3x3':
          dt = float(specs.nondimensionalize(600.0 * u.s))
          step = ti.imex_rk_sil3(eq, dt)
          r = st
          for _ in range(3):
            r = step(r)
        return np.asarray(soc.coords_of(tendency.primitive_leaves(r))[0])
      for what in ('explicit', 'implicit', 'inverse', 'held_suarez', 'sil3x3'):
        if what == 'held_suarez' and cls == 'moist':
          continue
        ref = [run_one(eq0, sp, x, what, specs0) for x in xs]
        big = max(np.abs(r).max() for r in ref)
        for sname, scale in _scale_family(ctx.tier):
          eq1, specs1 = _primitive_problem(scale, impl, layers, cls, ctx.seed, 3, 4, 10, 7, tracers=tr)
          sp1 = tendency.primitive_space(eq1, impl, tracers=tr)
          fin, shift, _ = _prim_maps(sp, scale, eq1)
          ofin, oshift, fout = _prim_maps(so, scale, eq1)
          state_like = what in ('inverse', 'sil3x3')
          worst = 0.0
          wi = 0
          for i, (x, r0) in enumerate(zip(xs, ref)):
            r1 = run_one(eq1, sp1, x * fin + shift, what, specs1)
            r1 = ((r1 - oshift) / ofin) if state_like else (r1 / fout)
            if state_like:
              sc_ = np.maximum(np.abs(r0), so.scale)
              e = np.abs(r1 - r0) / sc_
            else:
              e = np.abs(r1 - r0) / max(big, 1e-300)
            e = np.where(np.isfinite(e), e, np.inf)
            if e.max() > worst:
              worst, wi = float(e.max()), i
          nm = f'{cls}:{impl}:layers{layers}:{what}: scale {sname}: result in physical units equals the default-scale result ({len(xs)} states, 3 amplitudes)'
          tol = 1e-9 if what != 'sil3x3' else 1e-8
          if worst <= tol:
            out.ok(nm, 'numeric', sample={'obligation': nm, 'worst_rel': worst})
          else:
            out.fail(nm, witness={'cls': cls, 'impl': impl, 'what': what, 'scale': sname, 'state': int(wi)}, detail=f'worst relative deviation {worst:.3e}',
                     key=f'{cls}:{what}: scale dependence')
  return out


def _dimension_clauses():
  from contracts import equivariance_contracts
  from vlib.core import rerun_any_replay
  _rr = rerun_any_replay(run_tendency_sampled, select='explicit')
  _rs = rerun_any_replay(run_shallow_water)
  out = equivariance_contracts.dimension_clauses() + equivariance_contracts.held_suarez_clauses('C12')
  for c in out:
    c.replay = _rs if 'shallow' in c.name else _rr
  return out


def clauses(tier, seed):
  fns = [PE + n for n in ('PrimitiveEquations.explicit_terms', 'PrimitiveEquations.implicit_terms', 'PrimitiveEquations.implicit_inverse',
                          'MoistPrimitiveEquations.explicit_terms', 'PrimitiveEquationsSpecs.from_si', 'get_geopotential_diff', 'get_temperature_implicit',
                          '_get_implicit_term_matrix', 'get_geopotential', 'get_geopotential_with_moisture')] + \
      [SW + 'ShallowWaterEquations.explicit_terms', SW + 'ShallowWaterEquations.implicit_terms', SW + 'ShallowWaterEquations.implicit_inverse',
       SW + 'ShallowWaterSpecs.from_si', 'dinosaur.held_suarez.HeldSuarezForcing.explicit_terms', 'dinosaur.scales.Scale.nondimensionalize']
  return [
      Clause('static:no scale leak (no reachable function reads a default-scale constant or relies on a default-scale parameter default)', 'static', fns,
             run_leak, replay=replay_leak, group='a'),
      Clause('static+numeric:dry primitive tendency scale-independent (degree-3 lattice, scale pairs)', 'numeric', fns, run_lattice,
             replay=rerun_replay(run_lattice), group='jax-b', heavy=True),
      Clause('static+numeric:shallow-water tendency and implicit solve scale-independent (lattice / matrices, scale pairs)', 'numeric', fns, run_shallow_water,
             replay=rerun_replay(run_shallow_water), group='jax-c', heavy=True),
      Clause('numeric:moist / Held-Suarez / implicit operators / 3-step SIL3 under scale pairs (sampled states)', 'numeric', fns, run_tendency_sampled,
             replay=rerun_replay(run_tendency_sampled), group='jax-d', heavy=True),
  ] + _dimension_clauses()


MANIFEST = {
    'engine': 'pyvc+leak+jxa',
    'technique': ('contract-based deductive: the explicit tendencies of the dry, moist and shallow-water equations, computed as operator expressions from the real source, are '
                  'dimensionally homogeneous with dimension [field] / time (length / time / temperature exponents propagated through every operator and constant; no two terms of '
                  'different dimensions are ever added) -- hence invariant under a change of units; deductive AST dataflow contract "no reachable function depends on the default scale except through its specs argument" '
                  '(re-parsed source, all call sites); polynomial degree proved on the jaxpr and scale-pair identities decided on the unisolvent lattice / '
                  'complete bases; moist, forcing and trajectories sampled'),
    'text': ('other: the no-leak contract is proved for every reachable function and call site (syntactic dataflow); scale-pair equalities are complete over '
             'states per configuration for dry and shallow-water tendencies and linear operators, sampled for moist/forcing/trajectories, bounded over scale pairs.'),
    'note': 'trusted: dimensions assigned to the elementary operators (Laplacian 1/length^2 by its eigenvalue contract, angular derivatives and transforms dimensionless) and to the physical constants; name-based call resolution of the AST analysis (conservative for reads), pint, A1/A2, jxa rules.',
}
