"""C15 -- spectral filters: mean-preserving, non-amplifying, step-size consistent."""
from __future__ import annotations

import itertools
import numpy as np

from vlib.core import Clause, Outcome
from props import common

LEVEL = 'other'
F = 'dinosaur.filtering.'
TI = 'dinosaur.time_integration.'
EXPLANATION = (
    'Deductive: the filters are proved linear from their traced programs (static) and the Robert-Asselin filter is '
    'executed on symbolic leaves (exact: newest level returned unchanged, linear-in-time sequences fixed for every '
    'strength r). Bounded: with linearity, the matrix of each filter on the complete coefficient basis is checked to '
    'be diagonal with entries that depend on total wavenumber only, lie in (0,1], equal 1 at l=0, are non-increasing '
    'in l and equal the documented formula; step filters compose (two half steps == one full step); array-valued '
    'strengths act slice by slice; leaves are rescaled iff their shape is broadcast-compatible. Parameter grid and '
    'grid layouts (reference, fast, padded) are enumerated.')
ASSUMPTIONS = [
    'A1/A2: float64; tolerances 1e-13 relative',
    'bounded over the parameter grid (attenuation, order, cutoff, tau/dt) and grid family; the SMT range/monotonicity '
    'proof over all parameter values planned in DESIGN is not built',
]


def _grids(tier):
  gs = [('real', common.make_grid(3, 4, 8, 7, 'gauss', 'real')), ('fast', common.make_grid(3, 4, 8, 7, 'gauss', 'fast')),
        ('fast-pad4', common.make_grid(3, 4, 8, 7, 'gauss', 'fast', base_shape_multiple=4)),
        ('fast-pad8', common.make_grid(4, 5, 12, 9, 'gauss', 'fast', 0.0, 2.5, base_shape_multiple=8)),
        ('real-L6', common.make_grid(2, 6, 6, 11, 'gauss', 'real', 0.0, 2.5))]
  if tier == 'thorough':
    from dinosaur import spherical_harmonic as sh
    gs.append(('T21-fast', sh.Grid.T21(spherical_harmonics_impl=sh.FastSphericalHarmonics)))
  return gs


def _factor_checks(out, tag, g, filt, formula=None, wit=None):
  """filt: state filter on modal arrays. Checks diagonal / l-only / range / mean / monotone (/ formula)."""
  import jax.numpy as jnp
  from vlib import jxa
  nm_, nl_ = g.modal_shape
  L = g.total_wavenumbers
  wit = wit or {}
  if nm_ * nl_ <= 200:
    A, _, _, y0 = jxa.matrix_of(filt, jnp.zeros(g.modal_shape))
    diag = np.diag(A).reshape(nm_, nl_)
    off = A - np.diag(np.diag(A))
    name = f'{tag}:matrix is diagonal (each coefficient only rescaled) and filter(0)=0'
    (out.ok(name, 'numeric') if not np.abs(off).max() and not np.abs(y0).max() else
     out.fail(name, witness=wit, detail=f'max off-diagonal {np.abs(off).max():.3e}', key=name))
  else:
    diag = np.asarray(filt(jnp.ones(g.modal_shape)))
  fac = diag[0, :]
  name = f'{tag}:factor depends on total wavenumber only'
  (out.ok(name, 'numeric') if np.array_equal(diag, np.broadcast_to(fac, diag.shape)) else
   out.fail(name, witness=wit, detail='rows differ', key=name))
  res = fac[:L]
  name = f'{tag}:factor in (0,1] on resolved wavenumbers (0 only by float underflow of exp), finite everywhere'
  # underflow includes the subnormal range: XLA flushes subnormal results to zero, numpy's exp keeps them (DESIGN 9, C15 subnormals)
  positive = np.all(res >= 0) and (formula is None or np.all(res[formula(np.arange(L)) >= 1e3 * np.finfo(np.float64).tiny] > 0))
  ok = np.all(np.isfinite(diag)) and positive and np.all(res <= 1)
  (out.ok(name, 'numeric', sample={'obligation': name, 'factors': [float(v) for v in res]}) if ok else
   out.fail(name, witness=dict(wit, factors=[float(v) for v in fac]), detail=f'factors {fac}', key=name))
  name = f'{tag}:factor == 1 for the global mean (l = 0)'
  (out.ok(name, 'numeric') if fac[0] == 1.0 else out.fail(name, witness=dict(wit, factor0=float(fac[0])), detail=f'factor(0) = {fac[0]!r}', key=name))
  name = f'{tag}:factor non-increasing in total wavenumber'
  (out.ok(name, 'numeric') if np.all(np.diff(res) <= 0) else out.fail(name, witness=dict(wit, factors=[float(v) for v in res]), detail=f'{res}', key=name))
  if formula is not None:
    want = formula(np.arange(L))
    err = np.abs(res - want).max()
    name = f'{tag}:factor == documented formula'
    (out.ok(name, 'numeric') if err <= 1e-13 else out.fail(name, witness=dict(wit, got=[float(v) for v in res], want=[float(v) for v in want]), detail=f'max diff {err:.3e}', key=name))


def run_state_filters(ctx):
  jax = common.jx()
  import jax.numpy as jnp
  from dinosaur import filtering
  out = Outcome()
  atts = (0, 1, 16, 50)
  orders = (1, 2, 18)
  cutoffs = (0, 0.3, 0.8)
  for gname, g in _grids(ctx.tier):
    L = g.total_wavenumbers
    combos = list(itertools.product(atts, orders, cutoffs))
    if ctx.tier == 'quick' and gname not in ('real', 'fast-pad4'):
      combos = combos[::5]
    for a, p, c in combos:
      filt = filtering.exponential_filter(g, a, p, c)
      def formula(l, a=a, p=p, c=c):
        k = l / (L - 1)
        return np.where(k > c, np.exp(-a * ((np.maximum(k - c, 0)) / (1 - c)) ** (2 * p)), 1.0)
      _factor_checks(out, f'{gname}:exponential_filter(a={a},order={p},cutoff={c})', g, filt, formula,
                     wit={'grid': gname, 'filter': 'exponential', 'attenuation': a, 'order': p, 'cutoff': c})
    for scale, order in itertools.product((0.0, 1e-3, 0.1, 3.0), (1, 2, 3)):
      filt = filtering.horizontal_diffusion_filter(g, scale, order)
      def formula(l, scale=scale, order=order):
        return np.exp(-scale * (l * (l + 1) / g.radius ** 2) ** order)
      _factor_checks(out, f'{gname}:horizontal_diffusion_filter(scale={scale},order={order})', g, filt, formula,
                     wit={'grid': gname, 'filter': 'diffusion', 'scale': scale, 'order': order})
  return out


def _apply_step_filter(f, x, leapfrog=False):
  if leapfrog:
    return f((x, x), (x, x))[1]
  return f(x, x)


def run_step_filters(ctx):
  jax = common.jx()
  import jax.numpy as jnp
  from dinosaur import time_integration as ti
  out = Outcome()
  for gname, g in _grids(ctx.tier):
    L = g.total_wavenumbers
    x = jnp.asarray(np.random.RandomState(3).randn(2, *g.modal_shape) * np.asarray(g.mask))
    cases = []
    for dt, tau in ((0.7, 1.0), (0.01, 0.010938), (3.0, 2.0), (1e-3, 10.0)):
      for order in (1, 2, 3):
        cases.append(('horizontal_diffusion_step_filter', dict(dt=dt, tau=tau, order=order), False))
      for order, cutoff in ((1, 0.0), (18, 0.0), (2, 0.4)):
        cases.append(('exponential_step_filter', dict(dt=dt, tau=tau, order=order, cutoff=cutoff), False))
        cases.append(('exponential_leapfrog_step_filter', dict(dt=dt, tau=tau, order=order, cutoff=cutoff), True))
    if ctx.tier == 'quick' and gname not in ('real', 'fast-pad4'):
      cases = cases[::4]
    for fname, kw, leap in cases:
      tag = f'{gname}:{fname}({kw})'
      wit = {'grid': gname, 'filter': fname, **kw}
      mk = getattr(ti, fname)
      try:
        full = mk(g, **kw)
        half = mk(g, **dict(kw, dt=kw['dt'] / 2))
        y1 = np.asarray(_apply_step_filter(full, x, leap))
        y2 = np.asarray(_apply_step_filter(half, _apply_step_filter(half, x, leap), leap))
      except Exception as e:  # pylint: disable=broad-except
        out.fail(tag + ':runs', witness=wit, detail=f'{type(e).__name__}: {e}', key=tag + ':runs')
        continue
      res = np.asarray(g.mask)          # resolved entries
      name = f'{tag}:finite on every entry (padding included)'
      if np.all(np.isfinite(y1)):
        out.ok(name, 'numeric')
      else:
        out.fail(name, witness=wit, detail=f'{int((~np.isfinite(y1)).sum())} non-finite entries after one filter application',
                 key=f'{fname}:non-finite-on-padded-layout' if g.modal_padding[1] else name)
        continue
      err = float(np.abs((y1 - y2) * res).max())
      name = f'{tag}:two applications with dt/2 == one with dt'
      (out.ok(name, 'numeric', sample={'obligation': name, 'max_abs_diff': err}) if err <= 1e-13 else
       out.fail(name, witness=wit, detail=f'max |full - half∘half| = {err:.3e}', key=name))
      # the adapter ignores `u` and filters u_next (leapfrog: only the newest level)
      junk = jnp.full_like(x, 123.0)
      if leap:
        cur, fut = full((junk, junk), (x + 1, x))
        ok = np.array_equal(np.asarray(cur), np.asarray(x + 1)) and np.array_equal(np.asarray(fut), y1)
      else:
        ok = np.array_equal(np.asarray(full(junk, x)), y1)
      name = f'{tag}:adapter filters u_next only and ignores u'
      (out.ok(name, 'numeric') if ok else out.fail(name, witness=wit, detail='result depends on u / wrong level filtered', key=name))
      # factor checks through the state filter (mean, range, monotone)
      Lm = L - 1
      if fname == 'horizontal_diffusion_step_filter':
        formula = lambda l, kw=kw: np.exp(-(kw['dt'] / kw['tau']) * ((l * (l + 1)) / (Lm * (Lm + 1))) ** kw['order'])
      else:
        formula = lambda l, kw=kw: np.where(l / Lm > kw['cutoff'], np.exp(-(kw['dt'] / kw['tau']) * (np.maximum(l / Lm - kw['cutoff'], 0) / (1 - kw['cutoff'])) ** (2 * kw['order'])), 1.0)
      _factor_checks(out, tag, g, (lambda v, full=full, leap=leap: _apply_step_filter(full, v, leap)), formula, wit)
  return out


def run_array_parameters(ctx):
  jax = common.jx()
  import jax.numpy as jnp
  from dinosaur import filtering
  out = Outcome()
  for gname, g in _grids(ctx.tier)[:3]:
    x = jnp.asarray(np.random.RandomState(4).randn(3, *g.modal_shape))
    att = np.array([0.0, 4.0, 16.0]).reshape(3, 1, 1)
    orde = np.array([1, 2, 6]).reshape(3, 1, 1)
    sc = np.array([0.0, 0.01, 0.5]).reshape(3, 1, 1)
    y = np.asarray(filtering.exponential_filter(g, att, orde, 0.2)(x))
    want = np.stack([np.asarray(filtering.exponential_filter(g, float(att[k, 0, 0]), int(orde[k, 0, 0]), 0.2)(x[k])) for k in range(3)])
    name = f'{gname}:exponential_filter with per-level (3,1,1) attenuation/order == scalar filter slice by slice'
    (out.ok(name, 'numeric') if np.abs(y - want).max() <= 1e-15 else out.fail(name, witness={'grid': gname}, detail=f'{np.abs(y - want).max():.3e}', key=name))
    y = np.asarray(filtering.horizontal_diffusion_filter(g, sc, 2)(x))
    want = np.stack([np.asarray(filtering.horizontal_diffusion_filter(g, float(sc[k, 0, 0]), 2)(x[k])) for k in range(3)])
    name = f'{gname}:horizontal_diffusion_filter with per-level (3,1,1) scale == scalar filter slice by slice'
    (out.ok(name, 'numeric') if np.abs(y - want).max() <= 1e-15 else out.fail(name, witness={'grid': gname}, detail=f'{np.abs(y - want).max():.3e}', key=name))
  return out


def _broadcast_compatible(leaf_shape, scaling_shape):
  """Spec of numpy broadcasting written from the rule: result == leaf_shape."""
  if len(scaling_shape) > len(leaf_shape):
    return False
  for a, b in zip(reversed(leaf_shape), reversed(scaling_shape)):
    if not (b == a or b == 1):
      return False
  return True


def run_leaf_shapes(ctx):
  jax = common.jx()
  import jax.numpy as jnp
  from dinosaur import filtering
  out = Outcome()
  g = common.make_grid(3, 4, 8, 7, 'gauss', 'real')
  nm_, nl_ = g.modal_shape
  filt = filtering.exponential_filter(g, 16, 2, 0.1)
  scal = (nl_,)
  dims = [1, 2, nl_, nm_, 5]
  shapes = [()] + [(a,) for a in dims] + [(a, b) for a in dims for b in dims] + [(2, nm_, nl_), (5, 1, nl_), (nl_, nm_, 3), (1, 1, 1), (3, nl_, 1)]
  n = 0
  for shp in shapes:
    leaf = jnp.asarray(np.random.RandomState(5).rand(*shp) + 1.0)
    tree = {'clock': jnp.asarray(3.5), 'pyscalar': 2.0, 'leaf': leaf, 'nested': (leaf,)}
    name = f'leaf shape {shp}: {"rescaled along the trailing wavenumber axis" if _broadcast_compatible(shp, scal) else "returned untouched (same object)"}; scalar leaves untouched'
    try:
      res = filt(tree)
    except Exception as e:  # pylint: disable=broad-except
      out.fail(name, witness={'shape': list(shp)}, detail=f'filter raised {type(e).__name__}: {str(e)[:200]}',
               key='filter-raises-on-leaf-of-unrelated-shape')
      continue
    y = res['leaf']
    should = _broadcast_compatible(shp, scal)
    fac = np.asarray(filt(jnp.ones(nl_)))
    want = np.asarray(leaf) * fac if should else np.asarray(leaf)
    ok = y.shape == leaf.shape and np.allclose(np.asarray(y), want, rtol=0, atol=1e-15) and np.array_equal(np.asarray(res['nested'][0]), np.asarray(y))
    if not should:
      ok = ok and (y is leaf)
    ok = ok and res['clock'] is tree['clock'] and res['pyscalar'] == 2.0
    n += 1
    (out.ok(name, 'enum') if ok else out.fail(name, witness={'shape': list(shp)}, detail=f'should_rescale={should}', key=name))
  # _preserves_shape against the broadcasting rule, exhaustive over small shapes
  cnt = 0
  small = [()] + [s for r in (1, 2, 3) for s in itertools.product((1, 2, 3), repeat=r)]
  bad = []
  for ts in small:
    for ss in small:
      try:
        want = _broadcast_compatible(ts, ss)
        got = filtering._preserves_shape(np.zeros(ts), np.zeros(ss))
      except ValueError:
        got = 'raises ValueError'
      cnt += 1
      if got != want:
        bad.append((ts, ss, got, want))
  name = f'_preserves_shape == (broadcast(target, scaling) has the target shape), exhaustive over {cnt} shape pairs of rank <= 3, dims <= 3'
  (out.ok(name, 'enum') if not bad else out.fail(name, witness={'pairs': [list(map(list, b[:2])) for b in bad[:5]]}, detail=f'{bad[:3]}', key=name))
  return out


def run_robert_asselin(ctx):
  """Real filter executed on sympy leaves (exact, for every strength r)."""
  import sympy as sp
  from dinosaur import time_integration as ti
  out = Outcome()
  r, a, b, p, c, f = sp.symbols('r a b p c f')
  filt = ti.robert_asselin_leapfrog_filter(r)
  cur, fut = filt(({'x': p}, {'x': c}), ({'x': c}, {'x': f}))
  name = 'robert_asselin: newest time level is returned unchanged (all r)'
  (out.ok(name, 'exact') if sp.simplify(fut['x'] - f) == 0 else out.fail(name, witness={}, detail=str(fut), key=name))
  name = 'robert_asselin: filtered current == (1-2r)*current + r*(previous + future)'
  (out.ok(name, 'exact') if sp.expand(cur['x'] - ((1 - 2 * r) * c + r * (p + f))) == 0 else out.fail(name, witness={}, detail=str(cur), key=name))
  cur, fut = filt(({'x': a - b}, {'x': a}), ({'x': a}, {'x': a + b}))
  name = 'robert_asselin: a sequence linear in time (a-b, a, a+b) is left unchanged (all r, a, b)'
  ok = sp.expand(cur['x'] - a) == 0 and sp.expand(fut['x'] - (a + b)) == 0
  (out.ok(name, 'exact') if ok else out.fail(name, witness={}, detail=f'{cur} {fut}', key=name))
  return out


def run_linearity(ctx):
  jax = common.jx()
  import jax.numpy as jnp
  from vlib import jxa
  from dinosaur import filtering
  out = Outcome()
  for gname, g in _grids(ctx.tier)[:3]:
    for nm, filt in (('exponential_filter', filtering.exponential_filter(g, 16, 18, 0.1)),
                     ('horizontal_diffusion_filter', filtering.horizontal_diffusion_filter(g, 0.1, 2))):
      outs, _, an, _ = jxa.analyze(filt, ({'x': jnp.zeros((2,) + tuple(g.modal_shape)), 't': jnp.asarray(1.0)},))
      d, why = jxa.max_degree(outs)
      name = f'{gname}:{nm} is linear'
      (out.ok(name, 'static') if d is not None and d <= 1 else (out.undec(name, why) if d is None else out.fail(name, witness={}, detail=f'degree {d}', key=name)))
  return out


def replay_filter(w):
  jax = common.jx()
  import jax.numpy as jnp
  from dinosaur import filtering
  from dinosaur import time_integration as ti
  gs = dict(_grids('thorough'))
  g = gs.get(w.get('grid'))
  if g is None:
    return False, 'grid not found'
  f = w.get('filter')
  ones = jnp.ones(g.modal_shape)
  if f == 'exponential':
    fac = np.asarray(filtering.exponential_filter(g, w['attenuation'], w['order'], w['cutoff'])(ones))[0]
    bad = not (fac[0] == 1.0 and np.all(np.diff(fac[:g.total_wavenumbers]) <= 0) and np.all(fac[:g.total_wavenumbers] > 0))
    return bad, f'exponential_filter factors per l: {fac}'
  if f == 'diffusion':
    fac = np.asarray(filtering.horizontal_diffusion_filter(g, w['scale'], w['order'])(ones))[0]
    return not (fac[0] == 1.0 and np.all(np.isfinite(fac))), f'diffusion factors per l: {fac}'
  if f in ('horizontal_diffusion_step_filter', 'exponential_step_filter', 'exponential_leapfrog_step_filter'):
    kw = {k: w[k] for k in ('dt', 'tau', 'order', 'cutoff') if k in w}
    leap = 'leapfrog' in f
    full = getattr(ti, f)(g, **kw)
    half = getattr(ti, f)(g, **dict(kw, dt=kw['dt'] / 2))
    x = jnp.asarray(np.asarray(g.mask, float))
    y1 = np.asarray(_apply_step_filter(full, x, leap))
    y2 = np.asarray(_apply_step_filter(half, _apply_step_filter(half, x, leap), leap))
    if not np.all(np.isfinite(y1)):
      return True, f'{f}({kw}) on grid {w["grid"]} (modal_shape {g.modal_shape}, padding {g.modal_padding}) returns {int((~np.isfinite(y1)).sum())} non-finite values'
    err = float(np.abs(y1 - y2).max())
    return err > 1e-13, f'{f}({kw}): |one step - two half steps| = {err:.3e}; top-wavenumber factors {y1[0, g.total_wavenumbers - 1]} vs {y2[0, g.total_wavenumbers - 1]}'
  return False, 'no replay'


def clauses(tier, seed):
  fns = [F + 'exponential_filter', F + 'horizontal_diffusion_filter', F + '_make_filter_fn', F + '_preserves_shape']
  sfn = [TI + n for n in ('exponential_step_filter', 'exponential_leapfrog_step_filter', 'horizontal_diffusion_step_filter',
                          'runge_kutta_step_filter', 'leapfrog_step_filter')]
  return [
      Clause('static:filters are linear', 'static', fns, run_linearity, group='jax-a', heavy=True),
      Clause('exact:robert_asselin on symbolic leaves', 'exact', [TI + 'robert_asselin_leapfrog_filter'], run_robert_asselin, group='sym'),
      Clause('numeric:state filters diagonal, l-only, (0,1], mean, monotone, formula', 'numeric', fns, run_state_filters, replay=replay_filter, group='jax-b', heavy=True),
      Clause('numeric:step filters compose over time, adapters, finiteness on padded layouts', 'numeric', fns + sfn, run_step_filters, replay=replay_filter, group='jax-c', heavy=True),
      Clause('numeric:array-valued strengths act slice by slice', 'numeric', fns, run_array_parameters, group='jax-a', heavy=True),
      Clause('enum:leaf shapes and _preserves_shape vs broadcasting rule', 'enum', fns, run_leaf_shapes, group='jax-a', heavy=True),
  ] + _pyvc_clauses()


def _pyvc_clauses():
  from contracts import filter_contracts
  return filter_contracts.clauses()


MANIFEST = {
    'engine': 'pyvc+jxa+symx',
    'technique': ('contract-based deductive: VCs from the real source of the filter factories in elementwise mode (range, mean, monotonicity, documented formula, '
                  'half-step semigroup, adapters; z3 with exp/pow axioms); linearity proved on the traced program, Robert-Asselin executed on symbolic leaves (exact); '
                  'diagonal-matrix identities on complete bases over an enumerated parameter grid (bounded twins)'),
    'text': ('other: filter factors are proved for all wavenumbers and parameters from the source (reals, A9 axioms); linearity per configuration; exact for Robert-Asselin '
             '(all r); the leaf-selection rule (_preserves_shape) and array-valued parameters are bounded (enumerated shapes / parameter grid).'),
    'note': 'trusted: A1/A2; numpy broadcasting rule as specified in _broadcast_compatible; jxa rules; sympy.',
}
