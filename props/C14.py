"""C14 -- stepping and scan combinators equal their sequential definition for every split."""
from contracts import time_integration_combinators as K

LEVEL = "proof"
EXPLANATION = ('Deductive, unbounded (nested_checkpoint_scan included: induction on the nesting depth with the recursive call replaced by its contract; the scanned inputs enter through '
               'their flat row index, row-major reshape and concatenation of stacked blocks are assumed library contracts):  pyvc generates VCs from the real source of the combinators with symbolic step counts, '
               'filter counts, weight vectors and nesting; scan calls are treated as loops with inductive invariants '
               '(assumed contract of lax.scan = sequential fold); ghost iterate functions and induction lemmas are '
               'separate obligations; z3 discharges all.')
ASSUMPTIONS = [
    'A8: lax.scan(f, c0, xs, n) is the sequential fold c_{k+1}, y_k = f(c_k, xs[k]) returning (c_n, stack(y))',
    'A3: jax.checkpoint / decorators preserve the input-output behaviour of the function they wrap',
    'state values are an uninterpreted sort; tree_map over tuples/lists/dicts applies leaf-wise',
]


def clauses(tier, seed):
  from contracts import nested_scan_contracts as NS
  return K.clauses() + K.dfi_clauses() + NS.clauses() + K.twin_clauses()

MANIFEST = {
    'engine': 'pyvc',
    'technique': ('contract-based deductive: VCs from the real source with symbolic step counts, scan-as-loop invariants, ghost iterate functions and induction lemmas (z3); '
                  'nested_checkpoint_scan by induction on the nesting depth (base case, step case with the recursive call replaced by its contract, row-major block lemma); bounded twins as cross-checks'),
    'text': ('proof: repeated, step_with_filters, trajectory_from_step (all outer/inner/start_with_input), accumulate_repeated, digital-filter initialisation (defining sum, steady state) '
             'and nested_checkpoint_scan / _inner_nested_scan (every depth, all lengths, length validation, reshape, delegation) are proved for all step counts by VCs generated from the real '
             'source. The bounded twins (all ordered factorisations of the listed lengths: values, stacked outputs, gradients) are run-time cross-checks of the same contracts and of the '
             'assumed library contracts; they are reported separately and not counted as proved.'),
    'note': ('trusted: lax.scan = sequential fold (A8), decorators/checkpoint transparent (A3), states as an uninterpreted sort with '
             'leaf-wise tree_map, vector-space axioms in the steady-state lemma; z3; the pyvc engine (canary + mutation trials).'),
}
