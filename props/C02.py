"""C02 -- spectral differential operators are exact on band-limited fields."""
from __future__ import annotations

import functools
import math
import numpy as np

from vlib.core import Clause, Outcome
from props import common

LEVEL = 'other'
SH = 'dinosaur.spherical_harmonic.'
EXPLANATION = (
    'Deductive (static, per configuration): every Grid operator is proved linear from its traced program. Bounded '
    '(complete over fields by linearity): operator matrices on the complete coefficient basis are compared (i) exactly '
    'with the index formulas that follow from the layout (longitude-derivative pairing, Laplacian eigenvalues, clipping, '
    'shift), (ii) with closed-form spherical harmonics differentiated symbolically by sympy (an oracle that does not use '
    'the recurrences under test), (iii) with each other through the vector-calculus identities. Bounded over grids.')
ASSUMPTIONS = [
    'A1/A2: float64, tolerances 1e-11 (oracle) / 1e-10 relative to operator norm (identities through nodal sec^2)',
    'wind round trip and div/curl identities go through multiplication by sec^2(lat) in grid space and are required only '
    'on Gauss grids whose quadrature integrates degree 3(L-1) exactly (quadratic dealiasing), as the factory T* grids do',
    'bounded over grid configurations (Cfg-grid)',
]
OPS = ['d_dlon', 'cos_lat_d_dlat', 'sec_lat_d_dlat_cos2', 'laplacian', 'inverse_laplacian']


def _grids(tier, L_max=None):
  out = []
  for c in common.cfg_grid(tier):
    if L_max is not None and c['grid'].total_wavenumbers > L_max:
      continue
    out.append(c)
  return out


def run_linearity(ctx):
  jax = common.jx()
  import jax.numpy as jnp
  from vlib import jxa
  from dinosaur import spherical_harmonic as sh
  out = Outcome()
  for c in _grids(ctx.tier):
    g = c['grid']
    x = jnp.zeros(g.modal_shape)
    fns = {nm: getattr(g, nm) for nm in OPS}
    fns['clip_wavenumbers'] = g.clip_wavenumbers
    fns['cos_lat_grad'] = g.cos_lat_grad
    fns['div_cos_lat'] = lambda v: g.div_cos_lat((v[0], v[1]))
    fns['curl_cos_lat'] = lambda v: g.curl_cos_lat((v[0], v[1]))
    fns['get_cos_lat_vector'] = lambda v: sh.get_cos_lat_vector(v[0], v[1], g)
    for nm, fn in fns.items():
      arg = x if nm in OPS + ['clip_wavenumbers', 'cos_lat_grad'] else jnp.zeros((2,) + tuple(g.modal_shape))
      outs, _, an, _ = jxa.analyze(fn, (arg,))
      d, why = jxa.max_degree(outs)
      name = f'{c["name"]}:{nm}-is-linear'
      if d is None:
        out.undec(name, why)
      elif d <= 1:
        out.ok(name, 'static')
      else:
        out.fail(name, witness={'cfg': c['name'], 'op': nm}, detail=f'degree {d}', key=name)
  return out


def _expected_dlon(g, impl):
  n = g.modal_shape[0]
  D = np.zeros((n, n))
  M = g.longitude_wavenumbers
  if impl == 'real':
    for j in range(1, M):
      D[2 * j - 1, 2 * j] = j        # out[cos j] =  j * u[sin j]
      D[2 * j, 2 * j - 1] = -j       # out[sin j] = -j * u[cos j]
  else:
    for j in range(0, n // 2):
      D[2 * j, 2 * j + 1] = j
      D[2 * j + 1, 2 * j] = -j
  return D


def run_index_formulas(ctx):
  jax = common.jx()
  import jax.numpy as jnp
  from vlib import jxa
  from dinosaur import jax_numpy_utils as jnu
  out = Outcome()
  for c in _grids(ctx.tier):
    g = c['grid']
    nm_, nl_ = g.modal_shape
    x0 = jnp.zeros(g.modal_shape)
    m, l, mask = common.ml_of(g)
    L = g.total_wavenumbers
    # d_dlon: pairing from d/dlambda (c cos j l + s sin j l) = j s cos j l - j c sin j l
    A, _, _, _ = jxa.matrix_of(g.d_dlon, x0)
    want = np.kron(_expected_dlon(g, c['impl']), np.eye(nl_))
    name = f'{c["name"]}:d_dlon == exact (cos,sin) pairing matrix'
    # on padded fast layouts rows beyond 2M only ever multiply padding; compare on all entries anyway
    (out.ok(name, 'numeric') if np.array_equal(A, want) else
     out.fail(name, witness={'cfg': c['name'], 'op': 'd_dlon'}, detail=f'max diff {np.abs(A - want).max():.3e}', key=name))
    # laplacian / inverse
    lf = l.ravel().astype(float)
    col = np.tile(np.arange(nl_), nm_)
    eig = -lf * (lf + 1) / g.radius ** 2
    A, _, _, _ = jxa.matrix_of(g.laplacian, x0)
    name = f'{c["name"]}:laplacian == diag(-l(l+1)/r^2)'
    (out.ok(name, 'numeric') if np.array_equal(A, np.diag(eig)) else
     out.fail(name, witness={'cfg': c['name'], 'op': 'laplacian'}, detail=f'{np.abs(A - np.diag(eig)).max():.3e}', key=name))
    A, _, _, _ = jxa.matrix_of(g.inverse_laplacian, x0)
    with np.errstate(divide='ignore'):
      inv = np.where((col == 0) | (col >= L), 0.0, 1.0 / np.where(eig == 0, 1, eig))
    name = f'{c["name"]}:inverse_laplacian == diag(0 at l=0 and l>=L, else 1/eig)'
    (out.ok(name, 'numeric') if np.array_equal(A, np.diag(inv)) and np.all(np.isfinite(A)) else
     out.fail(name, witness={'cfg': c['name'], 'op': 'inverse_laplacian'}, detail=f'{np.abs(A - np.diag(inv)).max():.3e}', key=name))
    # inverse_laplacian o laplacian = id on zero-mean, resolved entries
    P = np.diag(inv) @ np.diag(eig)
    want = ((col > 0) & (col < L)).astype(float)
    name = f'{c["name"]}:inverse_laplacian(laplacian(x)) == x on zero-mean fields'
    err = np.abs(np.diag(P) - want).max()
    (out.ok(name, 'numeric') if err <= 1e-14 else out.fail(name, witness={'cfg': c['name']}, detail=f'{err:.3e}', key=name))
    # clip_wavenumbers
    pad = g.modal_padding[-1]
    for n in (1, 2):
      if n + pad >= nl_:
        continue
      A, _, _, _ = jxa.matrix_of(lambda x: g.clip_wavenumbers(x, n), x0)
      want = np.diag((col < nl_ - (n + pad)).astype(float))
      name = f'{c["name"]}:clip_wavenumbers(x,{n}) zeroes exactly the last {n}+padding columns'
      (out.ok(name, 'numeric') if np.array_equal(A, want) else
       out.fail(name, witness={'cfg': c['name'], 'op': 'clip', 'n': n}, detail='mask differs', key=name))
    for n in (0, -1):
      name = f'{c["name"]}:clip_wavenumbers(x,{n}) raises'
      try:
        g.clip_wavenumbers(x0, n)
        out.fail(name, witness={'cfg': c['name'], 'n': n}, detail='accepted n <= 0', key=name)
      except ValueError:
        out.ok(name, 'numeric')
  # shift: out[i] = x[i-o] if 0 <= i-o < n else 0, including |o| >= n
  for n in (1, 2, 5):
    x = np.arange(1.0, n + 1)
    for o in range(-n - 1, n + 2):
      got = np.asarray(jnu.shift(jnp.asarray(x), o, axis=0))
      want = np.array([x[i - o] if 0 <= i - o < n else 0.0 for i in range(n)])
      name = f'shift[n={n},offset={o}]'
      (out.ok(name, 'numeric') if np.array_equal(got, want) else out.fail(name, witness={'n': n, 'offset': o}, detail=f'{got} vs {want}', key=name))
  x = np.arange(24.0).reshape(2, 3, 4)
  for axis in (0, 1, 2, -1, -2):
    for o in (-1, 1, 2):
      got = np.asarray(jnu.shift(jnp.asarray(x), o, axis=axis))
      want = np.zeros_like(x)
      ax = axis % 3
      for i in range(x.shape[ax]):
        if 0 <= i - o < x.shape[ax]:
          sl = [slice(None)] * 3
          sl2 = [slice(None)] * 3
          sl[ax] = i
          sl2[ax] = i - o
          want[tuple(sl)] = x[tuple(sl2)]
      name = f'shift[3d,axis={axis},offset={o}]'
      (out.ok(name, 'numeric') if np.array_equal(got, want) else out.fail(name, witness={'axis': axis, 'offset': o}, detail='mismatch', key=name))
  return out


@functools.lru_cache(maxsize=None)
def _sympy_harmonics(L):
  """Real orthonormal harmonics up to degree L-1 and their derivatives, lambdified: dict (l,m,trig) -> fns.

  Written as cos(th)^m * Q_lm(sin th) * trig(m lam) with Q_lm = d^m P_l / dx^m, so that every expression is a
  polynomial in sin/cos (finite at the poles)."""
  import sympy as sp
  lam, th = sp.symbols('lam th', real=True)
  x = sp.Symbol('x')
  tab = {}
  for l in range(L):
    for m in range(0, l + 1):
      Q = sp.diff(sp.legendre(l, x), x, m)
      norm2 = sp.Rational(2 * l + 1, 2) * sp.factorial(l - m) / sp.factorial(l + m)    # int_-1^1 (N P_l^m)^2 dx = 1
      Pn = sp.sqrt(norm2) * sp.cos(th) ** m * Q.subs(x, sp.sin(th))
      for trig in (('c', 's') if m > 0 else ('c',)):
        if m == 0:
          Y = Pn / sp.sqrt(2 * sp.pi)
        else:
          Y = Pn * (sp.cos(m * lam) if trig == 'c' else sp.sin(m * lam)) / sp.sqrt(sp.pi)
        dlam = sp.diff(Y, lam)
        cdth = sp.expand(sp.cos(th) * sp.diff(Y, th))
        sdc2 = sp.expand(cdth - 2 * sp.sin(th) * Y)      # sec d/dth (cos^2 Y) = cos Y_th - 2 sin Y
        fns = [sp.lambdify((lam, th), e, 'numpy') for e in (Y, dlam, cdth, sdc2)]
        tab[(l, m, trig)] = fns
  return tab


def _entry_lm(g, impl, i):
  """(m, trig) of modal row i, or None for unused rows."""
  M = g.longitude_wavenumbers
  if impl == 'real':
    if i == 0:
      return 0, 'c'
    j = (i + 1) // 2
    return j, ('c' if i % 2 == 1 else 's')
  if i >= 2 * M or i == 1:
    return None
  return i // 2, ('c' if i % 2 == 0 else 's')


def _oracle_matrices(c):
  """Columns: analytic fields at the nodes for every resolved basis coefficient (0 elsewhere)."""
  g = c['grid']
  L = g.total_wavenumbers
  tab = _sympy_harmonics(L)
  nlon, nlat = g.longitude_nodes, g.latitude_nodes
  # coefficients refer to longitudes measured from the first node (longitude_offset)
  lon = np.asarray(g.nodal_axes[0])[:nlon] - g.longitude_offset
  lat = np.arcsin(np.asarray(g.nodal_axes[1])[:nlat])
  LON, LAT = np.meshgrid(lon, lat, indexing='ij')
  n = int(np.prod(g.modal_shape))
  cols = {k: np.zeros((nlon * nlat, n)) for k in range(4)}
  info = {}
  for i in range(g.modal_shape[0]):
    ml = _entry_lm(g, c['impl'], i)
    if ml is None:
      continue
    m, trig = ml
    for l in range(m, L):
      k = i * g.modal_shape[1] + l
      info[k] = (i, l, m)
      for q, f in enumerate(tab[(l, m, trig)]):
        cols[q][:, k] = np.broadcast_to(f(LON, LAT), LON.shape).ravel()
  return cols, info


def run_sympy_oracle(ctx):
  jax = common.jx()
  import jax.numpy as jnp
  from vlib import jxa
  out = Outcome()
  worst = 0.0
  for c in _grids(ctx.tier, L_max=5):
    g = c['grid']
    L = g.total_wavenumbers
    nlon, nlat = g.longitude_nodes, g.latitude_nodes
    cols, info = _oracle_matrices(c)
    x0 = jnp.zeros(g.modal_shape)
    crop = lambda z: z[..., :nlon, :nlat]
    S, _, _, _ = jxa.matrix_of(lambda x: crop(g.to_nodal(x)), x0)
    ks = np.array(sorted(info))
    # sign convention of the associated Legendre functions, fixed per coefficient by the synthesised basis itself
    sgn = np.ones(S.shape[1])
    for k in ks:
      sgn[k] = 1.0 if np.abs(S[:, k] - cols[0][:, k]).max() <= np.abs(S[:, k] + cols[0][:, k]).max() else -1.0
    lk = np.array([info[k][1] for k in ks])
    ops = {
        'basis': (S, cols[0], ks),
        'd_dlon': (jxa.matrix_of(lambda x: crop(g.to_nodal(g.d_dlon(x))), x0)[0], cols[1], ks),
        'laplacian': (jxa.matrix_of(lambda x: crop(g.to_nodal(g.laplacian(x))), x0)[0],
                      cols[0] * (-(np.arange(S.shape[1]) % g.modal_shape[1]) * ((np.arange(S.shape[1]) % g.modal_shape[1]) + 1) / g.radius ** 2), ks),
        # below the top total wavenumber only: l+1 must be representable
        'cos_lat_d_dlat': (jxa.matrix_of(lambda x: crop(g.to_nodal(g.cos_lat_d_dlat(x))), x0)[0], cols[2], ks[lk <= L - 2]),
        'sec_lat_d_dlat_cos2': (jxa.matrix_of(lambda x: crop(g.to_nodal(g.sec_lat_d_dlat_cos2(x))), x0)[0], cols[3], ks[lk <= L - 2]),
    }
    for key, (A, W, sel) in ops.items():
      E = np.abs(A[:, sel] - W[:, sel] * sgn[sel])
      er = float(E.max()) if E.size else 0.0
      name = f'{c["name"]}:{key} == analytic (sympy closed-form harmonics) at the grid nodes'
      worst = max(worst, er)
      if er <= 1e-11:
        out.ok(name, 'numeric', sample={'obligation': name, 'max_abs_err': er, 'coefficients': int(len(sel))})
      else:
        kk = int(sel[np.argmax(E.max(axis=0))])
        out.fail(name, witness={'cfg': c['name'], 'op': key, 'entry': [info[kk][0], info[kk][1]]},
                 detail=f'max error {er:.3e} at modal entry (row {info[kk][0]}, l={info[kk][1]})', key=name)
  out.info['worst'] = worst
  return out


def _dealiased(c):
  g = c['grid']
  return c['spacing'] == 'gauss' and 2 * g.latitude_nodes - 1 >= 3 * (g.total_wavenumbers - 1) \
      and g.longitude_nodes >= 3 * (g.longitude_wavenumbers - 1) + 1


def run_identities(ctx):
  jax = common.jx()
  import jax.numpy as jnp
  from vlib import jxa
  from dinosaur import spherical_harmonic as sh
  out = Outcome()
  cfgs = [c for c in common.cfg_grid(ctx.tier) if _dealiased(c)]
  if ctx.tier == 'quick':
    cfgs = cfgs + [c for c in common.cfg_grid('thorough', with_factory=False) if _dealiased(c) and c['name'] not in {d['name'] for d in cfgs}][:2]
  for c in cfgs:
    g = c['grid']
    x0 = jnp.zeros(g.modal_shape)
    m, l, mask = common.ml_of(g)
    L = g.total_wavenumbers
    lf = l.ravel()
    mf = mask.ravel()
    adm = mf & (lf <= L - 2)                    # resolved, below the top total wavenumber
    sec2 = lambda v: g.to_modal(g.sec2_lat * g.to_nodal(v))

    def grad_vec(x):
      u, v = g.cos_lat_grad(x, clip=False)
      return sec2(u), sec2(v)
    ops = {
        'curl(grad x) == 0': (lambda x: g.curl_cos_lat(grad_vec(x)), None),
        'div(k x grad x) == 0': (lambda x: g.div_cos_lat(g.k_cross(grad_vec(x))), None),
        'div(grad x) == laplacian(x)': (lambda x: g.div_cos_lat(grad_vec(x)) - g.clip_wavenumbers(g.laplacian(x)), None),
    }
    scale = L * (L + 1) / g.radius ** 2
    for nm, (fn, _) in ops.items():
      A, _, _, _ = jxa.matrix_of(fn, x0)
      E = A[:, adm][adm, :]
      err = float(np.abs(E).max()) / scale if E.size else 0.0
      name = f'{c["name"]}:{nm} (inputs below the top wavenumber; relative to |laplacian|)'
      (out.ok(name, 'numeric', sample={'obligation': name, 'rel_err': err}) if err <= 1e-10 else
       out.fail(name, witness={'cfg': c['name'], 'identity': nm}, detail=f'relative residual {err:.3e}', key=name))
    # (vorticity, divergence) -> (u, v) nodal -> (vorticity, divergence)
    def roundtrip(vd):
      # clip=False: the wind of an l = L-2 mode has an l = L-1 component, which the default clip would discard
      u, v = sh.vor_div_to_uv_nodal(g, vd[0], vd[1], clip=False)
      vor, div = sh.uv_nodal_to_vor_div_modal(g, u, v)
      return jnp.stack([vor, div])
    A, _, _, _ = jxa.matrix_of(roundtrip, jnp.zeros((2,) + tuple(g.modal_shape)))
    adm2 = np.concatenate([adm & (lf >= 1), adm & (lf >= 1)])
    E = (A - np.eye(A.shape[0]))[:, adm2][adm2, :]
    err = float(np.abs(E).max()) if E.size else 0.0
    name = f'{c["name"]}:(vor,div) -> wind -> (vor,div) == identity on zero-mean, top-clipped pairs'
    (out.ok(name, 'numeric', sample={'obligation': name, 'max_abs': err}) if err <= 1e-10 else
     out.fail(name, witness={'cfg': c['name'], 'identity': 'roundtrip'}, detail=f'residual {err:.3e}', key=name))
  out.info['configurations'] = [c['name'] for c in cfgs]
  return out


def replay_op(w):
  jax = common.jx()
  import jax.numpy as jnp
  cfgs = {c['name']: c for c in common.cfg_grid('thorough')}
  c = cfgs.get(w.get('cfg'))
  if c is None or 'entry' not in w or not w['entry']:
    return False, 'no concrete entry recorded'
  g = c['grid']
  i, l = w['entry']
  op = w['op']
  ml = _entry_lm(g, c['impl'], i)
  tab = _sympy_harmonics(g.total_wavenumbers)
  lon = np.asarray(g.nodal_axes[0])[:g.longitude_nodes] - g.longitude_offset
  lat = np.arcsin(np.asarray(g.nodal_axes[1])[:g.latitude_nodes])
  LON, LAT = np.meshgrid(lon, lat, indexing='ij')
  fns = tab[(l, ml[0], ml[1])]
  e = np.zeros(g.modal_shape)
  e[i, l] = 1
  ej = jnp.asarray(e)
  syn = np.asarray(g.to_nodal(ej))[:g.longitude_nodes, :g.latitude_nodes]
  Y = fns[0](LON, LAT)
  s = 1.0 if np.abs(syn - Y).max() <= np.abs(syn + Y).max() else -1.0
  k = {'basis': 0, 'd_dlon': 1, 'cos_lat_d_dlat': 2, 'sec_lat_d_dlat_cos2': 3, 'laplacian': 0}[op]
  want = s * np.broadcast_to(fns[k](LON, LAT), LON.shape) * (-l * (l + 1) / g.radius ** 2 if op == 'laplacian' else 1)
  got = syn if op == 'basis' else np.asarray(g.to_nodal(getattr(g, op)(ej)))[:g.longitude_nodes, :g.latitude_nodes]
  err = float(np.abs(got - want).max())
  return err > 1e-11, f'{c["name"]}: {op} of basis coefficient (row {i}, l={l}) differs from the analytic derivative by {err:.3e} at the grid nodes'


def clauses(tier, seed):
  fns = [SH + 'Grid.' + o for o in OPS + ['clip_wavenumbers', 'cos_lat_grad', 'k_cross', 'div_cos_lat', 'curl_cos_lat',
                                          '_derivative_recurrence_weights', 'laplacian_eigenvalues']] + [
      SH + 'get_cos_lat_vector', SH + 'uv_nodal_to_vor_div_modal', SH + 'vor_div_to_uv_nodal',
      'dinosaur.fourier.real_basis_derivative', 'dinosaur.fourier.real_basis_derivative_with_zero_imag',
      'dinosaur.jax_numpy_utils.shift']
  return [
      Clause('static:linearity of all Grid differential operators', 'static', fns, run_linearity, group='jax-a', heavy=True),
      Clause('numeric:exact index formulas (d_dlon pairing, laplacian, inverse, clip, shift)', 'numeric', fns, run_index_formulas,
             replay=None, group='jax-b', heavy=True),
      Clause('numeric:operators vs sympy closed-form harmonics', 'numeric', fns, run_sympy_oracle, replay=replay_op, group='jax-c', heavy=True),
      Clause('numeric:vector-calculus identities and wind round trip', 'numeric', fns, run_identities, replay=_replay_wind, group='jax-d', heavy=True),
  ] + _pyvc_clauses()


def _replay_wind(w):
  from contracts import wind_contracts
  return wind_contracts.replay_wind(w)


def _pyvc_clauses():
  from contracts import conformance_contracts as _conf
  _extra = [_conf.clauses()[k] for k in ['C02', 'C02b']]
  from contracts import fourier_contracts, grid_contracts, recurrence_contracts, wind_contracts
  return ([c for c in fourier_contracts.clauses() if any(k in c.name for k in ('shift ==', 'real_basis_derivative pairing', 'with_zero_imag pairing', 'canary'))] + grid_contracts.clauses()
          + recurrence_contracts.clauses() + wind_contracts.clauses() + _extra)


MANIFEST = {
    'engine': 'pyvc+jxa',
    'technique': 'contract-based deductive: shift, both longitude-derivative pairings, the latitude-derivative recurrence weights and both two-term recurrences, Laplacian eigenvalues / inverse / clipping proved from the real source for all sizes, paddings and zonal rows (pyvc array / row mode, z3); gradient / divergence / curl wrappers and the wind <-> (vorticity, divergence) conversions proved equal to their documented operator expressions for both clip flags (EUF over an abstract field sort); linearity proved on the traced program; operator matrices on complete bases vs index formulas, sympy closed forms and vector identities (bounded over grids)',
    'text': ('other: linearity of every operator is proved per configuration from the jaxpr; all remaining clauses are matrix identities on '
             'the complete coefficient basis (complete over fields), float64, bounded over the enumerated grids. The symbolic-size '
             'index clauses of DESIGN 3/C02 (shift, pairing for all sizes) are covered here only at enumerated sizes.'),
    'note': 'trusted: sympy assoc_legendre closed forms as oracle (sign convention fixed per (l,m) from the synthesised basis), A1/A2/A3, jxa rules.',
}
