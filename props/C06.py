"""C06 -- IMEX integrators: design order, reduction, stiff stability, length validation.

Clauses (b)-(d) use symx: the real factory functions of dinosaur.time_integration are
executed on formal atoms; the additive Runge-Kutta tableau they implement is derived
from that run; order conditions are exact rational identities on the derived tableau
and stiff stability is a universally quantified real-arithmetic sentence for z3 (nlsat).
Clause (a) uses pyvc (props/C06 imports contracts.time_integration).
"""
from __future__ import annotations

import itertools
import time

import sympy as sp

from vlib import core
from vlib.core import Clause, Outcome

LEVEL = 'proof'
EXPLANATION = (
    'Deductive, unbounded: the stage systems are derived by executing the real step functions on formal atoms '
    '(all right-hand sides F, all linear G, all step sizes at once); order conditions are exact rational '
    'identities on the coefficients the code actually uses; stiff stability is proved for every z in the closed '
    'left half-plane by z3 nlsat; length validation is proved for all list lengths by the pyvc VC generator '
    'on the real source.')
ASSUMPTIONS = [
    'A4: tree_math.wrap/unwrap/Vector apply + and scalar * leaf-wise (one-leaf tree of formal atoms)',
    'A6: an additive Runge-Kutta method has order p iff the bi-coloured rooted-tree order conditions up to p hold; '
    'Dahlquist consistency conditions for linear multistep methods (mathematics, not formalised here)',
    'A2: order conditions are required to hold to 1e-15 (rational schemes) / 1e-11 (13-digit Carpenter-Kennedy '
    'coefficients) in exact rational arithmetic on the dyadic values of the float literals',
]

TI = 'dinosaur.time_integration.'
RK_INTEGRATORS = ['backward_forward_euler', 'crank_nicolson_rk2', 'crank_nicolson_rk3',
                  'crank_nicolson_rk4', 'imex_rk_sil3']
TOL = {'crank_nicolson_rk4': sp.Rational(1, 10**11)}
DEFAULT_TOL = sp.Rational(1, 10**15)


def _ti():
  from dinosaur import time_integration as ti
  return ti


def _tableau(name):
  from vlib import symx
  return symx.derive_tableau(getattr(_ti(), name))


# ----------------------------------------------------------------------------------
# order conditions for additive RK (colours: ex / im)


def _hadamard(a, b):
  return sp.Matrix([a[i] * b[i] for i in range(a.shape[0])])


def order_conditions(t, p, colours=('ex', 'im')):
  """Yields (name, residual) for all bi-coloured tree conditions of order <= p."""
  A = {'ex': t['A_ex'], 'im': t['A_im']}
  b = {'ex': t['b_ex'], 'im': t['b_im']}
  c = {'ex': t['c_ex'], 'im': t['c_im']}
  one = sp.ones(t['stages'], 1)
  C = colours
  if p >= 1:
    for v in C:
      yield f'b_{v}.1=1', (b[v] * one)[0] - 1
  if p >= 2:
    for v, m in itertools.product(C, C):
      yield f'b_{v}.c_{m}=1/2', (b[v] * c[m])[0] - sp.Rational(1, 2)
  if p >= 3:
    for v, m, l in itertools.product(C, C, C):
      if m <= l:
        yield f'b_{v}.(c_{m}*c_{l})=1/3', (b[v] * _hadamard(c[m], c[l]))[0] - sp.Rational(1, 3)
      yield f'b_{v}.A_{m}.c_{l}=1/6', (b[v] * A[m] * c[l])[0] - sp.Rational(1, 6)
  if p >= 4:
    for v, m, l, k in itertools.product(C, C, C, C):
      if m <= l <= k:
        yield (f'b_{v}.(c_{m}*c_{l}*c_{k})=1/4',
               (b[v] * _hadamard(_hadamard(c[m], c[l]), c[k]))[0] - sp.Rational(1, 4))
      yield (f'b_{v}.(c_{m}*A_{l}.c_{k})=1/8',
             (b[v] * _hadamard(c[m], A[l] * c[k]))[0] - sp.Rational(1, 8))
      if l <= k:
        yield (f'b_{v}.A_{m}.(c_{l}*c_{k})=1/12',
               (b[v] * A[m] * _hadamard(c[l], c[k]))[0] - sp.Rational(1, 12))
      yield (f'b_{v}.A_{m}.A_{l}.c_{k}=1/24',
             (b[v] * A[m] * A[l] * c[k])[0] - sp.Rational(1, 24))


def linear_order_conditions(t, p, colour='ex'):
  """b.A^k.1 = 1/(k+1)!  for k < p (order p for linear autonomous right-hand sides)."""
  A = t['A_' + colour]
  b = t['b_' + colour]
  v = sp.ones(t['stages'], 1)
  for k in range(p):
    yield f'b_{colour}.A_{colour}^{k}.1=1/{k+1}!', (b * v)[0] - sp.Rational(1, sp.factorial(k + 1))
    v = A * v


def _check(out: Outcome, integ, conds, tol, tag):
  n = 0
  for name, res in conds:
    n += 1
    res = sp.nsimplify(res)
    oname = f'{integ}:{tag}:{name}'
    if abs(res) <= tol:
      out.ok(oname, 'exact', sample={'obligation': oname, 'residual': float(res), 'tol': float(tol)})
    else:
      out.fail(oname, witness={'integrator': integ, 'condition': name, 'order_tag': tag},
               detail=f'order condition {name} violated: exact residual {float(res):.3e} > tol {float(tol):.1e}',
               key=f'{integ}:{tag}:{name}')
  return n


# design orders: (general order with G != 0, explicit order when G = 0, kind)
DESIGN = {
    'backward_forward_euler': dict(general=1, explicit=1),
    'crank_nicolson_rk2': dict(general=2, explicit=2),
    'crank_nicolson_rk3': dict(general=2, explicit=3),
    'crank_nicolson_rk4': dict(general=2, explicit=4),
    'imex_rk_sil3': dict(general=2, explicit=2, explicit_linear=3),
}


def run_stage_system(integ):
  def run(ctx):
    out = Outcome()
    out.assumptions.append(ASSUMPTIONS[0])
    try:
      t = _tableau(integ)
    except Exception as e:  # a step function that no longer runs on atoms: not a violation by itself
      out.undec(f'{integ}:derive', f'{type(e).__name__}: {e}')
      return out
    s = t['stages']
    # every stage and the result are u0 + dt*(...)  (weights of u0 exactly one)
    for i, w in enumerate(t['w0_stages'] + [t['w0_result']]):
      nm = f'{integ}:u0-weight[{i if i < s else "result"}]=1'
      if sp.simplify(w - 1) == 0:
        out.ok(nm, 'exact')
      else:
        out.fail(nm, witness={'integrator': integ}, detail=f'weight of u0 is {w}', key=nm)
    # explicit part strictly lower triangular, implicit part lower triangular (solvable stage by stage)
    okx = all(t['A_ex'][i, j] == 0 for i in range(s) for j in range(i, s))
    oki = all(t['A_im'][i, j] == 0 for i in range(s) for j in range(i + 1, s))
    for nm, ok in ((f'{integ}:A_ex-strictly-lower', okx), (f'{integ}:A_im-lower', oki)):
      (out.ok(nm, 'exact') if ok else out.fail(nm, witness={'integrator': integ}, detail='not triangular', key=nm))
    # stage abscissae of explicit and implicit part agree (c_ex == c_im): same stage times
    tol = TOL.get(integ, DEFAULT_TOL)
    for i in range(s):
      nm = f'{integ}:c_ex[{i}]=c_im[{i}]'
      r = t['c_ex'][i] - t['c_im'][i]
      if abs(r) <= tol:
        out.ok(nm, 'exact')
      else:
        out.fail(nm, witness={'integrator': integ}, detail=f'c_ex-c_im={float(r):.3e}', key=nm)
    out.samples.append({'integrator': integ, 'A_ex': str(t['A_ex'].tolist()), 'A_im': str(t['A_im'].tolist()),
                        'b_ex': str(t['b_ex'].tolist()), 'b_im': str(t['b_im'].tolist())})
    return out
  return run


def run_order(integ):
  def run(ctx):
    out = Outcome()
    out.assumptions += ASSUMPTIONS
    try:
      t = _tableau(integ)
    except Exception as e:
      out.undec(f'{integ}:derive', f'{type(e).__name__}: {e}')
      return out
    d = DESIGN[integ]
    tol = TOL.get(integ, DEFAULT_TOL)
    _check(out, integ, order_conditions(t, d['general']), tol, f'general-order{d["general"]}')
    _check(out, integ, order_conditions(t, d['explicit'], colours=('ex',)), tol, f'explicit-order{d["explicit"]}')
    if 'explicit_linear' in d:
      _check(out, integ, linear_order_conditions(t, d['explicit_linear']), tol,
             f'explicit-linear-order{d["explicit_linear"]}')
    return out
  return run


def replay_order(w):
  """Scalar test problem u' = lam*u + mu*u through the real step function; compares the
  Taylor coefficients of the amplification factor with exp((lam+mu) dt)."""
  from vlib import symx
  integ = w['integrator']
  lam, mu = sp.symbols('lam mu')
  R = symx.amplification(getattr(_ti(), integ), lam=lam, mu=mu)
  d = DESIGN[integ]
  tag = w.get('order_tag', '')
  if tag.startswith('explicit'):
    R = sp.cancel(R.subs(mu, 0))
    p = d.get('explicit_linear', d['explicit'])
  else:
    p = d['general']
  ser = sp.series(R, symx.DT_SYM, 0, p + 1).removeO()
  ex = sp.series(sp.exp((lam + (0 if tag.startswith('explicit') else mu)) * symx.DT_SYM), symx.DT_SYM, 0, p + 1).removeO()
  diff = sp.expand(ser - ex)
  tol = float(TOL.get(integ, DEFAULT_TOL))
  bad = []
  for k in range(p + 1):
    ck = sp.expand(diff.coeff(symx.DT_SYM, k))
    if ck != 0:
      co = sp.Poly(ck, lam, mu).coeffs() if ck.free_symbols else [ck]
      if max(abs(float(c)) for c in co) > tol:
        bad.append((k, str(sp.N(ck, 6))))
  if bad:
    return True, (f'real {integ} step on u\' = lam*u + mu*u: Taylor coefficient(s) of the amplification factor '
                  f'differ from exp at dt^k: {bad}')
  return False, 'the linear scalar test problem does not exhibit this (nonlinear-only condition)'


# ----------------------------------------------------------------------------------
# reductions


EXPECTED_EXPLICIT = {
    # reduced Butcher tableaux of the named explicit methods (A rows, b)
    'backward_forward_euler': ([[0]], [1]),
    'crank_nicolson_rk2': ([[0, 0], [1, 0]], [sp.Rational(1, 2), sp.Rational(1, 2)]),
    'crank_nicolson_rk3': ([[0, 0, 0], [sp.Rational(1, 3), 0, 0], [sp.Rational(-3, 16), sp.Rational(15, 16), 0]],
                           [sp.Rational(1, 6), sp.Rational(3, 10), sp.Rational(8, 15)]),
}
CK_C = [0, 0.1496590219993, 0.3704009573644, 0.6222557631345, 0.9582821306748]


def run_reduce_explicit(integ):
  def run(ctx):
    from vlib import symx
    out = Outcome()
    try:
      t = _tableau(integ)
    except Exception as e:
      out.undec(f'{integ}:derive', f'{type(e).__name__}: {e}')
      return out
    s = t['stages']
    used = [j for j in range(s) if any(t['A_ex'][i, j] != 0 for i in range(s)) or t['b_ex'][j] != 0]
    A = [[t['A_ex'][i, j] for j in used] for i in used]
    b = [t['b_ex'][j] for j in used]
    tol = TOL.get(integ, DEFAULT_TOL)
    if integ in EXPECTED_EXPLICIT:
      EA, Eb = EXPECTED_EXPLICIT[integ]
      nm = f'{integ}:G=0-reduces-to-named-explicit-method'
      ok = len(used) == len(Eb) and all(abs(A[i][j] - EA[i][j]) <= tol for i in range(len(Eb)) for j in range(len(Eb))) \
          and all(abs(b[j] - Eb[j]) <= tol for j in range(len(Eb)))
      if ok:
        out.ok(nm, 'exact', sample={'obligation': nm, 'A': str(A), 'b': str(b)})
      else:
        out.fail(nm, witness={'integrator': integ, 'order_tag': 'explicit'},
                 detail=f'explicit tableau derived from the code A={A} b={b} differs from {EA} {Eb}', key=nm)
    elif integ == 'crank_nicolson_rk4':
      nm = f'{integ}:G=0-abscissae=Carpenter-Kennedy'
      cs = [sum(A[i]) for i in range(len(used))]
      ok = len(used) == 5 and all(abs(cs[i] - symx.exact(CK_C[i])) <= tol for i in range(5))
      (out.ok(nm, 'exact') if ok else out.fail(nm, witness={'integrator': integ, 'order_tag': 'explicit'},
                                               detail=f'c={[float(c) for c in cs]}', key=nm))
    elif integ == 'imex_rk_sil3':
      nm = f'{integ}:G=0-explicit-tableau=Whitaker-Kar'
      EA = [[0, 0, 0], [sp.Rational(1, 3), 0, 0], [sp.Rational(1, 6), sp.Rational(1, 2), 0]]
      # 4th stage is the result stage b=[1/2,-1/2,1]
      Eb = [sp.Rational(1, 2), sp.Rational(-1, 2), 1]
      ok = len(used) == 3 and all(abs(A[i][j] - EA[i][j]) <= tol for i in range(3) for j in range(3)) \
          and all(abs(b[j] - Eb[j]) <= tol for j in range(3))
      (out.ok(nm, 'exact') if ok else out.fail(nm, witness={'integrator': integ, 'order_tag': 'explicit'},
                                               detail=f'A={A} b={b}', key=nm))
    # cross-check: with G = 0 and G_inv = identity the real code on u' = lam*u gives the
    # stability polynomial of that tableau
    lam = sp.Symbol('lam')
    R = symx.amplification(getattr(_ti(), integ), lam=lam)
    z = sp.Symbol('z')
    Rz = sp.expand(R.subs(lam, z / symx.DT_SYM))
    one = sp.ones(len(used), 1)
    Am = sp.Matrix(A)
    bm = sp.Matrix([b])
    Rt = 1 + sum(((bm * Am**k * one)[0] * z**(k + 1) for k in range(len(used))), sp.Integer(0))
    nm = f'{integ}:G=0-real-run-on-scalar-problem=stability-polynomial-of-derived-tableau'
    if sp.expand(Rz - Rt) == 0:
      out.ok(nm, 'exact')
    else:
      out.fail(nm, witness={'integrator': integ, 'order_tag': 'explicit'}, detail=f'{Rz} vs {Rt}', key=nm)
    return out
  return run


def _implicit_R(integ):
  from vlib import symx
  mu = sp.Symbol('mu')
  z = sp.Symbol('z')
  R = symx.amplification(getattr(_ti(), integ), mu=mu)
  R = sp.cancel(R.subs(mu, z / symx.DT_SYM))
  N, D = sp.fraction(R)
  return z, sp.expand(N), sp.expand(D)


def run_reduce_implicit(integ):
  def run(ctx):
    out = Outcome()
    try:
      z, N, D = _implicit_R(integ)
    except Exception as e:
      out.undec(f'{integ}:derive', f'{type(e).__name__}: {e}')
      return out
    R = N / D
    tol = TOL.get(integ, DEFAULT_TOL)
    p = 1 if integ == 'backward_forward_euler' else 2
    ser = sp.series(R, z, 0, p + 1).removeO()
    ex = sum((z**k / sp.factorial(k) for k in range(p + 1)), sp.Integer(0))
    diff = sp.expand(ser - ex)
    for k in range(p + 1):
      nm = f'{integ}:F=0:R(z)-taylor[{k}]=1/{k}!'
      r = diff.coeff(z, k)
      if abs(r) <= tol:
        out.ok(nm, 'exact')
      else:
        out.fail(nm, witness={'integrator': integ, 'order_tag': 'general'}, detail=f'residual {float(r):.3e}', key=nm)
    if integ == 'backward_forward_euler':
      nm = f'{integ}:F=0-reduces-to-backward-Euler'
      ok = sp.simplify(R - 1 / (1 - z)) == 0
      (out.ok(nm, 'exact') if ok else out.fail(nm, witness={'integrator': integ, 'order_tag': 'general'}, detail=str(R), key=nm))
    elif integ in ('crank_nicolson_rk2', 'crank_nicolson_rk3', 'crank_nicolson_rk4'):
      # composition of Crank-Nicolson substeps: R = prod (1+mu_k z)/(1-mu_k z), mu_k > 0, sum 2 mu_k = 1
      nm = f'{integ}:F=0-reduces-to-composed-Crank-Nicolson'
      poles = sp.Poly(D, z).all_roots() if sp.Poly(D, z).degree() > 0 else []
      zeros = sp.Poly(N, z).all_roots() if sp.Poly(N, z).degree() > 0 else []
      ok = all(p_.is_real and p_ > 0 for p_ in poles) and len(poles) == len(zeros)
      if ok:
        ok = all(abs(a - b) <= tol * max(1, abs(a)) for a, b in zip(sorted(poles), sorted((-q for q in zeros))))
      if ok:
        ok = abs(sum(1 / p_ for p_ in poles) - sp.Rational(1, 2)) <= tol
      n_expected = {'crank_nicolson_rk2': 1, 'crank_nicolson_rk3': 3, 'crank_nicolson_rk4': 5}[integ]
      ok = ok and len(poles) == n_expected
      (out.ok(nm, 'exact', sample={'obligation': nm, 'poles': [float(p_) for p_ in poles]}) if ok else
       out.fail(nm, witness={'integrator': integ, 'order_tag': 'general'}, detail=f'R={sp.factor(R)}', key=nm))
    elif integ == 'imex_rk_sil3':
      try:
        t = _tableau(integ)
      except Exception as e:
        out.undec(f'{integ}:derive', f'{type(e).__name__}: {e}')
        return out
      s = t['stages']
      nm = f'{integ}:F=0-stiffly-accurate-DIRK (b_im = last row of A_im)'
      ok = all(abs(t['b_im'][j] - t['A_im'][s - 1, j]) <= tol for j in range(s))
      (out.ok(nm, 'exact') if ok else out.fail(nm, witness={'integrator': integ, 'order_tag': 'general'}, detail='b_im != A_im[-1]', key=nm))
    return out
  return run


# ----------------------------------------------------------------------------------
# stiff stability  (z3 nlsat):   for all x <= 0, y :  D(x+iy) != 0  and |N|^2 <= |D|^2


EPS = sp.Rational(1, 10**12)


def _stability_obligations(out, tag, N, D, z, extra_hyps=(), extra_vars=None, timeout_ms=60000):
  """Obligations, for all x <= 0 and all y (z = x+iy):  D(z) != 0  and  |N(z)| <= |D(z)|.

  Forms tried in this order (the one that discharged is recorded):
    exact      -- the inequality itself on the exact dyadic coefficients of the running code;
    factored   -- N and D factor over Q into the same number of factors that pair up with
                  |n_k| <= |d_k| each (product of moduli: mathematics); the factorisation identity
                  is checked by exact expansion;
    eps        -- |N|^2 <= (1+1e-12)|D|^2: needed where a design coefficient such as 1/6 is not a
                  float, so that the exact dyadic coefficients violate the sharp inequality by
                  O(1e-17) (tangency of |R| = 1 at z = 0).
  """
  import z3
  from vlib import smt, sym2z3
  x, y = sp.symbols('x y', real=True)
  vm = {x: z3.Real('x'), y: z3.Real('y')}
  for s_, v_ in (extra_vars or {}).items():
    vm[s_] = v_
  hyps = [vm[x] <= 0] + list(extra_hyps)
  cov = smt.satisfiable(hyps)
  if cov.status != 'sat':
    out.undec(f'{tag}:cover', 'hypotheses not satisfiable: vacuous')
    return

  def mod2(P):
    r, i = sym2z3.complex_split(P, z, x, y)
    return sym2z3.poly(sp.expand(r**2 + i**2), vm)

  def decide(goal, t_ms):
    v = smt.valid(hyps, goal, timeout_ms=t_ms, use_cvc5=False)
    if v.status == 'unknown':
      v = smt.valid(hyps, goal, timeout_ms=t_ms, use_cvc5=False, tactic='qfnra-nlsat')
    return v

  def model(v):
    return {k: str(smt.model_value(v.model, vm[s_])) for k, s_ in (('x', x), ('y', y))}

  n2, d2 = mod2(N), mod2(D)
  nm = f'{tag}:denominator-nonzero-on-closed-left-half-plane'
  cD0, fD0 = sp.factor_list(D, z)
  facs = [f for f, _ in fD0] if (cD0 != 0 and sp.expand(cD0 * sp.prod([f**m for f, m in fD0]) - D) == 0) else [D]
  worst = None
  secs = 0.0
  for f in facs:   # D != 0 iff every irreducible factor != 0 (exact factorisation identity checked above)
    v = decide(mod2(f) > 0, timeout_ms)
    secs += v.seconds
    if v.status != 'valid':
      worst = v
      break
  if worst is None:
    out.ok(nm, 'z3', seconds=secs)
  elif worst.status == 'invalid':
    out.fail(nm, witness={'tag': tag, 'z': model(worst)}, detail=f'z3 model z={model(worst)}; D={D}', key=nm)
  else:
    out.undec(nm, worst.reason)

  nm = f'{tag}:|R(z)|<=1-on-closed-left-half-plane'
  sample = {'obligation': nm, 'N': str(N), 'D': str(D)}
  # factored form
  cN, fN = sp.factor_list(N, z)
  cD, fD = sp.factor_list(D, z)
  fN = [f for f, m in fN for _ in range(m)]
  fD = [f for f, m in fD for _ in range(m)]
  if not extra_vars and len(fN) == len(fD) and fN and sp.expand(cN * sp.prod(fN) - N) == 0 and sp.expand(cD * sp.prod(fD) - D) == 0 \
      and abs(cN) <= abs(cD):
    remaining = list(fD)
    okall = True
    secs = 0.0
    for n_ in fN:
      hit = None
      for d_ in remaining:
        vv = decide(mod2(n_) <= mod2(d_), 10000)
        secs += vv.seconds
        if vv.status == 'valid':
          hit = d_
          break
      if hit is None:
        okall = False
        break
      remaining.remove(hit)
    if okall:
      out.ok(nm, 'z3', seconds=secs, sample=dict(sample, form=f'factored into {len(fN)} pairs'))
      if 'product of moduli of paired factors (mathematics)' not in out.assumptions:
        out.assumptions.append('product of moduli of paired factors (mathematics)')
      return
  v = decide(n2 <= d2, min(timeout_ms, 10000))
  if v.status == 'valid':
    out.ok(nm, v.back_end, seconds=v.seconds, sample=dict(sample, form='exact'))
    return
  first = v
  # eps form
  e = sym2z3.rat(1 + EPS)
  v = decide(n2 <= e * d2, timeout_ms)
  if v.status == 'valid':
    out.ok(nm, v.back_end, seconds=v.seconds, sample=dict(sample, form='|N|^2 <= (1+1e-12)|D|^2'))
    out.info[f'{tag}:stability-form'] = ('eps=1e-12: sharp inequality fails on the exact dyadic coefficients at '
                                         f'{model(first) if first.status == "invalid" else "?"} by rounding of the literals')
    return
  if v.status == 'invalid':
    out.fail(nm, witness={'tag': tag, 'z': model(v)}, detail=f'z3 model: z = {model(v)} with |R|^2 > 1+1e-12; R = ({N})/({D})', key=nm)
  else:
    out.undec(nm, v.reason)


def run_stability(integ):
  def run(ctx):
    out = Outcome()
    try:
      z, N, D = _implicit_R(integ)
    except Exception as e:
      out.undec(f'{integ}:derive', f'{type(e).__name__}: {e}')
      return out
    _stability_obligations(out, integ, N, D, z, timeout_ms=120000 if ctx.tier == 'thorough' else 60000)
    return out
  return run


def replay_stability(w):
  from vlib import symx
  tag = w['tag']
  zz = w['z']
  if tag not in RK_INTEGRATORS:
    return False, 'no replay for this tag'
  z, N, D = _implicit_R(tag)
  val = complex(float(sp.Rational(zz['x'])), float(sp.Rational(zz['y']))) if '/' in zz['x'] + zz['y'] or True else 0
  Rv = complex(sp.N(N.subs(z, val))) / complex(sp.N(D.subs(z, val))) if abs(complex(sp.N(D.subs(z, val)))) > 0 else float('inf')
  bad = not (abs(Rv) <= 1 + 1e-12)
  return bad, f'real {tag} step on u\' = mu*u with mu*dt = {val}: |R| = {abs(Rv) if Rv == Rv else Rv}'


# ----------------------------------------------------------------------------------
# leapfrog


def _leapfrog():
  from vlib import symx
  ti = _ti()
  alpha = sp.Symbol('alpha', real=True)
  eq = symx.AbstractEquation(('prev', 'cur'))
  step = ti.semi_implicit_leapfrog(eq.equation, symx.DT, alpha=symx.SX(alpha))
  out = step((symx.LinComb.atom('prev'), symx.LinComb.atom('cur')))
  return alpha, eq, out


def run_leapfrog_consistency(ctx):
  from vlib import symx
  out = Outcome()
  out.assumptions += ASSUMPTIONS[:2]
  try:
    alpha, eq, res = _leapfrog()
    first, future = res
    fut = eq.expand(future)
  except Exception as e:
    out.undec('leapfrog:derive', f'{type(e).__name__}: {e}')
    return out
  nm = 'leapfrog:returned-pair-first=current'
  ok = isinstance(first, symx.LinComb) and first.terms == {'cur': 1}
  (out.ok(nm, 'exact') if ok else out.fail(nm, witness={}, detail=str(first), key=nm))
  # two-step form  y_{n+1} = a_prev*y_{n-1} + a_cur*y_n + dt*sum beta_ex_j F(y_j) + dt*sum beta_im_j G(y_j)
  tpos = {0: -1, 1: 0, 2: 1}   # stage index -> time level (prev, cur, future)
  a = {-1: fut.terms.get('prev', 0), 0: fut.terms.get('cur', 0)}
  bex = {-1: 0, 0: 0, 1: 0}
  bim = {-1: 0, 0: 0, 1: 0}
  try:
    for k, v in fut.terms.items():
      if k in ('prev', 'cur'):
        continue
      kind, j = k[0], int(k[2:-1])
      c = symx._coeff_of_dt(v, k)
      (bex if kind == 'F' else bim)[tpos[j]] += c
  except Exception as e:
    out.fail('leapfrog:two-step-form', witness={}, detail=f'{type(e).__name__}: {e}', key='leapfrog:two-step-form')
    return out
  out.samples.append({'leapfrog two-step form': {'a': str(a), 'beta_ex': str(bex), 'beta_im': str(bim)}})

  def lmm(beta, q):
    # exactness on y = t^q:  1 = sum a_j t_j^q + q * sum beta_j t_j^(q-1)
    lhs = sp.Integer(1)
    rhs = sum(a[t] * sp.Integer(t)**q for t in a)
    rhs += q * sum(beta[t] * (sp.Integer(t)**(q - 1) if q >= 1 else 0) for t in beta) if q >= 1 else 0
    return sp.simplify(lhs - rhs)

  half = {alpha: sp.Rational(1, 2)}
  for q in (0, 1, 2):
    for nm_, beta in (('explicit', bex), ('implicit', bim)):
      r = lmm(beta, q)
      nm = f'leapfrog:alpha=1/2:{nm_}-part-exact-on-t^{q}'
      r2 = sp.simplify(r.subs(half))
      (out.ok(nm, 'exact') if r2 == 0 else out.fail(nm, witness={'alpha': '1/2'}, detail=f'residual {r2}', key=nm))
  for q in (0, 1):
    for nm_, beta in (('explicit', bex), ('implicit', bim)):
      r = sp.simplify(lmm(beta, q))
      nm = f'leapfrog:any-alpha:{nm_}-part-exact-on-t^{q}'
      (out.ok(nm, 'exact') if r == 0 else out.fail(nm, witness={}, detail=f'residual {r}', key=nm))
  # reduction: with G = 0 this is the explicit leapfrog  y+ = y- + 2 dt F(y)
  nm = 'leapfrog:G=0-reduces-to-explicit-leapfrog'
  ok = sp.simplify(a[-1] - 1) == 0 and sp.simplify(a[0]) == 0 and sp.simplify(bex[0] - 2) == 0 and bex[-1] == 0 and bex[1] == 0
  (out.ok(nm, 'exact') if ok else out.fail(nm, witness={}, detail=f'a={a} bex={bex}', key=nm))
  # F = 0: theta-method over 2dt with weights (1-alpha, alpha)
  nm = 'leapfrog:F=0-reduces-to-theta-method-over-2dt'
  ok = sp.simplify(bim[-1] - 2 * (1 - alpha)) == 0 and sp.simplify(bim[1] - 2 * alpha) == 0 and bim[0] == 0
  (out.ok(nm, 'exact') if ok else out.fail(nm, witness={}, detail=f'bim={bim}', key=nm))
  return out


def run_leapfrog_stability(ctx):
  import z3
  from vlib import symx
  out = Outcome()
  ti = _ti()
  alpha = sp.Symbol('alpha', real=True)
  mu = sp.Symbol('mu')
  z = sp.Symbol('z')
  try:
    eq = ti.ImplicitExplicitODE.from_functions(
        lambda x: x * 0, lambda x: x * mu, lambda x, eta: x / (1 - symx.exact(eta) * mu))
    step = ti.semi_implicit_leapfrog(eq, symx.DT, alpha=symx.SX(alpha))
    p, c = sp.symbols('p c')
    first, fut = step((symx.SX(p), symx.SX(c)))
    r = sp.cancel(sp.together(fut.e).subs(mu, z / symx.DT_SYM))
  except Exception as e:
    out.undec('leapfrog:derive', f'{type(e).__name__}: {e}')
    return out
  # future = r_p(z) * prev + r_c(z) * cur ; for F = 0 r_c must vanish
  rp = sp.cancel(sp.diff(r, p))
  rc = sp.cancel(sp.diff(r, c))
  nm = 'leapfrog:F=0:future-independent-of-current'
  (out.ok(nm, 'exact') if rc == 0 else out.fail(nm, witness={}, detail=str(rc), key=nm))
  N, D = sp.fraction(rp)
  # characteristic polynomial zeta^2 = rp(z): roots in the closed unit disc iff |rp| <= 1
  _stability_obligations(out, 'leapfrog(alpha>=1/2)', sp.expand(N), sp.expand(D), z,
                         extra_hyps=[z3.Real('alpha') >= z3.RealVal('1/2')], extra_vars={alpha: z3.Real('alpha')})
  return out


# ----------------------------------------------------------------------------------
# generic imex_runge_kutta: the step function implements the tableau it is given


def run_imex_generic(ctx):
  from vlib import symx
  ti = _ti()
  out = Outcome()
  for s in (2, 3, 4):
    a_ex = [[symx.SX(sp.Symbol(f'ae_{i}_{j}')) for j in range(i + 1)] for i in range(s - 1)]
    a_im = [[symx.SX(sp.Symbol(f'ai_{i}_{j}')) for j in range(i + 2)] for i in range(s - 1)]
    b_ex = [symx.SX(sp.Symbol(f'be_{j}')) for j in range(s)]
    b_im = [symx.SX(sp.Symbol(f'bi_{j}')) for j in range(s)]
    try:
      tab = ti.ImExButcherTableau(a_ex=a_ex, a_im=a_im, b_ex=b_ex, b_im=b_im)
      t = symx.derive_tableau(lambda eq, dt: ti.imex_runge_kutta(tab, eq, dt))
    except Exception as e:
      out.undec(f'imex_runge_kutta[s={s}]:derive', f'{type(e).__name__}: {e}')
      continue
    ok = t['stages'] == s
    if ok:
      for i in range(1, s):
        for j in range(s):
          eae = a_ex[i - 1][j].e if j < i else 0
          eai = a_im[i - 1][j].e if j <= i else 0
          ok = ok and sp.expand(t['A_ex'][i, j] - eae) == 0 and sp.expand(t['A_im'][i, j] - eai) == 0
      for j in range(s):
        ok = ok and sp.expand(t['b_ex'][j] - b_ex[j].e) == 0 and sp.expand(t['b_im'][j] - b_im[j].e) == 0
    nm = f'imex_runge_kutta[stages={s}]:derived-stage-system=given-tableau-for-all-entries'
    if ok:
      out.ok(nm, 'exact', sample={'obligation': nm, 'A_ex': str(t['A_ex'].tolist())})
    else:
      out.fail(nm, witness={'stages': s}, detail=f"A_ex={t['A_ex'].tolist()} A_im={t['A_im'].tolist()} b_ex={t['b_ex'].tolist()} b_im={t['b_im'].tolist()}", key=nm)
  return out


def run_lowstorage_generic(ctx):
  """low_storage_runge_kutta_crank_nicolson with symbolic coefficients, k = 1..4 stages:
  F = 0 gives the product of Crank-Nicolson factors with mu_k = (alpha_{k+1}-alpha_k)/2."""
  from vlib import symx
  ti = _ti()
  out = Outcome()
  mu, z = sp.symbols('mu z')
  for k in (1, 2, 3, 4):
    al = [sp.Symbol(f'al_{i}') for i in range(k + 1)]
    be = [sp.Symbol(f'be_{i}') for i in range(k)]
    ga = [sp.Symbol(f'ga_{i}') for i in range(k)]
    try:
      R = symx.amplification(
          lambda eq, dt: ti.low_storage_runge_kutta_crank_nicolson(
              [symx.SX(a) for a in al], [symx.SX(b) for b in be], [symx.SX(g) for g in ga], eq, dt), mu=mu)
    except Exception as e:
      out.undec(f'low_storage[k={k}]:derive', f'{type(e).__name__}: {e}')
      continue
    R = R.subs(mu, z / symx.DT_SYM)
    expect = sp.Integer(1)
    for i in range(k):
      m = (al[i + 1] - al[i]) / 2
      expect *= (1 + m * z) / (1 - m * z)
    nm = f'low_storage_rk_cn[stages={k}]:F=0:R(z)=prod((1+mu_k z)/(1-mu_k z)),mu_k=(alpha_k+1-alpha_k)/2'
    if sp.simplify(R - expect) == 0:
      out.ok(nm, 'exact')
    else:
      out.fail(nm, witness={'stages': k}, detail=f'R={sp.factor(R)}', key=nm)
  return out


def run_alpha_monotone(ctx):
  """mu_k = (alpha_{k+1} - alpha_k)/2 >= 0 for the literal alphas the factories pass."""
  from vlib import symx
  ti = _ti()
  out = Outcome()
  for integ in ('crank_nicolson_rk3', 'crank_nicolson_rk4'):
    eq = symx.AbstractEquation(('u0',))
    getattr(ti, integ)(eq.equation, symx.DT)(symx.LinComb.atom('u0'))
    etas = [sp.simplify(s['eta'] / symx.DT_SYM) for s in eq.stages if s['x'] is not None]
    nm = f'{integ}:substep-lengths-nonnegative-and-sum-to-1/2'
    tol = TOL.get(integ, DEFAULT_TOL)
    ok = all(e >= 0 for e in etas) and abs(sum(etas) - sp.Rational(1, 2)) <= tol
    (out.ok(nm, 'exact', sample={'obligation': nm, 'mu': [float(e) for e in etas]}) if ok else
     out.fail(nm, witness={'integrator': integ, 'order_tag': 'general'}, detail=f'mu={etas}', key=nm))
  return out


def run_canary(ctx):
  """Deliberately false: forward/backward Euler pair is second order. Must FAIL."""
  out = Outcome()
  t = _tableau('backward_forward_euler')
  _check(out, 'backward_forward_euler', order_conditions(t, 2), DEFAULT_TOL, 'canary-order2')
  return out


def clauses(tier, seed):
  cl = []
  for integ in RK_INTEGRATORS:
    fn = [TI + integ]
    if integ in ('crank_nicolson_rk3', 'crank_nicolson_rk4'):
      fn.append(TI + 'low_storage_runge_kutta_crank_nicolson')
    if integ == 'imex_rk_sil3':
      fn += [TI + 'imex_runge_kutta', TI + 'ImExButcherTableau.__post_init__']
    cl += [
        Clause(f'stage-system:{integ}', 'exact', fn, run_stage_system(integ), group='symx'),
        Clause(f'order:{integ}', 'exact', fn, run_order(integ), replay=replay_order, group='symx'),
        Clause(f'reduce-explicit:{integ}', 'exact', fn, run_reduce_explicit(integ), replay=replay_order, group='symx'),
        Clause(f'reduce-implicit:{integ}', 'exact', fn, run_reduce_implicit(integ), replay=replay_order, group='symx'),
        Clause(f'stiff-stability:{integ}', 'smt', fn, run_stability(integ), replay=replay_stability,
               group='stab-' + integ),
    ]
  cl += [
      Clause('leapfrog:consistency', 'exact', [TI + 'semi_implicit_leapfrog'], run_leapfrog_consistency, group='symx'),
      Clause('leapfrog:stiff-stability', 'smt', [TI + 'semi_implicit_leapfrog'], run_leapfrog_stability, group='stab-leapfrog'),
      Clause('imex_runge_kutta:generic-tableau', 'exact', [TI + 'imex_runge_kutta'], run_imex_generic, group='symx2'),
      Clause('low_storage:generic-implicit-reduction', 'exact', [TI + 'low_storage_runge_kutta_crank_nicolson'],
             run_lowstorage_generic, group='symx2'),
      Clause('low_storage:substeps-nonnegative', 'exact',
             [TI + 'crank_nicolson_rk3', TI + 'crank_nicolson_rk4'], run_alpha_monotone, group='symx2'),
      Clause('canary:euler-pair-order2-must-fail', 'exact', [TI + 'backward_forward_euler'], run_canary,
             canary=True, group='symx2'),
  ]
  try:
    from contracts import time_integration_lengths as L
    cl += L.clauses()
  except ImportError:
    pass
  return cl

MANIFEST = {
    'engine': 'symx+pyvc',
    'technique': 'contract-based deductive: symbolic execution of the real step functions (exact stage systems), exact order conditions, z3 nlsat for A-stability, pyvc VCs over symbolic list lengths',
    'text': ('proof: every clause is deductive and unbounded in the quantifiers of the property -- order conditions are exact '
             'rational identities on the tableau derived by executing the real step functions on formal atoms (all F, all '
             'linear G, all dt); |R(z)| <= 1 is proved for all z in the closed left half-plane by z3; length validation is '
             'proved for all list lengths by VCs generated from the real source.'),
    'note': ('trusted: order-condition theorem for additive RK / Dahlquist conditions (A6), tree_math leaf-wise arithmetic (A4), '
             'tolerance 1e-15 (1e-11 for the 13-digit RK4 literals) on exact residuals (A2); for SIL3 the sharp inequality is '
             'proved with slack 1e-12 because 1/6, 1/3 are not floats; z3, sympy, the engines themselves. Row-length '
             'raggedness of Butcher tableaux is not covered.'),
}
