"""C20 -- physical forcings are bounded, periodic and dissipative."""
from __future__ import annotations

import datetime

import numpy as np

from vlib.core import Clause, Outcome, rerun_replay
from props import common

LEVEL = 'other'
RAD = 'dinosaur.radiation.'
HS = 'dinosaur.held_suarez.HeldSuarezForcing.'
EXPLANATION = (
    'Deductive (pyvc, elementwise mode, unbounded over phases, positions, irradiances and forcing parameters): VCs generated '
    'from the real source of get_radiation_flux / get_solar_sin_altitude / get_direct_solar_irradiance / '
    'get_normalized_radiation_flux / SolarRadiation.time_to_orbital_time and of HeldSuarezForcing.kv / kt / '
    'equilibrium_temperature give: 0 <= flux <= mean + variation, flux == 0 where sin(altitude) <= 0, periodicity in both '
    'phases and longitude, normalised flux in [0,1], phases reduced to [0, 2pi) congruent to elapsed time, kv >= 0 and zero '
    'above the boundary layer, kt a convex combination of ka and ks (finite for every kf >= 0), T_eq >= minT. '
    'Static (jaxpr): the Held-Suarez surface-pressure tendency is structurally zero, vorticity/divergence tendencies are '
    'linear in (vorticity, divergence) and independent of temperature and surface pressure. Bounded: the drag matrix '
    '== -kv(sigma) on the complete (vorticity, divergence) basis; temperature relaxation == -kt (T - T_eq) against an '
    'independent pointwise specification on sampled states; global mean flux == S/4 within the quadrature error on '
    'enumerated grids and times; float twins of the bounds through SolarRadiation.radiation_flux (both constructors, two scales).')
ASSUMPTIONS = [
    'A1: floats as reals in the smt clauses (float twins run the same predicates on sampled inputs)',
    'A9: sin^2+cos^2=1, sin/cos periodic with period P, exp/log/pow sign and monotonicity axioms (listed in vlib/pyvc/elem.py)',
    'elementwise abstraction: arrays represented by their generic entry; only broadcasting operations are accepted by the engine in this mode',
    'bounded over grids / level sets / sampled states for the numeric clauses',
]


def _coords(impl='real', M=5, L=6, lon=16, lat=8, layers=4, seed=0, uneven=True):
  from dinosaur import coordinate_systems as cs
  g = common.make_grid(M, L, lon, lat, 'gauss', impl)
  sig = common.sigma_levels('uneven' if uneven else 'equidistant', layers, seed)
  return cs.CoordinateSystem(g, sig)


def _ref_temp(specs, n):
  return common.reference_temperature('linear', n, specs)


def run_hs_static(ctx):
  jax = common.jx()
  import jax.numpy as jnp
  from vlib import jxa
  from dinosaur import held_suarez as hs, primitive_equations as pe
  out = Outcome()
  for impl in ('real', 'fast'):
    coords = _coords(impl, 3, 4, 10, 7, 3, ctx.seed)
    specs = common.physics_specs()
    f = hs.HeldSuarezForcing(coords, specs, _ref_temp(specs, 3))
    z, zs = jnp.zeros(coords.modal_shape), jnp.zeros(coords.surface_modal_shape)
    s0 = pe.State(z, z, z, zs)
    # designated polynomial variables: vorticity and divergence only
    des = pe.State(True, True, False, False)
    outs, tree, an, _ = jxa.analyze(f.explicit_terms, (s0,), designated=(des,))
    res = jax.tree_util.tree_unflatten(tree, outs)
    nm = f'{impl}:log_surface_pressure tendency is structurally zero (no surface-pressure tendency)'
    av = res.log_surface_pressure
    (out.ok(nm, 'static') if not av.nz.any() else out.fail(nm, witness={'impl': impl}, detail=f'{int(av.nz.sum())} entries may be non-zero', key=nm))
    nm = f'{impl}:tracers absent from the forcing tendency'
    (out.ok(nm, 'static') if not res.tracers else out.fail(nm, witness={'impl': impl}, detail=str(list(res.tracers)), key=nm))
    for lf in ('vorticity', 'divergence'):
      av = getattr(res, lf)
      nm = f'{impl}:{lf} tendency is linear in (vorticity, divergence)'
      (out.ok(nm, 'static') if av.deg is not None and av.deg <= 1 else out.fail(nm, witness={'impl': impl}, detail=f'degree {av.deg} {av.why}', key=nm))
      nm = f'{impl}:{lf} tendency does not depend on temperature or surface pressure'
      (out.ok(nm, 'static') if not ({2, 3} & set(av.dep)) else out.fail(nm, witness={'impl': impl}, detail=f'depends on input leaves {sorted(av.dep)}', key=nm))
    av = res.temperature_variation
    nm = f'{impl}:temperature tendency does not depend on the wind (vorticity, divergence)'
    (out.ok(nm, 'static') if not ({0, 1} & set(av.dep)) else out.fail(nm, witness={'impl': impl}, detail=f'depends on {sorted(av.dep)}', key=nm))
  return out


def _hs_cases(tier, seed):
  cases = []
  for impl in ('real', 'fast'):
    for layers, uneven in ((4, True), (5, False)) if tier == 'quick' else ((2, True), (4, True), (5, False), (8, True)):
      for params in ({}, {'sigma_b': 0.5, 'kf': 'fast'}, {'kf': 'zero'}):
        cases.append((impl, layers, uneven, params))
  return cases


def _make_hs(coords, specs, params):
  from dinosaur import held_suarez as hs, scales
  u = scales.units
  kw = {}
  for k, v in params.items():
    if k == 'kf':
      kw['kf'] = {'fast': 1 / (0.3 * u.day), 'zero': 0 / (1 * u.day)}[v]
    else:
      kw[k] = v
  return hs.HeldSuarezForcing(coords, specs, _ref_temp(specs, coords.vertical.layers), **kw)


def run_hs_drag(ctx):
  """vorticity/divergence tendency == -kv(sigma) * (vorticity, divergence): matrix identity on the complete basis."""
  jax = common.jx()
  import jax.numpy as jnp
  from vlib import jxa
  from dinosaur import primitive_equations as pe
  out = Outcome()
  for impl, layers, uneven, params in _hs_cases(ctx.tier, ctx.seed):
    coords = _coords(impl, 3, 5, 8, 8, layers, ctx.seed, uneven)      # resolved: products with sec^2 are not exact, see below
    specs = common.physics_specs()
    f = _make_hs(coords, specs, params)
    g = coords.horizontal
    mask = np.asarray(g.mask)
    keep = mask.copy()
    keep[:, g.total_wavenumbers - 1:] = False
    keep0 = keep.copy()
    keep0[0, 0] = False          # zero-mean vorticity/divergence (admissible states)
    K = layers
    sigma = np.asarray(coords.vertical.centers)
    sb = f.sigma_b
    kv_spec = float(f.kf) * np.maximum(0.0, (sigma - sb) / (1 - sb))      # from the property: level-dependent friction rate
    T = jnp.asarray(np.random.RandomState(3).randn(*coords.modal_shape) * mask * 0.5)
    ps = jnp.asarray(np.random.RandomState(4).randn(*coords.surface_modal_shape) * mask * 0.05)
    idx = np.argwhere(np.broadcast_to(keep0, coords.modal_shape))
    nvar = len(idx)

    def fn(x):
      vz = jnp.zeros(coords.modal_shape).at[idx[:, 0], idx[:, 1], idx[:, 2]].set(x[:nvar])
      dv = jnp.zeros(coords.modal_shape).at[idx[:, 0], idx[:, 1], idx[:, 2]].set(x[nvar:])
      r = f.explicit_terms(pe.State(vz, dv, T, ps))
      return jnp.concatenate([r.vorticity[idx[:, 0], idx[:, 1], idx[:, 2]], r.divergence[idx[:, 0], idx[:, 1], idx[:, 2]]]), r
    A, _, _, y0 = jxa.matrix_of(lambda x: fn(x)[0], jnp.zeros(2 * nvar))
    want = -np.concatenate([kv_spec[idx[:, 0]], kv_spec[idx[:, 0]]])
    name = f'{impl}:L{layers}{"u" if uneven else "e"}:{params}'
    wit = {'impl': impl, 'layers': layers, 'uneven': uneven, 'params': {k: str(v) for k, v in params.items()}}
    # The drag is applied in grid space to cos(lat)*u and transformed back: it is the exact diagonal operator on the
    # resolved block when kv does not depend on latitude (it does not).  Tolerance: float64 round-off of the transforms.
    err_diag = np.abs(np.diag(A) - want).max()
    off = A - np.diag(np.diag(A))
    err_off = np.abs(off).max()
    nm = f'{name}:drag matrix == -kv(sigma) * identity on resolved (vorticity, divergence) coefficients'
    scale = max(1e-30, np.abs(want).max())
    if err_diag <= 1e-9 * max(scale, 1e-3) and err_off <= 1e-9 * max(scale, 1e-3):
      out.ok(nm, 'numeric', sample={'obligation': nm, 'diag_err': float(err_diag), 'offdiag': float(err_off), 'n': int(2 * nvar)})
    else:
      out.fail(nm, witness=wit, detail=f'diag err {err_diag:.3e}, off-diagonal {err_off:.3e} (scale {scale:.3e})', key=f'{impl}:drag matrix')
    nm = f'{name}:drag vanishes on layers above the boundary layer (sigma <= sigma_b) and is dissipative (rates <= 0)'
    above = sigma[idx[:, 0]] <= sb
    dA = np.diag(A)[:nvar]
    ok = np.all(dA[above] == 0.0) if above.any() else True
    ok = ok and np.all(dA <= 1e-15)
    (out.ok(nm, 'numeric') if ok else out.fail(nm, witness=wit, detail=f'max rate {dA.max():.3e}; above-layer max |rate| {np.abs(dA[above]).max() if above.any() else 0:.3e}', key=f'{impl}:drag sign'))
    nm = f'{name}:(vorticity, divergence) tendency of the zero wind state is zero'
    (out.ok(nm, 'numeric') if np.abs(y0).max() == 0 else out.fail(nm, witness=wit, detail=f'{np.abs(y0).max():.3e}', key=f'{impl}:drag affine'))
  return out


def _teq_spec(f, specs, coords, nodal_ps):
  """Independent pointwise specification (plain numpy, written from Held & Suarez 1994 / the property)."""
  sigma = np.asarray(coords.vertical.centers)[:, None, None]
  lat = np.arcsin(np.asarray(coords.horizontal.nodal_mesh[1]))[None]
  p = sigma * nodal_ps[None] / float(f.p0)
  t = p ** float(specs.kappa) * (float(f.maxT) - float(f.dTy) * np.sin(lat) ** 2 - float(f.dThz) * np.log(p) * np.cos(lat) ** 2)
  return np.maximum(float(f.minT), t)


def run_hs_relaxation(ctx):
  jax = common.jx()
  import jax.numpy as jnp
  from dinosaur import primitive_equations as pe
  out = Outcome()
  nstates = 3 if ctx.tier == 'quick' else 12
  for impl, layers, uneven, params in _hs_cases(ctx.tier, ctx.seed):
    coords = _coords(impl, 3, 5, 8, 8, layers, ctx.seed, uneven)
    specs = common.physics_specs()
    f = _make_hs(coords, specs, params)
    g = coords.horizontal
    mask = np.asarray(g.mask)
    sigma = np.asarray(coords.vertical.centers)
    lat = np.arcsin(np.asarray(g.nodal_mesh[1]))
    cut = np.maximum(0.0, (sigma - f.sigma_b) / (1 - f.sigma_b))
    kt_spec = float(f.ka) + (float(f.ks) - float(f.ka)) * cut[:, None, None] * np.cos(lat)[None] ** 4
    name = f'{impl}:L{layers}{"u" if uneven else "e"}:{params}'
    wit = {'impl': impl, 'layers': layers, 'uneven': uneven, 'params': {k: str(v) for k, v in params.items()}}
    nm = f'{name}:kt() == ka + (ks-ka) max(0,(sigma-sigma_b)/(1-sigma_b)) cos^4(lat), finite, within [min(ka,ks), max(ka,ks)]'
    with np.errstate(all='ignore'):
      kt = np.broadcast_to(np.asarray(f.kt()), kt_spec.shape)
      kv = np.asarray(f.kv())
    lo, hi = min(float(f.ka), float(f.ks)), max(float(f.ka), float(f.ks))
    ok = np.all(np.isfinite(kt)) and np.abs(kt - kt_spec).max() <= 1e-13 * hi and kt.min() >= lo * (1 - 1e-12) and kt.max() <= hi * (1 + 1e-12)
    ok = ok and np.all(np.isfinite(kv)) and np.all(kv >= 0)
    (out.ok(nm, 'numeric') if ok else out.fail(nm, witness=wit, detail=f'finite={bool(np.all(np.isfinite(kt)))} max dev {np.nanmax(np.abs(kt - kt_spec)):.3e}', key=f'{impl}:kt'))
    worst = 0.0
    floor_hit = 0
    for s in range(nstates):
      rng = np.random.RandomState(100 + s)
      amp = (0.3, 3.0, 30.0)[s % 3]
      Tm = rng.randn(*coords.modal_shape) * mask * amp / (1 + np.arange(mask.shape[1]))[None, None, :] ** 2
      psm = rng.randn(*coords.surface_modal_shape) * mask * 0.03
      psm[..., 0, 0] += np.log(float(specs.nondimensionalize(1e5 * common_units().pascal))) * np.sqrt(4 * np.pi)
      st = pe.State(jnp.zeros(coords.modal_shape), jnp.zeros(coords.modal_shape), jnp.asarray(Tm), jnp.asarray(psm))
      with np.errstate(all='ignore'):
        r = f.explicit_terms(st)
      nodal_T = np.asarray(g.to_nodal(jnp.asarray(Tm))) + np.asarray(f.reference_temperature)[:, None, None]
      nodal_ps = np.exp(np.asarray(g.to_nodal(jnp.asarray(psm))))[0]
      teq = _teq_spec(f, specs, coords, nodal_ps)
      floor_hit += int((teq == float(f.minT)).sum())
      want = np.asarray(g.to_modal(jnp.asarray(-kt_spec * (nodal_T - teq))))
      got = np.asarray(r.temperature_variation)
      sc = max(1e-30, np.abs(want).max())
      e = np.abs(got - want).max() / sc if np.all(np.isfinite(got)) else np.inf
      worst = max(worst, e)
      if not np.all(teq >= float(f.minT)):
        worst = np.inf
    nm = f'{name}:temperature tendency == to_modal(-kt (T - T_eq)), T_eq >= minT ({nstates} states, three amplitudes)'
    (out.ok(nm, 'numeric', sample={'obligation': nm, 'worst_rel': float(worst), 'entries_at_floor': floor_hit}) if worst <= 1e-10 else
     out.fail(nm, witness=wit, detail=f'worst relative deviation {worst:.3e}', key=f'{impl}:relaxation'))
  return out


def common_units():
  from dinosaur import scales
  return scales.units


def _radiation_objects(tier):
  from dinosaur import coordinate_systems as cs, radiation as rad, scales, sigma_coordinates as sc, spherical_harmonic as sh
  from dinosaur import primitive_equations as pe
  out = []
  grids = [('T21', sh.Grid.T21()), ('T42', sh.Grid.T42())] + ([('T85', sh.Grid.T85())] if tier == 'thorough' else [])
  custom = scales.Scale(1e5 * scales.units.m, 1000 * scales.units.s, 3.0 * scales.units.kg, 2.0 * scales.units.degK)
  for gname, g in grids:
    coords = cs.CoordinateSystem(g, sc.SigmaCoordinates.equidistant(2))
    for sname, scale in (('default', scales.DEFAULT_SCALE), ('custom', custom)):
      specs = pe.PrimitiveEquationsSpecs.from_si(scale=scale)
      for ref in (datetime.datetime(1979, 1, 1), np.datetime64('2000-02-29T13:17')):
        for norm in (False, True):
          ctor = rad.SolarRadiation.normalized if norm else rad.SolarRadiation
          out.append((f'{gname}:{sname}:{ref}:{"normalized" if norm else "physical"}', ctor(coords, specs, ref), specs, norm))
  return out


def run_radiation_numeric(ctx):
  jax = common.jx()
  import jax.numpy as jnp
  from dinosaur import radiation as rad, scales
  out = Outcome()
  u = scales.units
  rng = np.random.RandomState(11)
  ntimes = 12 if ctx.tier == 'quick' else 60
  for name, sr, specs, norm in _radiation_objects(ctx.tier):
    g = sr.coords.horizontal
    day = float(specs.nondimensionalize(1 * u.day))
    year = float(specs.nondimensionalize(1 * u.year))
    times = np.concatenate([[0.0, 0.25 * day, 0.5 * day, 182.6 * day, -3.3 * day],
                            rng.uniform(0, 1, ntimes) * np.array([day, 10 * day, 400 * day, 4000 * day] * (ntimes // 4 + 1))[:ntimes]])
    peak = 1.0 if norm else float(specs.nondimensionalize(rad.TOTAL_SOLAR_IRRADIANCE + rad.SOLAR_IRRADIANCE_VARIATION))
    worst_mean, worst_b, worst_p = 0.0, 0.0, 0.0
    bad = None
    for t in times:
      fl = np.asarray(sr.radiation_flux(t))
      ot = sr.time_to_orbital_time(t)
      o, s = float(ot.orbital_phase), float(ot.synodic_phase)
      if not (0 <= o < 2 * np.pi and 0 <= s < 2 * np.pi):
        bad = f't={t}: phases ({o},{s}) not in [0, 2pi)'
      sa = np.asarray(rad.get_solar_sin_altitude(o, s, sr.lon, sr.lat))
      if fl.min() < 0 or fl.max() > peak * (1 + 1e-12) or np.any(fl[sa <= 0] != 0) or not np.all(np.isfinite(fl)):
        bad = f't={t}: min {fl.min():.3e} max/peak {fl.max() / peak:.6f} night-side max {np.abs(fl[sa <= 0]).max() if (sa <= 0).any() else 0:.3e}'
      S = float(sr.total_solar_irradiance + sr.solar_irradiance_variation * np.cos(o - float(rad.PERIHELION)))
      mean = float(g.integrate(jnp.asarray(fl))) / (4 * np.pi * g.radius ** 2)
      worst_mean = max(worst_mean, abs(mean / (S / 4) - 1))
      # periodicity (floats): one more day / one more year changes the phases by 2 pi
      f2 = np.asarray(sr.radiation_flux(t + day))
      # after exactly one day only the synodic phase repeats; the orbital phase moved by 2pi/365.25: compare through the pure function
      fa = np.asarray(rad.get_radiation_flux(rad.OrbitalTime(o, s), sr.lon, sr.lat, sr.total_solar_irradiance, sr.solar_irradiance_variation))
      fb = np.asarray(rad.get_radiation_flux(rad.OrbitalTime(o + 2 * np.pi, s - 2 * np.pi), sr.lon, sr.lat, sr.total_solar_irradiance, sr.solar_irradiance_variation))
      worst_p = max(worst_p, np.abs(fa - fb).max() / peak, np.abs(fa - fl).max() / peak)
    nlon, nlat = g.nodal_shape
    tol_mean = 40.0 / min(nlon, nlat) ** 2       # quadrature error of a field with a kink along the terminator: O(h^2)
    nm = f'{name}:0 <= flux <= perihelion constant, night side exactly 0, phases in [0, 2pi), finite ({len(times)} times)'
    (out.ok(nm, 'numeric') if bad is None else out.fail(nm, witness={'case': name}, detail=bad, key='radiation bounds'))
    nm = f'{name}:global mean flux == irradiance/4 within quadrature error {tol_mean:.2e}'
    (out.ok(nm, 'numeric', sample={'obligation': nm, 'worst_rel': worst_mean}) if worst_mean <= tol_mean else
     out.fail(nm, witness={'case': name}, detail=f'worst relative deviation {worst_mean:.3e}', key='radiation mean'))
    nm = f'{name}:flux periodic under +-2pi phase shifts (floats, 1e-9)'
    (out.ok(nm, 'numeric') if worst_p <= 1e-9 else out.fail(nm, witness={'case': name}, detail=f'{worst_p:.3e}', key='radiation periodic'))
  return out


def clauses(tier, seed):
  from contracts import forcing_contracts as F
  hsf = [HS + n for n in ('kv', 'kt', 'equilibrium_temperature', 'explicit_terms')]
  radf = [RAD + n for n in ('get_radiation_flux', 'get_solar_sin_altitude', 'get_direct_solar_irradiance', 'SolarRadiation.radiation_flux',
                            'SolarRadiation.time_to_orbital_time', 'SolarRadiation.normalized', 'SolarRadiation.__init__')]
  cl = [c for c in F.clauses()]
  cl += [
      Clause('static:Held-Suarez tendency structure (no surface-pressure tendency, drag linear in the wind, decoupled)', 'static', hsf,
             run_hs_static, replay=rerun_replay(run_hs_static), group='jax-a', heavy=True),
      Clause('numeric:Held-Suarez drag == -kv(sigma) on the complete (vorticity, divergence) basis', 'numeric', hsf, run_hs_drag,
             replay=rerun_replay(run_hs_drag), group='jax-b', heavy=True),
      Clause('numeric:Held-Suarez relaxation == -kt (T - T_eq) vs independent pointwise specification', 'numeric', hsf, run_hs_relaxation,
             replay=rerun_replay(run_hs_relaxation), group='jax-c', heavy=True),
      Clause('numeric:SolarRadiation bounds, night side, global mean == S/4, periodicity (floats)', 'numeric', radf, run_radiation_numeric,
             replay=rerun_replay(run_radiation_numeric), group='jax-d', heavy=True),
  ]
  from contracts import equivariance_contracts
  from vlib.core import rerun_any_replay
  for c in equivariance_contracts.held_suarez_clauses():
    c.replay = rerun_any_replay(run_hs_drag)
    cl.append(c)
  return cl


MANIFEST = {
    'engine': 'pyvc+jxa',
    'technique': ('contract-based deductive: HeldSuarezForcing.explicit_terms proved equal to Rayleigh drag on the unclipped wind + Newtonian relaxation as an operator expression (all fields, sizes); VCs generated from the real source of the radiation and Held-Suarez coefficient functions in '
                  'elementwise mode (z3 NRA, uninterpreted sin/cos/exp/log with stated axioms); jaxpr static analysis for the tendency '
                  'structure; bounded numeric twins (drag matrix on complete basis, relaxation vs independent spec, global mean)'),
    'text': ('other: pointwise bounds / night-side zero / periodicity / phase reduction / coefficient signs are proved for all inputs from the '
             'real source (reals for floats); the tendency structure is proved per configuration from the jaxpr; the drag identity is complete '
             'over states per configuration; relaxation and the global-mean identity are sampled/bounded.'),
    'note': 'trusted: A1, A9 axioms, elementwise abstraction, jxa rules, z3; quadrature-error constant 40/min(nlon,nlat)^2 is empirical.',
}
