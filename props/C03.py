"""C03 -- the implicit solve is the exact inverse of (1 - step * implicit tendency)."""
from __future__ import annotations

import numpy as np

from vlib.core import Clause, Outcome
from props import common

LEVEL = 'other'
PE = 'dinosaur.primitive_equations.'
SW = 'dinosaur.shallow_water.'
EXPLANATION = (
    'Deductive: (static, per configuration) implicit_terms and implicit_inverse(., eta) are linear and vorticity/tracers '
    'pass through the solve untouched, read off the traced programs; (smt) the time-reversed equation inherits the '
    'resolvent property from the forward contract for step sizes of either sign. Bounded, complete over states by '
    'linearity: with A the matrix of implicit_terms and B_eta of implicit_inverse on the complete state basis, '
    'B(I - eta A) = (I - eta A)B = I; all solve methods give the same B; dense and cumulative-sum vertical products give the '
    'same A; _get_implicit_term_matrix(eta) = I - eta A. Enumerated level sets, reference profiles, constants, step sizes, grids.')
ASSUMPTIONS = [
    'A1/A2: float64; residual tolerance 1e-9 * (1 + ||B||_max * ||I - eta A||_max)',
    'bounded over Cfg-imp (level sets x reference profiles x constants x eta x grids)',
    'np.linalg.inv accuracy for every level set is not proved (external)',
]
TOL = 1e-9
ETAS_Q = (1e-3, -0.37, 5.0)
ETAS_T = (1e-3, -1e-3, 0.37, -0.37, 5.0, -5.0)


def _state_matrix(fn, s0):
  from vlib import jxa
  A, unr, _, y0 = jxa.matrix_of(fn, s0)
  return A, y0


def _cfgs(tier, seed):
  out = []
  grids = [('real', common.make_grid(3, 4, 8, 7, 'gauss', 'real')), ('fast', common.make_grid(3, 4, 8, 7, 'gauss', 'fast'))]
  if tier == 'thorough':
    grids.append(('fast-pad', common.make_grid(3, 4, 8, 7, 'gauss', 'fast', base_shape_multiple=4)))
    grids.append(('real-r', common.make_grid(4, 5, 12, 9, 'gauss', 'real', 0.0, 2.5)))
  levels = common.cfg_levels(tier, seed)
  trefs = ('constant', 'linear', 'random', 'isothermal_top')
  for gname, g in grids:
    for lname, sig in levels:
      for tk in trefs:
        if gname != 'real' and (tier == 'quick') and not (lname.startswith('uneven3') and tk in ('linear', 'isothermal_top')):
          continue
        if sig.layers == 1 and tk != 'constant':
          continue
        out.append(dict(name=f'{gname}:{lname}:{tk}', grid=g, sigma=sig, tref=tk))
  return out


def run_linearity(ctx):
  jax = common.jx()
  from vlib import jxa
  out = Outcome()
  for c in _cfgs(ctx.tier, ctx.seed)[:8 if ctx.tier == 'quick' else None]:
    for method in ('dense', 'sparse'):
      eq = common.make_primitive(c['grid'], c['sigma'], c['tref'], vertical_matmul_method=method)
      s0 = common.zero_state(eq, tracers=('q',))
      outs, tree, an, _ = jxa.analyze(eq.implicit_terms, (s0,))
      d, why = jxa.max_degree(outs)
      name = f'{c["name"]}:{method}:implicit_terms-linear'
      (out.ok(name, 'static') if d is not None and d <= 1 else (out.undec(name, why) if d is None else out.fail(name, witness={'cfg': c['name']}, detail=f'degree {d}', key=name)))
    eq = common.make_primitive(c['grid'], c['sigma'], c['tref'])
    s0 = common.zero_state(eq, tracers=('q',))
    for meth in ('split', 'stacked', 'blockwise'):
      fn = lambda s: eq.implicit_inverse(s, 0.37, method=meth)
      outs, tree, an, closed = jxa.analyze(fn, (s0,))
      d, why = jxa.max_degree(outs)
      name = f'{c["name"]}:{meth}:implicit_inverse-linear'
      (out.ok(name, 'static') if d is not None and d <= 1 else (out.undec(name, why) if d is None else out.fail(name, witness={'cfg': c['name']}, detail=f'degree {d}', key=name)))
      # pass-through: vorticity and tracer outputs are the very input variables (identity), nothing else
      jaxpr = closed.jaxpr
      in_leaves = jax.tree_util.tree_leaves(s0)
      names = ['vorticity', 'divergence', 'temperature_variation', 'log_surface_pressure', 'tracer:q']
      flat_out = jaxpr.outvars
      ok = flat_out[0] is jaxpr.invars[0] and flat_out[4] is jaxpr.invars[4]
      name = f'{c["name"]}:{meth}:vorticity-and-tracers-pass-through-the-solve-unchanged'
      (out.ok(name, 'static') if ok else out.fail(name, witness={'cfg': c['name'], 'method': meth}, detail='output variable is not the input variable', key=name))
  return out


def _check_resolvent(out, tag, A, B, eta, n_state, wit):
  I = np.eye(A.shape[0])
  Mx = I - eta * A
  scale = 1 + np.abs(B).max() * np.abs(Mx).max()
  for nm, E in (('B(I-eta A)=I', B @ Mx - I), ('(I-eta A)B=I', Mx @ B - I)):
    err = float(np.abs(E).max()) / scale
    name = f'{tag}:eta={eta}:{nm}'
    if np.isfinite(err) and err <= TOL:
      out.ok(name, 'numeric', sample={'obligation': name, 'scaled_residual': err, 'state_dim': int(A.shape[0])})
    else:
      i, j = np.unravel_index(np.nanargmax(np.abs(E)), E.shape) if np.isfinite(E).any() else (0, 0)
      out.fail(name, witness=dict(wit, eta=eta, basis_index=int(j)), detail=f'scaled residual {err:.3e} (state basis vector {j} -> component {i})', key=name)


def run_primitive_resolvent(ctx):
  jax = common.jx()
  import jax.numpy as jnp
  out = Outcome()
  etas = ETAS_Q if ctx.tier == 'quick' else ETAS_T
  cfgs = _cfgs(ctx.tier, ctx.seed)
  for c in cfgs:
    eqs = {m: common.make_primitive(c['grid'], c['sigma'], c['tref'], vertical_matmul_method=m) for m in ('dense', 'sparse')}
    s0 = common.zero_state(eqs['dense'], tracers=('q',))
    A = {}
    for m, eq in eqs.items():
      A[m], y0 = _state_matrix(eq.implicit_terms, s0)
      name = f'{c["name"]}:{m}:implicit_terms(0)=0'
      (out.ok(name, 'numeric') if not np.abs(y0).max() else out.fail(name, witness={'cfg': c['name']}, detail='f(0) != 0', key=name))
    # dense vs cumulative-sum vertical products: same operator
    scaleA = max(1.0, np.abs(A['dense']).max())
    err = float(np.abs(A['dense'] - A['sparse']).max()) / scaleA
    name = f'{c["name"]}:implicit_terms dense == sparse (cumulative-sum) vertical products'
    wit = {'cfg': c['name'], 'boundaries': [float(b) for b in c['sigma'].boundaries], 'tref': c['tref']}
    if err <= 1e-12:
      out.ok(name, 'numeric', sample={'obligation': name, 'rel_diff': err})
    else:
      j = int(np.argmax(np.abs(A['dense'] - A['sparse']).max(axis=0)))
      out.fail(name, witness=dict(wit, basis_index=j), detail=f'relative difference {err:.3e} (abs {np.abs(A["dense"] - A["sparse"]).max():.3e})',
               key='dense!=sparse:' + ('uneven' if 'uneven' in c['name'] else 'even'))
    eq = eqs['dense']
    for eta in etas:
      Bs = {}
      for meth in ('split', 'stacked', 'blockwise'):
        Bs[meth], _ = _state_matrix(lambda s: eq.implicit_inverse(s, eta, method=meth), s0)
      _check_resolvent(out, f'{c["name"]}:split', A['dense'], Bs['split'], eta, None, dict(wit, method='split'))
      for meth in ('stacked', 'blockwise'):
        sc = max(1.0, np.abs(Bs['split']).max())
        err = float(np.abs(Bs[meth] - Bs['split']).max()) / sc
        name = f'{c["name"]}:eta={eta}:implicit_inverse {meth} == split'
        if err <= 1e-9:
          out.ok(name, 'numeric', sample={'obligation': name, 'rel_diff': err})
        else:
          j = int(np.argmax(np.abs(Bs[meth] - Bs['split']).max(axis=0)))
          out.fail(name, witness=dict(wit, eta=eta, method=meth, basis_index=j), detail=f'relative difference {err:.3e}',
                   key=f'{meth}!=split:' + ('uneven' if 'uneven' in c['name'] else 'even'))
      # _get_implicit_term_matrix(eta) == I - eta*A restricted to (div, temp, logp), per total wavenumber
      from dinosaur import primitive_equations as pe
      Mx = pe._get_implicit_term_matrix(eta, eq.coords, eq.reference_temperature, eq.physics_specs.kappa, eq.physics_specs.R)
      n = c['sigma'].layers
      nm_, nl_ = c['grid'].modal_shape
      full = np.eye(A['dense'].shape[0]) - eta * A['dense']
      # index helpers into the raveled state (vor, div, temp, lsp, tracer)
      blk = n * nm_ * nl_
      def idx(field, k, m, l):
        base = {'div': blk, 'temp': 2 * blk, 'lsp': 3 * blk}[field]
        return base + (k * nm_ + m) * nl_ + l
      worst = 0.0
      for l in range(nl_):
        for m in (0, min(2, nm_ - 1)):
          rows = [idx('div', k, m, l) for k in range(n)] + [idx('temp', k, m, l) for k in range(n)] + [idx('lsp', 0, m, l)]
          sub = full[np.ix_(rows, rows)]
          worst = max(worst, float(np.abs(sub - Mx[l]).max()) / max(1.0, np.abs(Mx[l]).max()))
      name = f'{c["name"]}:eta={eta}:_get_implicit_term_matrix == I - eta*implicit_terms (block by block)'
      (out.ok(name, 'numeric') if worst <= 1e-12 else out.fail(name, witness=dict(wit, eta=eta), detail=f'rel diff {worst:.3e}', key=name))
  out.info['configurations'] = [c['name'] for c in cfgs]
  return out


def run_shallow_water(ctx):
  jax = common.jx()
  import jax.numpy as jnp
  from dinosaur import shallow_water as sw
  from dinosaur import coordinate_systems as cs
  from dinosaur import layer_coordinates
  out = Outcome()
  rng = np.random.RandomState(ctx.seed + 5)
  etas = ETAS_Q if ctx.tier == 'quick' else ETAS_T
  for impl in ('real', 'fast'):
    g = common.make_grid(3, 4, 8, 7, 'gauss', impl)
    for layers in (1, 2, 3) if ctx.tier == 'quick' else (1, 2, 3, 4):
      coords = cs.CoordinateSystem(g, layer_coordinates.LayerCoordinates(layers))
      dens = np.sort(rng.uniform(0.5, 2.0, layers))
      refpot = rng.uniform(0.5, 3.0, layers)
      eq = _make_sw(sw, coords, dens, refpot)
      z = jnp.zeros(coords.modal_shape)
      s0 = sw.State(z, z, z)
      A, y0 = _state_matrix(eq.implicit_terms, s0)
      for eta in etas:
        B, _ = _state_matrix(lambda s: eq.implicit_inverse(s, eta), s0)
        _check_resolvent(out, f'shallow_water:{impl}:layers={layers}', A, B, eta, None, {'cfg': f'sw-{impl}-{layers}'})
  return out


def _make_sw(sw, coords, dens, refpot, orography=None):
  import inspect
  from dinosaur import scales
  units = scales.units
  specs = sw.ShallowWaterSpecs.from_si(densities=dens * units.kg / units.m ** 3)
  orog = np.zeros(coords.horizontal.modal_shape) if orography is None else orography
  return sw.ShallowWaterEquations(coords=coords, physics_specs=specs, orography=orog, reference_potential=refpot)


def replay_primitive_default(w):
  """Native: implicit_terms of the real class against the documented operator assembled with numpy (uneven levels, linear reference profile)."""
  jax = common.jx()
  import jax.numpy as jnp
  from dinosaur import primitive_equations as pe
  rng = np.random.RandomState(3)
  g = common.make_grid(3, 4, 10, 7, 'gauss', 'real')
  for layers in (2, 4):
    sig = common.sigma_levels('uneven', layers, 0)
    eq = common.make_primitive(g, sig, 'linear', cls='dry')
    mask = np.asarray(g.mask)
    f = lambda n: jnp.asarray(np.where(mask, rng.randn(n, *g.modal_shape), 0.0))
    st = pe.State(f(layers), f(layers), f(layers), f(1), {})
    out = eq.implicit_terms(st)
    lam = np.asarray(g.laplacian_eigenvalues)[None, None, :]
    G = pe.get_geopotential_weights(sig, eq.physics_specs.R)
    H = pe.get_temperature_implicit_weights(sig, eq.reference_temperature, eq.physics_specs.kappa)
    T, D, P = (np.asarray(v) for v in (st.temperature_variation, st.divergence, st.log_surface_pressure))
    want_div = -lam * (np.einsum('gh,hml->gml', G, T) + eq.physics_specs.R * eq.reference_temperature[:, None, None] * P)
    want_T = -np.einsum('gh,hml->gml', H, D)
    want_p = -np.einsum('h,hml->ml', sig.layer_thickness, D)[None]
    errs = {'divergence': float(np.abs(np.asarray(out.divergence) - want_div).max()), 'temperature': float(np.abs(np.asarray(out.temperature_variation) - want_T).max()),
            'log_surface_pressure': float(np.abs(np.asarray(out.log_surface_pressure) - want_p).max()), 'vorticity': float(np.abs(np.asarray(out.vorticity)).max())}
    scale = max(1.0, float(np.abs(want_div).max()), float(np.abs(want_T).max()))
    if max(errs.values()) > 1e-9 * scale:
      return True, f'{layers} uneven layers: implicit_terms differs from the documented operator: {errs} (scale {scale:.3e})'
  return False, 'implicit_terms equals the documented linear operator on the sampled states'


def clauses(tier, seed):
  from contracts import column_contracts, conformance_contracts, implicit_contracts, vertical_matrix_contracts
  col = column_contracts.clauses()['C03']
  for c in col:
    c.replay = replay_primitive_default
  return _numeric_clauses(tier, seed) + implicit_contracts.clauses() + vertical_matrix_contracts.clauses() + col + [conformance_contracts.clauses()['C03']]


def _numeric_clauses(tier, seed):
  fns = [PE + 'PrimitiveEquations.implicit_terms', PE + 'PrimitiveEquations.implicit_inverse', PE + '_get_implicit_term_matrix',
         PE + 'get_geopotential_weights', PE + 'get_geopotential_diff', PE + 'get_temperature_implicit_weights',
         PE + 'get_temperature_implicit', PE + '_vertical_matvec', PE + '_vertical_matvec_per_wavenumber', PE + 'get_sigma_ratios']
  return [
      Clause('static:implicit_terms/implicit_inverse linear; vorticity and tracers pass through', 'static', fns, run_linearity, group='jax-a', heavy=True),
      Clause('numeric:primitive resolvent identities, method agreement, dense==sparse, block matrix', 'numeric', fns,
             run_primitive_resolvent, replay=replay_primitive, group='jax-b', heavy=True),
      Clause('numeric:shallow-water resolvent identities', 'numeric', [SW + 'ShallowWaterEquations.implicit_terms', SW + 'ShallowWaterEquations.implicit_inverse'],
             run_shallow_water, group='jax-c', heavy=True),
  ]


def replay_primitive(w):
  jax = common.jx()
  import jax.numpy as jnp
  from jax.flatten_util import ravel_pytree
  from dinosaur import sigma_coordinates as sc
  gname = w['cfg'].split(':')[0]
  g = {'real': common.make_grid(3, 4, 8, 7, 'gauss', 'real'), 'fast': common.make_grid(3, 4, 8, 7, 'gauss', 'fast'),
       'fast-pad': common.make_grid(3, 4, 8, 7, 'gauss', 'fast', base_shape_multiple=4),
       'real-r': common.make_grid(4, 5, 12, 9, 'gauss', 'real', 0.0, 2.5)}[gname]
  sig = sc.SigmaCoordinates(np.asarray(w['boundaries']))
  eqd = common.make_primitive(g, sig, w['tref'], vertical_matmul_method='dense')
  eqs = common.make_primitive(g, sig, w['tref'], vertical_matmul_method='sparse')
  s0 = common.zero_state(eqd, tracers=('q',))
  x0, unr = ravel_pytree(s0)
  e = np.zeros(x0.size)
  e[int(w.get('basis_index', 0))] = 1.0
  x = unr(jnp.asarray(e))
  msgs = []
  bad = False
  d = ravel_pytree(eqd.implicit_terms(x))[0]
  s = ravel_pytree(eqs.implicit_terms(x))[0]
  diff = float(jnp.abs(d - s).max())
  msgs.append(f'|implicit_terms dense - sparse| on basis state {w.get("basis_index")} = {diff:.3e}')
  bad |= diff > 1e-10 * max(1.0, float(jnp.abs(d).max()))
  if 'eta' in w:
    eta = float(w['eta'])
    meth = w.get('method', 'split')
    y = unr(x0 + jnp.asarray(e) - eta * ravel_pytree(eqd.implicit_terms(x))[0])
    back = ravel_pytree(eqd.implicit_inverse(y, eta, method=meth))[0]
    r = float(jnp.abs(back - jnp.asarray(e)).max())
    msgs.append(f'|implicit_inverse[{meth}](x - eta*implicit_terms(x), eta) - x| = {r:.3e} for eta={eta}')
    bad |= r > 1e-7
  return bad, f'sigma boundaries {w["boundaries"]}, T_ref {w["tref"]}: ' + '; '.join(msgs)


MANIFEST = {
    'engine': 'pyvc+jxa',
    'technique': 'contract-based deductive: shallow-water resolvent (both sides, both signs of eta), linearity and TimeReversedImExODE proved from the real source (pyvc, z3 NRA); the vertical weight matrices G and H equal their documented entries and the cumulative-sum (sparse) products equal the dense ones for every number of layers (pyvc matrix mode: loop invariants, ghost partial sums, induction lemma, case-split nlsat); linearity and pass-through proved on the traced program; primitive-equation resolvent / method-agreement identities as matrix identities on the complete state basis (bounded over level sets, profiles, step sizes)',
    'text': ('other: complete over states (linearity proved per configuration from the jaxpr, then matrices on the full state basis), '
             'bounded over the enumerated vertical discretisations, reference profiles, step sizes of both signs, grids and methods.'),
    'note': 'trusted: np.linalg.inv as used by the code; A1/A2; jxa rules; callee contracts of the vertical-matrix clauses (_vertical_matvec == row sums, _dot_cumsum == prefix/suffix sums -- the latter under contract in C13/C07); A9 log uninterpreted. The primitive-equation implicit_inverse (per-wavenumber matrix inverse) is decided by bounded matrix identities only.',
}
