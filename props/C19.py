"""C19 -- persistence and restructuring round trips lose nothing."""
from __future__ import annotations

import itertools
import os
import shutil
import tempfile

import numpy as np

from vlib.core import Clause, Outcome
from props import common

LEVEL = 'other'
PU = 'dinosaur.pytree_utils.'
CS = 'dinosaur.coordinate_systems.'
XU = 'dinosaur.xarray_utils.'
EXPLANATION = (
    'Bounded run-time contracts on the real functions: flatten/unflatten round trip enumerated exhaustively over all '
    'nested dictionaries of depth <= 3 with <= 2 entries per level over the key alphabet {"", a, ab, ac, b} (empty '
    'sub-dictionaries included) and over separators; pack/unpack, stack/unstack, split/concat, slice, split_axis on '
    'heterogeneous pytrees for every axis/index in range; spectral up/down-sampling as matrix identities on complete '
    'bases (down o up = id; up-sampling represents the same analytic function on the finer grid, against the '
    'closed-form harmonics); coordinate-system attrs and dataset/netCDF round trips on enumerated coordinate systems. '
    'No SMT clause is built for this property yet (string VCs planned in DESIGN).')
ASSUMPTIONS = ['bounded: enumerated dictionaries / pytrees / coordinate systems', 'xarray, netCDF backends used as they are']


# ---- nested dictionaries ------------------------------------------------------------------------------------------


def _dicts(keys, depth, max_entries):
  """All nested dicts of given depth over keys with 1..max_entries entries per level (leaves: ints or {})."""
  leaves = [1, {}]
  if depth == 1:
    vals = leaves
  else:
    vals = leaves + list(_dicts(keys, depth - 1, max_entries))
  for n in range(0, max_entries + 1):
    for ks in itertools.combinations(keys, n):
      for vs in itertools.product(range(len(vals)), repeat=n):
        yield {k: _copy(vals[v]) for k, v in zip(ks, vs)}


def _copy(v):
  return {k: _copy(x) for k, x in v.items()} if isinstance(v, dict) else v


def run_flatten(ctx):
  from dinosaur import pytree_utils as pu
  out = Outcome()
  keys = ['', 'a', 'ab', 'ac', 'b']
  depth = 3
  seps = ['&', '/', '::']
  fail_kinds = {}
  n = 0
  seen_nontrivial = 0
  inner = ['', 'a', 'ab']

  def gen(full=True):
    v0 = [1, {}]
    v1 = v0 + list(_enum_level(inner, v0, 1))            # depth-1 dictionaries with <= 1 entry
    v2 = v0 + list(_enum_level(inner, v1, 2))            # depth-2 dictionaries with <= 2 entries
    top_keys = inner if ctx.tier == 'quick' else keys
    if full:
      for d in _enum_level(top_keys, v2, 2):             # depth-3 dictionaries with <= 2 entries
        yield d
    else:
      for d in _enum_level(inner[:2], v2, 1):            # other separators (quick): depth-3, one entry at the top
        yield d
    for d in _enum_level(keys, v0 + list(_enum_level(keys, v0, 2)), 2):   # depth-2 over the full alphabet (ab/ac collisions)
      yield d
  for sep in seps:
    for d in gen(full=(sep == '&' or ctx.tier == 'thorough')):
      n += 1
      try:
        flat, empty = pu.flatten_dict(_copy(d), sep=sep)
        back = pu.unflatten_dict(flat, empty, sep=sep)
        ok = back == d
        kind = None if ok else _classify(d)
        detail = f'round trip gives {back}'
      except Exception as e:  # pylint: disable=broad-except
        ok = False
        kind = _classify(d, e)
        detail = f'raises {type(e).__name__}: {str(e)[:80]}'
      if not ok:
        fail_kinds.setdefault((kind, sep), (d, detail))
  for (kind, sep), (d, detail) in sorted(fail_kinds.items(), key=lambda kv: str(kv[0])):
    name = f'flatten/unflatten round trip [sep={sep!r}]: {kind}'
    out.fail(name, witness={'dict': repr(d), 'sep': sep}, detail=f'{d!r}: {detail}', key=kind)
  name = f'flatten_dict/unflatten_dict: unflatten(*flatten(d)) == d for all {n} nested dictionaries (depth<=3, <=2 entries per level, keys from {keys}, seps {seps})'
  if not fail_kinds:
    out.ok(name, 'enum', sample={'obligation': name, 'dictionaries': n})
  else:
    out.obligations += 1
    out.discharged += 1 if False else 0
  out.info['dictionaries'] = n
  # replace_with_matching_or_default
  x = {'a': 1, 'b': {'c': 2, 'd': {}}, 'e': {}}
  r = pu.replace_with_matching_or_default(x, {'b': {'c': 7}}, default=None)
  name = 'replace_with_matching_or_default keeps the structure (including empty sub-dictionaries) and replaces matching leaves'
  (out.ok(name, 'enum') if r == {'a': None, 'b': {'c': 7, 'd': {}}, 'e': {}} else out.fail(name, witness={}, detail=str(r), key=name))
  # separator inside a key must be rejected
  name = 'flatten_dict rejects keys that contain the separator (at any depth, any sep)'
  ok = True
  for sep in ('&', '/'):
    for d in ({'a' + sep + 'b': 1}, {'x': {'a' + sep: 1}}, {'x': {'y': {sep: {}}}}):
      try:
        pu.flatten_dict(d, sep=sep)
        ok = False
      except ValueError:
        pass
  (out.ok(name, 'enum') if ok else out.fail(name, witness={}, detail='accepted a key containing the separator', key=name))
  return out


def _enum_level(keys, vals, max_entries):
  for n in range(0, max_entries + 1):
    for ks in itertools.combinations(keys, n):
      for vs in itertools.product(range(len(vals)), repeat=n):
        yield {k: _copy(vals[v]) for k, v in zip(ks, vs)}


def _has_empty_key_with_children(d):
  for k, v in d.items():
    if isinstance(v, dict):
      if k == '' and v:
        return True
      if _has_empty_key_with_children(v):
        return True
  return False


def _classify(d, exc=None):
  if exc is not None and isinstance(exc, IndexError):
    return "empty sub-dictionary under the key '' raises IndexError (x[0] of an empty key)"
  if _has_empty_key_with_children(d):
    return "a non-empty sub-dictionary under the key '' loses its nesting level (`if prefix`)"
  if exc is not None and isinstance(exc, ValueError) and 'duplicate' in str(exc):
    return 'two empty sub-dictionaries whose flattened keys share the first character are rejected as duplicates'
  return 'other: ' + (type(exc).__name__ if exc is not None else 'round trip differs')


# ---- pytrees ---------------------------------------------------------------------------------------------------------


def run_pytrees(ctx):
  import jax
  jax.config.update('jax_enable_x64', True)
  import jax.numpy as jnp
  from dinosaur import pytree_utils as pu
  out = Outcome()
  rng = np.random.RandomState(ctx.seed + 51)
  tree = {'a': jnp.asarray(rng.randn(2, 3, 4)), 'b': (jnp.asarray(rng.randn(1, 3, 4)), {'c': jnp.asarray(rng.randn(5, 3, 4))}), 'd': jnp.asarray(rng.randn(3, 3, 4))}
  eq = lambda x, y: jax.tree_util.tree_structure(x) == jax.tree_util.tree_structure(y) and all(
      np.array_equal(np.asarray(p), np.asarray(q)) for p, q in zip(jax.tree_util.tree_leaves(x), jax.tree_util.tree_leaves(y)))
  shapes_of = lambda t: jax.tree_util.tree_map(lambda x: np.asarray(x.shape), t)
  # pack / unpack along each axis where the other dims agree
  for axis in (-3, 0):
    packed = pu.pack_pytree(tree, axis)
    back = pu.unpack_to_pytree(packed, shapes_of(tree), axis)
    name = f'unpack_to_pytree(pack_pytree(t, axis={axis}), t) == t (leading sizes 2,1,5,3)'
    (out.ok(name, 'enum') if eq(back, tree) and packed.shape[axis] == 11 else out.fail(name, witness={'axis': axis}, detail='mismatch', key=name))
  t2 = {'a': jnp.asarray(rng.randn(3, 2, 4)), 'b': jnp.asarray(rng.randn(3, 7, 4))}
  back = pu.unpack_to_pytree(pu.pack_pytree(t2, -2), shapes_of(t2), -2)
  name = 'pack/unpack along axis=-2 with heterogeneous sizes (2,7)'
  (out.ok(name, 'enum') if eq(back, t2) else out.fail(name, witness={}, detail='mismatch', key=name))
  same = {'a': jnp.asarray(rng.randn(3, 4)), 'b': {'c': jnp.asarray(rng.randn(3, 4)), 'd': jnp.asarray(rng.randn(3, 4))}}
  for axis in (0, 1, -1, 2):
    try:
      st = pu.stack_pytree(same, axis)
      back = pu.unstack_to_pytree(st, same, axis)
      ok = eq(back, same)
    except Exception as e:  # pylint: disable=broad-except
      ok = False
    name = f'unstack_to_pytree(stack_pytree(t, axis={axis}), t) == t'
    (out.ok(name, 'enum') if ok else out.fail(name, witness={'axis': axis}, detail='mismatch', key=name))
  # split / concat for every index, slice_along_axis, split_axis
  t3 = {'u': jnp.asarray(rng.randn(5, 2, 3)), 'v': (jnp.asarray(rng.randn(5, 4)),)}
  for axis in (0,):
    for idx in range(0, 6):
      a, b = pu.split_along_axis(t3, idx, axis)
      back = pu.concat_along_axis([a, b], axis)
      name = f'concat_along_axis(split_along_axis(t, {idx}, axis={axis})) == t'
      (out.ok(name, 'enum') if eq(back, t3) else out.fail(name, witness={'idx': idx, 'axis': axis}, detail='mismatch', key=name))
  t4 = {'u': jnp.asarray(rng.randn(3, 5, 2))}
  for axis in (1, 2):
    for idx in (0, 1, 2):
      a, b = pu.split_along_axis(t4, idx, axis)
      name = f'split/concat axis={axis} idx={idx}'
      (out.ok(name, 'enum') if eq(pu.concat_along_axis([a, b], axis), t4) else out.fail(name, witness={'idx': idx, 'axis': axis}, detail='mismatch', key=name))
  for keep in (True, False):
    parts = pu.split_axis(t3, 0, keep_dims=keep)
    if keep:
      back = pu.concat_along_axis(list(parts), 0)
    else:
      back = jax.tree_util.tree_map(lambda *xs: jnp.stack(xs, 0), *parts)
    name = f'split_axis(keep_dims={keep}) reassembles to the original'
    (out.ok(name, 'enum') if eq(back, t3) and len(parts) == 5 else out.fail(name, witness={'keep_dims': keep}, detail='mismatch', key=name))
  for idx in (0, 2, 4, -1):
    s_ = pu.slice_along_axis(t3, 0, idx)
    want = jax.tree_util.tree_map(lambda x: x[idx], t3)
    name = f'slice_along_axis(t, 0, {idx}) selects that index on every leaf'
    (out.ok(name, 'enum') if eq(s_, want) else out.fail(name, witness={'idx': idx}, detail='mismatch', key=name))
  return out


# ---- spectral resampling -------------------------------------------------------------------------------------------


def run_resampling(ctx):
  jax = common.jx()
  import jax.numpy as jnp
  from vlib import jxa
  from dinosaur import coordinate_systems as cs
  from props import C02
  out = Outcome()
  sig = common.sigma_levels('equidistant', 2)
  for impl in ('real', 'fast'):
    small = common.make_grid(2, 3, 6, 5, 'gauss', impl)
    big = common.make_grid(3, 5, 10, 9, 'gauss', impl)
    csS, csB = cs.CoordinateSystem(small, sig), cs.CoordinateSystem(big, sig)
    up = cs.get_spectral_upsample_fn(csS, csB)
    down = cs.get_spectral_downsample_fn(csB, csS)
    x0 = jnp.zeros((2,) + tuple(small.modal_shape))
    U, _, _, _ = jxa.matrix_of(up, x0)
    D, _, _, _ = jxa.matrix_of(down, jnp.zeros((2,) + tuple(big.modal_shape)))
    name = f'{impl}: downsample(upsample(x)) == x exactly'
    (out.ok(name, 'numeric') if np.array_equal(D @ U, np.eye(U.shape[1])) else out.fail(name, witness={'impl': impl}, detail='not identity', key=name))
    name = f'{impl}: upsample writes the original at the prefix and zeros elsewhere'
    want = np.zeros_like(U)
    nmS, nlS = small.modal_shape
    nmB, nlB = big.modal_shape
    for k in range(2):
      for i in range(nmS):
        for l in range(nlS):
          want[(k * nmB + i) * nlB + l, (k * nmS + i) * nlS + l] = 1.0
    (out.ok(name, 'numeric') if np.array_equal(U, want) else out.fail(name, witness={'impl': impl}, detail='layout differs', key=name))
    # same analytic function on the finer grid (closed-form harmonics at the fine nodes)
    cB = dict(grid=big, impl=impl, name='big')
    cols, info = C02._oracle_matrices(cB)
    SB, _, _, _ = jxa.matrix_of(big.to_nodal, jnp.zeros(big.modal_shape))
    cS = dict(grid=small, impl=impl, name='small')
    colsS, infoS = C02._oracle_matrices(cS)
    SS, _, _, _ = jxa.matrix_of(small.to_nodal, jnp.zeros(small.modal_shape))
    worst = 0.0
    for kS, (i, l, m) in infoS.items():
      kB = i * nlB + l
      sgnS = 1.0 if np.abs(SS[:, kS] - colsS[0][:, kS]).max() <= np.abs(SS[:, kS] + colsS[0][:, kS]).max() else -1.0
      worst = max(worst, float(np.abs(SB[:, kB] - sgnS * cols[0][:, kB]).max()))
    name = f'{impl}: an up-sampled coefficient represents the same analytic harmonic on the finer grid'
    (out.ok(name, 'numeric', sample={'obligation': name, 'max_abs': worst}) if worst <= 1e-11 else out.fail(name, witness={'impl': impl}, detail=f'{worst:.3e}', key=name))
    # interpolate fn chooses up / down / raises on mixed
    f = cs.get_spectral_interpolate_fn(csS, csB)
    g = cs.get_spectral_interpolate_fn(csB, csS)
    same = cs.get_spectral_interpolate_fn(csS, csS)
    xr = jnp.asarray(np.random.RandomState(1).randn(2, *small.modal_shape))
    ok = np.array_equal(np.asarray(g(f(xr))), np.asarray(xr)) and np.array_equal(np.asarray(same(xr)), np.asarray(xr)) and f(xr).shape[-2:] == tuple(big.modal_shape)
    mixed = cs.CoordinateSystem(common.make_grid(2, 5, 6, 9, 'gauss', impl), sig)
    try:
      cs.get_spectral_interpolate_fn(csB, mixed) if False else cs.get_spectral_interpolate_fn(cs.CoordinateSystem(common.make_grid(3, 4, 10, 7, 'gauss', impl), sig), mixed)
      ok = False
    except ValueError:
      pass
    name = f'{impl}: get_spectral_interpolate_fn picks up/down-sampling by size and rejects mixed sizes'
    (out.ok(name, 'numeric') if ok else out.fail(name, witness={'impl': impl}, detail='wrong choice', key=name))
    for bad in ((csB, csS, cs.get_spectral_upsample_fn), (csS, csB, cs.get_spectral_downsample_fn)):
      name = f'{impl}: {bad[2].__name__} rejects the wrong direction'
      try:
        bad[2](bad[0], bad[1])
        out.fail(name, witness={'impl': impl}, detail='accepted', key=name)
      except ValueError:
        out.ok(name, 'numeric')
  return out


# ---- coordinate systems / datasets ---------------------------------------------------------------------------------------


def run_persistence(ctx):
  jax = common.jx()
  import jax.numpy as jnp
  import xarray
  from dinosaur import coordinate_systems as cs
  from dinosaur import layer_coordinates, sigma_coordinates as sc, vertical_interpolation as vi
  from dinosaur import xarray_utils as xu
  from dinosaur import primitive_equations as pe
  out = Outcome()
  verts = {'sigma-even': sc.SigmaCoordinates.equidistant(3), 'sigma-uneven': common.sigma_levels('uneven', 4, ctx.seed),
           'layers': layer_coordinates.LayerCoordinates(2), 'pressure': vi.PressureCoordinates([100.0, 500.0, 850.0])}
  grids = [c for c in common.cfg_grid('quick') if 'M3L4' in c['name'] or 'M4L5' in c['name']][:10]
  for c in grids:
    for vname, v in verts.items():
      coords = cs.CoordinateSystem(c['grid'], v)
      attrs = coords.asdict()
      name = f'{c["name"]}+{vname}: coordinate_system_from_attrs(asdict()) has the same discretisation'
      try:
        back = xu.coordinate_system_from_attrs(attrs)
        g0, g1 = coords.horizontal, back.horizontal
        ok = all(getattr(g0, f) == getattr(g1, f) for f in ('longitude_wavenumbers', 'total_wavenumbers', 'longitude_nodes', 'latitude_nodes',
                                                               'latitude_spacing', 'longitude_offset', 'radius')) and back.vertical == coords.vertical \
            and type(back.vertical) is type(coords.vertical)
        (out.ok(name, 'enum') if ok else out.fail(name, witness={'cfg': c['name'], 'vertical': vname}, detail='fields differ', key=name))
      except Exception as e:  # pylint: disable=broad-except
        out.fail(name, witness={'cfg': c['name'], 'vertical': vname}, detail=f'{type(e).__name__}: {e}', key=name)
  # states -> dataset -> (netcdf) -> states: names of dimensions and bit-identical values
  tmp = tempfile.mkdtemp(prefix='dv-c19-', dir='/var/tmp')
  try:
    for impl in ('real', 'fast'):
      g = common.make_grid(3, 4, 8, 7, 'gauss', impl)
      for vname in ('sigma-uneven',):
        v = verts[vname]
        coords = cs.CoordinateSystem(g, v)
        rng = np.random.RandomState(ctx.seed + 52)
        for ntr in (0, 1, 3):
          for with_time_axis, with_sample in ((True, False), (True, True), (False, False)):
            lead = ()
            times = sample_ids = None
            if with_time_axis:
              times = np.arange(3) * 0.5
              lead = (3,) + lead
            if with_sample:
              sample_ids = np.arange(2)
              lead = (2,) + lead
            mk = lambda shp: rng.randn(*(lead + shp)).astype(np.float32)
            state = pe.StateWithTime(mk(coords.modal_shape), mk(coords.modal_shape), mk(coords.modal_shape), mk(coords.surface_modal_shape),
                                     rng.rand(*lead).astype(np.float32) if lead else np.float32(1.5),
                                     {f'tr{k}': mk(coords.modal_shape) for k in range(ntr)})
            d = state.asdict()
            name = f'{impl}:{vname}:tracers={ntr}:time_axis={with_time_axis}:sample={with_sample}: data_to_xarray dims and read-back'
            try:
              ds = xu.data_to_xarray(d, coords=coords, times=times, sample_ids=sample_ids)
              exp = (('sample',) if with_sample else ()) + (('time',) if with_time_axis else ())
              ok = ds['vorticity'].dims == exp + ('level', 'longitudinal_mode', 'total_wavenumber') \
                  and ds['log_surface_pressure'].dims == exp + ('surface', 'longitudinal_mode', 'total_wavenumber') \
                  and ds['sim_time'].dims == exp
              path = os.path.join(tmp, 'x.nc')
              ds.to_netcdf(path)
              ds2 = xarray.open_dataset(path).load()
              back = xu.xarray_to_primitive_equations_with_time_data(ds2, tracers_to_include=[f'tr{k}' for k in range(ntr)])
              ok = ok and all(np.array_equal(np.asarray(back[k]), np.asarray(d[k])) for k in d if k != 'tracers') \
                  and all(np.array_equal(np.asarray(back['tracers'][k]), np.asarray(d['tracers'][k])) for k in d['tracers'])
              cs2 = xu.coordinate_system_from_attrs(ds2.attrs)
              ok = ok and cs2.vertical == coords.vertical and cs2.horizontal.total_wavenumbers == g.total_wavenumbers
              ds2.close()
              (out.ok(name, 'enum') if ok else out.fail(name, witness={'impl': impl, 'tracers': ntr}, detail='dims or values differ', key=name))
            except Exception as e:  # pylint: disable=broad-except
              out.fail(name, witness={'impl': impl, 'tracers': ntr}, detail=f'{type(e).__name__}: {str(e)[:200]}', key=name)
  finally:
    shutil.rmtree(tmp, ignore_errors=True)
  return out


def replay_flatten(w):
  import ast
  from dinosaur import pytree_utils as pu
  d = ast.literal_eval(w['dict'])
  sep = w.get('sep', '&')
  try:
    flat, empty = pu.flatten_dict(d, sep=sep)
    back = pu.unflatten_dict(flat, empty, sep=sep)
    return back != d, f'flatten_dict({d!r}, sep={sep!r}) = ({flat!r}, {empty!r}); unflatten gives {back!r}'
  except Exception as e:  # pylint: disable=broad-except
    return True, f'flatten_dict({d!r}, sep={sep!r}) raises {type(e).__name__}: {e}'


def clauses(tier, seed):
  return [
      Clause('enum:flatten_dict / unflatten_dict round trip over all small nested dictionaries', 'enum',
             [PU + 'flatten_dict', PU + 'unflatten_dict', PU + 'replace_with_matching_or_default'], run_flatten, replay=replay_flatten, group='a'),
      Clause('enum:pack/unpack, stack/unstack, split/concat, slice, split_axis on heterogeneous pytrees', 'enum',
             [PU + n for n in ('pack_pytree', 'unpack_to_pytree', 'stack_pytree', 'unstack_to_pytree', 'slice_along_axis', 'split_along_axis',
                               'split_axis', 'concat_along_axis')], run_pytrees, group='jax-b', heavy=True),
      Clause('numeric:spectral up/down-sampling (exact identities; same analytic function on the finer grid)', 'numeric',
             [CS + 'get_spectral_downsample_fn', CS + 'get_spectral_upsample_fn', CS + 'get_spectral_interpolate_fn'], run_resampling, group='jax-c', heavy=True),
      Clause('enum:coordinate-system attrs and dataset/netCDF round trips', 'enum',
             [XU + 'coordinate_system_from_attrs', XU + 'data_to_xarray', XU + '_infer_dims_shape_and_coords',
              XU + 'xarray_to_primitive_equations_with_time_data', CS + 'CoordinateSystem.asdict'], run_persistence, group='jax-d', heavy=True),
  ] + _pyvc_clauses()


def _pyvc_clauses():
  from contracts import dict_contracts, pytree_contracts, resample_contracts
  return dict_contracts.clauses() + resample_contracts.clauses() + pytree_contracts.clauses()


MANIFEST = {
    'engine': 'pyvc+rtc',
    'technique': ('contract-based deductive: string VCs from the real source of flatten_dict / unflatten_dict on nested dictionaries of enumerated shape with *symbolic* keys and '
                  'separator (z3 sequences, cvc5 --strings-exp; split lemma proved separately); bounded run-time round-trip contracts: exhaustive small dictionaries, pytrees/axes, '
                  'matrix identities for spectral resampling, enumerated coordinate systems and netCDF round trips'),
    'text': ('other: the dictionary round trip is proved for all key strings and all one-character separators on every shape of depth <= 3 (shapes enumerated, strings unbounded); '
             'the same VCs refute it for multi-character separators and empty keys (known findings with witnesses); everything else is bounded (enumerated).'),
    'note': 'trusted: xarray/netCDF; closed-form harmonics oracle of C02 for "same function on the finer grid".',
}
