"""C04 -- the full tendency does not depend on the reference-temperature split."""
from __future__ import annotations

import numpy as np

from vlib.core import Clause, Outcome
from props import common, tendency

LEVEL = 'other'
PE = 'dinosaur.primitive_equations.'
EXPLANATION = (
    'explicit_terms + implicit_terms of the dry and time-carrying equations is proved to be a polynomial map of degree '
    '<= 3 of the state from its traced program (static, per configuration). The difference D(x) between the total '
    'tendencies of the same physical atmosphere under two reference profiles is then evaluated on the degree-3 '
    'principal lattice of the admissible subspace, which is unisolvent: D = 0 there implies D = 0 for every admissible '
    'state of any amplitude (complete over states at the configuration). Profile pairs come from a family that spans '
    'the profiles affinely; level sets, grids, matmul methods, orography and tracers are enumerated. Moist classes are '
    'rational, not polynomial: sampled states.')
ASSUMPTIONS = [
    'A1/A2: float64, tolerance 1e-9 relative to the largest tendency on the lattice',
    'bounded over reference-profile pairs (affinely spanning family), sigma discretisations, grids; moist: sampled states',
    'lattice unisolvence theorem for total-degree polynomials (mathematics)',
]
SQRT4PI = float(np.sqrt(4 * np.pi))


def _profiles(n, specs, tier):
  base = common.reference_temperature('constant', n, specs)
  one = float(specs.nondimensionalize(1.0 * __import__('dinosaur.scales', fromlist=['units']).units.degK))
  fam = {'constant': base, 'linear': common.reference_temperature('linear', n, specs),
         'random': common.reference_temperature('random', n, specs),
         'isothermal_top': common.reference_temperature('isothermal_top', n, specs)}
  for k in range(n):
    e = base.copy()
    e[k] += 25.0 * one
    fam[f'constant+25K*e{k}'] = e
  pairs = [('constant', 'linear'), ('linear', 'random'), ('isothermal_top', 'random')] + [('constant', f'constant+25K*e{k}') for k in range(n)]
  if tier == 'quick':
    pairs = pairs[:3] + pairs[3:4]
  return fam, pairs


def _total(eq):
  import jax
  def f(s):
    e = eq.explicit_terms(s)
    i = eq.implicit_terms(s)
    return jax.tree_util.tree_map(lambda a, b: a + b, e, i)
  return f


def _configs(tier, seed):
  out = []
  for impl in ('real', 'fast'):
    for layers in ((2, 3) if tier == 'quick' else (2, 3, 4)):
      for method in (None, 'sparse'):
        if tier == 'quick' and impl == 'fast' and (layers != 3 or method is None):
          continue
        (M, L, lon, lat) = (2, 3, 6, 5)
        out.append(dict(impl=impl, layers=layers, method=method, M=M, L=L, lon=lon, lat=lat))
  if tier == 'thorough':
    out.append(dict(impl='real', layers=3, method='sparse', M=3, L=4, lon=10, lat=7))
  return out


def run_lattice(ctx):
  jax = common.jx()
  import jax.numpy as jnp
  from vlib import jxa
  out = Outcome()
  specs = common.physics_specs()
  rng = np.random.RandomState(ctx.seed + 21)
  for cls in ('dry', 'time'):
    for c in _configs(ctx.tier, ctx.seed):
      if cls == 'time' and (c['impl'] != 'real' or c['layers'] != 3) and ctx.tier == 'quick':
        continue
      g = common.make_grid(c['M'], c['L'], c['lon'], c['lat'], 'gauss', c['impl'])
      sig = common.sigma_levels('uneven', c['layers'], ctx.seed)
      oro = np.zeros(g.modal_shape)
      r2 = np.random.RandomState(ctx.seed + 3)
      for (m, trig, l) in tendency.canonical_modes(g):
        oro[tendency.row_of(g, c['impl'], m, trig), l] = 0.05 * r2.randn()
      fam, pairs = _profiles(c['layers'], specs, ctx.tier)
      eqs = {k: common.make_primitive(g, sig, v, cls=cls, specs=specs, orography=oro, vertical_matmul_method=c['method']) for k, v in fam.items()}
      any_eq = next(iter(eqs.values()))
      sp = tendency.primitive_space(any_eq, c['impl'], tracers=('q',))
      so = tendency.StateSpace(g, c['impl'], sp.fields, zero_mean=())
      tag = f'{cls}:{c["impl"]}:M{c["M"]}L{c["L"]}:layers{c["layers"]}:matmul={c["method"] or "dense"}'

      def total_of(name, x, shift_from=None):
        eq = eqs[name]
        st = tendency.primitive_state(sp, x, with_time=(cls == 'time'))
        if shift_from is not None:
          d = jnp.asarray((fam[shift_from] - fam[name]) * SQRT4PI)
          tv = st.temperature_variation.at[:, 0, 0].add(d)
          if cls == 'time':
            st = type(st)(st.vorticity, st.divergence, tv, st.log_surface_pressure, st.sim_time, st.tracers)
          else:
            st = type(st)(st.vorticity, st.divergence, tv, st.log_surface_pressure, st.tracers)
        return so.coords_of(tendency.primitive_leaves(_total(eq)(st)))[0]
      # degree (static)
      outs, _, an, _ = jxa.analyze(lambda x: total_of('linear', x), (jnp.zeros(sp.n),))
      d, why = jxa.max_degree(outs)
      name = f'{tag}:explicit+implicit is a polynomial map of degree <= 3'
      if d is None:
        out.undec(name, why)
        continue
      if d > 3:
        out.fail(name, witness={'cfg': tag}, detail=f'degree {d}', key=name)
        continue
      out.ok(name, 'static', sample={'obligation': name, 'degree': d})
      fmx, _, _ = jxa.lattice_max_abs(lambda x: total_of('linear', x), sp.n, 1, scale=sp.scale)
      for (p1, p2) in pairs:
        D = lambda x, p1=p1, p2=p2: total_of(p1, x) - total_of(p2, x, shift_from=p1)
        mx, arg, cnt = jxa.lattice_max_abs(D, sp.n, 3, scale=sp.scale)
        tol = 1e-9 * max(1.0, fmx)
        name = f'{tag}:profiles ({p1},{p2}): same physical atmosphere => same total tendency on the degree-3 lattice ({cnt} points, dim {sp.n})'
        if mx <= tol:
          out.ok(name, 'numeric', sample={'obligation': name, 'max_abs_diff': mx, 'tol': tol})
        else:
          out.fail(name, witness={'cfg': tag, 'profiles': [p1, p2], 'x': [float(v) for v in arg], 'boundaries': [float(b) for b in sig.boundaries],
                                  'T1': [float(v) for v in fam[p1]], 'T2': [float(v) for v in fam[p2]], 'c': c, 'cls': cls},
                   detail=f'max |difference of total tendencies| {mx:.3e} > {tol:.1e} (largest tendency {fmx:.3e})', key=name)
  return out


def run_moist_sampled(ctx):
  jax = common.jx()
  import jax.numpy as jnp
  out = Outcome()
  specs = common.physics_specs()
  rng = np.random.RandomState(ctx.seed + 22)
  K = 6 if ctx.tier == 'quick' else 64
  for cls in ('moist', 'cloud'):
    tracers = ('specific_humidity',) + (('specific_cloud_liquid_water_content', 'specific_cloud_ice_water_content') if cls == 'cloud' else ())
    for impl, method in (('real', None), ('fast', 'sparse')):
      g = common.make_grid(3, 4, 10, 7, 'gauss', impl)
      sig = common.sigma_levels('uneven', 3, ctx.seed)
      fam, pairs = _profiles(3, specs, 'quick')
      eqs = {k: common.make_primitive(g, sig, v, cls=cls, specs=specs, vertical_matmul_method=method) for k, v in fam.items()}
      sp = tendency.primitive_space(next(iter(eqs.values())), impl, tracers=tracers)
      so = tendency.StateSpace(g, impl, sp.fields, zero_mean=())
      fns = {}
      for (p1, p2) in pairs:
        def both(x, p1=p1, p2=p2):
          res = []
          for nm, shift in ((p1, None), (p2, p1)):
            st = tendency.primitive_state(sp, x, with_time=True)
            tv = st.temperature_variation
            if shift:
              tv = tv.at[:, 0, 0].add(jnp.asarray((fam[shift] - fam[nm]) * SQRT4PI))
            tr = dict(st.tracers)
            tr['specific_humidity'] = tr['specific_humidity'].at[:, 0, 0].add(0.01 * SQRT4PI)   # mean humidity 0.01
            st = type(st)(st.vorticity, st.divergence, tv, st.log_surface_pressure, st.sim_time, tr)
            res.append(so.coords_of(tendency.primitive_leaves(_total(eqs[nm])(st)))[0])
          return res[0], res[1]
        fns[(p1, p2)] = jax.jit(both)
      variants = ['general'] if cls == 'moist' else ['cloud tracers zero', 'cloud water = -cloud ice (cancelling)', 'general']
      for variant in variants:
        worst = 0.0
        wx = None
        for amp in (0.05, 0.3, 1.0):
          for k in range(K // 3 + 1):
            xn = rng.randn(sp.n) * sp.scale * amp
            if cls == 'cloud' and variant != 'general':
              iw = [i for i, ix in enumerate(sp.index) if ix[0] == 'tracer:specific_cloud_liquid_water_content']
              ii = [i for i, ix in enumerate(sp.index) if ix[0] == 'tracer:specific_cloud_ice_water_content']
              if variant == 'cloud tracers zero':
                xn[iw] = 0.0
                xn[ii] = 0.0
              else:
                xn[ii] = -xn[iw]
            x = jnp.asarray(xn)
            for pr, f in fns.items():
              a, b = f(x)
              r = float(jnp.abs(a - b).max()) / max(1.0, float(jnp.abs(a).max()))
              if r > worst:
                worst, wx = r, (pr, [float(v) for v in xn])
        name = (f'{cls}:{impl}:matmul={method or "dense"}:{variant}: total tendency independent of the reference profile on '
                f'{3 * (K // 3 + 1)} sampled states x {len(pairs)} profile pairs')
        if worst <= 1e-9:
          out.ok(name, 'numeric', sample={'obligation': name, 'worst_rel_diff': worst})
        else:
          key = ('MoistPrimitiveEquationsWithCloudMoisture: R*T_ref*(cloud_water+cloud_ice)*grad(ln ps) is missing (cloud correction applied to T\' only)'
                 if (cls == 'cloud' and variant == 'general') else name)
          out.fail(name, witness={'cls': cls, 'impl': impl, 'method': method, 'variant': variant, 'profiles': list(wx[0]), 'x': wx[1]},
                   detail=f'worst relative difference {worst:.3e}', key=key)
  return out


def replay_moist(w):
  jax = common.jx()
  import jax.numpy as jnp
  specs = common.physics_specs()
  cls, impl = w['cls'], w['impl']
  tracers = ('specific_humidity',) + (('specific_cloud_liquid_water_content', 'specific_cloud_ice_water_content') if cls == 'cloud' else ())
  g = common.make_grid(3, 4, 10, 7, 'gauss', impl)
  sig = common.sigma_levels('uneven', 3, 0)
  fam, pairs = _profiles(3, specs, 'quick')
  p1, p2 = w['profiles']
  eqs = {k: common.make_primitive(g, sig, fam[k], cls=cls, specs=specs, vertical_matmul_method=w.get('method')) for k in (p1, p2)}
  sp = tendency.primitive_space(eqs[p1], impl, tracers=tracers)
  x = jnp.asarray(w['x'])
  res = []
  for nm, shift in ((p1, None), (p2, p1)):
    st = tendency.primitive_state(sp, x, with_time=True)
    tv = st.temperature_variation
    if shift:
      tv = tv.at[:, 0, 0].add(jnp.asarray((fam[shift] - fam[nm]) * SQRT4PI))
    tr = dict(st.tracers)
    tr['specific_humidity'] = tr['specific_humidity'].at[:, 0, 0].add(0.01 * SQRT4PI)
    st = type(st)(st.vorticity, st.divergence, tv, st.log_surface_pressure, st.sim_time, tr)
    res.append(tendency.primitive_leaves(_total(eqs[nm])(st)))
  diffs = {k: float(jnp.abs(res[0][k] - res[1][k]).max()) for k in res[0] if k != 'sim_time'}
  ref = max(float(jnp.abs(v).max()) for v in res[0].values())
  return max(diffs.values()) > 1e-9 * max(1.0, ref), (f'{cls} equations, same absolute temperature, profiles {p1} vs {p2}: max |difference of explicit+implicit| per field '
                                                     f'{diffs}; largest tendency {ref:.3e}')


def replay_lattice(w):
  jax = common.jx()
  import jax.numpy as jnp
  from dinosaur import sigma_coordinates as sc
  c = w['c']
  specs = common.physics_specs()
  g = common.make_grid(c['M'], c['L'], c['lon'], c['lat'], 'gauss', c['impl'])
  sig = sc.SigmaCoordinates(np.asarray(w['boundaries']))
  T1, T2 = np.asarray(w['T1']), np.asarray(w['T2'])
  cls = w['cls']
  e1 = common.make_primitive(g, sig, T1, cls=cls, specs=specs, vertical_matmul_method=c['method'])
  e2 = common.make_primitive(g, sig, T2, cls=cls, specs=specs, vertical_matmul_method=c['method'])
  sp = tendency.primitive_space(e1, c['impl'], tracers=('q',))
  x = jnp.asarray(w['x'])
  s1 = tendency.primitive_state(sp, x, with_time=(cls == 'time'))
  tv = s1.temperature_variation.at[:, 0, 0].add(jnp.asarray((T1 - T2) * SQRT4PI))
  s2 = type(s1)(s1.vorticity, s1.divergence, tv, s1.log_surface_pressure, *((s1.sim_time,) if cls == 'time' else ()), s1.tracers)
  t1 = tendency.primitive_leaves(_total(e1)(s1))
  t2 = tendency.primitive_leaves(_total(e2)(s2))
  diffs = {k: float(jnp.abs(t1[k] - t2[k]).max()) for k in t1}
  ref = max(float(jnp.abs(v).max()) for v in t1.values())
  bad = max(diffs.values()) > 1e-9 * max(1.0, ref)
  return bad, f'same absolute temperature, reference profiles {w["profiles"]}, sigma {w["boundaries"]}, matmul={c["method"]}: max |total tendency difference| per field {diffs} (largest tendency {ref:.3e})'


def replay_split(w):
  """Native re-run for the all-N clauses (their counter-models are column entries, not states): three uneven level sets, a varying and a
  constant reference profile, a random admissible state, both vertical product methods."""
  jax = common.jx()
  import jax.numpy as jnp
  specs = common.physics_specs()
  rng = np.random.RandomState(5)
  msgs = []
  for layers in (2, 3, 5):
    g = common.make_grid(3, 4, 10, 7, 'gauss', 'real')
    sig = common.sigma_levels('uneven', layers, 1)
    T1 = common.reference_temperature('linear', layers, specs, 0)
    T2 = np.full(layers, float(np.mean(T1)) + 3.0)
    for method in ('dense', 'sparse'):
      for cls in ('dry', 'moist'):
        moist = cls == 'moist'
        e1 = common.make_primitive(g, sig, T1, cls=cls, specs=specs, vertical_matmul_method=method)
        e2 = common.make_primitive(g, sig, T2, cls=cls, specs=specs, vertical_matmul_method=method)
        sp = tendency.primitive_space(e1, 'real', tracers=('specific_humidity',) if moist else ('q',))
        s1 = tendency.primitive_state(sp, jnp.asarray(rng.randn(sp.n) * sp.scale * 0.3), with_time=moist)
        tr = dict(s1.tracers)
        if moist:
          tr['specific_humidity'] = tr['specific_humidity'].at[:, 0, 0].add(0.01 * SQRT4PI)
        tv = s1.temperature_variation.at[:, 0, 0].add(jnp.asarray((T1 - T2) * SQRT4PI))
        rest = ((s1.sim_time,) if moist else ())
        s1 = type(s1)(s1.vorticity, s1.divergence, s1.temperature_variation, s1.log_surface_pressure, *rest, tr)
        s2 = type(s1)(s1.vorticity, s1.divergence, tv, s1.log_surface_pressure, *rest, tr)
        t1 = tendency.primitive_leaves(_total(e1)(s1))
        t2 = tendency.primitive_leaves(_total(e2)(s2))
        diffs = {k: float(jnp.abs(t1[k] - t2[k]).max()) for k in t1 if k != 'sim_time'}
        ref = max(float(jnp.abs(v).max()) for v in t1.values())
        if max(diffs.values()) > 1e-9 * max(1.0, ref):
          msgs.append(f'{cls}, {layers} uneven layers, matmul={method}, profiles {np.round(T1, 3).tolist()} vs {np.round(T2, 3).tolist()}: max |total tendency difference| per field {diffs} (largest tendency {ref:.3e})')
  return bool(msgs), ('; '.join(msgs[:3]) if msgs else 'explicit + implicit tendencies agree for the sampled profile pairs')


def clauses(tier, seed):
  fns = [PE + 'PrimitiveEquations.explicit_terms', PE + 'PrimitiveEquations.implicit_terms', PE + 'get_temperature_implicit',
         PE + 'get_temperature_implicit_weights', PE + 'get_geopotential_diff', PE + 'PrimitiveEquations.nodal_temperature_vertical_tendency',
         PE + 'PrimitiveEquations.nodal_temperature_adiabatic_tendency', PE + 'PrimitiveEquations._t_omega_over_sigma_sp',
         PE + 'PrimitiveEquationsWithTime.explicit_terms', PE + 'MoistPrimitiveEquations.explicit_terms']
  return [
      Clause('static+numeric:dry/time total tendency independent of the reference profile (degree-3 lattice)', 'numeric', fns, run_lattice,
             replay=replay_lattice, group='jax-a', heavy=True),
      Clause('numeric:moist classes, sampled states', 'numeric', fns, run_moist_sampled, replay=replay_moist, group='jax-b', heavy=True),
  ] + _deductive()


def _deductive():
  """All layer counts: the temperature equation of a column does not depend on the reference split (contracts/column_contracts.py); the
  callee contracts it rests on -- the documented matrix H, the cumulative-sum form of its product, the partial-sum lemma -- are
  discharged by the clauses of contracts/vertical_matrix_contracts.py listed next to it."""
  from contracts import column_contracts, vertical_matrix_contracts
  out = column_contracts.clauses()['C04'] + vertical_matrix_contracts.clauses(only=('get_sigma_ratios', 'get_temperature_implicit', 'lemma:row sums'))
  for c in out:
    c.replay = replay_split
  return out


MANIFEST = {
    'engine': 'pyvc+jxa',
    'technique': ('contract-based deductive: the temperature equation of a column (vertical advection + adiabatic + implicit term) proved independent of the reference profile, for the dry and for the moist (virtual-temperature) class, for every '
                  'number of layers from the real source (pyvc column / matrix mode: ghost prefix sums, induction lemmas, case-split ring normal form + z3); polynomial degree of explicit+implicit '
                  'proved on the jaxpr and the whole identity decided on the unisolvent degree-3 lattice of the admissible subspace per configuration; moist sampled'),
    'text': ('other: complete over admissible states at each configuration (degree proved statically, lattice unisolvent), bounded over profile pairs, '
             'sigma sets, grids, matmul methods; moist classes sampled only (rational in q).'),
    'note': 'trusted: A1/A2, jxa degree rules, lattice unisolvence; column mode (operations after to_nodal are pointwise in the horizontal), callee contracts _dot_cumsum / centered_vertical_advection (C13, C07), horizontal operators abstract (C01/C02), sympy expansion as the ring normal form; the (0,0) coefficient of a constant is sqrt(4 pi) (verified in C01/C02 oracle).',
}
