"""Admissible-state coordinates, packing and lattice evaluation for the nonlinear tendency clauses.

An *admissible* state has: masked-out entries zero, the top total wavenumber clipped (l <= L-2), and zero
(0,0) coefficients of vorticity and divergence.  Coordinates are enumerated canonically by
(field, level, m, trig, l) so that the reference and the fast layout share one coordinate vector.
"""
from __future__ import annotations

import numpy as np

AMPLITUDE = {'vorticity': 0.5, 'divergence': 0.5, 'temperature_variation': 10.0, 'log_surface_pressure': 0.1,
             'potential': 1.0, 'tracer': 0.01}


def row_of(grid, impl, m, trig):
  if impl == 'real':
    return 0 if m == 0 else (2 * m - 1 if trig == 'c' else 2 * m)
  return 2 * m + (0 if trig == 'c' else 1)


def canonical_modes(grid, lmax=None, lmin=0):
  """List of (m, trig, l) with m <= l, lmin <= l <= lmax (default: below the clipped top wavenumber)."""
  L = grid.total_wavenumbers
  M = grid.longitude_wavenumbers
  lmax = L - 2 if lmax is None else lmax
  out = []
  for m in range(M):
    for trig in (('c',) if m == 0 else ('c', 's')):
      for l in range(max(m, lmin), lmax + 1):
        out.append((m, trig, l))
  return out


class StateSpace:
  """Coordinates of the admissible subspace of a model state and the map coefficient vector -> State."""

  def __init__(self, grid, impl, fields, zero_mean=('vorticity', 'divergence'), lmax=None):
    """fields: list of (name, levels) ; levels = number of leading layers (1 for surface fields)."""
    self.grid = grid
    self.impl = impl
    self.fields = fields
    self.index = []      # (field, k, m, trig, l)
    for name, K in fields:
      modes = canonical_modes(grid, lmax=lmax, lmin=1 if name in zero_mean else 0)
      for k in range(K):
        for (m, trig, l) in modes:
          self.index.append((name, k, m, trig, l))
    self.n = len(self.index)
    self.scale = np.array([AMPLITUDE.get(nm.split(':')[0] if not nm.startswith('tracer') else 'tracer', 1.0)
                           for nm, *_ in self.index])
    nm_, nl_ = grid.modal_shape
    self._maps = {}
    for name, K in fields:
      rows = [(i, k, row_of(grid, impl, m, trig), l) for i, (f, k, m, trig, l) in enumerate(self.index) if f == name]
      self._maps[name] = (K, np.array([r[0] for r in rows], int), np.array([r[1] for r in rows], int),
                          np.array([r[2] for r in rows], int), np.array([r[3] for r in rows], int))

  def leaves(self, x):
    """dict field -> array (K, nm, nl) from coefficient vector x (jax-traceable)."""
    import jax.numpy as jnp
    nm_, nl_ = self.grid.modal_shape
    out = {}
    for name, (K, ii, kk, rr, ll) in self._maps.items():
      z = jnp.zeros((K, nm_, nl_), x.dtype)
      if len(ii):
        z = z.at[kk, rr, ll].set(x[ii])
      out[name] = z
    return out

  def coords_of(self, leaves):
    """Coefficient vector (admissible coordinates only) of a dict of leaves, plus the max |entry| outside them."""
    import jax.numpy as jnp
    x = jnp.zeros(self.n, dtype=next(iter(leaves.values())).dtype)
    stray = 0.0
    for name, (K, ii, kk, rr, ll) in self._maps.items():
      a = leaves[name]
      if len(ii):
        x = x.at[ii].set(a[kk, rr, ll])
        a = a.at[kk, rr, ll].set(0.0)
      stray = jnp.maximum(stray, jnp.max(jnp.abs(a))) if a.size else stray
    return x, stray


def primitive_space(eq, impl, tracers=(), lmax=None):
  n = eq.coords.vertical.layers
  fields = [('vorticity', n), ('divergence', n), ('temperature_variation', n), ('log_surface_pressure', 1)]
  fields += [(f'tracer:{t}', n) for t in tracers]
  return StateSpace(eq.coords.horizontal, impl, fields, lmax=lmax)


def primitive_state(space, x, with_time=False, sim_time=0.0):
  import jax.numpy as jnp
  from dinosaur import primitive_equations as pe
  lv = space.leaves(x)
  tr = {k.split(':', 1)[1]: v for k, v in lv.items() if k.startswith('tracer:')}
  if with_time:
    return pe.StateWithTime(lv['vorticity'], lv['divergence'], lv['temperature_variation'], lv['log_surface_pressure'],
                            jnp.asarray(sim_time, x.dtype), tr)
  return pe.State(lv['vorticity'], lv['divergence'], lv['temperature_variation'], lv['log_surface_pressure'], tr)


def primitive_leaves(state):
  d = {'vorticity': state.vorticity, 'divergence': state.divergence, 'temperature_variation': state.temperature_variation,
       'log_surface_pressure': state.log_surface_pressure}
  for k, v in state.tracers.items():
    d[f'tracer:{k}'] = v
  return d


def sw_space(eq, impl, lmax=None):
  n = eq.coords.vertical.layers
  return StateSpace(eq.coords.horizontal, impl, [('vorticity', n), ('divergence', n), ('potential', n)], lmax=lmax)


def sw_state(space, x):
  from dinosaur import shallow_water as sw
  lv = space.leaves(x)
  return sw.State(lv['vorticity'], lv['divergence'], lv['potential'])


def sw_leaves(state):
  return {'vorticity': state.vorticity, 'divergence': state.divergence, 'potential': state.potential}
