"""C01 -- spherical-harmonic analysis inverts synthesis; discrete orthonormality; integral; non-influence."""
from __future__ import annotations

import math
import numpy as np

from vlib import core
from vlib.core import Clause, Outcome
from props import common

LEVEL = 'other'
SH = 'dinosaur.spherical_harmonic.'
EXPLANATION = (
    'Deductive: (smt, all sizes) _round_to_multiple and the Fast shape/padding arithmetic; (static, per configuration) '
    'to_modal/to_nodal/integrate are linear maps and the masked-out output entries of to_modal are structural zeros, '
    'both read off the traced program (jaxpr) of the real functions. Bounded: with linearity proved, the matrix of '
    'to_modal o to_nodal on the complete coefficient basis equals diag(mask) (inverse + orthonormality + non-influence '
    'in one identity) and integrate(to_nodal(e_k)) = r^2 sqrt(4 pi) [k=(0,0)], to 1e-12 in float64, on the enumerated '
    'grid family -- complete over fields at each configuration, bounded over configurations.')
ASSUMPTIONS = [
    'A1/A2: float64 evaluation, tolerance 1e-12 (measured residuals ~1e-15)',
    'A5: structural-zero analysis assumes finite inputs (0*x = 0)',
    'A3: decorators (jit, named_call, cached_property) are transparent',
    'bounded over grid configurations: Cfg-grid family listed in coverage.clauses[*].info; Gauss nodes / Legendre '
    'recurrences for *every* size are not proved (external library constants)',
]
TOL = 1e-12


def _fns(grid):
  return (lambda x: grid.to_nodal(x)), (lambda z: grid.to_modal(z))


def run_linearity(ctx):
  jax = common.jx()
  import jax.numpy as jnp
  from vlib import jxa
  out = Outcome()
  cfgs = common.cfg_grid(ctx.tier)
  for c in cfgs:
    g = c['grid']
    x = jnp.zeros(g.modal_shape)
    z = jnp.zeros(g.nodal_shape)
    for nm, fn, arg in (('to_nodal', g.to_nodal, x), ('to_modal', g.to_modal, z), ('integrate', g.integrate, z)):
      outs, _, an, _ = jxa.analyze(fn, (arg,))
      d, why = jxa.max_degree(outs)
      name = f'{c["name"]}:{nm}-is-linear(degree<=1, f(0)=0)'
      f0 = float(np.max(np.abs(np.asarray(fn(arg)))))
      if d is not None and d <= 1 and f0 == 0.0:
        out.ok(name, 'static', sample={'obligation': name, 'degree': d, 'primitives': sorted(an.primitives)})
      elif d is None:
        out.undec(name, f'degree analysis: {why}')
      else:
        out.fail(name, witness={'cfg': c['name']}, detail=f'degree {d}, f(0)={f0}', key=name)
  out.info['configurations'] = [c['name'] for c in cfgs]
  return out


def run_structural_zeros(ctx):
  """Masked-out entries of to_modal(z) are exactly zero for every finite nodal field z (static)."""
  jax = common.jx()
  import jax.numpy as jnp
  from vlib import jxa
  out = Outcome()
  out.assumptions.append(ASSUMPTIONS[1])
  for c in common.cfg_grid(ctx.tier):
    g = c['grid']
    z = jnp.zeros(g.nodal_shape)
    outs, _, an, _ = jxa.analyze(g.to_modal, (z,))
    nz = outs[0].nz
    mask = np.asarray(g.mask)
    bad = nz & ~mask
    name = f'{c["name"]}:to_modal-output-outside-mask-is-structurally-zero'
    if not nz[mask].all():
      # the analysis claims a resolved coefficient is identically zero: it would be vacuous/unsound to trust it
      out.undec(name, 'analysis marks unmasked entries as zero')
    elif not bad.any():
      out.ok(name, 'static', sample={'obligation': name, 'masked_entries': int((~mask).sum())})
    else:
      idx = [tuple(int(v) for v in i) for i in np.argwhere(bad)[:5]]
      out.fail(name, witness={'cfg': c['name'], 'entries': idx}, detail=f'{int(bad.sum())} masked-out entries may be non-zero, e.g. {idx}', key=name)
  return out


def run_gram(ctx):
  jax = common.jx()
  import jax.numpy as jnp
  from vlib import jxa
  out = Outcome()
  worst = 0.0
  cfgs = common.cfg_grid(ctx.tier)
  for c in cfgs:
    g = c['grid']
    mask = np.asarray(g.mask).ravel()
    x0 = jnp.zeros(g.modal_shape)
    A, _, _, _ = jxa.matrix_of(lambda x: g.to_modal(g.to_nodal(x)), x0)
    S, _, _, _ = jxa.matrix_of(g.to_nodal, x0)
    n = mask.size
    m_arr, l_arr, _ = common.ml_of(g)
    l_flat = l_arr.ravel()
    # (a) non-influence: coefficients outside the triangular truncation never influence the synthesised field
    name = f'{c["name"]}:to_nodal-ignores-coefficients-outside-mask (exact zero columns)'
    col = np.abs(S[:, ~mask]).max() if (~mask).any() else 0.0
    (out.ok(name, 'numeric') if col == 0.0 else
     out.fail(name, witness={'cfg': c['name']}, detail=f'max |column| outside mask = {col:.3e}', key=name))
    # (b) round trip / orthonormality
    if c['resolves']:
      E = A - np.diag(mask.astype(float))
      name = f'{c["name"]}:to_modal(to_nodal(e_k)) == mask_k * e_k for every basis coefficient'
      sel = np.ones(n, bool)
    else:
      # non-resolving factory grids (TL*): identity on the sub-block the quadrature resolves
      if c['spacing'] == 'gauss':
        lres = (2 * g.latitude_nodes - 1) // 2
      else:
        lres = (g.latitude_nodes - 1) // 2
      sel = (l_flat <= lres // 1) & (l_flat + l_flat.max() * 0 <= (2 * g.latitude_nodes - 1) - l_flat.max() if c['spacing'] == 'gauss' else l_flat <= lres)
      # exactness of P_l P_l' needs l + l' <= 2*lat-1 (gauss): restrict both indices to l <= (2*lat-1)/2
      sel = l_flat <= lres
      E = (A - np.diag(mask.astype(float)))[np.ix_(sel, sel)]
      name = f'{c["name"]}:round-trip identity on the resolved sub-block l <= {lres}'
    err = float(np.abs(E).max()) if E.size else 0.0
    worst = max(worst, err)
    if err <= TOL:
      out.ok(name, 'numeric', sample={'obligation': name, 'max_abs_residual': err, 'tol': TOL, 'basis_size': int(n)})
    else:
      i, j = np.unravel_index(np.argmax(np.abs(E)), E.shape)
      idx = np.flatnonzero(sel)
      out.fail(name, witness={'cfg': c['name'], 'out_entry': int(idx[i]), 'in_entry': int(idx[j])},
               detail=f'max |to_modal(to_nodal(e_j))_i - delta_ij*mask| = {err:.3e} at out={np.unravel_index(idx[i], g.modal_shape)} in={np.unravel_index(idx[j], g.modal_shape)}', key=name)
    # (c) integral: radius^2 * sqrt(4 pi) * coefficient (0,0)
    I, _, _, _ = jxa.matrix_of(lambda x: g.integrate(g.to_nodal(x)), x0)
    want = np.zeros(n)
    k00 = 0     # entry (0,0) in both layouts is m=0 (cos), l=0
    want[k00] = g.radius ** 2 * math.sqrt(4 * math.pi)
    # aliasing only matters for l beyond what the quadrature integrates exactly: restrict to resolved l
    lmax_int = (2 * g.latitude_nodes - 1) if c['spacing'] == 'gauss' else (g.latitude_nodes - 1)
    seli = (l_flat <= lmax_int) if g.longitude_nodes >= g.longitude_wavenumbers else np.zeros(n, bool)
    err = float(np.abs((I.ravel() - want)[seli]).max() / max(1.0, g.radius ** 2))
    name = f'{c["name"]}:integrate(to_nodal(e_k)) == r^2*sqrt(4pi)*[k=(0,0)]'
    worst = max(worst, err)
    (out.ok(name, 'numeric', sample={'obligation': name, 'max_abs_residual': err}) if err <= TOL else
     out.fail(name, witness={'cfg': c['name']}, detail=f'residual {err:.3e}', key=name))
  out.info['worst_residual'] = worst
  out.info['configurations'] = [c['name'] for c in cfgs]
  return out


def run_batch_axes(ctx):
  """Leading batch/level axes are carried through: the operator on (K, ...) is I_K (x) A."""
  jax = common.jx()
  import jax.numpy as jnp
  from vlib import jxa
  out = Outcome()
  for impl in ('real', 'fast'):
    g = common.make_grid(3, 4, 8, 7, 'gauss', impl)
    for nm, fn, shp in (('to_nodal', g.to_nodal, g.modal_shape), ('to_modal', g.to_modal, g.nodal_shape)):
      A1, _, _, _ = jxa.matrix_of(fn, jnp.zeros(shp))
      for lead in ((2,), (2, 3)):
        if len(lead) == 2 and impl == 'fast':
          pass
        Ak, _, _, _ = jxa.matrix_of(fn, jnp.zeros(lead + tuple(shp)))
        K = int(np.prod(lead))
        want = np.kron(np.eye(K), A1)
        err = float(np.abs(Ak - want).max())
        name = f'{impl}:{nm} on leading axes {lead} == I (x) A'
        (out.ok(name, 'numeric') if err <= 1e-13 else out.fail(name, witness={'impl': impl, 'lead': list(lead)}, detail=f'{err:.3e}', key=name))
  return out


def replay_gram(w):
  jax = common.jx()
  import jax.numpy as jnp
  cfgs = {c['name']: c for c in common.cfg_grid('thorough')}
  c = cfgs.get(w.get('cfg'))
  if c is None:
    return False, 'configuration not found'
  g = c['grid']
  n = int(np.prod(g.modal_shape))
  j = int(w.get('in_entry', 0))
  e = np.zeros(n)
  e[j] = 1.0
  e = e.reshape(g.modal_shape)
  back = np.asarray(g.to_modal(g.to_nodal(jnp.asarray(e))))
  want = e * np.asarray(g.mask)
  err = float(np.abs(back - want).max())
  return err > TOL, f'grid {c["name"]}: to_modal(to_nodal(e_{np.unravel_index(j, g.modal_shape)})) differs from mask*e by {err:.3e}'


# ---- pyvc: shapes and padding for all sizes ------------------------------------------------------------------------


def shapes_contract(en):
  import z3
  from vlib.pyvc import engine as E
  from dinosaur import spherical_harmonic as sh
  x, k = en.int('x'), en.int('multiple')
  en.assume(x >= 0)
  en.assume(k >= 1)
  en.cover('requires')
  kind, r = en.invoke(en.load_function(sh._round_to_multiple), x, k)
  if kind == 'raise':
    en.ensure(f'_round_to_multiple raises {r}', False)
    return
  en.ensure('_round_to_multiple: r % k == 0', r % k == 0)
  en.ensure('_round_to_multiple: x <= r < x + k', z3.And(r >= x, r < x + k))


def fast_shapes_contract(en):
  """FastSphericalHarmonics.{modal_shape,nodal_shape,modal_padding,nodal_padding} for every size/mesh/multiple."""
  import z3
  from vlib.pyvc import engine as E
  from dinosaur import spherical_harmonic as sh
  M, L, lon, lat = en.int('longitude_wavenumbers'), en.int('total_wavenumbers'), en.int('longitude_nodes'), en.int('latitude_nodes')
  base, xs, ys = en.int('base_shape_multiple'), en.int('x_shards'), en.int('y_shards')
  for v in (M, L, lon, lat):
    en.assume(v >= 0)
  for v in (base, xs, ys):
    en.assume(v >= 1)
  wit = []

  def use_rtm(en_, x_, k_):
    # callee contract of _round_to_multiple (proved by the clause smt:_round_to_multiple)
    en_.ensure('pre(_round_to_multiple): x >= 0 and multiple >= 1', z3.And(E.to_z3(x_) >= 0, E.to_z3(k_) >= 1))
    r = z3.Int(en_.fresh_name('rtm'))
    q = z3.Int(en_.fresh_name('rtm_q'))
    en_.assume(z3.And(r == q * k_, r >= x_, r < x_ + k_))      # r % k == 0 stated with its witness q
    wit.append((r, q))
    return r
  en.contracts[E._callable_key(sh._round_to_multiple)] = use_rtm
  self = E.Obj(longitude_wavenumbers=M, total_wavenumbers=L, longitude_nodes=lon, latitude_nodes=lat,
               base_shape_multiple=base, spmd_mesh=None)
  self._mesh_shape = E.SymCallable(lambda en_: (xs, ys), '_mesh_shape')
  self.nodal_limits = en.call(en.load_function(sh.FastSphericalHarmonics.nodal_limits.func), [self], {})
  self.modal_limits = en.call(en.load_function(sh.FastSphericalHarmonics.modal_limits.func), [self], {})
  en.cover('requires')
  ms = en.call(en.load_function(sh.FastSphericalHarmonics.modal_shape.func), [self], {})
  ns = en.call(en.load_function(sh.FastSphericalHarmonics.nodal_shape.func), [self], {})
  self.modal_shape, self.nodal_shape = ms, ns
  mp = en.call(en.load_function(sh.FastSphericalHarmonics.modal_padding.func), [self], {})
  np_ = en.call(en.load_function(sh.FastSphericalHarmonics.nodal_padding.func), [self], {})
  q0, q1, q2, q3 = (z3.Int(f'q{i}') for i in range(4))
  en.ensure('modal_shape[0] is a multiple of 2*base*x_shards and >= 2M', z3.And(z3.Exists([q0], ms[0] == q0 * (2 * base * xs)), ms[0] >= 2 * M, ms[0] < 2 * M + 2 * base * xs))
  en.ensure('modal_shape[1] is a multiple of base*y_shards and >= L', z3.And(z3.Exists([q1], ms[1] == q1 * (base * ys)), ms[1] >= L, ms[1] < L + base * ys))
  en.ensure('nodal_shape is a multiple of base*shards and >= nodes',
            z3.And(z3.Exists([q2], ns[0] == q2 * (base * xs)), ns[0] >= lon, z3.Exists([q3], ns[1] == q3 * (base * ys)), ns[1] >= lat))
  en.ensure('paddings are non-negative and shape = limits + padding',
            z3.And(mp[0] >= 0, mp[1] >= 0, np_[0] >= 0, np_[1] >= 0, mp[0] == ms[0] - 2 * M, mp[1] == ms[1] - L,
                   np_[0] == ns[0] - lon, np_[1] == ns[1] - lat))
  en.ensure('modal_padding[0] is even (so that p is padded by modal_pad_x // 2 rows exactly)', mp[0] == 2 * (wit[0][1] * base * xs - M))


def canary_shapes(en):
  import z3
  from dinosaur import spherical_harmonic as sh
  x, k = en.int('x'), en.int('multiple')
  en.assume(x >= 0)
  en.assume(k >= 1)
  kind, r = en.invoke(en.load_function(sh._round_to_multiple), x, k)
  en.ensure('canary: _round_to_multiple(x,k) > x', r > x)


def run_masks(ctx):
  """Masks as index predicates, enumerated sizes (bounded twin of the layout clause)."""
  from dinosaur import spherical_harmonic as sh
  out = Outcome()
  n = 0
  rng = range(1, 7 if ctx.tier == 'quick' else 10)
  for M in rng:
    for L in range(M, M + 3):
      r = sh.RealSphericalHarmonics(longitude_wavenumbers=M, total_wavenumbers=L, longitude_nodes=2 * M + 1, latitude_nodes=L + 1)
      i, l = np.meshgrid(np.arange(2 * M - 1), np.arange(L), indexing='ij')
      want = (i + 1) // 2 <= l
      ok = np.array_equal(np.asarray(r.mask), want)
      for mult in (1, 4):
        f = sh.FastSphericalHarmonics(longitude_wavenumbers=M, total_wavenumbers=L, longitude_nodes=2 * M + 1, latitude_nodes=L + 1,
                                      base_shape_multiple=mult)
        i, l = np.meshgrid(np.arange(f.modal_shape[0]), np.arange(f.modal_shape[1]), indexing='ij')
        wantf = (i != 1) & (i < 2 * M) & (l < L) & (i // 2 <= l)
        okf = np.array_equal(np.asarray(f.mask), wantf)
        # same number of degrees of freedom under the re-indexing R(0)=0, R(2m-1)=2m, R(2m)=2m+1
        dof = int(want.sum()) == int(wantf.sum())
        n += 1
        name = f'masks[M={M},L={L},pad={mult}]: real (i+1)//2<=l ; fast i!=1 & i<2M & l<L & i//2<=l ; equal dof'
        (out.ok(name, 'numeric') if ok and okf and dof else
         out.fail(name, witness={'M': M, 'L': L, 'mult': mult}, detail=f'real_ok={ok} fast_ok={okf} dof_equal={dof}', key=name))
  return out


def clauses(tier, seed):
  from vlib.pyvc.run import run_contract
  fn_t = [SH + 'Grid.to_modal', SH + 'Grid.to_nodal', SH + 'Grid.integrate', SH + 'RealSphericalHarmonics.transform',
          SH + 'RealSphericalHarmonics.inverse_transform', SH + 'FastSphericalHarmonics.transform',
          SH + 'FastSphericalHarmonics.inverse_transform', SH + 'RealSphericalHarmonics.basis', SH + 'FastSphericalHarmonics.basis',
          'dinosaur.associated_legendre.evaluate', 'dinosaur.fourier.real_basis', 'dinosaur.fourier.real_basis_with_zero_imag']
  return [
      Clause('smt:_round_to_multiple', 'smt', [SH + '_round_to_multiple'], lambda ctx: run_contract(shapes_contract, min_obligations=3), group='pyvc'),
      Clause('smt:FastSphericalHarmonics shapes and padding (all sizes, meshes, multiples)', 'smt',
             [SH + 'FastSphericalHarmonics.modal_shape', SH + 'FastSphericalHarmonics.nodal_shape',
              SH + 'FastSphericalHarmonics.modal_padding', SH + 'FastSphericalHarmonics.nodal_padding', SH + '_round_to_multiple'],
             lambda ctx: run_contract(fast_shapes_contract, min_obligations=5, timeout_ms=60000), group='pyvc'),
      Clause('canary:_round_to_multiple strict must fail', 'smt', [SH + '_round_to_multiple'], lambda ctx: run_contract(canary_shapes), canary=True, group='pyvc'),
      Clause('static:linearity of to_modal/to_nodal/integrate', 'static', fn_t, run_linearity, group='jax-a', heavy=True),
      Clause('static:to_modal output outside mask structurally zero', 'static', fn_t, run_structural_zeros, group='jax-a', heavy=True),
      Clause('numeric:Gram/round-trip/integral/non-influence on complete bases', 'numeric', fn_t, run_gram, replay=replay_gram, group='jax-b', heavy=True),
      Clause('numeric:batch axes carried through', 'numeric', fn_t, run_batch_axes, group='jax-c', heavy=True),
      Clause('enum:mask index predicates', 'enum', [SH + 'RealSphericalHarmonics.mask', SH + 'FastSphericalHarmonics.mask'], run_masks, group='jax-c', heavy=True),
  ] + _layout_clauses()


def _layout_clauses():
  from contracts import layout_contracts
  return [c for c in layout_contracts.clauses() if 'same degrees of freedom' not in c.name]


MANIFEST = {
    'engine': 'jxa+pyvc',
    'technique': 'contract-based: linearity and structural zeros proved on the traced program (jaxpr abstract interpretation), shape arithmetic, coefficient layouts (m and l axes incl. zero padding) and mask index predicates of both implementations by VCs from the real source for all sizes / meshes / multiples (pyvc, z3); operator identities on complete bases (bounded over grids)',
    'text': ('other: the quantifier over fields is closed deductively (linearity of the real transforms is proved from their jaxpr, '
             'after which the matrix on the complete coefficient basis decides the identity for all fields); the quantifier over '
             'grid configurations is bounded by the enumerated family; float64 with tol 1e-12. Shape/padding arithmetic is proved for all sizes.'),
    'note': 'trusted: jax.make_jaxpr faithfully represents the function; numpy/scipy constants (Gauss nodes) as produced; A1/A2/A3/A5; jxa rules (conservative by construction); z3.',
}
