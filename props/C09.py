"""C09 -- the two spherical-harmonic implementations are observationally equivalent."""
from __future__ import annotations

import itertools
import numpy as np

from vlib.core import Clause, Outcome
from props import common, tendency

LEVEL = 'other'
SH = 'dinosaur.spherical_harmonic.'
EXPLANATION = (
    'Under the fixed re-indexing R(0)=0, R(2m-1)=2m, R(2m)=2m+1 (injection P): every public linear Grid operation '
    'satisfies A_fast P = P A_real as a matrix identity on the complete set of resolved coefficients (complete over '
    'fields; linearity proved in C01/C02), with all padded / unused fast entries exactly zero; the dry primitive and '
    'shallow-water tendencies are proved polynomial of degree <= 3 from their jaxprs (static) and compared on the '
    'degree-3 principal lattice of the admissible subspace (complete over states at that configuration). Fast tuning '
    'options are enumerated. Trajectories: sampled states.')
ASSUMPTIONS = [
    'A1/A2: float64; tol 1e-11 (linear, absolute on O(1) operators scaled by norm), 1e-9 relative (tendencies)',
    'A2: precision hints (tensorfloat32/float32/highest) do not change float64 CPU results -- checked, not proved',
    'bounded over grids and option combinations (enumerated)',
]
OPTS_Q = [dict(), dict(base_shape_multiple=4), dict(base_shape_multiple=8, stacked_fourier_transforms=False),
          dict(base_shape_multiple=2, stacked_fourier_transforms=True, reverse_einsum_arg_order=True, transform_precision='highest'),
          dict(stacked_fourier_transforms=False, transform_precision='float32')]


def _opts(tier):
  if tier == 'quick':
    return OPTS_Q
  out = []
  for b, st, rev, pr in itertools.product((None, 1, 2, 4, 8), (True, False), (True, False), ('tensorfloat32', 'float32', 'highest')):
    d = dict(stacked_fourier_transforms=st, reverse_einsum_arg_order=rev, transform_precision=pr)
    if b is not None:
      d['base_shape_multiple'] = b
    out.append(d)
  return out


def _pairs(tier):
  out = []
  sizes = [(3, 4, 8, 7), (4, 5, 12, 9)] if tier == 'quick' else common.TINY
  for (M, L, lon, lat) in sizes:
    for spacing in (('gauss', 'equiangular') if tier == 'quick' else common.SPACINGS):
      for (off, rad) in ((0.0, 1.0), (0.3, 2.5)):
        if tier == 'quick' and (off, rad) != (0.0, 1.0) and spacing != 'gauss':
          continue
        out.append((M, L, lon, lat, spacing, off, rad))
  return out


def _P(gr, gf):
  """Injection of the reference layout into the fast layout (modal) and nodal padding injection."""
  nr = int(np.prod(gr.modal_shape))
  nf = int(np.prod(gf.modal_shape))
  P = np.zeros((nf, nr))
  for i in range(gr.modal_shape[0]):
    if i == 0:
      m, trig = 0, 'c'
    else:
      m, trig = (i + 1) // 2, ('c' if i % 2 == 1 else 's')
    fi = tendency.row_of(gf, 'fast', m, trig)
    for l in range(gr.modal_shape[1]):
      P[fi * gf.modal_shape[1] + l, i * gr.modal_shape[1] + l] = 1.0
  nnr = int(np.prod(gr.nodal_shape))
  nnf = int(np.prod(gf.nodal_shape))
  Pn = np.zeros((nnf, nnr))
  for i in range(gr.nodal_shape[0]):
    for j in range(gr.nodal_shape[1]):
      Pn[i * gf.nodal_shape[1] + j, i * gr.nodal_shape[1] + j] = 1.0
  return P, Pn


def run_linear(ctx):
  jax = common.jx()
  import jax.numpy as jnp
  from dinosaur import filtering, time_integration as ti
  from vlib import jxa
  out = Outcome()
  worst = 0.0
  n_cfg = 0
  for (M, L, lon, lat, spacing, off, rad) in _pairs(ctx.tier):
    gr = common.make_grid(M, L, lon, lat, spacing, 'real', off, rad)
    xr, zr = jnp.zeros(gr.modal_shape), jnp.zeros(gr.nodal_shape)
    mask_r = np.asarray(gr.mask).ravel()
    ops = lambda g: {
        'to_nodal': (g.to_nodal, 'm', 'n'), 'to_modal': (g.to_modal, 'n', 'm'), 'd_dlon': (g.d_dlon, 'm', 'm'),
        'cos_lat_d_dlat': (g.cos_lat_d_dlat, 'm', 'm'), 'sec_lat_d_dlat_cos2': (g.sec_lat_d_dlat_cos2, 'm', 'm'),
        'laplacian': (g.laplacian, 'm', 'm'), 'inverse_laplacian': (g.inverse_laplacian, 'm', 'm'),
        'clip_wavenumbers(1)': (lambda x: g.clip_wavenumbers(x, 1), 'm', 'm'),
        'clip_wavenumbers(2)': (lambda x: g.clip_wavenumbers(x, 2), 'm', 'm'),
        'cos_lat_grad[0]': (lambda x: g.cos_lat_grad(x)[0], 'm', 'm'), 'cos_lat_grad[1]': (lambda x: g.cos_lat_grad(x)[1], 'm', 'm'),
        'div_cos_lat(x,x)': (lambda x: g.div_cos_lat((x, 2 * x)), 'm', 'm'), 'curl_cos_lat(x,x)': (lambda x: g.curl_cos_lat((x, 2 * x)), 'm', 'm'),
        'integrate': (g.integrate, 'n', 's'),
        # programs built on the Grid that read its wavenumber axes / eigenvalues as a whole (normalisation by the largest one): they must not
        # see the layout's padding either
        'exponential_filter(default)': (filtering.exponential_filter(g), 'm', 'm'),
        'exponential_filter(a=4,p=2,c=0.3)': (filtering.exponential_filter(g, 4.0, 2, 0.3), 'm', 'm'),
        'horizontal_diffusion_filter(0.01,1)': (filtering.horizontal_diffusion_filter(g, 0.01, 1), 'm', 'm'),
        'exponential_step_filter(dt=0.1,tau=0.5)': (lambda x, g=g: ti.exponential_step_filter(g, 0.1, 0.5, 3, 0.2)(None, x), 'm', 'm'),
        'horizontal_diffusion_step_filter(dt=0.1,tau=0.5)': (lambda x, g=g: ti.horizontal_diffusion_step_filter(g, 0.1, 0.5, 2)(None, x), 'm', 'm'),
    }
    Ar = {k: jxa.matrix_of(f, xr if i == 'm' else zr)[0] for k, (f, i, o) in ops(gr).items()}
    opts = _opts(ctx.tier)
    if (M, L) != (3, 4) or spacing != 'gauss' or off:
      opts = opts[:2]
    for opt in opts:
      n_cfg += 1
      gf = common.make_grid(M, L, lon, lat, spacing, 'fast', off, rad, **opt)
      P, Pn = _P(gr, gf)
      tag = f'M{M}L{L}-{lon}x{lat}-{spacing}-off{off}-r{rad}|fast{sorted(opt.items())}'
      xf, zf = jnp.zeros(gf.modal_shape), jnp.zeros(gf.nodal_shape)
      name = f'{tag}:mask_fast == P mask_real'
      ok = np.array_equal(np.asarray(gf.mask).ravel().astype(float), P @ mask_r.astype(float))
      (out.ok(name, 'numeric') if ok else out.fail(name, witness={'cfg': tag}, detail='masks differ under the re-indexing', key=name))
      for k, (f, i, o) in ops(gf).items():
        Af = jxa.matrix_of(f, xf if i == 'm' else zf)[0]
        Pin = P if i == 'm' else Pn
        Pout = P if o == 'm' else (Pn if o == 'n' else np.eye(1))
        lhs = Af @ Pin
        rhs = Pout @ Ar[k]
        if i == 'm':        # fields: coefficients outside the triangular truncation are zero
          lhs, rhs = lhs[:, mask_r], rhs[:, mask_r]
        if k in ('cos_lat_d_dlat', 'sec_lat_d_dlat_cos2'):
          # the raw latitude recurrences move the top wavenumber one column up: on padded fast layouts it lands in a
          # padded column instead of being shifted out.  Entries outside the layout are not part of the re-indexing
          # (C09 compares resolved entries); that padding never leaks back is checked on the clipped public
          # operators below and by C07.
          rows = np.asarray(gf.mask).ravel()
          lhs, rhs = lhs[rows], rhs[rows]
        sc = max(1.0, float(np.abs(rhs).max()))
        err = float(np.abs(lhs - rhs).max()) / sc
        worst = max(worst, err)
        name = f'{tag}:{k}: A_fast P == P A_real'
        if err <= 1e-11:
          out.ok(name, 'numeric', sample={'obligation': name, 'rel_err': err})
        else:
          out.fail(name, witness={'cfg': tag, 'op': k, 'grid': [M, L, lon, lat, spacing, off, rad], 'opt': opt},
                   detail=f'relative max difference {err:.3e}', key=name)
  out.info['worst'] = worst
  out.info['option_configurations'] = n_cfg
  return out


def _tendency_pair(kind, M, L, lon, lat, layers, opt, seed):
  from dinosaur import coordinate_systems as cs
  from dinosaur import layer_coordinates
  gr = common.make_grid(M, L, lon, lat, 'gauss', 'real')
  gf = common.make_grid(M, L, lon, lat, 'gauss', 'fast', **opt)
  rng = np.random.RandomState(seed + 11)
  if kind == 'dry':
    sig = common.sigma_levels('uneven', layers, seed) if layers > 1 else common.sigma_levels('equidistant', 1)
    oro_modes = tendency.canonical_modes(gr)
    eqs = {}
    for impl, g in (('real', gr), ('fast', gf)):
      oro = np.zeros(g.modal_shape)
      r2 = np.random.RandomState(seed + 3)
      for (m, trig, l) in oro_modes:
        oro[tendency.row_of(g, impl, m, trig), l] = 0.05 * r2.randn()
      eqs[impl] = common.make_primitive(g, sig, 'linear', orography=oro)
    sp = {impl: tendency.primitive_space(eqs[impl], impl, tracers=('q',)) for impl in eqs}
    so = {impl: tendency.StateSpace(eqs[impl].coords.horizontal, impl, sp[impl].fields, zero_mean=()) for impl in eqs}
    F = {impl: (lambda impl: lambda x: so[impl].coords_of(tendency.primitive_leaves(
        eqs[impl].explicit_terms(tendency.primitive_state(sp[impl], x)))))(impl) for impl in eqs}
  else:
    eqs = {}
    dens = np.sort(rng.uniform(0.5, 2.0, layers))
    refpot = rng.uniform(0.5, 3.0, layers)
    from props import C03
    from dinosaur import shallow_water as sw
    for impl, g in (('real', gr), ('fast', gf)):
      coords = cs.CoordinateSystem(g, layer_coordinates.LayerCoordinates(layers))
      eqs[impl] = C03._make_sw(sw, coords, dens, refpot)
    sp = {impl: tendency.sw_space(eqs[impl], impl) for impl in eqs}
    so = {impl: tendency.StateSpace(eqs[impl].coords.horizontal, impl, sp[impl].fields, zero_mean=()) for impl in eqs}
    F = {impl: (lambda impl: lambda x: so[impl].coords_of(tendency.sw_leaves(
        eqs[impl].explicit_terms(tendency.sw_state(sp[impl], x)))))(impl) for impl in eqs}
  return eqs, sp, so, F


def run_tendencies(ctx):
  jax = common.jx()
  import jax.numpy as jnp
  from vlib import jxa
  out = Outcome()
  cases = [('dry', 2, 3, 6, 5, 2, dict(base_shape_multiple=4)), ('shallow_water', 2, 3, 6, 5, 2, dict(base_shape_multiple=4))]
  if ctx.tier == 'thorough':
    cases += [('dry', 3, 4, 10, 7, 3, dict(base_shape_multiple=8, stacked_fourier_transforms=False)),
              ('shallow_water', 3, 4, 10, 7, 2, dict())]
  for (kind, M, L, lon, lat, layers, opt) in cases:
    eqs, sp, so, F = _tendency_pair(kind, M, L, lon, lat, layers, opt, ctx.seed)
    tag = f'{kind}:M{M}L{L}-{lon}x{lat}-layers{layers}|fast{sorted(opt.items())}'
    n = sp['real'].n
    assert sp['fast'].n == n and sp['real'].index == sp['fast'].index
    # degree from the traced program (both implementations)
    degs = {}
    for impl in ('real', 'fast'):
      outs, _, an, _ = jxa.analyze(lambda x: F[impl](x)[0], (jnp.zeros(n),))
      d, why = jxa.max_degree(outs)
      degs[impl] = d
      name = f'{tag}:{impl}:explicit_terms is a polynomial map of degree <= 3 of the state'
      if d is None:
        out.undec(name, why)
      elif d <= 3:
        out.ok(name, 'static', sample={'obligation': name, 'degree': d})
      else:
        out.fail(name, witness={'cfg': tag}, detail=f'degree {d}', key=name)
    if any(d is None or d > 3 for d in degs.values()):
      continue

    def D(x):
      yr, sr = F['real'](x)
      yf, sf = F['fast'](x)
      return jnp.concatenate([yf - yr, jnp.stack([sr, sf])])
    ref = lambda x: F['real'](x)[0]
    scale = sp['real'].scale
    mx, arg, cnt = jxa.lattice_max_abs(D, n, 3, scale=scale)
    fmx, _, _ = jxa.lattice_max_abs(ref, n, 1, scale=scale)
    tol = 1e-9 * max(1.0, fmx)
    name = f'{tag}:fast tendency == P(reference tendency) on the degree-3 lattice ({cnt} points, dim {n}); entries outside the layout exactly 0'
    if mx <= tol:
      out.ok(name, 'numeric', sample={'obligation': name, 'max_abs_diff': mx, 'tol': tol, 'lattice_points': cnt})
    else:
      out.fail(name, witness={'cfg': tag, 'x': [float(v) for v in arg]}, detail=f'max |difference| {mx:.3e} > {tol:.1e}', key=name)
  return out


def run_trajectories(ctx):
  jax = common.jx()
  import jax.numpy as jnp
  from dinosaur import time_integration as ti
  out = Outcome()
  rng = np.random.RandomState(ctx.seed + 2)
  for kind in ('dry', 'shallow_water'):
    eqs, sp, so, F = _tendency_pair(kind, 3, 4, 10, 7, 2, dict(base_shape_multiple=4), ctx.seed)
    n = sp['real'].n
    mk = {impl: ((lambda impl: lambda x: tendency.primitive_state(sp[impl], x)) if kind == 'dry' else
                 (lambda impl: lambda x: tendency.sw_state(sp[impl], x)))(impl) for impl in eqs}
    lv = tendency.primitive_leaves if kind == 'dry' else tendency.sw_leaves
    for s in range(2 if ctx.tier == 'quick' else 4):
      x = jnp.asarray(rng.randn(n) * sp['real'].scale * 0.3)
      res = {}
      for impl in eqs:
        step = ti.imex_rk_sil3(eqs[impl], 0.01)
        st = mk[impl](x)
        for _ in range(10):
          st = step(st)
        res[impl] = so[impl].coords_of(lv(st))
      err = float(jnp.max(jnp.abs(res['real'][0] - res['fast'][0])))
      stray = float(max(res['real'][1], res['fast'][1]))
      ref = float(jnp.max(jnp.abs(res['real'][0])))
      name = f'{kind}:10-step SIL3 trajectory, sample {s}: fast == reference under re-indexing'
      if err <= 1e-9 * max(1.0, ref) and stray <= 1e-9 * max(1.0, ref):
        out.ok(name, 'numeric', sample={'obligation': name, 'max_abs_diff': err})
      else:
        out.fail(name, witness={'kind': kind, 'sample': s}, detail=f'diff {err:.3e}, stray {stray:.3e}', key=name)
  return out


def replay_linear(w):
  jax = common.jx()
  import jax.numpy as jnp
  from dinosaur import filtering, time_integration as ti
  M, L, lon, lat, spacing, off, rad = w['grid']
  gr = common.make_grid(M, L, lon, lat, spacing, 'real', off, rad)
  gf = common.make_grid(M, L, lon, lat, spacing, 'fast', off, rad, **w['opt'])
  rng = np.random.RandomState(0)
  x = rng.randn(*gr.modal_shape) * np.asarray(gr.mask)
  P, Pn = _P(gr, gf)
  xf = (P @ x.ravel()).reshape(gf.modal_shape)
  k = w['op']
  f = {'clip_wavenumbers(1)': lambda g, v: g.clip_wavenumbers(v, 1), 'clip_wavenumbers(2)': lambda g, v: g.clip_wavenumbers(v, 2),
       'cos_lat_grad[0]': lambda g, v: g.cos_lat_grad(v)[0], 'cos_lat_grad[1]': lambda g, v: g.cos_lat_grad(v)[1],
       'div_cos_lat(x,x)': lambda g, v: g.div_cos_lat((v, 2 * v)), 'curl_cos_lat(x,x)': lambda g, v: g.curl_cos_lat((v, 2 * v)),
       'to_nodal': lambda g, v: g.to_nodal(v),
       'exponential_filter(default)': lambda g, v: filtering.exponential_filter(g)(v),
       'exponential_filter(a=4,p=2,c=0.3)': lambda g, v: filtering.exponential_filter(g, 4.0, 2, 0.3)(v),
       'horizontal_diffusion_filter(0.01,1)': lambda g, v: filtering.horizontal_diffusion_filter(g, 0.01, 1)(v),
       'exponential_step_filter(dt=0.1,tau=0.5)': lambda g, v: ti.exponential_step_filter(g, 0.1, 0.5, 3, 0.2)(None, v),
       'horizontal_diffusion_step_filter(dt=0.1,tau=0.5)': lambda g, v: ti.horizontal_diffusion_step_filter(g, 0.1, 0.5, 2)(None, v)}.get(k, lambda g, v: getattr(g, k)(v))
  if k in ('to_modal', 'integrate'):
    return False, 'replay implemented for modal-input operations only'
  yr = np.asarray(f(gr, jnp.asarray(x)))
  yf = np.asarray(f(gf, jnp.asarray(xf)))
  want = (Pn if k == 'to_nodal' else P) @ yr.ravel()
  err = float(np.abs(yf.ravel() - want).max())
  return err > 1e-10 * max(1.0, np.abs(want).max()), f'{k} on a random band-limited field: fast vs re-indexed reference differ by {err:.3e} (grid {w["grid"]}, options {w["opt"]})'


def clauses(tier, seed):
  fns = [SH + 'RealSphericalHarmonics', SH + 'FastSphericalHarmonics', SH + 'Grid', 'dinosaur.fourier.real_basis_derivative',
         'dinosaur.fourier.real_basis_derivative_with_zero_imag', SH + '_unstack_m', SH + '_stack_m', SH + '_transform_einsum',
         'dinosaur.primitive_equations.PrimitiveEquations.explicit_terms', 'dinosaur.shallow_water.ShallowWaterEquations.explicit_terms']
  return [
      Clause('numeric:every linear Grid operation: A_fast P == P A_real over fast options', 'numeric', fns, run_linear, replay=replay_linear, group='jax-a', heavy=True),
      Clause('static+numeric:dry and shallow-water tendencies: degree<=3 and equal on the degree-3 lattice', 'numeric', fns, run_tendencies, group='jax-b', heavy=True),
      Clause('numeric:10-step trajectories equal (sampled states)', 'numeric', fns, run_trajectories, group='jax-c', heavy=True),
  ] + _pyvc_clauses()


def _pyvc_clauses():
  from contracts import fourier_contracts, grid_contracts, layout_contracts, recurrence_contracts
  # Laplacian / inverse / clipping are proved for every padding by the grid contracts (their results on resolved columns do not mention the padding);
  # the latitude derivatives are compared between the padded and the unpadded layout directly
  return ([c for c in fourier_contracts.clauses() if 'conjugate' in c.name] + [c for c in layout_contracts.clauses() if 'same degrees of freedom' in c.name]
          + recurrence_contracts.clauses('C09') + [c for c in grid_contracts.clauses() if not c.name.startswith('canary')])


MANIFEST = {
    'engine': 'pyvc+jxa',
    'technique': 'contract-based deductive: the longitude derivatives of the two coefficient layouts are proved conjugate under the re-indexing R for all wavenumber counts, the latitude-derivative recurrences agree between padded and unpadded layouts on every resolved column, Laplacian / inverse / clipping are independent of the padding (pyvc, from the real source, all sizes); intertwining matrix identities on complete bases; polynomial degree proved on the jaxpr + unisolvent degree-3 lattice for nonlinear tendencies; options enumerated',
    'text': ('other: complete over fields/states at each configuration (linearity / degree proved statically, then complete bases / unisolvent lattice); '
             'bounded over grids and Fast option combinations; trajectories sampled. The symbolic-size index clauses (bijection R, mask conjugacy for all sizes) are covered at enumerated sizes only.'),
    'note': 'trusted: A1/A2, jxa degree rules, the lattice unisolvence theorem for total-degree polynomials.',
}
