"""C13 -- vertical (sigma) calculus: consistent, conservative, exact on affine data."""
from __future__ import annotations

import itertools
import numpy as np

from vlib.core import Clause, Outcome
from props import common

LEVEL = 'other'
SC = 'dinosaur.sigma_coordinates.'
EXPLANATION = (
    'All operators are linear (or bilinear) in the column data for fixed levels; linearity is proved from the traced '
    'programs (static). The identities are then checked as matrix identities on the complete column basis (complete '
    'over data) for enumerated layer counts N in {1..8,12,32}, uneven level sets, axes and cumulative-sum methods: '
    'cumulative integrals end at the total; down + up - total = local contribution; all cumsum strategies agree; '
    'centred differences exact on affine profiles; summation by parts for centred advection (bilinear: all basis '
    'pairs); geopotential weights = R x trapezoid rule in log sigma written as an independent loop. Validation of '
    'level sets is checked on an enumerated family of bad inputs. The all-N SMT induction lemmas planned in DESIGN '
    'are not built yet.')
ASSUMPTIONS = [
    'A1/A2: float64, tol 1e-12 relative',
    'bounded over layer counts and level sets (enumerated); complete over column data by (bi)linearity',
]
TOL = 1e-12


def _levels(tier, seed):
  out = []
  ns = (1, 2, 3, 5, 8) if tier == 'quick' else (1, 2, 3, 4, 5, 6, 7, 8, 12, 32)
  for n in ns:
    out.append((f'equidistant{n}', common.sigma_levels('equidistant', n)))
    if n > 1:
      for s in ((0,) if tier == 'quick' else (0, 1, 2)):
        out.append((f'uneven{n}s{s}', common.sigma_levels('uneven', n, s + seed)))
  try:
    from dinosaur import vertical_interpolation as vi
    hyb = vi.HybridCoordinates.ECMWF137()
    out.append(('ecmwf-approx8', hyb.to_approx_sigma_coords(8)))
  except Exception:  # pylint: disable=broad-except
    pass
  return out


def _col_matrix(fn, n, axis_shape=None):
  """Matrix of a linear column operator (acts on axis 0 of an (n,) array)."""
  import jax.numpy as jnp
  cols = [np.asarray(fn(jnp.asarray(np.eye(n)[:, k]))) for k in range(n)]
  return np.stack(cols, axis=1)


def run_validation(ctx):
  from dinosaur import sigma_coordinates as sc
  out = Outcome()
  good = [[0, 1], [0, 0.5, 1], [0.0, 1e-9, 1.0], [0, 0.2, 0.7, 1.0 + 5e-6], np.linspace(0, 1, 33)]
  bad = {
      'not increasing': [0, 0.6, 0.4, 1], 'repeated level': [0, 0.5, 0.5, 1], 'does not start at 0': [0.1, 0.5, 1],
      'does not end at 1': [0, 0.5, 0.9], 'decreasing': [1, 0.5, 0], 'single value': [0.0], 'single one': [1.0],
      'nan inside': [0, float('nan'), 1], 'nan first': [float('nan'), 0.5, 1], 'beyond 1': [0, 0.5, 1.2],
      'negative start': [-0.1, 0.5, 1], 'equal ends': [0, 0], 'inf': [0, float('inf'), 1],
  }
  for b in good:
    name = f'SigmaCoordinates accepts valid boundaries of length {len(b)}'
    try:
      s = sc.SigmaCoordinates(b)
      ok = np.all(s.layer_thickness > 0) and np.all(np.diff(s.centers) > 0) and s.layers == len(b) - 1
      if s.layers > 1:
        ok = ok and np.allclose(s.center_to_center, 0.5 * (s.layer_thickness[:-1] + s.layer_thickness[1:]), rtol=0, atol=1e-15)
      (out.ok(name, 'enum') if ok else out.fail(name, witness={'boundaries': list(map(float, b))}, detail='derived quantities wrong', key=name))
    except Exception as e:  # pylint: disable=broad-except
      out.fail(name, witness={'boundaries': list(map(float, b))}, detail=f'rejected: {e}', key=name)
  for why, b in bad.items():
    name = f'SigmaCoordinates rejects boundaries: {why}'
    try:
      sc.SigmaCoordinates(b)
      out.fail(name, witness={'boundaries': [repr(v) for v in b]}, detail='accepted', key=name)
    except (ValueError, IndexError):
      out.ok(name, 'enum')
  return out


def replay_validation(w):
  from dinosaur import sigma_coordinates as sc
  b = [float(v) for v in w.get('boundaries', [])]
  try:
    s = sc.SigmaCoordinates(b)
  except (ValueError, IndexError) as e:
    return ('accepts' in w.get('_obligation', '')), f'SigmaCoordinates({b}) raised {type(e).__name__}: {e}'
  return ('rejects' in w.get('_obligation', '')), f'SigmaCoordinates({b}) was accepted: layer_thickness = {s.layer_thickness.tolist()}, centers = {s.centers.tolist()}'


def run_linearity(ctx):
  jax = common.jx()
  import jax.numpy as jnp
  from vlib import jxa
  from dinosaur import sigma_coordinates as sc
  out = Outcome()
  for lname, sig in _levels(ctx.tier, ctx.seed)[:6]:
    n = sig.layers
    x = jnp.zeros((n, 2, 3))
    fns = {'cumulative_sigma_integral': lambda v: sc.cumulative_sigma_integral(v, sig),
           'cumulative_sigma_integral(up)': lambda v: sc.cumulative_sigma_integral(v, sig, downward=False),
           'sigma_integral': lambda v: sc.sigma_integral(v, sig),
           'cumulative_log_sigma_integral': lambda v: sc.cumulative_log_sigma_integral(v, sig)}
    if n > 1:
      fns['centered_difference'] = lambda v: sc.centered_difference(v, sig)
    for nm, fn in fns.items():
      outs, _, an, _ = jxa.analyze(fn, (x,))
      d, why = jxa.max_degree(outs)
      name = f'{lname}:{nm} is linear in the data'
      (out.ok(name, 'static') if d is not None and d <= 1 else (out.undec(name, why) if d is None else out.fail(name, witness={}, detail=f'degree {d}', key=name)))
    if n > 1:
      w = jnp.zeros((n - 1, 2, 3))
      outs, _, an, _ = jxa.analyze(lambda w_, x_: sc.centered_vertical_advection(w_, x_, sig), (w, x))
      d, why = jxa.max_degree(outs)
      name = f'{lname}:centered_vertical_advection is bilinear (degree <= 2) in (w, x)'
      (out.ok(name, 'static') if d is not None and d <= 2 else (out.undec(name, why) if d is None else out.fail(name, witness={}, detail=f'degree {d}', key=name)))
  return out


def run_identities(ctx):
  jax = common.jx()
  import jax.numpy as jnp
  from dinosaur import sigma_coordinates as sc
  from dinosaur import jax_numpy_utils as jnu
  from dinosaur import primitive_equations as pe
  out = Outcome()
  for lname, sig in _levels(ctx.tier, ctx.seed):
    n = sig.layers
    ds = np.asarray(sig.layer_thickness)
    wit = {'levels': lname, 'boundaries': [float(b) for b in sig.boundaries]}
    for method in ('dot', 'jax'):
      D = _col_matrix(lambda v: sc.cumulative_sigma_integral(v, sig, axis=0, cumsum_method=method), n)
      U = _col_matrix(lambda v: sc.cumulative_sigma_integral(v, sig, axis=0, downward=False, cumsum_method=method), n)
      T = _col_matrix(lambda v: sc.sigma_integral(v, sig, axis=0), n)          # (1, n)
      name = f'{lname}:{method}: cumulative integral ends at the total integral (both directions)'
      err = max(np.abs(D[-1] - T[0]).max(), np.abs(U[0] - T[0]).max())
      (out.ok(name, 'numeric') if err <= TOL else out.fail(name, witness=wit, detail=f'{err:.3e}', key=name))
      name = f'{lname}:{method}: downward + upward - total == x * layer_thickness'
      err = np.abs(D + U - np.ones((n, 1)) @ T - np.diag(ds)).max()
      (out.ok(name, 'numeric') if err <= TOL else out.fail(name, witness=wit, detail=f'{err:.3e}', key=name))
      name = f'{lname}:{method}: downward cumulative integral == prefix sums of x*layer_thickness'
      want = np.tril(np.ones((n, n))) * ds[None, :]
      err = np.abs(D - want).max()
      (out.ok(name, 'numeric') if err <= TOL else out.fail(name, witness=wit, detail=f'{err:.3e}', key=name))
    # cumsum strategies agree, axes
    x = np.random.RandomState(1).randn(n, 3, 4)
    for axis in (0, -3):
      for rev in (False, True):
        f = jnu.reverse_cumsum if rev else jnu.cumsum
        a = np.asarray(f(jnp.asarray(x), axis, method='dot'))
        b = np.asarray(f(jnp.asarray(x), axis, method='jax'))
        ref = np.flip(np.cumsum(np.flip(x, 0), 0), 0) if rev else np.cumsum(x, 0)
        err = max(np.abs(a - b).max(), np.abs(a - ref).max())
        name = f'{lname}:{"reverse_" if rev else ""}cumsum axis={axis}: dot == jax == reference'
        (out.ok(name, 'numeric') if err <= 1e-12 * max(1, n) else out.fail(name, witness=wit, detail=f'{err:.3e}', key=name))
    xt = np.moveaxis(np.random.RandomState(2).randn(n, 3, 4), 0, -1)
    a = np.asarray(jnu.cumsum(jnp.asarray(xt), -1, method='dot'))
    name = f'{lname}:cumsum along the last axis'
    (out.ok(name, 'numeric') if np.abs(a - np.cumsum(xt, -1)).max() <= 1e-12 * max(1, n) else out.fail(name, witness=wit, detail='mismatch', key=name))
    if n > 1:
      # centred differences exact on affine profiles a + b*sigma_center
      cen = np.asarray(sig.centers)
      for a0, b0 in ((0.0, 1.0), (3.0, -2.5)):
        d = np.asarray(sc.centered_difference(jnp.asarray(a0 + b0 * cen), sig, axis=0))
        err = np.abs(d - b0).max()
        name = f'{lname}:centered_difference of {a0}+{b0}*sigma == {b0} at every interface'
        (out.ok(name, 'numeric') if err <= 1e-10 else out.fail(name, witness=wit, detail=f'max error {err:.3e}; got {d[:4]}', key=name))
      # summation by parts, all basis pairs (bilinear => complete)
      worst = 0.0
      for k in range(n - 1):
        w = np.zeros(n - 1)
        w[k] = 1.0
        wpad = np.concatenate([[0.0], w, [0.0]])
        conv = wpad[1:] - wpad[:-1]                      # w_{n+1/2} - w_{n-1/2}
        A = _col_matrix(lambda v: sc.centered_vertical_advection(jnp.asarray(w), v, sig, axis=0), n)   # adv(w, e_j)
        lhs = ds @ A                                      # sum_n dsigma_n adv_n   for each x = e_j
        rhs = conv                                        # sum_n x_n conv_n = conv_j
        worst = max(worst, np.abs(lhs - rhs).max())
      name = f'{lname}:summation by parts: sum dsigma*advection(w,x) == sum x*(w_below - w_above), zero boundary w (all basis pairs)'
      (out.ok(name, 'numeric', sample={'obligation': name, 'max_abs': float(worst)}) if worst <= 1e-11 else
       out.fail(name, witness=wit, detail=f'{worst:.3e}', key=name))
      # 3-d axis default
      w3 = np.random.RandomState(3).randn(n - 1, 2, 2)
      x3 = np.random.RandomState(4).randn(n, 2, 2)
      adv = np.asarray(sc.centered_vertical_advection(jnp.asarray(w3), jnp.asarray(x3), sig))
      wp = np.concatenate([np.zeros((1, 2, 2)), w3, np.zeros((1, 2, 2))])
      lhs = (ds[:, None, None] * adv).sum(0)
      rhs = (x3 * (wp[1:] - wp[:-1])).sum(0)
      name = f'{lname}:summation by parts on (layers, 2, 2) fields, default axis'
      (out.ok(name, 'numeric') if np.abs(lhs - rhs).max() <= 1e-11 else out.fail(name, witness=wit, detail=f'{np.abs(lhs - rhs).max():.3e}', key=name))
    # geopotential operator == R * trapezoid in log sigma between centres + constant segment to sigma = 1
    R = 1.7
    G = pe.get_geopotential_weights(sig, R)
    cen = np.asarray(sig.centers)
    want = np.zeros((n, n))
    for j in range(n):
      # Phi_j = R * [ T_{n-1} * (log 1 - log c_{n-1}) + sum_{k=j}^{n-2} (T_k + T_{k+1})/2 * (log c_{k+1} - log c_k) ]
      want[j, n - 1] += R * (0.0 - np.log(cen[n - 1]))
      for k in range(j, n - 1):
        seg = R * 0.5 * (np.log(cen[k + 1]) - np.log(cen[k]))
        want[j, k] += seg
        want[j, k + 1] += seg
    err = np.abs(G - want).max()
    name = f'{lname}:get_geopotential_weights == R * trapezoid rule in log(sigma) (independent loop)'
    (out.ok(name, 'numeric') if err <= 1e-12 else out.fail(name, witness=wit, detail=f'{err:.3e}', key=name))
    name = f'{lname}:geopotential weights are upper triangular'
    (out.ok(name, 'numeric') if not np.abs(np.tril(G, -1)).max() else out.fail(name, witness=wit, detail='lower part non-zero', key=name))
    for method in ('dense', 'sparse'):
      Gm = _col_matrix(lambda v: pe.get_geopotential_diff(v[:, None, None], sig, R, method=method)[:, 0, 0], n)
      err = np.abs(Gm - want).max()
      name = f'{lname}:get_geopotential_diff[{method}] == R * trapezoid rule in log(sigma)'
      (out.ok(name, 'numeric') if err <= 1e-12 else out.fail(name, witness=wit, detail=f'{err:.3e}', key=name))
    Lg = _col_matrix(lambda v: sc.cumulative_log_sigma_integral(v, sig, axis=0, downward=False), n)
    err = np.abs(R * Lg - want).max()
    name = f'{lname}:R * cumulative_log_sigma_integral(upward) == geopotential operator'
    (out.ok(name, 'numeric') if err <= 1e-12 else out.fail(name, witness=wit, detail=f'{err:.3e}', key=name))
  return out


def replay_identity(w):
  jax = common.jx()
  import jax.numpy as jnp
  from dinosaur import sigma_coordinates as sc
  sig = sc.SigmaCoordinates(np.asarray(w['boundaries']))
  n = sig.layers
  msgs = []
  bad = False
  if n > 1:
    cen = np.asarray(sig.centers)
    d = np.asarray(sc.centered_difference(jnp.asarray(3.0 - 2.5 * cen), sig, axis=0))
    e = float(np.abs(d + 2.5).max())
    msgs.append(f'centered_difference(3-2.5*sigma) deviates from -2.5 by {e:.3e}')
    bad |= e > 1e-10
    wv = np.ones(n - 1)
    x = np.arange(1.0, n + 1) ** 2
    adv = np.asarray(sc.centered_vertical_advection(jnp.asarray(wv), jnp.asarray(x), sig, axis=0))
    wp = np.concatenate([[0.0], wv, [0.0]])
    r = float(abs((np.asarray(sig.layer_thickness) * adv).sum() - (x * (wp[1:] - wp[:-1])).sum()))
    msgs.append(f'summation-by-parts residual {r:.3e}')
    bad |= r > 1e-10
  x = np.arange(1.0, n + 1)
  D = np.asarray(sc.cumulative_sigma_integral(jnp.asarray(x), sig, axis=0))
  T = float(np.asarray(sc.sigma_integral(jnp.asarray(x), sig, axis=0))[0])
  r = abs(D[-1] - T)
  msgs.append(f'|cumulative[-1] - total| = {r:.3e}')
  bad |= r > 1e-12
  return bad, f'sigma boundaries {w["boundaries"]}: ' + '; '.join(msgs)


def clauses(tier, seed):
  fns = [SC + n for n in ('SigmaCoordinates.__init__', 'SigmaCoordinates.centers', 'SigmaCoordinates.layer_thickness',
                          'SigmaCoordinates.center_to_center', 'centered_difference', 'cumulative_sigma_integral', 'sigma_integral',
                          'cumulative_log_sigma_integral', 'centered_vertical_advection')] + [
      'dinosaur.jax_numpy_utils.cumsum', 'dinosaur.jax_numpy_utils.reverse_cumsum', 'dinosaur.jax_numpy_utils._single_device_dot_cumsum',
      'dinosaur.primitive_equations.get_geopotential_weights', 'dinosaur.primitive_equations.get_geopotential_diff',
      'dinosaur.primitive_equations.get_sigma_ratios']
  cl = [
      Clause('enum:level-set validation', 'enum', fns[:4], run_validation, replay=replay_validation, group='jax-a', heavy=True),
      Clause('static:(bi)linearity of the vertical operators', 'static', fns, run_linearity, group='jax-a', heavy=True),
      Clause('numeric:integral / difference / summation-by-parts / geopotential identities on complete column bases', 'numeric', fns,
             run_identities, replay=replay_identity, group='jax-b', heavy=True),
  ]
  try:
    from contracts import sigma_contracts, conformance_contracts, column_contracts, vertical_matrix_contracts
    cl += sigma_contracts.clauses() + [conformance_contracts.clauses()['C13']]
    cl += column_contracts.clauses()['C13'] + vertical_matrix_contracts.clauses(only=('get_sigma_ratios', 'get_geopotential', 'lemma:row sums'))
  except ImportError:
    pass
  return cl


MANIFEST = {
    'engine': 'pyvc+jxa',
    'technique': ('contract-based deductive: VCs from the real source in 1-d array mode for every layer count -- level-set validation, geometry (midpoints, thickness, '
                  'centre-to-centre), centred difference (formula, affine exactness), centred vertical advection (documented formula) and the summation-by-parts lemma by induction '
                  '(z3, non-linear steps through index-case resolution + abstraction); cumulative / total sigma integrals as ghost prefix sums (ends at the total, down + up - total == local '
                  'contribution, methods agree), the log-sigma trapezoid integral equal to the geopotential operator by downward induction, the geopotential matrix (loop invariants) and its '
                  'cumulative-sum form; (bi)linearity proved on the traced programs; identities as matrix identities on complete column '
                  'bases for enumerated level sets (bounded twins, also guarding NaN/float behaviour)'),
    'text': ('other: validation, geometry, centred difference/advection and summation by parts are proved for all layer counts and all strictly increasing level sets (floats as reals); '
             'cumulative integrals, the dot / jax cumulative-sum methods and the geopotential operator likewise (ghost sums; the reverse jax method through jnp.flip and the sharded schedule '
             'stay bounded / in C07).'),
    'note': 'trusted: A1/A2; independent loop specification of the trapezoid rule; jxa rules; callee contract _dot_cumsum == prefix/suffix sums (kernel proved in this property, sharded schedule in C07); jnp.cumsum textbook contract (A8).',
}
