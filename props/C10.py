"""C10 -- dynamics are equivariant under longitude grid-step rotations and the equatorial mirror."""
from __future__ import annotations

import numpy as np

from vlib.core import Clause, Outcome
from props import common, tendency

LEVEL = 'other'
EXPLANATION = (
    'Symmetry actions are explicit linear maps: in grid space a roll by s longitude steps / a flip of the latitude axis '
    '(pseudo-scalars change sign); in spectral space a rotation of each (cos m, sin m) pair by m*s*2pi/N / the parity '
    'sign (-1)^(l+m). (i) to_nodal/to_modal intertwine the two actions (matrix identities on complete bases, every s); '
    '(ii) every linear operator (Grid operators, implicit terms and solve, filters) commutes with them (matrix identities); '
    '(iii) nonlinear tendencies: T F(x) - F(T x) vanishes on the degree-3 lattice of the admissible subspace (degree '
    'proved from the jaxpr) -- complete over states at the configuration; moist: sampled; (iv) every integrator step is '
    'a term over {+, scalar *, F, G, G_inv} (the real step functions run on a domain that admits nothing else), hence '
    'commutes with any linear T commuting with F, G, G_inv -- for every step count by C14.')
ASSUMPTIONS = [
    'A1/A2: float64; tolerances 1e-11 (linear) / 1e-9 relative (tendencies)',
    'bounded over grids, level sets, rotations s (all s on tiny grids); moist tendencies and trajectories sampled',
    'structural induction: a term built from operations that commute with T commutes with T (mathematics)',
]


def modal_action(g, impl, s=0, mirror=False, pseudo=False):
  """Matrix (n_modal x n_modal) of the symmetry on spectral coefficients of one 2-D field."""
  nm_, nl_ = g.modal_shape
  N = g.longitude_nodes
  A = np.zeros((nm_ * nl_, nm_ * nl_))
  alpha = 2 * np.pi * s / N
  M = g.longitude_wavenumbers
  for m in range(M):
    for l in range(nl_):
      sign = ((-1) ** (l + m) if mirror else 1) * (-1 if (mirror and pseudo) else 1)
      if m == 0:
        i = tendency.row_of(g, impl, 0, 'c') * nl_ + l
        A[i, i] = sign
        continue
      ic = tendency.row_of(g, impl, m, 'c') * nl_ + l
      is_ = tendency.row_of(g, impl, m, 's') * nl_ + l
      c, sn = np.cos(m * alpha), np.sin(m * alpha)
      # (c', s') = (c cos - s sin, c sin + s cos)
      A[ic, ic] = sign * c
      A[ic, is_] = -sign * sn
      A[is_, ic] = sign * sn
      A[is_, is_] = sign * c
  return A


def nodal_action(g, s=0, mirror=False, pseudo=False):
  nlon, nlat = g.nodal_shape
  n = nlon * nlat
  A = np.zeros((n, n))
  for i in range(g.longitude_nodes):
    for j in range(g.latitude_nodes):
      i2 = (i + s) % g.longitude_nodes
      j2 = (g.latitude_nodes - 1 - j) if mirror else j
      A[i2 * nlat + j2, i * nlat + j] = -1.0 if (mirror and pseudo) else 1.0
  return A


def _syms(g, tier):
  N = g.longitude_nodes
  ss = list(range(N)) if N <= 12 and tier == 'thorough' else sorted({1, N // 4, N - 1, 0})
  out = [dict(s=s, mirror=False) for s in ss if s] + [dict(s=0, mirror=True), dict(s=1, mirror=True)]
  return out


def run_intertwine(ctx):
  jax = common.jx()
  import jax.numpy as jnp
  from vlib import jxa
  out = Outcome()
  for c in common.cfg_grid(ctx.tier):
    g = c['grid']
    if g.nodal_padding != (0, 0) and c['impl'] == 'fast' and g.nodal_shape[0] != g.longitude_nodes:
      continue   # padded nodal layouts: rolled padding is not a field; covered by C07/C09
    if g.nodal_shape != (g.longitude_nodes, g.latitude_nodes):
      continue
    S, _, _, _ = jxa.matrix_of(g.to_nodal, jnp.zeros(g.modal_shape))
    Tm_all = {}
    mask = np.asarray(g.mask).ravel()
    for sym in _syms(g, ctx.tier):
      Tm = modal_action(g, c['impl'], **sym)
      Tn = nodal_action(g, **sym)
      err = float(np.abs(S @ Tm - Tn @ S)[:, mask].max())
      name = f'{c["name"]}:sym{sym}: to_nodal o T_modal == T_nodal o to_nodal'
      (out.ok(name, 'numeric', sample={'obligation': name, 'max_abs': err}) if err <= 1e-12 else
       out.fail(name, witness={'cfg': c['name'], 'sym': sym}, detail=f'{err:.3e}', key=name))
    if c['resolves']:
      A, _, _, _ = jxa.matrix_of(g.to_modal, jnp.zeros(g.nodal_shape))
      for sym in _syms(g, ctx.tier):
        Tm = modal_action(g, c['impl'], **sym)
        Tn = nodal_action(g, **sym)
        # on band-limited fields (range of to_nodal)
        err = float(np.abs((A @ Tn - Tm @ A) @ S[:, mask]).max())
        name = f'{c["name"]}:sym{sym}: to_modal o T_nodal == T_modal o to_modal on band-limited fields'
        (out.ok(name, 'numeric') if err <= 1e-12 else out.fail(name, witness={'cfg': c['name'], 'sym': sym}, detail=f'{err:.3e}', key=name))
  return out


def run_linear_commute(ctx):
  jax = common.jx()
  import jax.numpy as jnp
  from vlib import jxa
  from dinosaur import filtering
  out = Outcome()
  for c in common.cfg_grid(ctx.tier):
    g = c['grid']
    x0 = jnp.zeros(g.modal_shape)
    mask = np.asarray(g.mask).ravel()
    ops = {'d_dlon': (g.d_dlon, +1), 'cos_lat_d_dlat': (g.cos_lat_d_dlat, -1), 'sec_lat_d_dlat_cos2': (g.sec_lat_d_dlat_cos2, -1),
           'laplacian': (g.laplacian, +1), 'inverse_laplacian': (g.inverse_laplacian, +1),
           'clip_wavenumbers': (g.clip_wavenumbers, +1),
           'exponential_filter': (filtering.exponential_filter(g, 8.0, 2, 0.2), +1),
           'horizontal_diffusion_filter': (filtering.horizontal_diffusion_filter(g, 0.05, 2), +1)}
    mats = {k: jxa.matrix_of(f, x0)[0] for k, (f, _) in ops.items()}
    rows = mask
    for sym in _syms(g, ctx.tier):
      Tm = modal_action(g, c['impl'], **sym)
      for k, (f, parity) in ops.items():
        sgn = parity if sym['mirror'] else 1
        E = (mats[k] @ Tm - sgn * Tm @ mats[k])[:, mask][rows]
        sc = max(1.0, float(np.abs(mats[k]).max()))
        err = float(np.abs(E).max()) / sc
        name = f'{c["name"]}:sym{sym}:{k} {"anti-" if sgn < 0 else ""}commutes with the symmetry'
        (out.ok(name, 'numeric') if err <= 1e-11 else out.fail(name, witness={'cfg': c['name'], 'sym': sym, 'op': k}, detail=f'{err:.3e}', key=name))
  return out


# ---- state actions --------------------------------------------------------------------------------------------------


def _field_actions(g, impl, sym):
  Ts = modal_action(g, impl, pseudo=False, **sym)
  Tp = modal_action(g, impl, pseudo=True, **sym)
  return Ts, Tp


def _act(g, Ts, Tp, leaves):
  import jax.numpy as jnp
  out = {}
  for k, a in leaves.items():
    T = Tp if k == 'vorticity' else Ts
    shp = a.shape
    out[k] = (jnp.asarray(T) @ a.reshape(-1, shp[-2] * shp[-1]).T).T.reshape(shp)
  return out


def _primitive_T(eqcls_state, g, impl, sym):
  Ts, Tp = _field_actions(g, impl, sym)
  def T(state):
    lv = tendency.primitive_leaves(state)
    st = lv.pop('sim_time', None)
    tl = _act(g, Ts, Tp, lv)
    tr = {k.split(':', 1)[1]: v for k, v in tl.items() if k.startswith('tracer:')}
    args = [tl['vorticity'], tl['divergence'], tl['temperature_variation'], tl['log_surface_pressure']]
    if hasattr(state, 'sim_time'):
      args.append(state.sim_time)
    return type(state)(*args, tr)
  return T, Ts


def run_tendencies(ctx):
  jax = common.jx()
  import jax.numpy as jnp
  from vlib import jxa
  from dinosaur import coordinate_systems as cs, layer_coordinates, shallow_water as sw
  from props import C03
  out = Outcome()
  cfgs = [('real', 2, 3, 6, 5, 2), ('fast', 2, 3, 6, 5, 2)]
  if ctx.tier == 'thorough':
    cfgs.append(('real', 3, 4, 10, 7, 3))
  for impl, M, L, lon, lat, layers in cfgs:
    g = common.make_grid(M, L, lon, lat, 'gauss', impl)
    sig = common.sigma_levels('uneven', layers, ctx.seed)
    r2 = np.random.RandomState(ctx.seed + 3)
    oro = np.zeros(g.modal_shape)
    for (m, trig, l) in tendency.canonical_modes(g):
      oro[tendency.row_of(g, impl, m, trig), l] = 0.05 * r2.randn()
    for sym in (dict(s=1, mirror=False), dict(s=0, mirror=True), dict(s=lon - 1, mirror=True)):
      Ts, Tp = _field_actions(g, impl, sym)
      oro_T = (Ts @ oro.ravel()).reshape(oro.shape)
      # dry primitive equations
      eq = common.make_primitive(g, sig, 'linear', orography=oro)
      eqT = common.make_primitive(g, sig, 'linear', orography=oro_T)
      sp = tendency.primitive_space(eq, impl, tracers=('q',))
      so = tendency.StateSpace(g, impl, sp.fields, zero_mean=())
      T, _ = _primitive_T(None, g, impl, sym)
      tag = f'dry:{impl}:M{M}L{L}:layers{layers}:sym{sym}'
      F = lambda x: so.coords_of(tendency.primitive_leaves(T(eq.explicit_terms(tendency.primitive_state(sp, x)))))[0]
      FT = lambda x: so.coords_of(tendency.primitive_leaves(eqT.explicit_terms(T(tendency.primitive_state(sp, x)))))[0]
      outs, _, an, _ = jxa.analyze(lambda x: FT(x), (jnp.zeros(sp.n),))
      d, why = jxa.max_degree(outs)
      name = f'{tag}:tendency of the transformed state is polynomial of degree <= 3'
      if d is None or d > 3:
        (out.undec(name, why) if d is None else out.fail(name, witness={'cfg': tag}, detail=f'degree {d}', key=name))
        continue
      out.ok(name, 'static')
      fmx, _, _ = jxa.lattice_max_abs(F, sp.n, 1, scale=sp.scale)
      mx, arg, cnt = jxa.lattice_max_abs(lambda x: F(x) - FT(x), sp.n, 3, scale=sp.scale)
      tol = 1e-9 * max(1.0, fmx)
      name = f'{tag}:T F(x) == F_T(T x) on the degree-3 lattice ({cnt} points, orography transformed too)'
      (out.ok(name, 'numeric', sample={'obligation': name, 'max_abs_diff': mx, 'tol': tol}) if mx <= tol else
       out.fail(name, witness={'cfg': tag, 'x': [float(v) for v in arg]}, detail=f'{mx:.3e} > {tol:.1e}', key=name))
      # shallow water
      coords = cs.CoordinateSystem(g, layer_coordinates.LayerCoordinates(layers))
      eqs = C03._make_sw(sw, coords, np.array([0.8, 1.3, 1.9])[:layers], np.array([1.0, 2.0, 1.5])[:layers])
      sps = tendency.sw_space(eqs, impl)
      sos = tendency.StateSpace(g, impl, sps.fields, zero_mean=())
      def Tsw(st):
        tl = _act(g, Ts, Tp, tendency.sw_leaves(st))
        return sw.State(tl['vorticity'], tl['divergence'], tl['potential'])
      tag = f'shallow_water:{impl}:M{M}L{L}:layers{layers}:sym{sym}'
      F = lambda x: sos.coords_of(tendency.sw_leaves(Tsw(eqs.explicit_terms(tendency.sw_state(sps, x)))))[0]
      FT = lambda x: sos.coords_of(tendency.sw_leaves(eqs.explicit_terms(Tsw(tendency.sw_state(sps, x)))))[0]
      fmx, _, _ = jxa.lattice_max_abs(F, sps.n, 1)
      mx, arg, cnt = jxa.lattice_max_abs(lambda x: F(x) - FT(x), sps.n, 3)
      tol = 1e-9 * max(1.0, fmx)
      name = f'{tag}:T F(x) == F(T x) on the degree-3 lattice ({cnt} points)'
      (out.ok(name, 'numeric', sample={'obligation': name, 'max_abs_diff': mx}) if mx <= tol else
       out.fail(name, witness={'cfg': tag, 'x': [float(v) for v in arg]}, detail=f'{mx:.3e} > {tol:.1e}', key=name))
  return out


def run_moist_and_steps(ctx):
  """Sampled: moist tendencies; implicit terms/solve; 3-step trajectories (dry, moist, shallow water)."""
  jax = common.jx()
  import jax.numpy as jnp
  from dinosaur import time_integration as ti
  out = Outcome()
  rng = np.random.RandomState(ctx.seed + 31)
  for impl in ('real', 'fast'):
    g = common.make_grid(3, 4, 10, 7, 'gauss', impl)
    sig = common.sigma_levels('uneven', 3, ctx.seed)
    oro = np.zeros(g.modal_shape)
    r2 = np.random.RandomState(ctx.seed + 3)
    for (m, trig, l) in tendency.canonical_modes(g):
      oro[tendency.row_of(g, impl, m, trig), l] = 0.05 * r2.randn()
    for sym in (dict(s=3, mirror=False), dict(s=0, mirror=True), dict(s=5, mirror=True)):
      Ts, Tp = _field_actions(g, impl, sym)
      oro_T = (Ts @ oro.ravel()).reshape(oro.shape)
      for cls in ('moist', 'time'):
        tracers = ('specific_humidity',) if cls == 'moist' else ('q',)
        eq = common.make_primitive(g, sig, 'linear', cls=cls, orography=oro)
        eqT = common.make_primitive(g, sig, 'linear', cls=cls, orography=oro_T)
        sp = tendency.primitive_space(eq, impl, tracers=tracers)
        T, _ = _primitive_T(None, g, impl, sym)
        worst = {'explicit': 0.0, 'implicit': 0.0, 'inverse': 0.0, 'steps': 0.0}
        stepper = jax.jit(lambda s: ti.repeated(ti.imex_rk_sil3(eq, 0.01), 3)(s))
        stepperT = jax.jit(lambda s: ti.repeated(ti.imex_rk_sil3(eqT, 0.01), 3)(s))
        for k in range(3 if ctx.tier == 'quick' else 12):
          x = jnp.asarray(rng.randn(sp.n) * sp.scale * 0.3)
          st = tendency.primitive_state(sp, x, with_time=True)
          tr = dict(st.tracers)
          if cls == 'moist':
            tr['specific_humidity'] = tr['specific_humidity'].at[:, 0, 0].add(0.01 * np.sqrt(4 * np.pi))
          st = type(st)(st.vorticity, st.divergence, st.temperature_variation, st.log_surface_pressure, st.sim_time, tr)
          for nm, f, fT in (('explicit', eq.explicit_terms, eqT.explicit_terms), ('implicit', eq.implicit_terms, eqT.implicit_terms),
                            ('inverse', lambda s: eq.implicit_inverse(s, 0.3), lambda s: eqT.implicit_inverse(s, 0.3)),
                            ('steps', stepper, stepperT)):
            a = tendency.primitive_leaves(T(f(st)))
            b = tendency.primitive_leaves(fT(T(st)))
            ref = max(float(jnp.abs(v).max()) for v in a.values())
            dmax = max(float(jnp.abs(a[k_] - b[k_]).max()) for k_ in a)
            worst[nm] = max(worst[nm], dmax / max(1.0, ref))
        for nm, wv in worst.items():
          name = f'{cls}:{impl}:sym{sym}:{nm}: T f(x) == f_T(T x) on sampled states'
          (out.ok(name, 'numeric', sample={'obligation': name, 'worst_rel': wv}) if wv <= 1e-9 else
           out.fail(name, witness={'cls': cls, 'impl': impl, 'sym': sym, 'what': nm}, detail=f'worst relative difference {wv:.3e}', key=name))
  return out


def replay_equivariance(w):
  """Native: explicit_terms of the real dry and moist classes commute with the mirror and a 3-step rotation on a random state with humidity,
  temperature variation and a non-uniform surface pressure (the spectral actions are the ones validated against grid-space roll / flip)."""
  jax = common.jx()
  import jax.numpy as jnp
  rng = np.random.RandomState(17)
  msgs = []
  g = common.make_grid(3, 4, 10, 7, 'gauss', 'real')
  sig = common.sigma_levels('uneven', 3, 0)
  oro = np.zeros(g.modal_shape)
  for (m, trig, l) in tendency.canonical_modes(g):
    oro[tendency.row_of(g, 'real', m, trig), l] = 0.05 * rng.randn()
  for sym in (dict(s=0, mirror=True), dict(s=3, mirror=False)):
    Ts, Tp = _field_actions(g, 'real', sym)
    oro_T = (Ts @ oro.ravel()).reshape(oro.shape)
    T, _ = _primitive_T(None, g, 'real', sym)
    for cls in ('time', 'moist'):
      tracers = ('specific_humidity',) if cls == 'moist' else ('q',)
      eq = common.make_primitive(g, sig, 'linear', cls=cls, orography=oro)
      eqT = common.make_primitive(g, sig, 'linear', cls=cls, orography=oro_T)
      sp = tendency.primitive_space(eq, 'real', tracers=tracers)
      st = tendency.primitive_state(sp, jnp.asarray(rng.randn(sp.n) * sp.scale * 0.3), with_time=True)
      tr = dict(st.tracers)
      if cls == 'moist':
        tr['specific_humidity'] = tr['specific_humidity'].at[:, 0, 0].add(0.01 * np.sqrt(4 * np.pi))
      st = type(st)(st.vorticity, st.divergence, st.temperature_variation, st.log_surface_pressure, st.sim_time, tr)
      a = tendency.primitive_leaves(T(eq.explicit_terms(st)))
      b = tendency.primitive_leaves(eqT.explicit_terms(T(st)))
      ref = max(float(jnp.abs(v).max()) for v in a.values())
      diffs = {k: float(jnp.abs(a[k] - b[k]).max()) / max(1.0, ref) for k in a}
      if max(diffs.values()) > 1e-9:
        msgs.append(f'{cls} equations, symmetry {sym}: relative |T f(x) - f_T(T x)| per field {diffs}')
  return bool(msgs), ('; '.join(msgs[:3]) if msgs else 'explicit tendencies commute with the mirror and the rotation on the sampled dry / moist states')


def run_step_terms(ctx):
  """Every integrator step is a term over {+, scalar*, F, G, G_inv}: the real step functions run on the LinComb
  domain, which raises on anything else."""
  from vlib import symx
  from dinosaur import time_integration as ti
  out = Outcome()
  for integ in ('backward_forward_euler', 'crank_nicolson_rk2', 'crank_nicolson_rk3', 'crank_nicolson_rk4', 'imex_rk_sil3'):
    name = f'{integ}: step is a term over (+, scalar*, F, G, G_inv) => commutes with every linear T that commutes with F, G, G_inv'
    try:
      t = symx.derive_tableau(getattr(ti, integ))
      out.ok(name, 'exact', sample={'obligation': name, 'calls': [list(c) for c in t['calls']]})
    except Exception as e:  # pylint: disable=broad-except
      out.fail(name, witness={'integrator': integ}, detail=f'{type(e).__name__}: {e}', key=name)
  name = 'semi_implicit_leapfrog: step is a term over (+, scalar*, F, G, G_inv)'
  try:
    eq = symx.AbstractEquation(('prev', 'cur'))
    ti.semi_implicit_leapfrog(eq.equation, symx.DT)((symx.LinComb.atom('prev'), symx.LinComb.atom('cur')))
    out.ok(name, 'exact')
  except Exception as e:  # pylint: disable=broad-except
    out.fail(name, witness={}, detail=f'{type(e).__name__}: {e}', key=name)
  return out


def clauses(tier, seed):
  fns = ['dinosaur.primitive_equations.PrimitiveEquations.explicit_terms', 'dinosaur.primitive_equations.MoistPrimitiveEquations.explicit_terms',
         'dinosaur.shallow_water.ShallowWaterEquations.explicit_terms', 'dinosaur.spherical_harmonic.Grid', 'dinosaur.fourier.real_basis',
         'dinosaur.associated_legendre.evaluate', 'dinosaur.primitive_equations.PrimitiveEquations.coriolis_parameter']
  return [
      Clause('numeric:transforms intertwine grid-space and spectral symmetry actions', 'numeric', fns, run_intertwine, group='jax-a', heavy=True),
      Clause('numeric:linear operators and filters (anti-)commute with the symmetries', 'numeric', fns, run_linear_commute, group='jax-b', heavy=True),
      Clause('static+numeric:dry and shallow-water tendencies equivariant on the degree-3 lattice', 'numeric', fns, run_tendencies, group='jax-c', heavy=True),
      Clause('numeric:moist tendencies, implicit parts and 3-step trajectories equivariant (sampled)', 'numeric', fns, run_moist_and_steps, group='jax-d', heavy=True),
      Clause('exact:integrator steps are terms over commuting operations', 'exact', ['dinosaur.time_integration.imex_runge_kutta'], run_step_terms, group='symx'),
  ] + _symmetry_clauses()


def _symmetry_clauses():
  from contracts import equivariance_contracts, symmetry_contracts
  eq = equivariance_contracts.clauses() + equivariance_contracts.held_suarez_clauses('C10')
  for c in eq:
    c.replay = replay_equivariance
  return symmetry_contracts.clauses() + eq


MANIFEST = {
    'engine': 'pyvc+jxa+symx',
    'technique': 'contract-based deductive: explicit_terms of the dry, the moist and the shallow-water equations executed from the real source over abstract fields and proved equivariant under the equatorial mirror and under rotations by multilinear normal form (all fields, sizes, level counts), using the operator (anti-)commutation rules; the elementary spectral operators (d/dlon in both layouts, both latitude-derivative recurrences, Laplacian / inverse / clipping) proved (anti-)commuting with every rotation and with the equatorial mirror from the real source for all sizes (pyvc array / row mode); intertwining/commutation matrix identities on complete bases; equivariance of nonlinear tendencies on the unisolvent degree-3 lattice (degree proved on the jaxpr); step equivariance by structural induction over the symbolically executed step functions',
    'text': ('other: complete over fields/states at each configuration for linear parts and dry/shallow-water tendencies, deductive for the step functions '
             'given the layer-2 commutation, bounded over grids/rotations/level sets; moist tendencies and trajectories sampled.'),
    'note': 'trusted: A1/A2; that the transforms intertwine the grid-space and the spectral actions is a bounded numeric clause, so the all-size operator clauses carry to the model only through it; closed-form spectral actions validated against grid-space roll/flip (clause 1); jxa degree rules; lattice unisolvence.',
}
