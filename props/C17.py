"""C17 -- vertical interpolation exact on affine data with the documented extrapolation."""
from __future__ import annotations

import numpy as np

from vlib.core import Clause, Outcome
from props import common

LEVEL = 'other'
VI = 'dinosaur.vertical_interpolation.'
EXPLANATION = (
    'Every interpolation kernel is linear in the data for fixed nodes and query, so its weight vector decides the '
    'property for all data. Weight vectors of interp (default path), _dot_interp (accelerator path, called directly), '
    'linear_interp_with_linear_extrap and _linear_interp_with_safe_extrap(n) are extracted on enumerated node sets '
    '(n in {2,3,4,17}; even, widening, narrowing) and query points at, between and outside the nodes (ties included) and '
    'compared with an independent piecewise-linear specification written as plain loops: sum(w)=1, sum(w*xp)=x where '
    'linear, at most two non-zero weights, weights in [0,1] inside the range, node values reproduced, documented '
    'extrapolation (constant / unlimited linear / linear for n end cells then NaN). Sigma<->pressure conversion on '
    'affine columns, surface pressure from geopotential, and nearest/bilinear horizontal regridding are checked on '
    'enumerated configurations. Bounded; the all-n SMT clauses planned in DESIGN are not built.')
ASSUMPTIONS = ['A1/A2: float64, tol 1e-12', 'bounded over node sets and query points (enumerated)', 'jnp.interp is used as it is (external)']
TOL = 1e-11


def _node_sets(tier, seed):
  rng = np.random.RandomState(seed + 41)
  sets = {'two': np.array([1.0, 2.5]), 'even4': np.array([0.0, 1.0, 2.0, 3.0]), 'widening': np.array([1.0, 2.0, 4.0, 8.0]),
          'narrowing': np.array([0.0, 4.0, 6.0, 7.0]), 'three': np.array([-1.0, 0.5, 0.75])}
  sets['seeded17'] = np.cumsum(rng.uniform(0.1, 2.0, 17))
  if tier == 'thorough':
    sets['seeded17b'] = np.cumsum(rng.uniform(0.01, 5.0, 17)) - 20
  return sets


def _queries(xp):
  first, last = xp[1] - xp[0], xp[-1] - xp[-2]
  q = list(xp) + list((xp[:-1] + xp[1:]) / 2) + list(xp[:-1] + 0.1 * np.diff(xp))
  for f in (0.25, 0.9, 1.0, 1.1, 1.9, 2.0, 2.1, 5.0):
    q += [xp[0] - f * first, xp[-1] + f * last]
  return np.array(q)


def spec_weights(x, xp, mode, ncells=1):
  """Independent specification: weights of piecewise-linear interpolation with the given extrapolation mode."""
  n = len(xp)
  w = np.zeros(n)
  if x < xp[0] or x > xp[-1]:
    left = x < xp[0]
    if mode == 'constant':
      w[0 if left else n - 1] = 1.0
      return w
    i0, i1 = (0, 1) if left else (n - 2, n - 1)
    width = xp[i1] - xp[i0]
    if mode == 'safe':
      dist = (xp[0] - x) if left else (x - xp[-1])
      if dist > ncells * width * (1 + 1e-12):
        return np.full(n, np.nan)
    t = (x - xp[i0]) / width
    w[i0], w[i1] = 1 - t, t
    return w
  # inside: rightmost cell with xp[i] <= x (ties at nodes give the node value either way)
  i = 0
  for k in range(n - 1):
    if xp[k] <= x:
      i = k
  t = (x - xp[i]) / (xp[i + 1] - xp[i])
  w[i], w[i + 1] = 1 - t, t
  return w


def run_kernels(ctx):
  jax = common.jx()
  import jax.numpy as jnp
  from dinosaur import vertical_interpolation as vi
  out = Outcome()
  kernels = {
      'interp (default path)': (lambda x, xp, fp: vi.interp(x, xp, fp), 'constant', 1),
      '_dot_interp (accelerator path)': (vi._dot_interp, 'constant', 1),
      'linear_interp_with_linear_extrap': (vi.linear_interp_with_linear_extrap, 'linear', 1),
      '_linear_interp_with_safe_extrap(n=1)': (lambda x, xp, fp: vi._linear_interp_with_safe_extrap(x, xp, fp, 1), 'safe', 1),
      '_linear_interp_with_safe_extrap(n=2)': (lambda x, xp, fp: vi._linear_interp_with_safe_extrap(x, xp, fp, 2), 'safe', 2),
  }
  for sname, xp in _node_sets(ctx.tier, ctx.seed).items():
    n = len(xp)
    qs = _queries(xp)
    for kname, (fn, mode, nc) in kernels.items():
      f = jax.jit(jax.vmap(lambda x: jax.vmap(lambda e: fn(x, jnp.asarray(xp), e))(jnp.eye(n))))
      W = np.asarray(f(jnp.asarray(qs)))           # (queries, n)
      S = np.stack([spec_weights(x, xp, mode, nc) for x in qs])
      tag = f'{kname}:{sname}'
      both_nan = np.isnan(W) & np.isnan(S)
      # at the exact cut-off of the safe zone either answer is acceptable (rounding of the padded node)
      edge = np.zeros(len(qs), bool)
      if mode == 'safe':
        for qi, x in enumerate(qs):
          for d, wd in ((xp[0] - x, xp[1] - xp[0]), (x - xp[-1], xp[-1] - xp[-2])):
            if abs(d - nc * wd) <= 1e-9 * max(1.0, abs(wd)):
              edge[qi] = True
      diff = np.where(both_nan, 0.0, np.abs(W - S))
      diff[edge] = 0.0
      mism = np.isnan(W) != np.isnan(S)
      mism[edge] = False
      name = f'{tag}: weights == piecewise-linear specification with {mode} extrapolation at {len(qs)} query points (nodes, ties, inside, outside)'
      if not mism.any() and np.nanmax(diff) <= TOL:
        out.ok(name, 'numeric', sample={'obligation': name, 'max_abs_diff': float(np.nanmax(diff))})
      else:
        qi = int(np.argmax(np.where(mism.any(1), np.inf, np.nan_to_num(diff).max(1))))
        out.fail(name, witness={'kernel': kname, 'xp': [float(v) for v in xp], 'x': float(qs[qi]), 'mode': mode, 'ncells': nc},
                 detail=f'at x={qs[qi]}: weights {W[qi]} vs specification {S[qi]}', key=name)
        continue
      fin = ~np.isnan(W).any(1)
      Wf = W[fin]
      xf = qs[fin]
      name = f'{tag}: weights sum to 1 and at most two are non-zero'
      ok = np.abs(Wf.sum(1) - 1).max() <= TOL and ((np.abs(Wf) > 0).sum(1) <= 2).all()
      (out.ok(name, 'numeric') if ok else out.fail(name, witness={'kernel': kname, 'xp': [float(v) for v in xp]}, detail='sum/sparsity', key=name))
      inside = (xf >= xp[0]) & (xf <= xp[-1])
      name = f'{tag}: inside the range weights lie in [0,1] (bounded by neighbours) and reproduce x (exact on affine data)'
      ok = (Wf[inside] >= -TOL).all() and (Wf[inside] <= 1 + TOL).all() and np.abs(Wf[inside] @ xp - xf[inside]).max() <= 1e-10 * max(1, np.abs(xp).max())
      (out.ok(name, 'numeric') if ok else out.fail(name, witness={'kernel': kname, 'xp': [float(v) for v in xp]}, detail='range/affine', key=name))
      if mode != 'constant':
        name = f'{tag}: outside the range (where defined) sum(w*xp) == x: linear continuation, exact on affine data'
        err = np.abs(Wf[~inside] @ xp - xf[~inside]).max() if (~inside).any() else 0.0
        (out.ok(name, 'numeric') if err <= 1e-9 * max(1, np.abs(xp).max()) else out.fail(name, witness={'kernel': kname, 'xp': [float(v) for v in xp]}, detail=f'{err:.3e}', key=name))
  return out


def run_conversions(ctx):
  jax = common.jx()
  import jax.numpy as jnp
  from dinosaur import vertical_interpolation as vi
  from dinosaur import sigma_coordinates as sc
  from dinosaur import primitive_equations as pe
  out = Outcome()
  rng = np.random.RandomState(ctx.seed + 43)
  plev = vi.PressureCoordinates(np.array([50.0, 100.0, 200.0, 400.0, 800.0, 1000.0]))
  for sname, sig in (('equidistant6', sc.SigmaCoordinates.equidistant(6)), ('uneven7', common.sigma_levels('uneven', 7, ctx.seed))):
    for ps0 in (500.0, 800.0, 1013.25, 1080.0):
      ps = jnp.full((1, 2, 2), ps0)
      a, b = 3.0, 0.01
      # affine column in pressure: f(p) = a + b p
      fp = jnp.asarray(np.broadcast_to((a + b * plev.centers)[:, None, None], (6, 2, 2)))
      got = np.asarray(vi.interp_pressure_to_sigma({'f': fp, 's': jnp.ones((2, 2))}, plev, sig, ps)['f'])
      want_p = np.asarray(sig.centers)[:, None, None] * ps0
      want = a + b * want_p
      lo, hi = plev.centers[0] - (plev.centers[1] - plev.centers[0]), plev.centers[-1] + (plev.centers[-1] - plev.centers[-2])
      safe = (want_p >= lo) & (want_p <= hi)
      safe = np.broadcast_to(safe, got.shape)
      name = f'pressure->sigma[{sname},ps={ps0}]: affine columns reproduced inside the safe zone, NaN beyond it'
      ok = np.abs(got[safe] - np.broadcast_to(want, got.shape)[safe]).max() <= 1e-9 and np.all(np.isnan(got[~safe]))
      (out.ok(name, 'numeric') if ok else out.fail(name, witness={'sigma': sname, 'ps': ps0}, detail=f'got {got[:, 0, 0]} want {want[:, 0, 0]}', key=name))
      # sigma -> pressure on affine-in-sigma columns
      fs = jnp.asarray(np.broadcast_to((a + b * 1000 * np.asarray(sig.centers))[:, None, None], (sig.layers, 2, 2)))
      got = np.asarray(vi.interp_sigma_to_pressure({'f': fs}, plev, sig, ps)['f'])
      tgt_s = plev.centers[:, None, None] / ps0
      c = np.asarray(sig.centers)
      lo, hi = c[0] - (c[1] - c[0]), c[-1] + (c[-1] - c[-2])
      safe = np.broadcast_to((tgt_s >= lo) & (tgt_s <= hi), got.shape)
      want = np.broadcast_to(a + b * 1000 * tgt_s, got.shape)
      name = f'sigma->pressure[{sname},ps={ps0}]: affine columns reproduced inside the safe zone, NaN beyond it'
      ok = (not safe.any() or np.abs(got[safe] - want[safe]).max() <= 1e-9) and np.all(np.isnan(got[~safe]))
      (out.ok(name, 'numeric') if ok else out.fail(name, witness={'sigma': sname, 'ps': ps0}, detail=f'got {got[:, 0, 0]} want {want[:, 0, 0]}', key=name))
  # surface pressure: level where geopotential meets orography, geopotential affine in level pressure
  g = 9.8
  for slope, z0 in ((-50.0, 60000.0), (-80.0, 90000.0)):
    geo = jnp.asarray(np.broadcast_to((z0 + slope * plev.centers)[:, None, None], (6, 2, 3)))
    oro = jnp.asarray(np.array([[0.0, 100.0, 500.0], [1500.0, 3000.0, 5500.0]]))
    got = np.asarray(vi.get_surface_pressure(plev, geo, oro, g))[0]
    want = (g * np.asarray(oro) - z0) / slope
    name = f'get_surface_pressure: geopotential {z0}+{slope}*p meets g*orography at the returned pressure'
    (out.ok(name, 'numeric') if np.abs(got - want).max() <= 1e-8 * np.abs(want).max() else
     out.fail(name, witness={'slope': slope, 'z0': z0}, detail=f'got {got} want {want}', key=name))
  # _vertical_interp: constant extrapolation
  x = jnp.asarray(np.array([0.05, 0.3, 0.99]))
  xp = jnp.asarray(np.array([0.1, 0.5, 0.9]))
  fp3 = jnp.asarray(np.arange(3.0)[:, None, None] * np.ones((3, 2, 2)))
  got = np.asarray(pe._vertical_interp(x, xp, fp3))[:, 0, 0]
  name = 'primitive_equations._vertical_interp: linear inside, constant outside'
  (out.ok(name, 'numeric') if np.abs(got - np.array([0.0, 0.5, 2.0])).max() <= 1e-12 else out.fail(name, witness={}, detail=str(got), key=name))
  return out


def run_horizontal_regridders(ctx):
  jax = common.jx()
  import jax.numpy as jnp
  from dinosaur import horizontal_interpolation as hi
  out = Outcome()
  grids = {'gauss12x9': common.make_grid(4, 5, 12, 9, 'gauss'), 'equi16x8': common.make_grid(4, 4, 16, 8, 'equiangular'),
           'gauss8x7': common.make_grid(3, 4, 8, 7, 'gauss')}
  rng = np.random.RandomState(ctx.seed + 44)
  for a, ga in grids.items():
    for b, gb in grids.items():
      for cls in (hi.BilinearRegridder, hi.NearestRegridder):
        rg = cls(ga, gb)
        c = np.asarray(rg(jnp.full((2,) + tuple(ga.nodal_shape), 7.5)))
        name = f'{cls.__name__}:{a}->{b}: constants reproduced'
        (out.ok(name, 'numeric') if c.shape[-2:] == tuple(gb.nodal_shape) and np.abs(c - 7.5).max() <= 1e-12 else
         out.fail(name, witness={'source': a, 'target': b}, detail=f'{np.abs(c - 7.5).max():.3e}', key=name))
        if a == b:
          f = rng.randn(*ga.nodal_shape)
          y = np.asarray(rg(jnp.asarray(f)))
          name = f'{cls.__name__}:{a}->{a}: identity between equal grids'
          (out.ok(name, 'numeric') if np.abs(y - f).max() <= 1e-12 else out.fail(name, witness={'grid': a}, detail=f'{np.abs(y - f).max():.3e}', key=name))
  return out


def replay_kernel(w):
  jax = common.jx()
  import jax.numpy as jnp
  from dinosaur import vertical_interpolation as vi
  xp = np.asarray(w['xp'])
  x = float(w['x'])
  k = w['kernel']
  fn = {'interp (default path)': vi.interp, '_dot_interp (accelerator path)': vi._dot_interp,
        'linear_interp_with_linear_extrap': vi.linear_interp_with_linear_extrap,
        '_linear_interp_with_safe_extrap(n=1)': lambda a, b, c: vi._linear_interp_with_safe_extrap(a, b, c, 1),
        '_linear_interp_with_safe_extrap(n=2)': lambda a, b, c: vi._linear_interp_with_safe_extrap(a, b, c, 2)}[k]
  ws = spec_weights(x, xp, w['mode'], w.get('ncells', 1))
  msgs = []
  bad = False
  for label, fp in (('2+3*xp (affine)', 2.0 + 3.0 * xp), ('xp**2', xp ** 2), ('(-1)**i', (-1.0) ** np.arange(len(xp)))):
    got = float(fn(x, jnp.asarray(xp), jnp.asarray(fp)))
    want = float(ws @ fp) if not np.isnan(ws).any() else float('nan')
    b = (np.isnan(got) != np.isnan(want)) or (not np.isnan(got) and abs(got - want) > 1e-9 * max(1, abs(want)))
    bad |= bool(b)
    msgs.append(f'fp={label}: got {got}, documented behaviour gives {want}')
  return bad, f'{k}(x={x}, xp={list(xp)}): ' + '; '.join(msgs)


def clauses(tier, seed):
  fns = [VI + n for n in ('_dot_interp', 'interp', '_extrapolate_left', '_extrapolate_right', '_extrapolate_both',
                          '_linear_interp_with_safe_extrap', 'linear_interp_with_linear_extrap', 'vectorize_vertical_interpolation')]
  conv = [VI + n for n in ('get_surface_pressure', 'interp_pressure_to_sigma', 'interp_sigma_to_pressure')] + ['dinosaur.primitive_equations._vertical_interp']
  hz = ['dinosaur.horizontal_interpolation.BilinearRegridder.__call__', 'dinosaur.horizontal_interpolation.NearestRegridder.__call__']
  return [
      Clause('numeric:interpolation kernels == piecewise-linear specification (weights; inside/at/outside nodes)', 'numeric', fns, run_kernels,
             replay=replay_kernel, group='jax-a', heavy=True),
      Clause('numeric:sigma<->pressure conversions on affine columns, surface pressure, constant extrapolation', 'numeric', conv, run_conversions, group='jax-b', heavy=True),
      Clause('numeric:bilinear / nearest horizontal regridders reproduce constants and are the identity on equal grids', 'numeric', hz,
             run_horizontal_regridders, group='jax-c', heavy=True),
  ] + _pyvc_clauses()


def _pyvc_clauses():
  from contracts import conformance_contracts as _conf
  _extra = [_conf.clauses()[k] for k in ['C17']]
  from contracts import interp_contracts
  return interp_contracts.clauses() + _extra


MANIFEST = {
    'engine': 'pyvc+rtc',
    'technique': ('contract-based deductive: VCs from the real source of linear_interp_with_linear_extrap, _dot_interp and _extrapolate_* in 1-d array mode (symbolic node count, '
                  'all real queries; z3) -- two-point formula, affine exactness, node values, neighbour bounds, documented extrapolation; _linear_interp_with_safe_extrap (1 and 2 cells: interpolant inside, '
                  'linear continuation, missing beyond) and the default path of interp against the documented contract of jnp.interp, whose increasing-nodes precondition is discharged at each call; bounded run-time twins: weight vectors '
                  'against an independent loop specification, sigma<->pressure conversions, horizontal regridders'),
    'text': ('other: the interpolation kernels (including the accelerator path _dot_interp that the CPU suite never executes) are proved for every node count, strictly increasing '
             'node set and real query (floats as reals), the safe-extrapolation wrapper and the default interp path likewise modulo the library contract of jnp.interp (A8); the coordinate conversions '
             'and the horizontal regridders are bounded (enumerated).'),
    'note': 'trusted: the loop specification spec_weights (written from the documentation); the documented contract of jnp.interp (two-point formula inside, left/right outside, increasing nodes required); np.nan as a distinguished constant; A1/A2.',
}
