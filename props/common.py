"""Shared configuration families (Cfg-grid, Cfg-levels) and helpers for the numeric/static clauses."""
from __future__ import annotations

import functools
import itertools
import math

import numpy as np


def jx():
  """float64 JAX on CPU (as the repo's own transform tests do)."""
  import jax
  jax.config.update('jax_enable_x64', True)
  return jax


SPACINGS = ('gauss', 'equiangular', 'equiangular_with_poles')
TINY = [(1, 2, 4, 3), (3, 4, 8, 7), (4, 5, 12, 9), (4, 4, 9, 8), (2, 5, 6, 9)]   # last: L > M + 1 (zonally truncated)


def resolves(M, L, lon, lat, spacing):
  """Quadrature resolves the truncation: products of two basis functions are integrated exactly."""
  if lon < 2 * M - 1:
    return False
  if spacing == 'gauss':
    return 2 * lat - 1 >= 2 * (L - 1)
  return lat - 1 >= 2 * (L - 1)


def impl(name):
  from dinosaur import spherical_harmonic as sh
  return {'real': sh.RealSphericalHarmonics, 'fast': sh.FastSphericalHarmonics}[name]


@functools.lru_cache(maxsize=None)
def make_grid(M, L, lon, lat, spacing='gauss', impl_name='real', offset=0.0, radius=1.0, **fast_opts):
  from dinosaur import spherical_harmonic as sh
  cls = impl(impl_name)
  if fast_opts:
    cls = functools.partial(cls, **fast_opts)
  return sh.Grid(longitude_wavenumbers=M, total_wavenumbers=L, longitude_nodes=lon, latitude_nodes=lat,
                 latitude_spacing=spacing, longitude_offset=offset, radius=radius, spherical_harmonics_impl=cls)


def cfg_grid(tier, impls=('real', 'fast'), spacings=SPACINGS, with_factory=True):
  """Yields dict(name, grid, resolves, params)."""
  from dinosaur import spherical_harmonic as sh
  out = []
  for impl_name in impls:
    for spacing in spacings:
      for (M, L, lon, lat) in TINY:
        for (off, rad) in ((0.0, 1.0), (0.3, 2.5)):
          if tier == 'quick' and (off, rad) != (0.0, 1.0) and (M, L) not in ((3, 4),):
            continue
          g = make_grid(M, L, lon, lat, spacing, impl_name, off, rad)
          out.append(dict(name=f'{impl_name}-{spacing}-M{M}L{L}-{lon}x{lat}-off{off}-r{rad}', grid=g,
                          resolves=resolves(M, L, lon, lat, spacing), impl=impl_name, spacing=spacing))
  # padded fast layouts (base_shape_multiple)
  for mult in ((4,) if tier == 'quick' else (2, 4, 8)):
    for stacked in ((True,) if tier == 'quick' else (True, False)):
      g = make_grid(3, 4, 8, 7, 'gauss', 'fast', 0.0, 1.0, base_shape_multiple=mult, stacked_fourier_transforms=stacked)
      out.append(dict(name=f'fast-gauss-M3L4-8x7-pad{mult}-stacked{stacked}', grid=g, resolves=True, impl='fast', spacing='gauss'))
  if with_factory and tier == 'thorough':
    for fname in ('T21', 'TL31', 'T31'):
      for impl_name in impls:
        g = getattr(sh.Grid, fname)(spherical_harmonics_impl=impl(impl_name))
        out.append(dict(name=f'{impl_name}-{fname}', grid=g, impl=impl_name, spacing='gauss',
                        resolves=resolves(g.longitude_wavenumbers, g.total_wavenumbers, g.longitude_nodes, g.latitude_nodes, 'gauss')))
    for deal in ('linear', 'quadratic', 'cubic'):
      g = sh.Grid.with_wavenumbers(6, dealiasing=deal, spherical_harmonics_impl=impl('fast'))
      out.append(dict(name=f'fast-with_wavenumbers6-{deal}', grid=g, impl='fast', spacing='gauss',
                      resolves=resolves(g.longitude_wavenumbers, g.total_wavenumbers, g.longitude_nodes, g.latitude_nodes, 'gauss')))
  return out


def ml_of(grid):
  """Arrays (m, l) of signed longitudinal and total wavenumber per modal entry, and the validity mask."""
  m, l = grid.modal_mesh
  return np.asarray(m), np.asarray(l), np.asarray(grid.mask)


def sigma_levels(kind, n, seed=0):
  from dinosaur import sigma_coordinates as sc
  if kind == 'equidistant':
    return sc.SigmaCoordinates.equidistant(n)
  rng = np.random.RandomState(1000 * n + seed)
  inner = np.sort(rng.uniform(0.02, 0.98, size=n - 1)) if n > 1 else np.array([])
  # keep layers from collapsing
  b = np.concatenate([[0.0], inner, [1.0]])
  for _ in range(50):
    d = np.diff(b)
    if d.min() > 0.2 / n:
      break
    inner = np.sort(rng.uniform(0.02, 0.98, size=n - 1))
    b = np.concatenate([[0.0], inner, [1.0]])
  return sc.SigmaCoordinates(b)


def cfg_levels(tier, seed=0):
  out = []
  for n in ((1, 2, 3, 5) if tier == 'quick' else (1, 2, 3, 5, 8)):
    out.append((f'equidistant{n}', sigma_levels('equidistant', n)))
    if n > 1:
      for s in ((0,) if tier == 'quick' else (0, 1, 2)):
        out.append((f'uneven{n}s{s + seed}', sigma_levels('uneven', n, s + seed)))
  return out


# ---- model builders --------------------------------------------------------------------------------------


def physics_specs(scale=None, **si):
  from dinosaur import primitive_equations as pe
  from dinosaur import scales
  kw = dict(si)
  if scale is not None:
    kw['scale'] = scale
  return pe.PrimitiveEquationsSpecs.from_si(**kw)


def reference_temperature(kind, n, specs, seed=0):
  """Non-dimensional reference profile of the given kind."""
  from dinosaur import scales
  units = scales.units
  if kind == 'constant':
    t = np.full(n, 288.0)
  elif kind == 'linear':
    t = np.linspace(220.0, 300.0, n)
  elif kind == 'isothermal_top':
    t = np.linspace(220.0, 300.0, n)
    t[: max(2, n // 2)] = 220.0
  else:
    t = np.random.RandomState(77 + n + seed).uniform(200.0, 300.0, n)
  return np.asarray(specs.nondimensionalize(t * units.degK), dtype=np.float64)


def make_primitive(grid, sigma, tref_kind='linear', cls='dry', specs=None, orography=None, seed=0, **kw):
  from dinosaur import coordinate_systems as cs
  from dinosaur import primitive_equations as pe
  specs = specs or physics_specs()
  coords = cs.CoordinateSystem(grid, sigma)
  tref = tref_kind if isinstance(tref_kind, np.ndarray) else reference_temperature(tref_kind, sigma.layers, specs, seed)
  oro = np.zeros(grid.modal_shape) if orography is None else orography
  klass = {'dry': pe.PrimitiveEquations, 'time': pe.PrimitiveEquationsWithTime, 'moist': pe.MoistPrimitiveEquations,
           'cloud': pe.MoistPrimitiveEquationsWithCloudMoisture}[cls]
  return klass(tref, oro, coords, specs, **kw)


def zero_state(eq, tracers=(), with_time=None):
  import jax.numpy as jnp
  from dinosaur import primitive_equations as pe
  c = eq.coords
  with_time = isinstance(eq, pe.PrimitiveEquationsWithTime) if with_time is None else with_time
  z = jnp.zeros(c.modal_shape)
  zs = jnp.zeros(c.surface_modal_shape)
  tr = {t: jnp.zeros(c.modal_shape) for t in tracers}
  if with_time:
    return pe.StateWithTime(z, z, z, zs, jnp.asarray(0.0), tr)
  return pe.State(z, z, z, zs, tr)
