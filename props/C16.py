"""C16 -- conservative regridding preserves constants, bounds and integrals; NaN handling as documented."""
from __future__ import annotations

import numpy as np

from vlib.core import Clause, Outcome
from props import common

LEVEL = 'other'
HI = 'dinosaur.horizontal_interpolation.'
VI = 'dinosaur.vertical_interpolation.'
EXPLANATION = (
    'Regridding is linear in the field, so the weight matrices decide the property for every field: for enumerated '
    'source/target grid pairs (resolution, spacing, longitude offsets, coarser/finer/equal/non-nested) the latitude, '
    'longitude and vertical weight matrices are extracted from the real functions and checked for non-negativity, unit '
    'row sums (so constants are reproduced and outputs are convex combinations of inputs), and conservation against '
    'cell measures computed independently from the cell bounds; NaN bookkeeping is checked for single-cell, row and '
    'all-NaN patterns and for sliver overlaps. Bounded over grid pairs, surface pressures and level sets.')
ASSUMPTIONS = ['A1/A2: float64; tol 1e-12', 'bounded over grid pairs / surface pressures / level sets (enumerated)',
               ]
TOL = 1e-12


def _lat_sets():
  from dinosaur import spherical_harmonic as sh
  out = {}
  for nm, g in (('T21', sh.Grid.T21()), ('TL31', sh.Grid.TL31()), ('tiny9', common.make_grid(4, 5, 12, 9, 'gauss')),
                ('equi18', common.make_grid(4, 5, 36, 18, 'equiangular')), ('poles19', common.make_grid(4, 5, 36, 19, 'equiangular_with_poles')),
                ('equi7', common.make_grid(3, 4, 13, 7, 'equiangular')), ('off0.1', common.make_grid(4, 5, 12, 9, 'gauss', 'real', 0.1)),
                ('offsmall', common.make_grid(4, 5, 36, 18, 'equiangular', 'real', 1e-4)),
                # offsets that put the 0 / 2 pi seam inside the longitude array: negative, and larger than one cell
                ('offneg', common.make_grid(4, 5, 12, 9, 'gauss', 'real', -0.21)), ('offbig', common.make_grid(3, 4, 13, 7, 'equiangular', 'real', 1.13))):
    out[nm] = g
  return out


def _lat_areas(lat):
  b = np.concatenate([[-np.pi / 2], (lat[:-1] + lat[1:]) / 2, [np.pi / 2]])
  return np.sin(b[1:]) - np.sin(b[:-1])


def _lon_widths(lon, period=2 * np.pi):
  lon = np.asarray(lon) % period
  nxt = np.roll(lon, -1)
  prv = np.roll(lon, 1)
  up = (lon + np.where(nxt < lon, nxt + period, nxt)) / 2
  lo = (lon + np.where(prv > lon, prv - period, prv)) / 2
  return up - lo


def _pairs(tier):
  names = ['T21', 'tiny9', 'equi18', 'poles19', 'equi7', 'off0.1', 'offneg', 'offbig'] + (['TL31'] if tier == 'thorough' else [])
  pairs = [(a, b) for a in names for b in names if tier == 'thorough' or (a, b) in {
      ('T21', 'tiny9'), ('tiny9', 'T21'), ('equi18', 'equi7'), ('equi7', 'equi18'), ('poles19', 'equi18'), ('tiny9', 'tiny9'),
      ('off0.1', 'tiny9'), ('T21', 'poles19'), ('equi18', 'off0.1'), ('offneg', 'tiny9'), ('equi18', 'offbig'), ('offbig', 'offneg')}]
  return pairs


def run_horizontal(ctx):
  jax = common.jx()
  import jax.numpy as jnp
  from dinosaur import horizontal_interpolation as hi
  out = Outcome()
  G = _lat_sets()
  for a, b in _pairs(ctx.tier):
    src, tgt = G[a], G[b]
    wit = {'source': a, 'target': b}
    Wlat = np.asarray(hi.conservative_latitude_weights(np.asarray(src.latitudes), np.asarray(tgt.latitudes)))
    Wlon = np.asarray(hi.conservative_longitude_weights(np.asarray(src.longitudes), np.asarray(tgt.longitudes)))
    for nm, W, at, as_ in (('latitude', Wlat, _lat_areas(np.asarray(tgt.latitudes)), _lat_areas(np.asarray(src.latitudes))),
                           ('longitude', Wlon, _lon_widths(tgt.longitudes), _lon_widths(src.longitudes))):
      tag = f'{a}->{b}:{nm}'
      name = f'{tag}: weights non-negative'
      (out.ok(name, 'numeric') if W.min() >= 0 and np.all(np.isfinite(W)) else out.fail(name, witness=wit, detail=f'min {W.min():.3e}', key=name))
      name = f'{tag}: rows sum to one (constants reproduced, outputs within the input range)'
      err = np.abs(W.sum(1) - 1).max()
      (out.ok(name, 'numeric') if err <= TOL else out.fail(name, witness=wit, detail=f'{err:.3e}', key=name))
      name = f'{tag}: conservation: sum_t |t| W[t,s] == |s| for every source cell (cell measures from the bounds)'
      err = np.abs(at @ W - as_).max() / as_.max()
      (out.ok(name, 'numeric', sample={'obligation': name, 'rel_err': float(err)}) if err <= 1e-11 else
       out.fail(name, witness=wit, detail=f'{err:.3e}', key=name))
    # the regridder itself on fields: constants, bounds, integral
    rg = hi.ConservativeRegridder(src, tgt)
    rng = np.random.RandomState(7)
    f = rng.rand(3, *src.nodal_shape) + 1.0
    y = np.asarray(rg(jnp.asarray(f)))
    name = f'{a}->{b}: regridder output within the input range and constants reproduced'
    c = np.asarray(rg(jnp.full(src.nodal_shape, 280.0)))
    ok = y.min() >= f.min() - 1e-9 and y.max() <= f.max() + 1e-9 and np.abs(c - 280.0).max() <= 1e-9
    (out.ok(name, 'numeric') if ok else out.fail(name, witness=wit, detail=f'range [{y.min()},{y.max()}] vs [{f.min()},{f.max()}], const err {np.abs(c - 280).max():.3e}', key=name))
    As = np.outer(_lon_widths(src.longitudes), _lat_areas(np.asarray(src.latitudes)))
    At = np.outer(_lon_widths(tgt.longitudes), _lat_areas(np.asarray(tgt.latitudes)))
    err = np.abs((At * y).sum((-2, -1)) - (As * f).sum((-2, -1))).max() / (As * f).sum((-2, -1)).max()
    name = f'{a}->{b}: area-weighted integral of the output equals that of the input'
    (out.ok(name, 'numeric') if err <= 1e-9 else out.fail(name, witness=wit, detail=f'{err:.3e}', key=name))
    # NaN handling
    W2 = np.einsum('ab,cd->acbd', Wlon, Wlat)
    for pat in ('single', 'row', 'all'):
      fn = f[0].copy()
      if pat == 'single':
        fn[src.nodal_shape[0] // 3, src.nodal_shape[1] // 2] = np.nan
      elif pat == 'row':
        fn[:, 1] = np.nan
      else:
        fn[:] = np.nan
      nanmask = np.isnan(fn)
      overlap_nan = np.einsum('acbd,bd->ac', W2, nanmask.astype(float))      # weight of NaN sources per target cell
      y0 = np.asarray(hi.ConservativeRegridder(src, tgt, skipna=False)(jnp.asarray(fn)))
      y1 = np.asarray(hi.ConservativeRegridder(src, tgt, skipna=True)(jnp.asarray(fn)))
      want_nan = overlap_nan > 0
      name = f'{a}->{b}: NaN pattern {pat}: skipna=False propagates NaN to every overlapping target cell and nowhere else'
      got_nan = np.isnan(y0)
      if np.array_equal(got_nan, want_nan):
        out.ok(name, 'numeric')
      else:
        missed = want_nan & ~got_nan
        frac = overlap_nan[missed]
        out.fail(name, witness=dict(wit, pattern=pat, missed_cells=int(missed.sum()), spurious=int((got_nan & ~want_nan).sum()),
                                    overlap_fractions=[float(v) for v in frac[:5]]),
                 detail=f'{int(missed.sum())} overlapping cells not NaN (overlap fractions {frac[:4]}), {int((got_nan & ~want_nan).sum())} spurious NaN',
                 key=('skipna=False: sliver overlap below rtol=1e-3 does not propagate NaN' if (missed.any() and frac.max() < 2e-3 and not (got_nan & ~want_nan).any()) else name))
      name = f'{a}->{b}: NaN pattern {pat}: skipna=True ignores NaN sources (mean of the valid ones); all-NaN neighbourhood gives NaN'
      valid_w = np.einsum('acbd,bd->ac', W2, (~nanmask).astype(float))
      with np.errstate(invalid='ignore', divide='ignore'):
        want = np.einsum('acbd,bd->ac', W2, np.where(nanmask, 0.0, fn)) / valid_w
      ok = np.array_equal(np.isnan(y1), ~(valid_w > 0)) and np.nanmax(np.abs(y1 - want)) <= 1e-9 if (valid_w > 0).any() else np.all(np.isnan(y1))
      (out.ok(name, 'numeric') if ok else out.fail(name, witness=dict(wit, pattern=pat), detail='skipna result differs from the weighted mean of valid sources', key=name))
  return out


def run_sliver(ctx):
  """Tiny longitude offset: a NaN source cell overlaps the neighbouring target cell by < 0.1 %."""
  jax = common.jx()
  import jax.numpy as jnp
  from dinosaur import horizontal_interpolation as hi
  out = Outcome()
  G = _lat_sets()
  src, tgt = G['offsmall'], G['equi18']
  Wlon = np.asarray(hi.conservative_longitude_weights(np.asarray(src.longitudes), np.asarray(tgt.longitudes)))
  f = np.ones(src.nodal_shape)
  f[5, 4] = np.nan
  y = np.asarray(hi.ConservativeRegridder(src, tgt, skipna=False)(jnp.asarray(f)))
  over = Wlon[:, 5] > 0
  got = np.isnan(y[:, 4])
  name = 'sliver: longitude offset 1e-4 rad: NaN in source cell propagates to every overlapping target cell (skipna=False)'
  if np.array_equal(got, over):
    out.ok(name, 'numeric')
  else:
    out.fail(name, witness={'source': 'equiangular 36x18 offset 1e-4 rad', 'target': 'equiangular 36x18', 'nan_cell': [5, 4],
                            'overlap_fractions': [float(v) for v in Wlon[over, 5]]},
             detail=f'target cells overlapping the NaN source cell with fractions {Wlon[over, 5]} -> NaN flags {got[over]}',
             key='skipna=False: sliver overlap below rtol=1e-3 does not propagate NaN')
  return out


def _hybrids():
  from dinosaur import vertical_interpolation as vi
  out = {'ECMWF137': vi.HybridCoordinates.ECMWF137(), 'UFS127': vi.HybridCoordinates.UFS127()}
  # custom: model lid at 50 hPa, 12 layers
  b = np.linspace(0, 1, 13) ** 1.5
  a = 50.0 * (1 - b)
  out['lid50hPa'] = vi.HybridCoordinates(a_boundaries=a, b_boundaries=b)
  a2 = np.concatenate([[0.0], 30.0 * (1 - b[1:])])
  out['full-range12'] = vi.HybridCoordinates(a_boundaries=a2, b_boundaries=b)
  return out


def run_vertical(ctx):
  jax = common.jx()
  import jax.numpy as jnp
  from dinosaur import vertical_interpolation as vi
  from dinosaur import sigma_coordinates as sc
  out = Outcome()
  H = _hybrids()
  sigs = {'equidistant8': sc.SigmaCoordinates.equidistant(8), 'uneven7': common.sigma_levels('uneven', 7, ctx.seed)}
  if ctx.tier == 'thorough':
    sigs['equidistant32'] = sc.SigmaCoordinates.equidistant(32)
  for hname, hyb in H.items():
    for sname, sig in sigs.items():
      for ps in (500.0, 800.0, 1013.25, 1080.0):
        tag = f'{hname}->{sname}:ps={ps}'
        wit = {'hybrid': hname, 'sigma': sname, 'surface_pressure': ps}
        sb = np.asarray(hyb.get_sigma_boundaries(ps))
        tb = np.asarray(sig.boundaries)
        n_src = hyb.layers
        # weights through the public function on basis fields
        eye = np.eye(n_src)[:, :, None, None] * np.ones((1, 1, 1, 1))
        cols = []
        fields = jnp.asarray(np.eye(n_src).reshape(n_src, n_src, 1, 1))
        W = np.stack([np.asarray(vi.regrid_hybrid_to_sigma(jnp.asarray(np.eye(n_src)[:, k].reshape(n_src, 1, 1)), hyb, sig,
                                                           jnp.full((1, 1), ps)))[:, 0, 0] for k in range(n_src)], axis=1)
        over = np.maximum(np.minimum(tb[1:, None], sb[None, 1:]) - np.maximum(tb[:-1, None], sb[None, :-1]), 0)
        covered = over.sum(1)
        rows = covered > 0
        name = f'{tag}: weights non-negative (NaN only for target layers outside the source range)'
        ok = np.all(W[rows] >= 0) and np.all(np.isfinite(W[rows])) and np.all(np.isnan(W[~rows]))
        (out.ok(name, 'numeric') if ok else out.fail(name, witness=wit, detail='negative / non-finite weights', key=name))
        name = f'{tag}: rows of covered target layers sum to one'
        err = np.abs(W[rows].sum(1) - 1).max()
        (out.ok(name, 'numeric', sample={'obligation': name, 'max_err': float(err)}) if err <= 1e-6 else
         out.fail(name, witness=dict(wit, row_sums=[float(v) for v in W[rows].sum(1)[:6]]), detail=f'row sums {W[rows].sum(1)[:5]}', key=name))
        name = f'{tag}: thickness-weighted integral over the covered range is conserved'
        lhs = covered[rows] @ W[rows]                      # sum_t covered_t * W[t,s]
        rhs = over[rows].sum(0)                            # |s intersected with the target range|
        err = np.abs(lhs - rhs).max() / max(rhs.max(), 1e-300)
        (out.ok(name, 'numeric') if err <= 1e-6 else out.fail(name, witness=wit, detail=f'{err:.3e}', key=name))
  return out


def replay_vertical(w):
  jax = common.jx()
  import jax.numpy as jnp
  from dinosaur import vertical_interpolation as vi
  from dinosaur import sigma_coordinates as sc
  hyb = _hybrids()[w['hybrid']]
  sig = sc.SigmaCoordinates.equidistant(8) if w['sigma'] == 'equidistant8' else (sc.SigmaCoordinates.equidistant(32) if w['sigma'] == 'equidistant32' else common.sigma_levels('uneven', 7, 0))
  ps = w['surface_pressure']
  c = np.asarray(vi.regrid_hybrid_to_sigma(jnp.full((hyb.layers, 1, 1), 280.0), hyb, sig, jnp.full((1, 1), ps)))[:, 0, 0]
  bad = np.nanmax(np.abs(c - 280.0)) > 1e-3
  return bool(bad), f'regrid_hybrid_to_sigma of the constant 280 from {w["hybrid"]} at ps={ps}: {c}'


def clauses(tier, seed):
  hf = [HI + n for n in ('_latitude_cell_bounds', '_latitude_overlap', 'conservative_latitude_weights', '_align_phase_with',
                         '_periodic_upper_bounds', '_periodic_lower_bounds', '_periodic_overlap', '_longitude_overlap',
                         'conservative_longitude_weights', 'ConservativeRegridder._mean', 'ConservativeRegridder.__call__')]
  vf = [VI + n for n in ('_interval_overlap', 'conservative_regrid_weights', 'regrid_hybrid_to_sigma', 'HybridCoordinates.get_sigma_boundaries')]
  return [
      Clause('numeric:horizontal weights (non-negative, row sums, conservation) and NaN patterns over grid pairs', 'numeric', hf, run_horizontal, group='jax-a', heavy=True),
      Clause('numeric:NaN propagation through sliver overlaps', 'numeric', hf, run_sliver, group='jax-b', heavy=True),
      Clause('numeric:vertical hybrid->sigma weights over surface pressures and level sets', 'numeric', vf, run_vertical, replay=replay_vertical, group='jax-c', heavy=True),
  ] + _pyvc_clauses()


def _pyvc_clauses():
  from contracts import conformance_contracts as _conf
  _extra = [_conf.clauses()[k] for k in ['C16']]
  from contracts import regrid_contracts
  return regrid_contracts.clauses() + _extra


MANIFEST = {
    'engine': 'pyvc+rtc',
    'technique': ('contract-based deductive: VCs from the real source in row mode (one generic target cell against a source partition of symbolic size): overlap == length of the '
                  'intersection, telescoping row-sum lemma by induction, positivity over the covered range, conservation of the un-normalised rows, weights == overlap / row sum in [0,1]; '
                  'phase alignment and periodic / latitude overlaps in elementwise mode (z3); bounded run-time twins on the weight matrices over enumerated grid pairs'),
    'text': ('other: the vertical overlap / weight construction and the horizontal building blocks (_align_phase_with, _periodic_overlap, _latitude_overlap entries) are proved for all sizes and '
             'bounds (floats as reals); assembling them into the 2-d horizontal regridder, NaN bookkeeping and the hybrid->sigma pipeline are bounded (weight matrices over enumerated grid pairs).'),
    'note': 'trusted: independent computation of cell measures from the cell bounds; A1/A2.',
}
