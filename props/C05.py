"""C05 -- tendencies match the continuous equations; balanced states are exactly steady."""
from __future__ import annotations

import numpy as np

from vlib.core import Clause, Outcome, rerun_replay
from props import common, spec_pe

LEVEL = 'other'
PE = 'dinosaur.primitive_equations.'
SW = 'dinosaur.shallow_water.'
EXPLANATION = (
    'No deductive clause can carry this property (it relates float programs to a continuous PDE); the contracts are run-time '
    'post-conditions against an independent specification. (1) Generic clause: props/spec_pe.py evaluates the sigma-coordinate '
    'primitive equations pointwise -- horizontal derivatives analytically (autodiff of closed-form band-limited fields), vertical '
    'operations by the documented midpoint / trapezoid / centred formulas written as explicit loops -- and the total tendency '
    '(explicit + implicit) of the real code must equal its spectral projection coefficient by coefficient (dry and moist, both '
    'transform implementations, uneven sigma levels, orography, arbitrary reference profile). (2) Balanced families written from the '
    'continuous equations: resting isothermal atmosphere in hydrostatic balance over band-limited orography; solid-body rotation in '
    'gradient-wind balance with arbitrary per-layer temperatures and uniform humidity; layered shallow-water zonal jets (polynomial '
    'in sin(lat)) in geostrophic/cyclostrophic balance, also through the repository\'s own one_layer / multi_layer / '
    'isothermal_rest_atmosphere constructors: the total tendency must vanish to rounding. All inputs are alias-free by '
    'construction (degree <= 2 fields on grids that resolve triple products).')
ASSUMPTIONS = [
    'A2: float64; tolerance 1e-9 relative to the largest tendency term',
    'the specification (props/spec_pe.py) is trusted as the statement of the continuous equations + documented vertical differences',
    'bounded: sampled low-degree states, enumerated level sets / grids / parameters',
]


def _specs():
  return common.physics_specs()


def _random_fields(rng, n, specs, moist, amp=1.0, zero_wind=False):
  from dinosaur import scales
  u = scales.units
  a = float(specs.radius)
  T0 = float(specs.nondimensionalize(250 * u.degK))

  def poly(s, mean=0.0):
    c = rng.randn(10) * s
    c[0] = mean
    return c
  w = 0.0 if zero_wind else 1.0
  psi = np.stack([poly(0.03 * a * a * amp * w) for _ in range(n)])
  chi = np.stack([poly(0.01 * a * a * amp * w) for _ in range(n)])
  temp = np.stack([poly(0.03 * T0 * amp, T0 * (0.9 + 0.1 * k / max(1, n - 1))) for k in range(n)])
  q = np.stack([poly(0.002 * amp, 0.01) for _ in range(n)]) if moist else np.zeros((n, 10))
  lnps = poly(0.03 * amp, float(np.log(specs.nondimensionalize(1e5 * u.pascal))))
  oro = poly(float(specs.nondimensionalize(500 * u.m)))
  return spec_pe.Fields(psi, chi, temp, q, lnps, oro)


def _model_total(eq, ev, tref, g, moist):
  import jax
  import jax.numpy as jnp
  from dinosaur import primitive_equations as pe
  tm = lambda x: jnp.asarray(np.asarray(g.to_modal(jnp.asarray(x))))
  args = (tm(ev['zeta']), tm(ev['delta']), tm(ev['T'] - tref[:, None, None]), tm(ev['lnps'][None]))
  if moist:
    st = pe.StateWithTime(*args, jnp.asarray(0.0), {'specific_humidity': tm(ev['q'])})
  else:
    st = pe.State(*args, {})
  e, i = eq.explicit_terms(st), eq.implicit_terms(st)
  return jax.tree_util.tree_map(lambda a, b: a + b, e, i)


def _compare(tot, ev, g, moist):
  import jax.numpy as jnp
  tm = lambda x: np.asarray(g.to_modal(jnp.asarray(x)))
  pairs = [('vorticity', tot.vorticity, tm(ev['dzeta'])), ('divergence', tot.divergence, tm(ev['ddelta'])),
           ('temperature', tot.temperature_variation, tm(ev['dT'])), ('log_surface_pressure', tot.log_surface_pressure, tm(ev['dlnps'][None]))]
  if moist:
    pairs.append(('specific_humidity', tot.tracers['specific_humidity'], tm(ev['dq'])))
  res = {}
  for name, got, want in pairs:
    got = np.asarray(got)
    res[name] = (float(np.abs(got - want).max()) if np.all(np.isfinite(got)) else np.inf, float(np.abs(want).max()))
  return res


def run_generic(ctx, moist=False):
  jax = common.jx()
  import jax.numpy as jnp
  from dinosaur import coordinate_systems as cs, primitive_equations as pe, scales
  out = Outcome()
  specs = _specs()
  a = float(specs.radius)
  cfgs = [('real', 3, 0), ('fast', 2, 1)] if ctx.tier == 'quick' else [('real', 3, 0), ('fast', 2, 1), ('real', 5, 2), ('fast', 4, 3)]
  for impl, n, s in cfgs:
    g = common.make_grid(11, 12, 36, 18, 'gauss', impl)
    sig = common.sigma_levels('uneven', n, ctx.seed + s)
    T0 = float(specs.nondimensionalize(250 * scales.units.degK))
    tref = T0 * (0.95 + 0.05 * np.random.RandomState(s).rand(n))
    for amp in ((1.0,) if ctx.tier == 'quick' else (0.2, 1.0, 3.0)):
      F = _random_fields(np.random.RandomState(ctx.seed + 10 * s + int(amp * 7)), n, specs, moist, amp)
      kw = dict(radius=a, omega=float(specs.angular_velocity), gravity=float(specs.g), R=float(specs.R), kappa=float(specs.kappa))
      if moist:
        kw.update(Rv=float(specs.R_vapor), cpv_over_cp=float(specs.Cp_vapor / specs.Cp), moist=True)
      S = spec_pe.pointwise_tendencies(F, sig.boundaries, **kw)
      ev = spec_pe.evaluate_on_grid(S, g)
      tm = lambda x: jnp.asarray(np.asarray(g.to_modal(jnp.asarray(x))))
      klass = pe.MoistPrimitiveEquations if moist else pe.PrimitiveEquations
      for method in (None, 'sparse'):
        eq = klass(tref, tm(ev['oro']), cs.CoordinateSystem(g, sig), specs, vertical_matmul_method=method)
        res = _compare(_model_total(eq, ev, tref, g, moist), ev, g, moist)
        tag = f'{"moist" if moist else "dry"}:{impl}:{n} uneven levels (seed {ctx.seed + s}):amplitude {amp}:matmul={method or "dense"}'
        for name, (err, ref) in res.items():
          nm = f'{tag}: d({name})/dt == spectral projection of the pointwise continuous equations'
          big = max(r for _, r in res.values()) if name in ('vorticity', 'divergence') else ref
          tol = 1e-9 * max(ref, 1e-3 * big, 1e-12)
          wit = {'impl': impl, 'levels': n, 'seed': ctx.seed + s, 'amp': amp, 'moist': moist, 'method': method, 'field': name,
                 'boundaries': [float(b) for b in sig.boundaries]}
          if err <= tol:
            out.ok(nm, 'numeric', sample={'obligation': nm, 'max_abs_diff': err, 'largest_coefficient': ref})
          else:
            out.fail(nm, witness=wit, detail=f'max |code - spec| = {err:.3e} (largest spec coefficient {ref:.3e})', key=f'{"moist" if moist else "dry"}:generic:{name}')
  return out


def run_generic_dry(ctx):
  return run_generic(ctx, False)


def run_generic_moist(ctx):
  return run_generic(ctx, True)


# ---- balanced families -------------------------------------------------------------------------------------


def _tend_norm(eq, st):
  import jax
  e, i = eq.explicit_terms(st), eq.implicit_terms(st)
  tot = jax.tree_util.tree_map(lambda a, b: a + b, e, i)
  leaves = {'vorticity': tot.vorticity, 'divergence': tot.divergence, 'temperature': tot.temperature_variation, 'log_surface_pressure': tot.log_surface_pressure}
  for k, v in getattr(tot, 'tracers', {}).items():
    leaves[k] = v
  parts = {}
  for nm, part in (('explicit', e), ('implicit', i)):
    parts[nm] = max(float(np.abs(np.asarray(x)).max()) for x in (part.vorticity, part.divergence, part.temperature_variation, part.log_surface_pressure))
  return {k: float(np.abs(np.asarray(v)).max()) if np.all(np.isfinite(np.asarray(v))) else np.inf for k, v in leaves.items()}, max(parts.values())


def run_balanced_primitive(ctx):
  jax = common.jx()
  import jax.numpy as jnp
  from dinosaur import coordinate_systems as cs, primitive_equations as pe, primitive_equations_states as pes, scales
  out = Outcome()
  specs = _specs()
  u = scales.units
  a, Om, grav, R = float(specs.radius), float(specs.angular_velocity), float(specs.g), float(specs.R)
  K = lambda x: float(specs.nondimensionalize(x * u.degK))
  for impl in ('real', 'fast'):
    g = common.make_grid(9, 10, 30, 16, 'gauss', impl)
    lon, sin_lat = g.nodal_mesh
    lon, sin_lat = np.asarray(lon), np.asarray(sin_lat)
    th = np.arcsin(sin_lat)
    tm = lambda x: jnp.asarray(np.asarray(g.to_modal(jnp.asarray(x))))
    for n, s in ((3, 0), (5, 1)) if ctx.tier == 'quick' else ((1, 0), (2, 0), (3, 0), (5, 1), (8, 2)):
      sig = common.sigma_levels('uneven', n, ctx.seed + s) if n > 1 else common.sigma_levels('equidistant', 1)
      coords = cs.CoordinateSystem(g, sig)
      rng = np.random.RandomState(ctx.seed + n)
      # (i) rest, isothermal, hydrostatic over band-limited orography: ln ps = -g h / (R T0) + const
      for T0_si in (220.0, 288.0):
        T0 = K(T0_si)
        x, y, z = np.cos(th) * np.cos(lon), np.cos(th) * np.sin(lon), sin_lat
        h = float(specs.nondimensionalize(1500 * u.m)) * (0.3 * x * z + 0.5 * y * y - 0.2 * z + 0.4 * x)
        lnps = -grav * h / (R * T0) + float(np.log(specs.nondimensionalize(1e5 * u.pascal)))
        tref = T0 * (0.9 + 0.2 * rng.rand(n))           # arbitrary split: T' = T0 - tref is uniform per level
        for cls, klass in (('dry', pe.PrimitiveEquations), ('moist', pe.MoistPrimitiveEquations)):
          eq = klass(tref, tm(h), coords, specs)
          zeros = jnp.zeros(coords.modal_shape)
          Tp = tm(np.broadcast_to((T0 - tref)[:, None, None], coords.nodal_shape))
          if cls == 'moist':
            st = pe.StateWithTime(zeros, zeros, Tp, tm(lnps[None]), jnp.asarray(0.0), {'specific_humidity': zeros})
          else:
            st = pe.State(zeros, zeros, Tp, tm(lnps[None]), {})
          norms, big = _tend_norm(eq, st)
          worst = max(norms.values())
          nm = f'{impl}:{n} levels:{cls}: resting isothermal ({T0_si} K) atmosphere in hydrostatic balance over orography is steady'
          tol = 1e-10 * max(1.0, big)
          (out.ok(nm, 'numeric', sample={'obligation': nm, 'max_tendency': worst, 'largest_term': big}) if worst <= tol else
           out.fail(nm, witness={'impl': impl, 'levels': n, 'T0': T0_si, 'cls': cls}, detail=f'tendencies {norms} (largest individual term {big:.3e})', key=f'{cls}:rest state not steady'))
      # repository constructor (flat case)
      fn, aux = pes.isothermal_rest_atmosphere(coords, specs)
      st = fn(jax.random.PRNGKey(0))
      eq = pe.PrimitiveEquations(aux['ref_temperatures'] if 'ref_temperatures' in aux else list(aux.values())[1], tm(np.asarray(list(aux.values())[0])), coords, specs)
      norms, big = _tend_norm(eq, st)
      nm = f'{impl}:{n} levels: primitive_equations_states.isothermal_rest_atmosphere (flat) is steady'
      (out.ok(nm, 'numeric') if max(norms.values()) <= 1e-10 * max(1.0, big) else
       out.fail(nm, witness={'impl': impl, 'levels': n}, detail=str(norms), key='isothermal_rest_atmosphere not steady'))
      # (ii) solid-body rotation u_k = U_k cos(lat), per-layer temperatures T_k, ln ps = c - B sin^2(lat), uniform humidity q:
      #      gradient-wind balance  U_k^2/a + 2 Omega U_k = 2 B R Tv_k / a
      for B, qv in ((0.05, 0.0), (0.12, 0.01)):
        Tk = np.array([K(t) for t in np.linspace(215.0, 295.0, n)]) * (1 + 0.03 * rng.randn(n))
        for cls, klass in (('dry', pe.PrimitiveEquations), ('moist', pe.MoistPrimitiveEquations)):
          if cls == 'dry' and qv:
            continue
          epsm = float(specs.R_vapor / specs.R)
          Tv = Tk * (1 + (epsm - 1) * qv) if cls == 'moist' else Tk
          Uk = a * (-Om + np.sqrt(Om ** 2 + 2 * B * R * Tv / a ** 2))
          lnps = float(np.log(specs.nondimensionalize(1e5 * u.pascal))) - B * sin_lat ** 2
          zeta = (2 * Uk / a)[:, None, None] * sin_lat[None]           # (1/(a cos)) d(-u cos)/dtheta with u = U cos
          tref = Tk * (0.93 + 0.1 * rng.rand(n))
          Tp = np.broadcast_to((Tk - tref)[:, None, None], coords.nodal_shape)
          eq = klass(tref, jnp.zeros(g.modal_shape), coords, specs)
          zeros = jnp.zeros(coords.modal_shape)
          if cls == 'moist':
            qf = np.full(coords.nodal_shape, qv)
            st = pe.StateWithTime(tm(zeta), zeros, tm(Tp), tm(lnps[None]), jnp.asarray(0.0), {'specific_humidity': tm(qf)})
          else:
            st = pe.State(tm(zeta), zeros, tm(Tp), tm(lnps[None]), {})
          norms, big = _tend_norm(eq, st)
          worst = max(norms.values())
          nm = (f'{impl}:{n} levels:{cls}: solid-body rotation in gradient-wind balance (B={B}, q={qv}, per-layer temperatures) is steady')
          tol = 1e-10 * max(1.0, big)
          (out.ok(nm, 'numeric', sample={'obligation': nm, 'max_tendency': worst, 'largest_term': big, 'U_over_a2Omega': [float(x) for x in Uk / (a * 2 * Om)]}) if worst <= tol else
           out.fail(nm, witness={'impl': impl, 'levels': n, 'B': B, 'q': qv, 'cls': cls}, detail=f'tendencies {norms} (largest individual term {big:.3e})', key=f'{cls}:solid-body rotation not steady'))
  return out


def run_balanced_shallow_water(ctx):
  jax = common.jx()
  import jax.numpy as jnp
  from dinosaur import coordinate_systems as cs, layer_coordinates, scales, shallow_water as sw, shallow_water_states as sws
  out = Outcome()
  u = scales.units
  for impl in ('real', 'fast'):
    g = common.make_grid(13, 14, 42, 22, 'gauss', impl)
    lon, sin_lat = (np.asarray(x) for x in g.nodal_mesh)
    s1 = sin_lat[0]                    # latitudes (1-d)
    cos1 = np.sqrt(1 - s1 ** 2)
    tm = lambda x: jnp.asarray(np.asarray(g.to_modal(jnp.asarray(x))))
    for nl in (1, 2, 3):
      dens = np.array([900.0, 1000.0, 1150.0][:nl])
      specs = sw.ShallowWaterSpecs.from_si(densities=dens * u.kg / u.m ** 3)
      a, Om = float(specs.radius), float(specs.angular_velocity)
      coords = cs.CoordinateSystem(g, layer_coordinates.LayerCoordinates(nl))
      rng = np.random.RandomState(ctx.seed + nl)
      refpot = np.asarray(specs.nondimensionalize(np.array([3e4, 5e4, 8e4][:nl]) * u.m ** 2 / u.s ** 2), float)
      for deg in (0, 1, 2):
        # u_k(theta) = cos(theta) * P_k(sin theta), P_k a polynomial of degree `deg`
        P = [np.polynomial.Polynomial(rng.randn(deg + 1) * 0.05) for _ in range(nl)]
        uk = np.stack([cos1 * p(s1) for p in P])                                   # (layers, lat)
        # balance: d(E_k)/dtheta = -(u^2 tan(theta) + a f u) with E_k = pressure potential of layer k;
        # in s = sin(theta):  dE/ds = -( s P^2 + 2 Omega a s P )
        s = np.polynomial.Polynomial([0.0, 1.0])
        E = [(-(s * p * p + 2 * Om * a * s * p)).integ() for p in P]
        Ek = np.stack([e(s1) for e in E])                                            # required p_k (up to a constant)
        # Independent of the code under test (hydrostatics of a stack of immiscible layers, top = layer 0): the pressure at height z inside layer i
        # is g sum_{j<i} rho_j h_j (weight of the layers above) + g rho_i (eta_i - z) with eta_i = sum_{j>=i} h_j the height of its upper interface, so
        # the force potential is (1/rho_i) p = sum_{j<i} (rho_j / rho_i) Phi_j + sum_{j>=i} Phi_j with Phi_j = g h_j:
        #   D[i, j] = rho_j / rho_i for layers above (j < i), 1 for the layer itself and the layers below (j >= i)
        rho = np.asarray(specs.densities, float)
        D = np.array([[rho[j] / rho[i] if j < i else 1.0 for j in range(nl)] for i in range(nl)])
        pot = np.linalg.solve(D, Ek)
        # vorticity of the zonal jet: zeta = -(1/(a cos)) d(u cos)/dtheta = -(1/a) d(u cos)/ds
        zeta = np.stack([-(((1 - s * s) * p).deriv())(s1) / a for p in P])
        bc = lambda x: np.broadcast_to(x[:, None, :], (nl,) + lon.shape)
        st = sw.State(tm(bc(zeta)), jnp.zeros(coords.modal_shape), tm(bc(pot)))
        eq = sw.ShallowWaterEquations(coords=coords, physics_specs=specs, orography=jnp.zeros(g.modal_shape), reference_potential=refpot)
        e, i = eq.explicit_terms(st), eq.implicit_terms(st)
        tot = [np.asarray(x + y) for x, y in zip((e.vorticity, e.divergence, e.potential), (i.vorticity, i.divergence, i.potential))]
        big = max(float(np.abs(np.asarray(x)).max()) for x in (e.divergence, i.divergence)) + 1e-30
        worst = max(float(np.abs(t).max()) for t in tot)
        nm = f'shallow water:{impl}:{nl} layers: balanced zonal jet u = cos(lat) P_{deg}(sin lat) (analytic balance) is steady'
        (out.ok(nm, 'numeric', sample={'obligation': nm, 'max_tendency': worst, 'largest_term': big}) if worst <= 1e-10 * max(1.0, big) else
         out.fail(nm, witness={'impl': impl, 'layers': nl, 'deg': deg}, detail=f'max tendency {worst:.3e} (largest term {big:.3e})', key='shallow water: analytic jet not steady'))
        # the repository's constructors from the same velocity profile
        st2 = sws.one_layer(jnp.asarray(uk[0]), g) if nl == 1 else sws.multi_layer(jnp.asarray(uk), np.asarray(specs.densities), coords)
        if nl == 1:
          st2 = sw.State(st2.vorticity[None], st2.divergence[None], st2.potential[None])
        e, i = eq.explicit_terms(st2), eq.implicit_terms(st2)
        tot = [np.asarray(x + y) for x, y in zip((e.vorticity, e.divergence, e.potential), (i.vorticity, i.divergence, i.potential))]
        worst2 = max(float(np.abs(t).max()) for t in tot)
        same = max(float(np.abs(np.asarray(st2.vorticity) - np.asarray(st.vorticity)).max()),
                   float(np.abs((np.asarray(st2.potential) - np.asarray(st.potential)) * (np.arange(g.modal_shape[1]) > 0)[None, None]).max()))
        nm = f'shallow water:{impl}:{nl} layers: shallow_water_states.{"one_layer" if nl == 1 else "multi_layer"} (degree {deg} jet) is steady and equals the analytic balance'
        (out.ok(nm, 'numeric', sample={'obligation': nm, 'max_tendency': worst2, 'state_diff': same}) if worst2 <= 1e-10 * max(1.0, big) and same <= 1e-10 else
         out.fail(nm, witness={'impl': impl, 'layers': nl, 'deg': deg}, detail=f'max tendency {worst2:.3e}; |state - analytic| {same:.3e}', key='shallow water: constructor state not steady'))
  return out


def clauses(tier, seed):
  fns = [PE + n for n in ('PrimitiveEquations.explicit_terms', 'PrimitiveEquations.implicit_terms', 'PrimitiveEquations.curl_and_div_tendencies',
                          'PrimitiveEquations.kinetic_energy_tendency', 'PrimitiveEquations.orography_tendency', 'PrimitiveEquations.horizontal_scalar_advection',
                          'PrimitiveEquations.nodal_temperature_vertical_tendency', 'PrimitiveEquations.nodal_temperature_adiabatic_tendency',
                          'PrimitiveEquations._t_omega_over_sigma_sp', 'PrimitiveEquations.nodal_log_pressure_tendency', 'compute_diagnostic_state',
                          'get_geopotential_diff', 'get_temperature_implicit', 'MoistPrimitiveEquations.explicit_terms',
                          'MoistPrimitiveEquations.divergence_tendency_due_to_humidity', 'MoistPrimitiveEquations.vorticity_tendency_due_to_humidity',
                          'MoistPrimitiveEquations.nodal_temperature_adiabatic_tendency')]
  fsw = [SW + 'ShallowWaterEquations.explicit_terms', SW + 'ShallowWaterEquations.implicit_terms', 'dinosaur.shallow_water_states.one_layer',
         'dinosaur.shallow_water_states.multi_layer', 'dinosaur.primitive_equations_states.isothermal_rest_atmosphere']
  from contracts import column_contracts, vertical_matrix_contracts, wind_contracts
  deductive = column_contracts.clauses()['C05'] + column_contracts.clauses()['C05sw'] + wind_contracts.sw_clauses() + wind_contracts.pe_clauses() + vertical_matrix_contracts.clauses(only=('get_sigma_ratios', 'get_geopotential', 'canary'))
  for c in deductive:
    if c.replay is None:
      c.replay = rerun_replay(run_generic_dry)
  return [
      Clause('numeric:dry total tendency == pointwise continuous equations (independent specification)', 'numeric', fns, run_generic_dry,
             replay=rerun_replay(run_generic_dry), group='jax-a', heavy=True),
      Clause('numeric:moist total tendency == pointwise continuous equations with virtual temperature (independent specification)', 'numeric', fns,
             run_generic_moist, replay=rerun_replay(run_generic_moist), group='jax-b', heavy=True),
      Clause('numeric:balanced primitive-equation states are steady (rest over orography, solid-body rotation, humidity)', 'numeric', fns + fsw[-1:],
             run_balanced_primitive, replay=rerun_replay(run_balanced_primitive), group='jax-c', heavy=True),
      Clause('numeric:balanced layered shallow-water jets are steady (analytic balance and repository constructors)', 'numeric', fsw,
             run_balanced_shallow_water, replay=rerun_replay(run_balanced_shallow_water), group='jax-d', heavy=True),
  ] + deductive


MANIFEST = {
    'engine': 'pyvc+rtc',
    'technique': ('contract-based deductive for the vertical discretisation: sigma_dot (explicit / full), the omega/p term (Durran 8.124), the log-pressure tendency, the sigma ratios and '
                  'the geopotential matrix (dense and cumulative-sum forms) proved equal to the documented finite differences for every number of layers from the real source; the shallow-water explicit '
                  'and the primitive-equation explicit tendencies (given the diagnostic state) proved equal to their documented operator expressions, the shallow-water ones to the vorticity-divergence form of the layered equations and the inter-layer coupling to its hydrostatic value (pyvc column / '
                  'matrix mode); for the whole tendency, bounded run-time contracts: post-conditions of explicit_terms + implicit_terms against an independent pointwise specification of the '
                  'continuous equations (analytic horizontal derivatives, documented vertical differences) and against analytically balanced state families; '
                  'the relation of the horizontal part to the continuous equations stays bounded (floats vs a PDE)'),
    'text': ('other, bounded: sampled alias-free states (degree <= 2 fields, three amplitudes), enumerated level sets, both transform implementations, dry and moist, '
             'dense/sparse vertical products; balanced families over enumerated parameters. Only the vertical-discretisation clauses (smt) are counted as proved.'),
    'note': 'trusted: props/spec_pe.py as the statement of the equations; A2; column mode and the callee contracts listed in contracts/column_contracts.py (C13, C07, C01/C02).',
}
